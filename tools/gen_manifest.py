#!/usr/bin/env python3
"""Regenerates /verif/MANIFEST.json from the table below (single source of truth for the interface)."""
import json
import sys
from pathlib import Path

V = Path(__file__).resolve().parent.parent
props = [json.loads(l) for l in open(V / "properties.jsonl")]

COMMON_NOTE = ("bounded universe / instance families as stated in the evidence file; TLC 1.8.0 and the TLA+ "
               "specification are trusted; torch (autograd, linear algebra, solvers) is environment, its model is "
               "cross-checked by twin runs and a model/torch disagreement is a machinery failure (exit 2), never a verdict")

CLAIMED = {
 "C01": dict(mods="Backward.tla, Programs.tla, Autograd.tla, IntMat.tla, TraceBackward.tla", ref="7 C01",
   text="TLC checks exhaustively, on all programs/calls of the bounded universe, that the stage-by-stage pipeline model "
        "(hidden set orders, chunk plans, key-by-key accumulation) refines the property: every input receives its own slice "
        "of Agg(TrueJac), TrueJac defined by forward mode. Scenarios exported by TLC (content-hash sample in quick, one "
        "third in thorough) are replayed into the real backward with exact equality in float32/float64 over assorted shapes "
        "and argument presentations, with every aggregator via the matrix/own-slice split; random larger programs are "
        "recorded and validated by TLC (TraceBackward). Presentations: inputs as list/tuple/iterator/generator/dict view, tensors also as the list of their scalars, several torch realisations per abstract op; float64 precision runs (values not representable in float32) against a torch.autograd.grad twin; the recording aggregator carries a forward hook (aggregator(J) = Module.__call__); the implementation-shaped layer is bound to the code by stage traces (TraceBackwardImpl, DRIFT only). Call mode \"leafout\" of Backward.tla admits leaves requiring grad among `tensors` (explored in a run of its own); leaves and pre-existing .grad are also presented with reversed strides; a seeded fraction of the scenarios is called twice on the retained graph (expectation grad0 + 2 update) and/or with positional arguments; differentiated tensors are also presented as dense non-row-major views."),
 "C02": dict(mods="MtlBackward.tla (instantiates Backward.tla), TraceMtlBackward.tla", ref="7 C02",
   text="TLC checks (exhaustive small universe of trunks x head templates x parameter-list modes, plus simulation of a "
        "larger one) that per-task Grad/Accumulate, Stack and the instantiated Jac/Aggregate/Accumulate actions refine the "
        "property stated by forward mode with the features cut out as independent variables; exported scenarios are replayed "
        "into the real mtl_backward with exact equality; random trunk/head programs (up to 5 tasks) are recorded and validated by TLC; float64 precision runs, forward-hook semantics and stage traces (TraceMtlImpl, DRIFT only) as in C01; memory layouts, repeated calls on the retained graph and positional arguments as in C01."),
 "C05": dict(mods="Backward.tla (TwinAutograd, RevEqualsFwd), MtlBackward.tla (TwinAutograd)", ref="7 C05",
   text="TLC checks on every program/call that the slice of w^T TrueJac equals the adjoint of one reverse sweep with "
        "cotangent w (specification-level statement of Constant(w) = torch.autograd.backward) and reverse = forward mode; "
        "each exported scenario is executed by torchjd (Constant with negative/zero weights, Sum, Mean) and by "
        "torch.autograd.backward on an identically built twin graph, .grad compared by equality (Mean: against the exact "
        "rational from TLC's integer Jacobian); float64 precision runs and vmap-hostile programs (where differentiation is sequential by contract) are compared with the twin as well. One Sum() / Mean() object serves the float64 and float32 calls of a case; repeated calls on the retained graph are compared with as many passes over the twin."),
 "C06": dict(mods="Accumulation.tla, FixedProg.tla, TraceAccumulation.tla", ref="7 C06",
   text="TLC explores every history of length <= 3 (4 thorough) over 9 backward/mtl_backward calls (incl. a frozen trunk and task parameters listed by a task whose loss does not depend on them) and the user's .grad "
        "manipulations (in-place zero, None, in-place edit, replacement) x 3 initial contents and checks: values never "
        "change, only requested leaves change, in place iff a .grad exists else fresh memory, live memories pairwise "
        "distinct, k identical calls = k times the update. Every full-length history is replayed step by step on the real "
        "code (values by equality, storage pointers and object identity for the memory discipline); random histories of "
        "length 12 are validated by TLC (TraceAccumulation). A fresh .grad must not recycle any gradient tensor seen before; mixed-precision histories; whole training loops (TrainLoop.tla: forward, (mtl_)backward, SGD(lr=1) step, zero_grad in both modes) are computed exactly by the specification and compared with a real torch.optim.SGD loop."),
 "C07": dict(mods="JacChunks.tla, TraceJacChunks.tla", ref="7 C07",
   text="TLC checks the chunk plan (count = ceil(m/k), sizes <= k, no vmap when sequential, rows assembled in order, "
        "refinement of the property layer, termination) for every (m,k,retain), m <= 12 (24 thorough); every such triple is "
        "executed on the real backward and mtl_backward; the sweeps observed by an in-graph probe are validated by TLC "
        "against the property layer; values compared with TLC's expectation by equality; a vmap-hostile op must "
        "differentiate in sequential mode. The differentiation requests of the repository's own autojac/doc tests are harvested by a pytest plugin and validated by TLC; mixed-precision and null-task variants; the counting clause for unbounded m and k is discharged as an inductive invariant by Apalache (reported in the evidence). A sparse family of larger row counts (LargeM: 33..100, up to 200 thorough) with a ladder of chunk sizes around 1, 32, 64 and m is model-checked and replayed as well."),
 "C12": dict(mods="LeafWalk.tla (PlusCal), TraceLeafWalk.tla", ref="7 C12",
   text="TLC checks a PlusCal transcription of the leaf walk against the declarative definition (AccumulateGrad nodes "
        "reachable avoiding excluded; tensor-level 'leaves that matter') on all programs with <= 4 tensors (5 thorough), "
        "every call, every deque order, with termination; each (program, call) is replayed as defaulted vs explicit call on "
        "the real torchjd (rejected iff the model says the default sets overlap, else identical .grad); logged real autograd "
        "graphs of random larger programs are validated by TLC with the same actions. Every program is explored under every admissible assignment of float64 / float32 / complex128 / complex64 to its user tensors (parameters aggregated together share one element type), .grad compared exactly. Deep graphs (24 and 60 stacked diamonds): the defaulted call must return (LeafWalk!BoundedWork, WalkEnds) and equal the explicit one."),
 "C13": dict(mods="GraphLife.tla (instantiates JacChunks.tla), TraceGraphLife.tla", ref="7 C13",
   text="TLC checks on a family of graph skeletons that torchjd's sweep sequences refine a single torch.autograd sweep "
        "w.r.t. per-node freed state for all histories of <= 3 calls (no self-inflicted failure, frees exactly what the "
        "twin frees, retain_graph=True frees nothing); histories are executed on torchjd and on a torch-only twin graph with "
        "per-node probes after every call; random mtl-shaped graphs with 3-call histories are validated by TLC. The shape family includes parameter-free heads in any position (StripHeads) and heads with parameter-only branches that save tensors (ParamOnlyBranchesFreed). Value and argument presentations: leaves of the last / of every head holding the value zero (exactly-zero gradients), arguments passed positionally in the documented order."),
 "C20": dict(mods="Rejection.tla, FixedProg.tla, TraceRejection.tla", ref="7 C20",
   text="TLC enumerates every (valid base call, fault kind, position of the fault, pre-existing grads) on the fixed program "
        "and checks that the code's sequence of checks and writes never writes before a check that can still reject "
        "(NothingChanged, ChecksBeforeWrites); every scenario is executed on the real backward/mtl_backward and, if it "
        "raises, every .grad must be unchanged (value, object, memory); random programs with randomly injected faults are "
        "recorded and validated by TLC (TraceRejection). The frozen leaf may carry a stale .grad (trained, then requires_grad_(False)): it is tracked too and must be left alone. One-element losses of shape (1,) / (1,1) are non-scalar; a call that carries an enumerated fault and is carried out all the same is a violation too (FaultyIsRejected); aggregators one row short and Jacobians with a non-finite entry next to finite ones are among the faults."),
}

EXTRA = V / "tools" / "manifest_extra.json"      # entries contributed for the other properties
if EXTRA.exists():
    CLAIMED.update(json.load(open(EXTRA)))

man = {
 "version": 1,
 "setup_cmd": "bin/setup",
 "hooks": {"guard": "TORCHJD_VERIF_TRACE",
           "enable": "no source hook is needed: every observation is made by harness-side interposition at the torch / "
                     "torchjd API boundary (harness/autojac_obs.py: probe ops, torch.autograd.grad wrapper, recording "
                     "aggregator, forced RNG draws); /repo carries no instrumentation, only 'fix:' commits",
           "baseline_off_cmd": "cd /repo && /venv/bin/python -m pytest -ra -q -p no:cacheprovider --timeout=900 "
                               "--continue-on-collection-errors",
           "source_commits": [], "add_only": True},
 "engines": [{"name": "tlc", "path": "/opt/veriftools/tla/tla2tools.jar", "serves_properties": sorted(CLAIMED),
              "kind_free_text": "TLC 1.8.0 explicit-state model checker on the TLA+/PlusCal specifications in /verif/spec; "
                                "Python harness (/venv) replays TLC scenarios into torchjd and feeds recorded traces to TLC"}],
 "checks": [],
 "notes": "See DESIGN.md. Each check = (a) TLC model check of an explicit TLA+ specification, (b) replay of TLC-exported "
          "scenarios with spec-computed expectations into the real torchjd, (c) TLC validation of traces recorded from "
          "the real torchjd. Exit 0 held / 1 VIOLATION / 2 machinery failure.",
 "not_applicable": [],
}
for p in props:
    pid = p["id"]
    if pid in CLAIMED:
        c = CLAIMED[pid]
        man["checks"].append({
            "property_id": pid, "quick_cmd": f"bin/check {pid} quick", "thorough_cmd": f"bin/check {pid} thorough",
            "evidence_file": f"/verif/evidence/{pid}.json", "replay_cmd_template": f"bin/check {pid} --replay {{path}}",
            "engine": "tlc",
            "level_claimed": {"category": c.get("category", "model_checking"), "text": c["text"], "design_ref": c["ref"]},
            "level_note": c.get("note", COMMON_NOTE),
            "technique": f"explicit TLA+ specification ({c['mods']}) model-checked with TLC; TLC-generated scenarios replayed "
                         f"into the code; recorded traces validated by TLC"})
    else:
        man["not_applicable"].append({"property_id": pid,
            "reason": "check not built yet in this round (planned, DESIGN.md section 7); not a statement about the technique"})
json.dump(man, open(V / "MANIFEST.json", "w"), indent=1)
print("claimed:", sorted(CLAIMED), "not yet:", [x["property_id"] for x in man["not_applicable"]])
