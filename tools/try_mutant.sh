#!/bin/sh
# usage: tools/try_mutant.sh <patch.diff> <tier> <property-id>...
# Applies a seeded change to /repo, runs the given checks, and ALWAYS restores /repo.
PATCH="$1"; TIER="$2"; shift 2
cd /repo || exit 2
if ! git diff --quiet; then echo "/repo is dirty, refusing"; exit 2; fi
git apply "$PATCH" || { echo "patch does not apply"; exit 2; }
trap 'git -C /repo checkout -- . ; git -C /repo clean -fdq src' EXIT INT TERM
for id in "$@"; do
  /verif/bin/check "$id" "$TIER" > /tmp/try_mutant_$id.log 2>&1
  rc=$?
  echo "== $id rc=$rc $(grep -c '^VIOLATION' /tmp/try_mutant_$id.log) violation lines; $(grep -E '^\[C|MACHINERY' /tmp/try_mutant_$id.log | tail -1)"
  grep -A1 '^VIOLATION' /tmp/try_mutant_$id.log | grep what | head -2
done
