#!/usr/bin/env python3
"""Confirms seeded changes (patch + demonstration) in a scratch worktree of /repo and files them
under /verif/seeded/<id>/.  usage: confirm_seeded.py <srcdir containing Cxx/{A,B}/...> [ids...]
For each: (1) patch applies to /repo HEAD, (2) the whole test-suite passes with the patch,
(3) the demonstration fails with the patch, (4) passes without it."""
import json, os, shutil, subprocess, sys, tempfile
from pathlib import Path

SRC = Path(sys.argv[1]); ONLY = set(a for a in sys.argv[2:] if not a.startswith("--"))
RENAME = {"A": "C", "B": "D"} if "--wave2" in sys.argv else ({"A": "E", "B": "F"} if "--wave3" in sys.argv else ({"A": "G", "B": "H"} if "--wave4" in sys.argv else ({"A": "I", "B": "J"} if "--wave5" in sys.argv else ({"A": "K", "B": "L"} if "--wave6" in sys.argv else ({"A": "M", "B": "N"} if "--wave7" in sys.argv else {"A": "A", "B": "B"})))))
OUT = Path("/verif/seeded")
wt = Path(tempfile.mkdtemp(prefix="confirm_wt_")) / "wt"
subprocess.run(["git", "-C", "/repo", "worktree", "add", "-q", "--detach", str(wt), "HEAD"], check=True)
env = dict(os.environ, PYTHONPATH=str(wt / "src"), PYTHONDONTWRITEBYTECODE="1")
def sh(cmd, **kw):
    return subprocess.run(cmd, shell=True, cwd=wt, env=env, capture_output=True, text=True, **kw)
try:
    for pd in sorted(SRC.glob("C*/[AB]")):
        sid = pd.parent.name + RENAME[pd.name]
        if ONLY and sid not in ONLY and pd.parent.name not in ONLY:
            continue
        if not (pd / "patch.diff").exists() or not (pd / "demo.py").exists():
            print(sid, "incomplete"); continue
        sh("git checkout -q -- . && git clean -fdq")
        r = sh(f"git apply --check {pd/'patch.diff'}")
        if r.returncode:
            print(sid, "PATCH DOES NOT APPLY", r.stderr[:200]); continue
        clean = sh(f"/venv/bin/python {pd/'demo.py'}", timeout=600)
        sh(f"git apply {pd/'patch.diff'}")
        suite = sh("/venv/bin/python -m pytest -q -p no:cacheprovider -n 4 -x 2>&1 | tail -1", timeout=1800)
        mut = sh(f"/venv/bin/python {pd/'demo.py'}", timeout=600)
        sh("git checkout -q -- . && git clean -fdq")
        ok = ("passed" in suite.stdout and "failed" not in suite.stdout and clean.returncode == 0 and mut.returncode != 0)
        meta = json.load(open(pd / "meta.json")) if (pd / "meta.json").exists() else {}
        meta.update({"id": sid, "property": pd.parent.name, "confirmed": ok,
                     "confirmation": {"suite_with_change": suite.stdout.strip()[-120:], "demo_exit_unchanged": clean.returncode,
                                      "demo_exit_with_change": mut.returncode,
                                      "how": "scratch git worktree of /repo HEAD; git apply; full pytest suite -n 4; demo.py with PYTHONPATH=<worktree>/src"}})
        print(sid, "CONFIRMED" if ok else "NOT CONFIRMED", suite.stdout.strip()[-60:], clean.returncode, mut.returncode, flush=True)
        if ok:
            d = OUT / sid
            d.mkdir(parents=True, exist_ok=True)
            shutil.copy(pd / "patch.diff", d / "patch.diff"); shutil.copy(pd / "demo.py", d / "demo.py")
            json.dump(meta, open(d / "meta.json", "w"), indent=1)
finally:
    subprocess.run(["git", "-C", "/repo", "worktree", "remove", "--force", str(wt)])
    shutil.rmtree(wt.parent, ignore_errors=True)
