#!/usr/bin/env python3
"""Re-inserts tools/design_sec0.md (+ the generated seeded-changes table) into DESIGN.md between markers."""
from pathlib import Path
V = Path(__file__).resolve().parent.parent
d = (V / "DESIGN.md").read_text()
sec = (V / "tools" / "design_sec0.md").read_text()
tab = V / "tools" / "design_sec0_seeded.md"
if tab.exists():
    sec += "\n" + tab.read_text()
B, E = "<!-- SEC0 BEGIN -->\n", "<!-- SEC0 END -->\n"
block = B + sec + "\n" + E
if B in d:
    i, j = d.index(B), d.index(E) + len(E)
    d = d[:i] + block + d[j:]
else:
    k = d.index("---------------------------------------------------------------------------------------------------\n\n## 1. What is being verified")
    d = d[:k] + "---------------------------------------------------------------------------------------------------\n\n" + block + "\n" + d[k:]
(V / "DESIGN.md").write_text(d)
print("ok")
