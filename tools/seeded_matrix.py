#!/usr/bin/env python3
"""Runs checks against the seeded changes in /verif/seeded WITHOUT touching /repo (scratch copy of
/repo/src + VERIF_REPO_SRC) and records the outcome in seeded/RESULTS.json.
usage: seeded_matrix.py [--also Cxx,Cyy] [seeded ids or property ids ...]   (default: all, own property's check)"""
import json, os, re, shutil, subprocess, sys, tempfile, time
from pathlib import Path
V = Path("/verif"); S = V / "seeded"
args = sys.argv[1:]
also = []
if args and args[0] == "--also":
    also = args[1].split(","); args = args[2:]
res_path = Path(os.environ.get("SEEDED_RESULTS", str(S / "RESULTS.json")))
results = json.load(open(res_path)) if res_path.exists() else {}
claimed = {c["property_id"] for c in json.load(open(V / "MANIFEST.json"))["checks"]}
for d in sorted(p for p in S.iterdir() if p.is_dir() and (p / "meta.json").exists()):
    sid = d.name; prop = sid[:3]
    if args and sid not in args and prop not in args:
        continue
    scratch = Path(tempfile.mkdtemp(prefix="mutcopy."))
    try:
        shutil.copytree("/repo/src", scratch / "repo" / "src")
        p = subprocess.run(["patch", "-p1", "-s", "-i", str(d / "patch.diff")], cwd=scratch / "repo", capture_output=True, text=True)
        if p.returncode:
            print(sid, "patch does not apply", p.stderr[:200]); continue
        for chk in [prop] + also:
            if chk not in claimed:
                print(sid, chk, "not claimed yet"); continue
            for tier in os.environ.get("SEEDED_TIERS", "quick,thorough").split(","):
                t0 = time.time()
                env = dict(os.environ, VERIF_REPO_SRC=str(scratch / "repo" / "src"), VERIF_OUT_DIR=str(scratch / "out"))
                r = subprocess.run([str(V / "bin" / "check"), chk, tier], env=env, capture_output=True, text=True, timeout=7200)
                nviol = len(re.findall(r"^VIOLATION", r.stdout, re.M))
                first = re.search(r"^  what: (.*)$", r.stdout, re.M)
                results.setdefault(sid, {})[f"{chk}:{tier}"] = {"rc": r.returncode, "violation_lines": nviol,
                    "first": (first.group(1)[:300] if first else ""), "wall_s": round(time.time() - t0, 1)}
                print(sid, chk, tier, "rc", r.returncode, nviol, flush=True)
                json.dump(results, open(res_path, "w"), indent=1, sort_keys=True)
                if r.returncode == 1:
                    break
    finally:
        shutil.rmtree(scratch, ignore_errors=True)
