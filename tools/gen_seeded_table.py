#!/usr/bin/env python3
"""Generates tools/design_sec0_seeded.md (DESIGN section 0.6) from seeded/*/meta.json and seeded/RESULTS.json."""
import json
from pathlib import Path
V = Path("/verif"); S = V / "seeded"
res = json.load(open(S / "RESULTS.json")) if (S / "RESULTS.json").exists() else {}
rows = []
for d in sorted(p for p in S.iterdir() if p.is_dir() and (p / "meta.json").exists()):
    meta = json.load(open(d / "meta.json"))
    r = res.get(d.name, {})
    caught = []
    missed = []
    for key, v in sorted(r.items()):
        chk, tier = key.split(":")
        if v["rc"] == 1:
            caught.append(f"{chk} {tier}")
        elif v["rc"] == 0:
            missed.append(f"{chk} {tier}")
        else:
            missed.append(f"{chk} {tier} (rc {v['rc']})")
    # a check that caught it in quick is not listed as missed in thorough etc.
    summ = (meta.get("summary", "") or "").replace("\n", " ").replace("|", "/")
    summ = summ[:230] + ("..." if len(summ) > 230 else "")
    rows.append((d.name, meta.get("property", d.name[:3]), summ, ", ".join(caught) or "-", ", ".join(m for m in missed) or "-"))
out = ["### 0.7 Seeded changes and the checks that catch them",
       "",
       f"{len(rows)} changes to TorchJD were produced by independent sub-agents (seven waves of up to two per property; each agent saw",
       "only the text of one property and its own scratch worktree of /repo, nothing from /verif), each with a",
       "demonstration program.  Every one was confirmed in a scratch worktree (`tools/confirm_seeded.py`: the patch applies",
       "to /repo HEAD, the whole unedited test-suite passes with it, the demonstration fails with it and passes without it)",
       "and filed under `seeded/<id>/` (`patch.diff`, `demo.py`, `meta.json`; suffixes A,B = first wave, C,D = second, E,F = third, G,H = fourth, I,J = fifth, K,L = sixth, M = seventh).",
       "`tools/seeded_matrix.py` runs the check of the change's own property (quick, then thorough if quick is silent; some",
       "neighbouring checks too) against a scratch copy of the sources with the change applied - /repo itself is never",
       "touched.  Results (`seeded/RESULTS.json`):",
       "",
       "| id | what was changed | caught by | silent |",
       "|---|---|---|---|"]
for sid, prop, summ, c, m in rows:
    out.append(f"| {sid} | {summ} | {c} | {m} |")
ncaught = sum(1 for r in rows if r[3] != "-")
own_miss = [r[0] for r in rows if not any(c.startswith(r[0][:3] + " ") for c in r[3].split(", "))]
out += ["", f"{ncaught} of {len(rows)} seeded changes are caught by at least one check; {len(rows) - len(own_miss)} by the check of the property their "
            f"author was given, in the quick tier.  The others: " + ", ".join(own_miss) + " - C02I, C06I, C06K and C06M leave valid calls "
            "unchanged and break C20 (a rejected call writes .grad first, or an enumerated fault is no longer refused): they are caught by "
            "C20; C03J moves the boundary `s < norm_eps` to `<=` and only matrices whose largest singular value is bitwise equal to "
            "`norm_eps` behave differently (0.6, deliberately not claimed)."]
(V / "tools" / "design_sec0_seeded.md").write_text("\n".join(out) + "\n")
print(ncaught, len(rows))
