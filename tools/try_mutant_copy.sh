#!/bin/sh
# usage: tools/try_mutant_copy.sh <patch.diff> <tier> <property-id>...
# Like try_mutant.sh but never touches /repo: the patch is applied to a scratch copy of /repo/src
# (removed afterwards) and the checks are pointed at it with VERIF_REPO_SRC; evidence and replay
# files go to a scratch directory as well.  Safe to run concurrently.
PATCH="$1"; TIER="$2"; shift 2
D=$(mktemp -d /tmp/mutcopy.XXXXXX)
trap 'rm -rf "$D"' EXIT INT TERM
mkdir -p "$D/repo" && cp -r /repo/src "$D/repo/src" || exit 2
( cd "$D/repo" && patch -p1 -s < "$PATCH" ) || { echo "patch does not apply"; exit 2; }
for id in "$@"; do
  VERIF_REPO_SRC="$D/repo/src" VERIF_OUT_DIR="$D/out" /verif/bin/check "$id" "$TIER" > "$D/$id.log" 2>&1
  rc=$?
  echo "== $id rc=$rc $(grep -c '^VIOLATION' "$D/$id.log") violation lines; $(grep -E '^\[C|MACHINERY' "$D/$id.log" | tail -1)"
  grep -A1 '^VIOLATION' "$D/$id.log" | grep what | head -3
done
