------------------------------- MODULE PCGrad -------------------------------
(***************************************************************************)
(* PCGrad ("Gradient Surgery", Algorithm 1) on exact integer matrices.     *)
(*                                                                         *)
(* PROPERTY LAYER (C18, PCGrad clause).  For whatever projection orders     *)
(* are drawn, the result is                                                *)
(*       Sum_i  ( row i successively projected off every other row j, in   *)
(*                the order drawn for i, whenever the CURRENT vector        *)
(*                conflicts with row j, i.e. <g_i^PC, g_j> < 0 ),           *)
(* stated on rational VECTORS of the column space (PropOutput).  The set   *)
(* of results over all ((m-1)!)^m order combinations is Candidates(J).      *)
(*                                                                         *)
(* IMPLEMENTATION-SHAPED LAYER.  The PlusCal algorithm below mirrors        *)
(* _PCGradWeighting.forward: it never touches the rows, it works on the    *)
(* integer Gramian G = J J^T and on WEIGHT vectors (exact rationals), one  *)
(* step per iteration of the inner loop.  The permutation of the other     *)
(* rows drawn for row i (torch.randperm) is a nondeterministic choice.     *)
(*                                                                         *)
(* TLC checks, for every matrix of the family and every combination of     *)
(* orders, that the weight-space algorithm computes the vector-space       *)
(* definition after every single projection (StepRefines) and at the end   *)
(* (ResultIsDefinition), that the result is the plain sum when no two rows *)
(* conflict (NoConflictIsSum), and exports every terminal behaviour as a   *)
(* scenario (J, orders, expected weights, expected output).                *)
(***************************************************************************)
EXTENDS Integers, Sequences, FiniteSets, TLC, Json, IOUtils, Rat, IntMat

CONSTANTS Ms,          \* set of row counts of the exhaustive family
          N,           \* number of columns
          E,           \* entries range over -E..E
          UseFile,     \* TRUE: the family is the list of matrices in IOEnv.MATRIX_FILE (m = 4 sample)
          SampleMod, SamplePick     \* export 1 scenario out of SampleMod (content hash); 1,0 = all

Ent        == (0 - E)..E
MatSet(mm) == [1..mm -> [1..N -> Ent]]
FileMats   == LET s == JsonDeserialize(IOEnv.MATRIX_FILE) IN {s[x] : x \in DOMAIN s}
Family     == IF UseFile THEN FileMats ELSE UNION {MatSet(mm) : mm \in Ms}

NCols(JJ)  == Len(JJ[1])

-----------------------------------------------------------------------------
(* Property layer: the published definition, on vectors                    *)

\* v (rational vector) projected off the integer row g if they conflict
ProjectOff(v, g) ==
    LET ip == RDot(v, RVec(g))
    IN  IF RSign(ip) < 0 THEN RVSub(v, RVScale(RDiv(ip, R(IDot(g, g))), RVec(g))) ELSE v

\* successive projections of v off the rows JJ[ord[1]], JJ[ord[2]], ...
RECURSIVE ProjSeq(_, _, _)
ProjSeq(v, JJ, ord) == IF ord = <<>> THEN v
                       ELSE ProjSeq(ProjectOff(v, JJ[Head(ord)]), JJ, Tail(ord))

RECURSIVE RVSumSeq(_, _)
RVSumSeq(s, n) == IF s = <<>> THEN RZeros(n) ELSE RVAdd(Head(s), RVSumSeq(Tail(s), n))

\* ords[i] = the order (sequence over the rows other than i) drawn for row i
PropOutput(JJ, ords) ==
    RVSumSeq([r \in 1..Len(JJ) |-> ProjSeq(RVec(JJ[r]), JJ, ords[r])], NCols(JJ))

RECURSIVE OrderCombos(_, _)
OrderCombos(mm, r) ==      \* all sequences <<ord_r, ..., ord_mm>>
    IF r > mm THEN {<<>>}
    ELSE {<<p>> \o rest : p \in PermSeqs((1..mm) \ {r}), rest \in OrderCombos(mm, r + 1)}

AllOrders(mm)   == OrderCombos(mm, 1)
Candidates(JJ)  == {PropOutput(JJ, ords) : ords \in AllOrders(Len(JJ))}
ColumnSums(JJ)  == [c \in 1..NCols(JJ) |-> R(SumSeq([r \in 1..Len(JJ) |-> JJ[r][c]]))]
NoConflict(GG)  == \A a, b \in 1..Len(GG) : GG[a][b] >= 0

\* the order actually followed for row r when the code draws the permutation `perm` of ALL rows
\* and skips r itself
RECURSIVE Without(_, _)
Without(s, x) == IF s = <<>> THEN <<>>
                 ELSE IF Head(s) = x THEN Without(Tail(s), x) ELSE <<Head(s)>> \o Without(Tail(s), x)

IsPerm(s, mm)  == Len(s) = mm /\ {s[x] : x \in DOMAIN s} = 1..mm

-----------------------------------------------------------------------------
(* Implementation-shaped layer                                             *)

(* --algorithm PCGrad {
  variables J \in Family,
            G = Gram(J),                \* inner_products = matrix @ matrix.T
            m = Len(J),
            i = 1,
            weights = RZeros(m),
            cur = RZeros(m),            \* current_weights
            order = <<>>,               \* what is left of the permutation drawn for row i
            orders = <<>>,              \* history: the orders drawn so far (hidden choices)
            consumed = <<>>,            \* history: the part of orders[i] already visited
            j = 0;
  {
    Rows: while (i <= m) {
        with (p \in PermSeqs((1..m) \ {i})) {          \* torch.randperm, minus i itself
            order := p;
            orders := Append(orders, p);
        };
        consumed := <<>>;
        cur := RUnit(m, i);
      Proj: while (order # <<>>) {
            j := Head(order);
            order := Tail(order);
            consumed := Append(consumed, j);
            with (ip = RDot(RVec(G[j]), cur)) {        \* <g_i^PC, g_j> from the Gramian
                if (RSign(ip) < 0) {
                    cur[j] := RSub(cur[j], RDiv(ip, R(G[j][j])));
                };
            };
        };
        weights := RVAdd(weights, cur);
        i := i + 1;
    };
  }
} *)
\* BEGIN TRANSLATION
VARIABLES pc, J, G, m, i, weights, cur, order, orders, consumed, j

vars == << pc, J, G, m, i, weights, cur, order, orders, consumed, j >>

Init == (* Global variables *)
        /\ J \in Family
        /\ G = Gram(J)
        /\ m = Len(J)
        /\ i = 1
        /\ weights = RZeros(m)
        /\ cur = RZeros(m)
        /\ order = <<>>
        /\ orders = <<>>
        /\ consumed = <<>>
        /\ j = 0
        /\ pc = "Rows"

Rows == /\ pc = "Rows"
        /\ IF i <= m
              THEN /\ \E p \in PermSeqs((1..m) \ {i}):
                        /\ order' = p
                        /\ orders' = Append(orders, p)
                   /\ consumed' = <<>>
                   /\ cur' = RUnit(m, i)
                   /\ pc' = "Proj"
              ELSE /\ pc' = "Done"
                   /\ UNCHANGED << cur, order, orders, consumed >>
        /\ UNCHANGED << J, G, m, i, weights, j >>

Proj == /\ pc = "Proj"
        /\ IF order # <<>>
              THEN /\ j' = Head(order)
                   /\ order' = Tail(order)
                   /\ consumed' = Append(consumed, j')
                   /\ LET ip == RDot(RVec(G[j']), cur) IN
                        IF RSign(ip) < 0
                           THEN /\ cur' = [cur EXCEPT ![j'] = RSub(cur[j'], RDiv(ip, R(G[j'][j'])))]
                           ELSE /\ TRUE
                                /\ cur' = cur
                   /\ pc' = "Proj"
                   /\ UNCHANGED << i, weights >>
              ELSE /\ weights' = RVAdd(weights, cur)
                   /\ i' = i + 1
                   /\ pc' = "Rows"
                   /\ UNCHANGED << cur, order, consumed, j >>
        /\ UNCHANGED << J, G, m, orders >>

(* Allow infinite stuttering to prevent deadlock on termination. *)
Terminating == pc = "Done" /\ UNCHANGED vars

Next == Rows \/ Proj
           \/ Terminating

Spec == Init /\ [][Next]_vars

Termination == <>(pc = "Done")

\* END TRANSLATION

-----------------------------------------------------------------------------
(* What TLC checks                                                         *)

FairSpec == Spec /\ WF_vars(Next)
Finished == pc = "Done"
Output   == RVecMat(weights, RMat(J), NCols(J))              \* weights @ matrix

TypeOK == /\ m = Len(J) /\ i \in 1..(m + 1) /\ Len(weights) = m /\ Len(cur) = m
          /\ \A x \in 1..m : IsRat(weights[x]) /\ IsRat(cur[x])
          /\ Len(orders) \in {i - 1, i}

\* after every single projection the weight-space vector IS the vector-space definition applied
\* to the part of the order visited so far
StepRefines ==
    (pc = "Proj") => RVecMat(cur, RMat(J), NCols(J)) = ProjSeq(RVec(J[i]), J, consumed)

\* C18: the result is Sum_i (row i successively projected off each row it currently conflicts with)
ResultIsDefinition == Finished => Output = PropOutput(J, orders)

\* C18: the plain sum when no two rows conflict, whatever the orders
NoConflictIsSum == (Finished /\ NoConflict(G)) => Output = ColumnSums(J)

\* every weight is at least 1 (own row with weight 1, others only ever added positively)
WeightsAtLeastOne == Finished => \A x \in 1..m : RGe(weights[x], ROne)

\* two rows: the order is irrelevant (only one exists) and the result is the known closed form
TwoRowsClosedForm ==
    (Finished /\ m = 2 /\ G[1][2] < 0) =>
        weights = << RSub(ROne, Frac(G[1][2], G[1][1])), RSub(ROne, Frac(G[1][2], G[2][2])) >>

-----------------------------------------------------------------------------
(* Scenario export                                                         *)

MaxDenV(v)  == LET F[x \in 0..Len(v)] == IF x = 0 THEN 1 ELSE IF v[x][2] > F[x - 1] THEN v[x][2] ELSE F[x - 1]
               IN  F[Len(v)]
ScnHash     == LET F[x \in 0..m] == IF x = 0 THEN 0 ELSE (F[x - 1] * 7 + SumSeq(VMul(J[x], [c \in 1..NCols(J) |-> c + x])) + 1000) % 9973
                   H[x \in 0..m] == IF x = 0 THEN 0 ELSE (H[x - 1] * 5 + (IF orders[x] = <<>> THEN 0 ELSE orders[x][1])) % 9973
               IN  F[m] + H[m]
Scenario    == [J |-> J, orders |-> orders, w |-> weights, out |-> Output,
                den |-> IF MaxDenV(weights) > MaxDenV(Output) THEN MaxDenV(weights) ELSE MaxDenV(Output),
                conflict |-> ~NoConflict(G)]
Export      == (Finished /\ (ScnHash % SampleMod) = SamplePick) => PrintT(<<"SCN", ToJson(Scenario)>>)
=============================================================================
