CONSTANT MaxLen = 100000
SPECIFICATION TraceSpec
INVARIANT TraceConsumed
INVARIANT Distinct
INVARIANT NoneIffNoStore
CHECK_DEADLOCK FALSE
