------------------------------ MODULE RandomW ------------------------------
(***************************************************************************)
(* Random (Algorithm 2 of "Reasonable Effectiveness of Random Weighting"): *)
(* softmax of a Gaussian vector.  The weights have no value the            *)
(* specification could predict (DESIGN 8); the published definition is the *)
(* PREDICATE "a strictly positive convex combination of the rows", which   *)
(* this module states and evaluates on the discrete observations the       *)
(* harness logs for every real call (one episode per seed):                *)
(*   m        number of rows                                               *)
(*   pos[i]   weight i > 0 (strictly, as a float)                          *)
(*   ulps     |sum(weights) - 1| in units of the machine epsilon, rounded  *)
(*            up (capped)                                                  *)
(*   comb     the returned vector equals weights @ matrix exactly          *)
(*   fresh    the weights differ from those of the previous seed (m >= 2)  *)
(* Accept iff all weights are positive, the sum is 1 within 4 m eps (one   *)
(* rounding per exp / add / divide of the softmax), and the output is that *)
(* combination.  `fresh` is reported, not required (two seeds may agree).  *)
(***************************************************************************)
EXTENDS Integers, Sequences, FiniteSets, TLC, Json, IOUtils, TLCExt

Episodes == JsonDeserialize(IOEnv.TRACE_FILE)
NEp      == Len(Episodes)

StrictlyPositive(e) == Len(e.pos) = e.m /\ \A x \in 1..Len(e.pos) : e.pos[x]
SumsToOne(e)        == e.ulps <= 4 * e.m
IsCombination(e)    == e.comb
Failing(e) == IF ~StrictlyPositive(e) THEN "a_weight_is_not_strictly_positive"
              ELSE IF ~SumsToOne(e) THEN "weights_do_not_sum_to_one"
              ELSE IF ~IsCombination(e) THEN "output_is_not_the_weighted_combination_of_the_rows"
              ELSE "none"

VARIABLES ep, stage, nAcc, nRej, nFresh
vars == <<ep, stage, nAcc, nRej, nFresh>>

Init == ep = 1 /\ stage = "run" /\ nAcc = 0 /\ nRej = 0 /\ nFresh = 0

Check == /\ ep <= NEp /\ stage = "run"
         /\ LET e == Episodes[ep]  f == Failing(e) IN
               /\ IF f = "none" THEN nAcc' = nAcc + 1 /\ nRej' = nRej
                  ELSE /\ PrintT(<<"REJECT", ToJson([ep |-> e.ep, clause |-> f])>>)
                       /\ nRej' = nRej + 1 /\ nAcc' = nAcc
               /\ nFresh' = nFresh + (IF e.fresh THEN 1 ELSE 0)
         /\ ep' = ep + 1 /\ UNCHANGED stage

Finish == /\ ep = NEp + 1 /\ stage = "run"
          /\ PrintT(<<"SUMMARY", ToJson([episodes |-> NEp, accepted |-> nAcc, rejected |-> nRej,
                                          fresh |-> nFresh])>>)
          /\ stage' = "end" /\ UNCHANGED <<ep, nAcc, nRej, nFresh>>

Next == Check \/ Finish
Spec == Init /\ [][Next]_vars
Consumed == (stage = "end") => (nAcc + nRej = NEp)
=============================================================================
