------------------------------ MODULE EpsScale ------------------------------
(***************************************************************************)
(* BADLY SCALED instances, exactly (shared by DualCone: C04 and by         *)
(* CAGradSym: C18).                                                        *)
(*                                                                         *)
(* An instance is  J = D_r J0 D_c  with J0 a small INTEGER matrix and      *)
(* D_r = diag(eps^rho_i), D_c = diag(eps^gam_j) row / column scalings by   *)
(* powers of ONE small parameter eps = 2^-P (rho_i, gam_j in 0..1).  The   *)
(* exponents are CARRIED SYMBOLICALLY: every quantity the checks need      *)
(* (Gramian, trace, mean row, squared distance of the convex hull of the   *)
(* rows to the origin, Sylvester bracket of sigma_max^2) is a polynomial   *)
(* in eps with small integer coefficients, so nothing overflows TLC's      *)
(* 32-bit integers although the entries of J span 2^-2P .. 1 (singular     *)
(* values 2^P .. 4^P apart; P = 7 is already "more than 100x").            *)
(*                                                                         *)
(* eps-polynomial: a sequence p of integers without trailing zeros,        *)
(* p[k+1] the coefficient of eps^k; <<>> is 0.                             *)
(*                                                                         *)
(* SIGN RULE.  Let k0 be the lowest exponent with a non-zero coefficient   *)
(* and M the largest |coefficient| above k0.  For eps = 2^-P,              *)
(*    |sum_{k>k0} a_k eps^k| <= M eps^k0 eps/(1-eps) = M eps^k0 / (2^P-1), *)
(* so  sign p(eps) = sign a_k0  whenever  M < |a_k0| (2^P - 1); PGuard(p)  *)
(* is the ceiling of M / |a_k0|.  Every decision                           *)
(* below is made with this rule; the analysis returns `needP`, the least   *)
(* P for which all the decisions it relied upon are valid.  The decisions  *)
(* (optimal support of the min-norm problem, stationarity, bracket of      *)
(* sigma_max^2) then hold for EVERY P >= needP at once, and the harness    *)
(* instantiates P (several values) and evaluates the exported polynomials  *)
(* in exact rational arithmetic.                                           *)
(***************************************************************************)
EXTENDS Integers, Sequences, FiniteSets, TLC

EpAbs(x)    == IF x < 0 THEN 0 - x ELSE x
EpSgn(x)    == IF x < 0 THEN 0 - 1 ELSE IF x = 0 THEN 0 ELSE 1
EpMax(a, b) == IF a < b THEN b ELSE a
EpMin(a, b) == IF a < b THEN a ELSE b
RECURSIVE EpMaxSeq(_)
EpMaxSeq(s) == IF s = <<>> THEN 0 ELSE EpMax(Head(s), EpMaxSeq(Tail(s)))

-----------------------------------------------------------------------------
(* polynomial ring Z[eps]                                                   *)

RECURSIVE PTrim(_)
PTrim(p) == IF p = <<>> THEN <<>>
            ELSE IF p[Len(p)] = 0 THEN PTrim(SubSeq(p, 1, Len(p) - 1)) ELSE p
PCoef(p, k)  == IF k + 1 <= Len(p) THEN p[k + 1] ELSE 0
PMono(c, k)  == IF c = 0 THEN <<>> ELSE [i \in 1..(k + 1) |-> IF i = k + 1 THEN c ELSE 0]      \* c eps^k
PConst(c)    == PMono(c, 0)
PNeg(p)      == [k \in 1..Len(p) |-> 0 - p[k]]
PAdd(p, q)   == IF p = <<>> THEN q ELSE IF q = <<>> THEN p
                ELSE PTrim([k \in 1..EpMax(Len(p), Len(q)) |-> PCoef(p, k - 1) + PCoef(q, k - 1)])
PSub(p, q)   == PAdd(p, PNeg(q))
PScale(c, p) == IF c = 0 THEN <<>> ELSE [k \in 1..Len(p) |-> c * p[k]]
\* Z has no zero divisors: the leading coefficient of a product of non-zero polynomials is non-zero
PMul(p, q)   == IF p = <<>> \/ q = <<>> THEN <<>>
                ELSE [k \in 1..(Len(p) + Len(q) - 1) |->
                        LET lo == EpMax(1, k + 1 - Len(q))
                            hi == EpMin(k, Len(p))
                            S[i \in (lo - 1)..hi] == IF i = lo - 1 THEN 0 ELSE S[i - 1] + p[i] * q[k + 1 - i]
                        IN  S[hi]]
RECURSIVE PSumSeq(_)
PSumSeq(s)   == IF s = <<>> THEN <<>> ELSE PAdd(Head(s), PSumSeq(Tail(s)))

PLow(p)      == CHOOSE k \in 1..Len(p) : p[k] # 0 /\ \A j \in 1..(k - 1) : p[j] = 0        \* p # <<>>
PSign(p)     == IF p = <<>> THEN 0 ELSE EpSgn(p[PLow(p)])
\* the sign rule is valid for eps = 2^-P iff  M < |a_k0| (2^P - 1),  which PGuard(p) < 2^P - 1 implies
\* (PGuard = ceiling of M / |a_k0|)
PGuard(p)    == IF p = <<>> THEN 0
                ELSE LET k0 == PLow(p)
                         M  == EpMaxSeq([k \in 1..(Len(p) - k0) |-> EpAbs(p[k0 + k])])
                         a  == EpAbs(p[k0])
                     IN  (M + a - 1) \div a
RECURSIVE EpPow2(_)
EpPow2(k)    == IF k = 0 THEN 1 ELSE 2 * EpPow2(k - 1)
NeedP(g)     == CHOOSE P \in 1..30 : g < EpPow2(P) - 1 /\ \A Q \in 1..(P - 1) : ~(g < EpPow2(Q) - 1)

\* determinant of a square matrix of polynomials (size <= 4), Laplace along the first row
PMinor(M, i, j) == LET n == Len(M) IN
                   [a \in 1..(n - 1) |-> [b \in 1..(n - 1) |->
                       M[IF a < i THEN a ELSE a + 1][IF b < j THEN b ELSE b + 1]]]
RECURSIVE PDet(_)
PDet(M) == IF Len(M) = 0 THEN <<1>>
           ELSE IF Len(M) = 1 THEN M[1][1]
           ELSE IF Len(M) = 2 THEN PSub(PMul(M[1][1], M[2][2]), PMul(M[1][2], M[2][1]))
           ELSE PSumSeq([j \in 1..Len(M) |->
                          IF M[1][j] = <<>> THEN <<>>
                          ELSE PMul(IF j % 2 = 1 THEN M[1][j] ELSE PNeg(M[1][j]), PDet(PMinor(M, 1, j)))])
PReplaceCol(A, j, b) == [r \in 1..Len(A) |-> [c \in 1..Len(A) |-> IF c = j THEN b[r] ELSE A[r][c]]]
PLeading(M, n)       == [a \in 1..n |-> [b \in 1..n |-> M[a][b]]]
\* symmetric matrix of polynomials positive definite at eps (Sylvester, sign rule)
PPosDef(M)           == \A n \in 1..Len(M) : PSign(PDet(PLeading(M, n))) > 0
PPosDefGuard(M)      == EpMaxSeq([n \in 1..Len(M) |-> PGuard(PDet(PLeading(M, n)))])

-----------------------------------------------------------------------------
(* a scaled instance  inst = [J0, rho, gam]:  J[i][j] = J0[i][j] eps^(rho[i] + gam[j])  *)

EsRows(inst) == 1..Len(inst.J0)
EsCols(inst) == 1..Len(inst.J0[1])
\* Gramian  G[i][k] = sum_j J0[i][j] J0[k][j] eps^(rho_i + rho_k + 2 gam_j)
EsGram(inst) ==
    [i \in EsRows(inst) |-> [k \in EsRows(inst) |->
        PSumSeq([j \in EsCols(inst) |-> PMono(inst.J0[i][j] * inst.J0[k][j], inst.rho[i] + inst.rho[k] + 2 * inst.gam[j])])]]
\* column sums:  the mean row is  EsColSums[j] / m
EsColSums(inst) ==
    [j \in EsCols(inst) |-> PSumSeq([i \in EsRows(inst) |-> PMono(inst.J0[i][j], inst.rho[i] + inst.gam[j])])]
EsTotal(G)  == PSumSeq([i \in 1..Len(G) |-> PSumSeq(G[i])])          \* 1^T G 1 = m^2 |g0|^2
EsTrace(G)  == PSumSeq([i \in 1..Len(G) |-> G[i][i]])
EsRowSum(G, i) == PSumSeq(G[i])

\* increasing sequence of a finite set of integers
RECURSIVE EsSorted(_)
EsSorted(S) == IF S = {} THEN <<>>
               ELSE LET x == CHOOSE y \in S : \A z \in S : y <= z IN <<x>> \o EsSorted(S \ {x})
EsPos(S, i) == Cardinality({j \in S : j <= i})

(***************************************************************************)
(* Minimum-norm point of the convex hull of the rows: min a^T G a on the   *)
(* simplex.  For a support S the stationary point solves the bordered      *)
(* system [G_SS 1; 1^T 0][a_S; -mu] = [0; 1] (Cramer, polynomial entries): *)
(* a_S = N_S / D, mu = Mu / D with D = |det B| > 0; it is THE optimum iff  *)
(* N_S >= 0 and (G N)_i >= Mu for every row i (KKT, sufficient as the      *)
(* problem is convex).  `gd` is the guard of the decisions made.           *)
(***************************************************************************)
EsBordered(G, S) == LET f == EsSorted(S)
                        k == Len(f)
                    IN  [a \in 1..(k + 1) |-> [b \in 1..(k + 1) |->
                           IF a <= k /\ b <= k THEN G[f[a]][f[b]]
                           ELSE IF a = k + 1 /\ b = k + 1 THEN <<>> ELSE <<1>>]]
EsSupport(G, S) ==
    LET m   == Len(G)
        k   == Cardinality(S)
        B   == TLCEval(EsBordered(G, S))
        d0  == TLCEval(PDet(B))
        sg  == PSign(d0)
        rhs == [a \in 1..(k + 1) |-> IF a = k + 1 THEN <<1>> ELSE <<>>]
        N   == TLCEval([i \in 1..m |-> IF i \in S THEN PScale(sg, PDet(PReplaceCol(B, EsPos(S, i), rhs))) ELSE <<>>])
        Mu  == TLCEval(PScale(0 - sg, PDet(PReplaceCol(B, k + 1, rhs))))
        sl  == TLCEval([i \in 1..m |-> PSub(PSumSeq([j \in 1..m |-> PMul(G[i][j], N[j])]), Mu)])     \* (G N)_i - Mu
    IN  IF sg = 0 THEN [ok |-> FALSE, S |-> S, N |-> <<>>, D |-> <<>>, Mu |-> <<>>, gd |-> 0]
        ELSE [ok |-> (\A i \in S : PSign(N[i]) >= 0) /\ (\A i \in 1..m : PSign(sl[i]) >= 0),
              S  |-> S, N |-> N, D |-> PScale(sg, d0), Mu |-> Mu,
              gd |-> EpMax(EpMax(PGuard(d0), PGuard(Mu)),
                           EpMax(EpMaxSeq([i \in 1..m |-> PGuard(N[i])]), EpMaxSeq([i \in 1..m |-> PGuard(sl[i])])))]

EsCands(G)   == {c \in {EsSupport(G, S) : S \in (SUBSET (1..Len(G))) \ {{}}} : c.ok}
\* the certificate with the weakest requirement on P
EsMinNorm(G) == LET C == EsCands(G) IN CHOOSE c \in C : \A x \in C : c.gd <= x.gd
\* all certificates give the same value Mu / D (identity of polynomials, valid for every eps)
EsWellDefined(G) == LET C == EsCands(G) IN
                    C # {} /\ \A x, y \in C : PMul(x.Mu, y.D) = PMul(y.Mu, x.D)

(***************************************************************************)
(* sigma_max^2 = lambda_max(G) in sixteenths of the trace T (T/m <= s^2    *)
(* <= T):  k = the least integer with  (k T / 16) I - G  positive definite *)
(* (Sylvester), hence  (k - 1) T / 16 <= s^2 < k T / 16.  k = 17 iff G has *)
(* rank one at eps (then s^2 = T).                                         *)
(***************************************************************************)
EsShift(G, T, k) == [i \in 1..Len(G) |-> [j \in 1..Len(G) |->
                       PSub(IF i = j THEN PScale(k, T) ELSE <<>>, PScale(16, G[i][j]))]]
RECURSIVE EsLamDown(_, _, _)
EsLamDown(G, T, k) == IF k = 1 \/ ~PPosDef(EsShift(G, T, k - 1)) THEN k ELSE EsLamDown(G, T, k - 1)
EsLamK(G) == EsLamDown(G, EsTrace(G), 17)          \* (17 T / 16) I - G is positive definite: s^2 <= T
EsLamGuard(G, k) == LET T == EsTrace(G) IN
                    EpMax(PPosDefGuard(EsShift(G, T, k)), IF k = 1 THEN 0 ELSE PPosDefGuard(EsShift(G, T, k - 1)))

\* two rows with a negative inner product (routing only)
EsConflict(G) == \E i, j \in 1..Len(G) : PSign(G[i][j]) < 0

EsAnalyse(inst) ==
    LET G   == TLCEval(EsGram(inst))
        T   == EsTrace(G)
        mn  == TLCEval(EsMinNorm(G))
        k   == IF T = <<>> THEN 0 ELSE EsLamK(G)
        gl  == IF T = <<>> THEN 0 ELSE EsLamGuard(G, k)
    IN  [J0 |-> inst.J0, rho |-> inst.rho, gam |-> inst.gam, m |-> Len(inst.J0), n |-> Len(inst.J0[1]),
         tr |-> T, lamK |-> k, colsums |-> EsColSums(inst), total |-> EsTotal(G),
         d2num |-> mn.Mu, d2den |-> mn.D, support |-> EsSorted(mn.S),
         stationary |-> (mn.Mu = <<>>),
         symmetric  |-> (\A i, j \in 1..Len(G) : EsRowSum(G, i) = EsRowSum(G, j)),
         conflict   |-> EsConflict(G),
         needP      |-> NeedP(EpMax(mn.gd, EpMax(gl, PGuard(T))))]

-----------------------------------------------------------------------------
(* the scalings of the enumerated families (DualCone.tla, CAGradSym.tla):   *)
(* rows and columns are scaled by eps^0 or eps^1, the scaled ones last (row *)
(* / column permutations of an instance are the same instance for the       *)
(* properties that use this module), at least one row and one column        *)
(* unscaled.  Listed instances (seeded random ones) use any pattern.        *)
EsStep(n)  == {[i \in 1..n |-> IF i <= n - k THEN 0 ELSE 1] : k \in 0..(n - 1)}
=============================================================================
