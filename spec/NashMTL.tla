------------------------------ MODULE NashMTL ------------------------------
(***************************************************************************)
(* State machine of torchjd's NashMTL aggregator (property C19).           *)
(*                                                                         *)
(* The weights produced by the cvxpy/ECOS iteration are not computable by  *)
(* TLC; they are kept as a TERM over an uninterpreted function             *)
(*        Solve(matrixId, warmStartTerm)         (initial term: "ones").   *)
(* The harness interprets a term with FRESH real instances                 *)
(* (update_weights_every = 1, fed only the matrices of the term).          *)
(*                                                                         *)
(* Two layers (DESIGN.md 6):                                               *)
(*  property layer  - history based: what C19 says about a history h of    *)
(*     calls and resets with update_weights_every = k: call number s       *)
(*     (counted since the last reset, from 0) recomputes iff s % k = 0,    *)
(*     the weights used by a call are the chain of Solves over the         *)
(*     recompute matrices of the current segment (PropChain), a reset      *)
(*     makes the instance indistinguishable from a new one, the output is  *)
(*     clip(weights) . J;                                                  *)
(*  implementation layer - the fields of _NashMTLWeighting: step, the      *)
(*     cvxpy problem (built), prvs_alpha (alpha), normalization_factor     *)
(*     (normF); branches init / solve / reuse, then clip; Reset.           *)
(* TLC checks, for every history over Syms \cup {"reset"} of length        *)
(* <= MaxLen, every k in 1..MaxK and every optim_niter in NIters, that the *)
(* implementation layer agrees with the property layer, and runs a second  *)
(* copy, constructed fresh at the last reset point, in lock-step           *)
(* (reset == new).                                                         *)
(*                                                                         *)
(* Configuration space.  optim_niter is a constructor parameter like       *)
(* update_weights_every: it is part of the state (never changed by a call  *)
(* or a reset), every Solve term carries it, and the interpretation of a   *)
(* term uses fresh instances constructed with THE SAME optim_niter (with a *)
(* small budget the inner fixed-point loop ends by exhaustion, not by      *)
(* convergence, so Solve(n, J, w) genuinely depends on n).  The remaining  *)
(* dimensions do not change the transitions, only the interpretation of    *)
(* the symbols and of clip: they are the presentation space Presentations  *)
(* (rows, max_norm binding or not, alphabet kind) that the replay rotates  *)
(* through; it is exported once (CONF).                                    *)
(*                                                                         *)
(* max_norm.  The constructor admits any real max_norm (no validation); the *)
(* rescaling is applied iff max_norm > 0.  Only that sign enters the       *)
(* transitions and the clauses, so it is a state variable (clipOn, never   *)
(* changed by a call or a reset) and every history is explored with the    *)
(* rescaling enabled AND disabled: with clipOn = FALSE the norm clause is  *)
(* vacuous (the output is weights . J, not rescaled) while the schedule,   *)
(* period and reset clauses are the same - none of PropRecompute,          *)
(* PropChain, PropRef mentions clipOn.  The presentations of clipOn = TRUE *)
(* are max_norm binding / loose, those of clipOn = FALSE are max_norm = 0  *)
(* and a negative max_norm (ClipModes, ClipOn).                            *)
(*                                                                         *)
(* Period statement ("reused unchanged in between"): the weights in force  *)
(* at a reuse call are THE weights of the recompute call that opened its   *)
(* period (PropRef) - stated on terms here (PeriodWeights) and observed on *)
(* the real instance by comparing the weight vectors of the two calls.     *)
(***************************************************************************)
EXTENDS Integers, Sequences, FiniteSets, TLC, Json

CONSTANTS MaxLen,     \* histories of at most MaxLen events
          MaxK,       \* update_weights_every in 1..MaxK
          Syms,       \* alphabet of matrix identifiers (strings in MC, integers in traces)
          NIters      \* optim_niter in NIters

VARIABLES k,          \* update_weights_every
          clipOn,     \* max_norm > 0 (constructor parameter, abstracted to what the code tests)
          niter,      \* optim_niter (constructor parameter; budget of the inner loop of a Solve)
          hist,       \* the history so far: sequence over Syms \cup {"reset"}
          inst,       \* the instance under test   [step, built, alpha, normF]
          fresh,      \* a copy constructed at the last reset point (at the start if none)
          calls       \* per call event of hist: what the implementation layer did

vars == <<k, clipOn, niter, hist, inst, fresh, calls>>

-----------------------------------------------------------------------------
(* Terms                                                                   *)
Ones          == <<"ones">>
SolveT(n, J, w) == <<"solve", n, J, w>>  \* n = optim_niter of the instance that solves
NormT(J)      == <<"norm", J>>
ClipT(a, J)   == <<"clip", a, J>>        \* a if |a.J| <= max_norm else a * max_norm / |a.J|; then . J
CombT(a, J)   == <<"comb", a, J>>        \* a . J, never rescaled (max_norm <= 0)

\* a weights term is a linear chain; its flat form lists the matrices, innermost first:
\* Chain(Solve(B, Solve(A, ones))) = <<A, B>>
RECURSIVE Chain(_)
Chain(t) == IF t[1] = "ones" THEN <<>> ELSE Append(Chain(t[4]), t[3])
\* every Solve of a term was made with budget n
RECURSIVE AllNiter(_, _)
AllNiter(t, n) == IF t[1] = "ones" THEN TRUE ELSE t[2] = n /\ AllNiter(t[4], n)

-----------------------------------------------------------------------------
(* Implementation layer: nash_mtl.py                                       *)

\* what the constructor sets (the cvxpy problem is not created by the constructor)
NewInst == [step |-> 0, built |-> FALSE, alpha |-> Ones, normF |-> "one"]

Recomputes(st, kk) == (st % kk) = 0
Branch(st, kk) == IF st = 0 THEN "init" ELSE IF Recomputes(st, kk) THEN "solve" ELSE "reuse"

\* forward(J) on instance i with update_weights_every = kk, optim_niter = n
CallInst(i, kk, n, J) ==
    LET re == Recomputes(i.step, kk) IN
    [step  |-> i.step + 1,
     built |-> (i.built \/ i.step = 0),                 \* _init_optim_problem when step == 0
     alpha |-> IF re THEN SolveT(n, J, i.alpha) ELSE i.alpha,
     normF |-> IF re THEN NormT(J) ELSE i.normF]

\* the solve branch needs the cvxpy problem; this is the only way a call can fail in the model
CallSucceeds(i, kk) == Recomputes(i.step, kk) => (i.built \/ i.step = 0)

\* reset(): restores the constructor's fields, keeps the (stale) problem object
ResetInst(i) == [step |-> 0, built |-> i.built, alpha |-> Ones, normF |-> "one"]

\* what a user can observe of an instance through further calls: everything but `built`
\* (a stale problem is rebuilt by the init branch before it is used)
Obs(i) == [step |-> i.step, alpha |-> i.alpha, normF |-> i.normF]

\* evaluated on the state AFTER the weights update (and after the counter has advanced: the clip
\* branch `if max_norm > 0` touches no field - whether it is taken or not the step is i.step + 1)
OutTerm(i, J, on) == IF on THEN ClipT(i.alpha, J) ELSE CombT(i.alpha, J)

Init == /\ k \in 1..MaxK
        /\ clipOn \in BOOLEAN
        /\ niter \in NIters
        /\ hist = <<>>
        /\ inst = NewInst /\ fresh = NewInst
        /\ calls = <<>>

Call(J) == /\ Len(hist) < MaxLen
           /\ CallSucceeds(inst, k)
           /\ hist' = Append(hist, J)
           /\ inst' = CallInst(inst, k, niter, J)
           /\ fresh' = CallInst(fresh, k, niter, J)
           /\ calls' = Append(calls, [at |-> Len(hist) + 1, sym |-> J,
                                      branch |-> Branch(inst.step, k),
                                      recompute |-> Recomputes(inst.step, k),
                                      \* the call that opened the period: this one if it recomputes,
                                      \* else the one of the previous call (same segment: step > 0)
                                      ref |-> IF Recomputes(inst.step, k) THEN Len(hist) + 1
                                              ELSE calls[Len(calls)].ref,
                                      weights |-> inst'.alpha,
                                      chain |-> Chain(inst'.alpha),
                                      out |-> OutTerm(inst', J, clipOn),
                                      freshOut |-> OutTerm(fresh', J, clipOn)])
           /\ UNCHANGED <<k, clipOn, niter>>

Reset == /\ Len(hist) < MaxLen
         /\ hist' = Append(hist, "reset")
         /\ inst' = ResetInst(inst)
         /\ fresh' = NewInst                       \* a newly constructed instance, same parameters
         /\ UNCHANGED <<k, clipOn, niter, calls>>

Next == (\E J \in Syms : Call(J)) \/ Reset
Spec == Init /\ [][Next]_vars

-----------------------------------------------------------------------------
(* Property layer: history based                                           *)

IsReset(x) == x = "reset"

Max(S) == CHOOSE x \in S : \A y \in S : y <= x
\* position of the last reset strictly before position i (0 if none)
LastReset(h, i) == LET S == {j \in 1..(i - 1) : IsReset(h[j])} IN IF S = {} THEN 0 ELSE Max(S)
\* number of calls since construction / the last reset, before the call at position i
Since(h, i)     == i - 1 - LastReset(h, i)
PropRecompute(h, kk, i) == (Since(h, i) % kk) = 0
\* the matrices of the recompute calls of the segment of position i, up to and including i
PropChain(h, kk, i) ==
    LET r == LastReset(h, i)
        F[j \in r..i] == IF j = r THEN <<>>
                         ELSE IF ((j - r - 1) % kk) = 0 THEN Append(F[j - 1], h[j]) ELSE F[j - 1]
    IN  F[i]
RECURSIVE TermOfChain(_, _)
TermOfChain(c, n) == IF c = <<>> THEN Ones ELSE SolveT(n, c[Len(c)], TermOfChain(SubSeq(c, 1, Len(c) - 1), n))
\* the norm clause (|out| <= max_norm) is part of the statement only when max_norm > 0
PropOut(h, kk, n, on, i) == LET w == TermOfChain(PropChain(h, kk, i), n)
                            IN  IF on THEN ClipT(w, h[i]) ELSE CombT(w, h[i])
\* position of the recompute call that opened the period of the call at position i
\* (no reset lies between the two: a segment contains no reset)
PropRef(h, kk, i) == i - (Since(h, i) % kk)

-----------------------------------------------------------------------------
(* Checked by TLC on Spec                                                  *)

TypeOK == /\ k \in 1..MaxK
          /\ clipOn \in BOOLEAN
          /\ niter \in NIters
          /\ hist \in Seq(Syms \cup {"reset"}) /\ Len(hist) <= MaxLen
          /\ inst.step \in 0..MaxLen /\ inst.built \in BOOLEAN
          /\ Len(calls) = Cardinality({i \in DOMAIN hist : ~IsReset(hist[i])})

\* "every call succeeds": no reachable state in which a call would need a missing problem
CallsNeverFail == CallSucceeds(inst, k)

\* reset == new: at every moment the instance is indistinguishable from the one constructed at
\* the last reset point and fed the same calls since (lock-step copy) ...
ResetIsFresh == Obs(inst) = Obs(fresh)
\* ... and every output produced so far is the one the fresh copy produced
OutputsAsFresh == \A c \in DOMAIN calls : calls[c].out = calls[c].freshOut
\* reset restores exactly what the constructor sets
ResetRestoresInit == [][(hist' # hist /\ IsReset(hist'[Len(hist')])) => Obs(inst') = Obs(NewInst)]_vars

\* recompute schedule: the step-driven decision is the history-driven one (calls 0, k, 2k, ...
\* since the last reset, nowhere else), and the weights are the prescribed chain
ScheduleOK == \A c \in DOMAIN calls :
                 /\ calls[c].recompute = PropRecompute(hist, k, calls[c].at)
                 /\ calls[c].chain = PropChain(hist, k, calls[c].at)
                 /\ calls[c].out = PropOut(hist, k, niter, clipOn, calls[c].at)
                 /\ AllNiter(calls[c].weights, niter)
                 /\ (calls[c].branch = "reuse") = ~calls[c].recompute
                 /\ (calls[c].branch = "init") = (Since(hist, calls[c].at) = 0)

\* the rescaling is applied to every call (recompute or reuse) when max_norm > 0 and to none otherwise
ClipIffEnabled == \A c \in DOMAIN calls : (calls[c].out[1] = "clip") = clipOn

\* "reused unchanged in between": a reuse call leaves weights and normalisation untouched
ReuseKeepsWeights ==
    [][(hist' # hist /\ ~IsReset(hist'[Len(hist')]) /\ ~Recomputes(inst.step, k))
          => (inst'.alpha = inst.alpha /\ inst'.normF = inst.normF)]_vars

\* ... and, stated on the calls of the history: the weights in force at a call are those of the
\* recompute call that opened its period, which lies in the same segment, at most k - 1 calls back,
\* with nothing but reuse calls in between
CallAt(p) == CHOOSE c \in DOMAIN calls : calls[c].at = p
PeriodWeights == \A c \in DOMAIN calls :
                    /\ calls[c].ref = PropRef(hist, k, calls[c].at)
                    /\ \E d \in DOMAIN calls :
                          /\ calls[d].at = calls[c].ref /\ calls[d].recompute
                          /\ calls[d].weights = calls[c].weights
                          /\ c - d < k
                          /\ \A e \in (d + 1)..c : ~calls[e].recompute
                          /\ \A p \in calls[d].at..calls[c].at : ~IsReset(hist[p])

\* the counter is the number of calls since the last reset
StepIsSince == inst.step = Len(hist) - LastReset(hist, Len(hist) + 1)

-----------------------------------------------------------------------------
(* Scenario export: one line per complete history (every prefix is covered by it)          *)
Scenario == [k |-> k, clip |-> clipOn, niter |-> niter, hist |-> hist,
             calls |-> [c \in DOMAIN calls |->
                          [at |-> calls[c].at, sym |-> calls[c].sym, branch |-> calls[c].branch,
                           recompute |-> calls[c].recompute, ref |-> calls[c].ref,
                           clip |-> clipOn, chain |-> calls[c].chain]]]

\* Presentation space of the replay (interpretation of the symbols and of clip; no effect on the
\* transitions beyond clipOn): number of rows, the value of max_norm - for clipOn = TRUE binding on
\* most recomputations or on few, for clipOn = FALSE zero or negative -, and the kind of matrix
\* alphabet:
\*   ordinary  well-conditioned (cond <= 3), power-of-two scale per symbol
\*   small     the same times 2^-10 (the inner loop exhausts even the default budget)
\*   gauss     gaussian rows (cond <= 20), power-of-two scale per symbol
\*   struggle  gaussian matrices selected, by a seeded search on the code under test, so that the
\*             solver returns no solution on some recomputation that is not the first of a segment
Rows          == 2..5
ClipModes     == {"binding", "loose", "zero", "negative"}
ClipOn(c)     == c \in {"binding", "loose"}            \* the modes with max_norm > 0
AlphabetKinds == {"ordinary", "small", "gauss", "struggle"}
Presentations == {[m |-> m, clip |-> c, on |-> ClipOn(c), alphabet |-> a] :
                     m \in Rows, c \in ClipModes, a \in AlphabetKinds}
MinOf(S)      == CHOOSE x \in S : \A y \in S : x <= y

Export == /\ (Len(hist) = MaxLen) => PrintT(<<"SCN", ToJson(Scenario)>>)
          /\ (hist = <<>> /\ k = 1 /\ clipOn /\ niter = MinOf(NIters)) => PrintT(<<"CONF", ToJson(Presentations)>>)
=============================================================================
