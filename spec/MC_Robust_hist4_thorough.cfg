CONSTANT MaxM = 6
CONSTANT NCols = 3
CONSTANT HSeeds = {1, 2}
CONSTANT NPat = 8
CONSTANT Kinds = {"tm", "krum"}
CONSTANT TSeeds = {}
CONSTANT ManyM = {}
CONSTANT ManySteps = 1
CONSTANT HistM = {5}
CONSTANT HistLen = 4
CONSTANT HistPats = {1, 2}
SPECIFICATION HistSpec
INVARIANT TypeOK
INVARIANT HistTypeOK
INVARIANT TMImplIsProp
INVARIANT TMRobust
INVARIANT KrumChecks
INVARIANT KrumImplIsProp
INVARIANT HistPerCall
INVARIANT HistExport
CHECK_DEADLOCK FALSE
