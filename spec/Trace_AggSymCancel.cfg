CONSTANT RowCounts = {}
CONSTANT NGen = 0
CONSTANT MaxSteps = 0
SPECIFICATION TraceSpec
INVARIANT TraceConsumed
CHECK_DEADLOCK FALSE
