-------------------------- MODULE TraceAggSymCancel --------------------------
(***************************************************************************)
(* Trace validation for AggSymCancel (C10, GradDrop), code -> specification.*)
(* An episode: a random instance J = B K + Sm (K0, S0, leak numerators P0), *)
(* a random row order rp, one (dtype, x) of BigCfgs (index cfg), a seed; the *)
(* real GradDrop (with and without leak) was called on both orders; per     *)
(* column the driver logs its own classification (kind, absorbing) and the  *)
(* predicates okrel (the two coordinates agree within the allowance) and    *)
(* okcand (the coordinate is one of the exact sign choices).  Clauses:      *)
(*   raises            an aggregator raised on a finite matrix              *)
(*   instance          not a matrix of the family / rp not a permutation    *)
(*   classification    the driver's classification differs from the model's *)
(*   law_c10           the model's column data differ between the orders    *)
(*   relation / candidates   an ABSORBING column (claimed by the model)     *)
(*                     failed the predicate                                  *)
(***************************************************************************)
EXTENDS AggSymCancel, IOUtils, TLCExt

Episodes == JsonDeserialize(IOEnv.TRACE_FILE)
NEp == Len(Episodes)
VARIABLES ep, nAcc, nRej, ended
tvars == <<base, rp, K, Sm, P, steps, ep, nAcc, nRej, ended>>
E == Episodes[ep]

TInit == /\ base = [id |-> 0, m |-> 1, n |-> 1, K |-> <<<<0>>>>, S |-> <<<<0>>>>, P |-> <<0>>]
         /\ rp = <<1>> /\ K = <<<<0>>>> /\ Sm = <<<<0>>>> /\ P = <<0>> /\ steps = 0
         /\ ep = 1 /\ nAcc = 0 /\ nRej = 0 /\ ended = FALSE

K1 == SymPerm(E.K0, E.rp)
S1 == SymPerm(E.S0, E.rp)
P1 == SymPerm(E.P0, E.rp)
InFamily == /\ SymIsPerm(E.rp, E.m) /\ Len(E.K0) = E.m /\ Len(E.S0) = E.m /\ E.cfg \in 1..Len(BigCfgs)
            /\ \A r \in 1..E.m : \A c \in 1..E.n : /\ E.K0[r][c] \in (0 - 2)..2 /\ E.S0[r][c] \in (0 - 3)..3
                                                   /\ (E.K0[r][c] # 0 => E.S0[r][c] = 0)
            /\ \A i \in 1..E.m : E.P0[i] \in 0..4
Failing ==
    IF E.raised THEN "raises"
    ELSE IF ~InFamily THEN "instance"
    ELSE IF \E c \in 1..E.n : \/ E.cols[c].kind # KindOf(E.K0, c)
                              \/ E.cols[c].absorbing # Absorbing(E.K0, E.S0, c, BigCfgs[E.cfg].half)
         THEN "classification"
    ELSE IF \E c \in 1..E.n : ColData(K1, S1, P1, c) # ColData(E.K0, E.S0, E.P0, c) THEN "law_c10"
    ELSE IF \E c \in 1..E.n : E.cols[c].absorbing /\ ~E.cols[c].okrel THEN "relation"
    ELSE IF \E c \in 1..E.n : E.cols[c].absorbing /\ ~E.cols[c].okcand THEN "candidates"
    ELSE "none"

TStep == /\ ep <= NEp
         /\ LET f == Failing IN
              /\ (f # "none" => PrintT(<<"REJECT", ToJson([ep |-> E.ep, clause |-> f])>>))
              /\ nAcc' = nAcc + (IF f = "none" THEN 1 ELSE 0)
              /\ nRej' = nRej + (IF f = "none" THEN 0 ELSE 1)
         /\ ep' = ep + 1
         /\ UNCHANGED <<base, rp, K, Sm, P, steps, ended>>
TDone == /\ ep = NEp + 1 /\ ~ended
         /\ PrintT(<<"SUMMARY", ToJson([episodes |-> NEp, accepted |-> nAcc, rejected |-> nRej])>>)
         /\ ended' = TRUE
         /\ UNCHANGED <<base, rp, K, Sm, P, steps, ep, nAcc, nRej>>
TraceSpec == TInit /\ [][TStep \/ TDone]_tvars
TraceConsumed == ended => nAcc + nRej = NEp
=============================================================================
