---------------------------- MODULE AggSymCancel ----------------------------
(***************************************************************************)
(* C10 for GradDrop (fixed seed, optional leak vector permuted with the     *)
(* rows) on matrices whose columns contain LARGE entries that CANCEL next   *)
(* to small ones - finite matrices, well inside the range of the dtype, on  *)
(* which the floating-point column sum depends on the order of the rows.    *)
(*                                                                         *)
(* Numbers.  An entry is either BIG, k * B with a small integer k and       *)
(* B = 2^x never multiplied out (TLC has 32-bit integers), or SMALL, an     *)
(* integer s with |s| <= 3:  J = B * K + Sm  with K[r][c] # 0 => Sm[r][c]   *)
(* = 0.  The pairs (dtype, x) of BigCfgs come with half = ulp(B) / 2 in     *)
(* that dtype: a column is ABSORBING when the absolute sum of its small     *)
(* entries is < half.  Then, whatever the order and the grouping in which   *)
(* a floating-point sum of the column is accumulated, every intermediate    *)
(* value is  j B  (j # 0: the small entries met so far are absorbed, B + t  *)
(* rounds to B for |t| < ulp(B)/2) or a sum of small entries (j = 0), hence *)
(*   sum of the column      = j B  if the big parts do not cancel (j # 0),  *)
(*                            a SUBSET SUM of its small entries otherwise   *)
(*                            (which subset depends on the order),          *)
(*   sum of absolute values = (sum |k|) B   in every order.                 *)
(* GradDrop's purity is P = 1/2 (1 + sum / sum of absolute values): for an  *)
(* absorbing column whose big parts cancel |sum| / abs < half / (2 B) =     *)
(* 2^-(p+1) for EVERY subset (SubsetLaw), so 1 + sum/abs rounds to 1 and    *)
(* P = 1/2 exactly, in every order; for the other columns P is a correctly  *)
(* rounded quotient of order-independent numbers.  Columns that are not     *)
(* absorbing are NOT claimed (counted by the replay).  With P and the       *)
(* uniform draws (same seed) order-independent, the kept sign of every      *)
(* column is, and each coordinate is the order-independent exact value      *)
(* Coord (kept-sign entries + leaked share of the others) up to the         *)
(* rounding of a sum of m terms: AllowUnits * eps * sum_r |J_rc|.            *)
(*                                                                         *)
(* ACTIONS: SwapRows(i, j) - transposes two rows of K, Sm and of the leak   *)
(* numerators; all m! orders are reached for m <= MaxSteps + 1.             *)
(* INVARIANTS: Consistent, SubsetLaw, LawC10 (classification, float purity  *)
(* and both candidate coordinates of every column are those of the base     *)
(* instance), Export.                                                        *)
(***************************************************************************)
EXTENDS SymAgg, Json

CONSTANTS RowCounts, NGen, MaxSteps

VARIABLES base,      \* [id, m, n, K, S, P]
          rp, K, Sm, P, steps
vars == <<base, rp, K, Sm, P, steps>>
M == base.m
N == base.n

\* (dtype, exponent x of B = 2^x, half = ulp(B)/2 in that dtype)
BigCfgs == << [dtype |-> "float32", exp |-> 26, half |-> 4],
              [dtype |-> "float64", exp |-> 55, half |-> 4],
              [dtype |-> "float64", exp |-> 60, half |-> 128] >>
AllowUnits(m) == 2 * (4 + m)         \* per row: leak, 1 - leak, their combination, the product (4); m accumulations; doubled

-----------------------------------------------------------------------------
(* instance family                                                         *)
CuratedK == <<
  << <<1, 0, 0>>, <<-1, 1, 0>>, <<0, 0, 0>> >>,
  << <<2, 0, 1>>, <<-1, 0, 0>>, <<-1, 0, -1>> >>,
  << <<1, 0, 0, 0>>, <<0, 0, 0, 0>>, <<-1, 0, 0, 0>>, <<0, 0, 0, 0>> >>,
  << <<1, -1, 0>>, <<1, 0, 2>>, <<-2, 0, -1>>, <<0, 1, -1>> >>,
  << <<0, 1, 0>>, <<0, -1, 0>>, <<1, 0, 0>>, <<-1, 0, 0>> >> >>
CuratedS == <<
  << <<0, 2, -1>>, <<0, 0, 1>>, <<1, -3, 2>> >>,
  << <<0, 1, 0>>, <<0, -2, 3>>, <<0, 1, 0>> >>,
  << <<0, 2, -1, 1>>, <<1, -3, 3, 2>>, <<0, 1, 2, -2>>, <<1, 3, -3, 3>> >>,
  << <<0, 0, 1>>, <<0, -3, 0>>, <<0, 2, 0>>, <<3, 0, 0>> >>,
  << <<3, 0, 1>>, <<-2, 0, -1>>, <<0, 3, 2>>, <<0, 3, -2>> >> >>

H(k, r, c) == (k * k * 7 + k * (r * 5 + c * 3) + r * 13 + c * 29 + r * c * 11 + (k \div 3) * r) % 97
\* column 1: two rows carry +a B and -a B (they cancel), the others small; column 2: a hashed mixture; from column 3 on
\* small entries with an occasional big one
GenK(k, m) == LET n  == 3 + (k % 2)
                  r1 == (k % m) + 1
                  r2 == ((k + 1 + ((k \div m) % (m - 1))) % m) + 1
                  a  == (k % 2) + 1
              IN  [r \in 1..m |-> [c \in 1..n |->
                     IF c = 1 THEN (IF r = r1 THEN a ELSE IF r = r2 /\ r2 # r1 THEN 0 - a ELSE 0)
                     ELSE IF c = 2 THEN (IF H(k, r, c) % 3 = 0 THEN ((H(k, r, c) \div 3) % 5) - 2 ELSE 0)
                     ELSE (IF H(k, r, c) % 7 = 0 THEN 1 ELSE 0)]]
GenS(k, m) == LET Kk == GenK(k, m) IN
              [r \in 1..m |-> [c \in 1..Len(Kk[1]) |-> IF Kk[r][c] # 0 THEN 0 ELSE (H(k + 5, r, c) % 7) - 3]]
LeakP(k, m) == [i \in 1..m |-> (k * 3 + i * i + k * i) % 5]              \* leak = P / 4 in {0, 1/4, 1/2, 3/4, 1}

MkInst(id, k, Kk, Ss) == [id |-> id, m |-> Len(Kk), n |-> Len(Kk[1]), K |-> Kk, S |-> Ss, P |-> LeakP(k, Len(Kk))]
Instances == {MkInst(i, i, CuratedK[i], CuratedS[i]) : i \in {q \in 1..Len(CuratedK) : Len(CuratedK[q]) \in RowCounts}}
             \cup {MkInst(100 * m + k, k + m, GenK(k, m), GenS(k, m)) : k \in 1..NGen, m \in RowCounts}

Init == /\ base \in Instances
        /\ rp = SymIdPerm(base.m) /\ K = base.K /\ Sm = base.S /\ P = base.P /\ steps = 0
SwapRows(i, j) == /\ steps < MaxSteps /\ i < j /\ steps' = steps + 1
                  /\ rp' = SymSwap(rp, i, j) /\ K' = SymSwap(K, i, j) /\ Sm' = SymSwap(Sm, i, j) /\ P' = SymSwap(P, i, j)
                  /\ UNCHANGED base
DoSwapRows == \E i, j \in 1..M : SwapRows(i, j)
Spec == Init /\ [][DoSwapRows]_vars

-----------------------------------------------------------------------------
TypeOK == /\ SymIsPerm(rp, M) /\ steps \in 0..MaxSteps
          /\ \A r \in 1..M : \A c \in 1..N : /\ K[r][c] \in (0 - 2)..2 /\ Sm[r][c] \in (0 - 3)..3
                                             /\ (K[r][c] # 0 => Sm[r][c] = 0)          \* an entry is big OR small
          /\ \A i \in 1..M : P[i] \in 0..4
Consistent == K = SymPerm(base.K, rp) /\ Sm = SymPerm(base.S, rp) /\ P = SymPerm(base.P, rp)

\* ---- a column (X = K or Sm matrices given explicitly so that base and transformed share the operators)
KSum(Kx, c)  == SumSeq(Col(Kx, c))
KAbs(Kx, c)  == SumSeq([r \in 1..Len(Kx) |-> Abs(Kx[r][c])])
SSum(Sx, c)  == SumSeq(Col(Sx, c))
SAbs(Sx, c)  == SumSeq([r \in 1..Len(Sx) |-> Abs(Sx[r][c])])
KindOf(Kx, c) == IF KAbs(Kx, c) = 0 THEN "small" ELSE IF KSum(Kx, c) = 0 THEN "cancel" ELSE "dominated"
Absorbing(Kx, Sx, c, half) == KAbs(Kx, c) = 0 \/ SAbs(Sx, c) < half

\* what a floating-point sum of an absorbing column can be: j B (j # 0), else a subset sum of the small entries;
\* every subset sum is bounded by the absolute sum (hence |sum| / abs < half / (2 B) on cancelling columns)
SubsetLaw == \A c \in 1..N : \A T \in SUBSET (1..M) :
                Abs(SumSeq([r \in 1..M |-> IF r \in T THEN Sm[r][c] ELSE 0])) <= SAbs(Sm, c)

\* the purity every order computes on an absorbing column: [n, d] (the correctly rounded n / d), n = d = 0: no purity
FloatP(Kx, Sx, c) ==
    CASE KindOf(Kx, c) = "cancel"    -> <<1, 2>>
      [] KindOf(Kx, c) = "dominated" -> Frac(KAbs(Kx, c) + KSum(Kx, c), 2 * KAbs(Kx, c))
      [] OTHER -> IF SAbs(Sx, c) = 0 THEN <<0, 0>> ELSE Frac(SAbs(Sx, c) + SSum(Sx, c), 2 * SAbs(Sx, c))

\* exact coordinate for the kept sign ch, times 4, as (big part in units of B, small part): entries of the kept
\* sign in full, the others with their leaked share P_r / 4
SignOf(Kx, Sx, r, c) == IF Kx[r][c] # 0 THEN Sgn(Kx[r][c]) ELSE Sgn(Sx[r][c])
Coef(Kx, Sx, Px, r, c, ch) == IF (ch = "pos" /\ SignOf(Kx, Sx, r, c) > 0) \/ (ch = "neg" /\ SignOf(Kx, Sx, r, c) < 0)
                              THEN 4 ELSE Px[r]
Coord4(Kx, Sx, Px, c, ch) == [b |-> SumSeq([r \in 1..Len(Kx) |-> Coef(Kx, Sx, Px, r, c, ch) * Kx[r][c]]),
                              s |-> SumSeq([r \in 1..Len(Kx) |-> Coef(Kx, Sx, Px, r, c, ch) * Sx[r][c]])]
NoLeak(Kx) == [i \in 1..Len(Kx) |-> 0]

ColData(Kx, Sx, Px, c) ==
    [kind |-> KindOf(Kx, c), kabs |-> KAbs(Kx, c), sabs |-> SAbs(Sx, c), fp |-> FloatP(Kx, Sx, c),
     absorbing |-> [q \in 1..Len(BigCfgs) |-> Absorbing(Kx, Sx, c, BigCfgs[q].half)],
     plain |-> [pos |-> Coord4(Kx, Sx, NoLeak(Kx), c, "pos"), neg |-> Coord4(Kx, Sx, NoLeak(Kx), c, "neg"),
                none |-> Coord4(Kx, Sx, NoLeak(Kx), c, "none")],
     leak  |-> [pos |-> Coord4(Kx, Sx, Px, c, "pos"), neg |-> Coord4(Kx, Sx, Px, c, "neg"),
                none |-> Coord4(Kx, Sx, Px, c, "none")]]

\* C10: nothing GradDrop computes from a column depends on the order of the rows (leak permuted with them)
LawC10 == \A c \in 1..N : ColData(K, Sm, P, c) = ColData(base.K, base.S, base.P, c)

Scenario == [id |-> base.id, m |-> M, n |-> N, K0 |-> base.K, S0 |-> base.S, P0 |-> base.P,
             rp |-> rp, K |-> K, S |-> Sm, P |-> P, steps |-> steps, cfgs |-> BigCfgs, units |-> AllowUnits(M),
             cols |-> [c \in 1..N |-> ColData(K, Sm, P, c)]]
Export == PrintT(<<"SCN", ToJson(Scenario)>>)
=============================================================================
