CONSTANT Family <- FamThorough
CONSTANT FWK = 2
CONSTANT SampleMod = 1
CONSTANT SamplePick = 0
SPECIFICATION Spec
INVARIANT KKTExistsUnique
INVARIANT NoConflictIsIdentity
INVARIANT InConeIsIdentity
INVARIANT Feasible
INVARIANT Minimal
INVARIANT UPGradHomogeneous
INVARIANT F2Sound
INVARIANT LimitWellDefined
INVARIANT BracketSound
INVARIANT PresentationsSound
INVARIANT MinNormOK
INVARIANT FWSimplex
INVARIANT FWMonotone
INVARIANT FWAllowance
INVARIANT FWRate
INVARIANT FWTwoRowsExact
INVARIANT MGDAConfigSound
INVARIANT Export
CHECK_DEADLOCK FALSE
