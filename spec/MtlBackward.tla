---------------------------- MODULE MtlBackward ----------------------------
(***************************************************************************)
(* torchjd.autojac.mtl_backward as a transition system.                    *)
(*                                                                         *)
(* Universe: a trunk (generic builder of Programs.tla: shared leaves and a *)
(* few ops), 1..2 feature tensors chosen among its nodes, then 1..MaxTasks *)
(* heads built from head templates (own parameter / parameter shared with  *)
(* another task / no parameter / two features / a path from a shared leaf  *)
(* AROUND the features / a head that ignores the features).               *)
(*                                                                         *)
(* Implementation-shaped layer (one action per stage of the code):         *)
(*   TaskStep(i)   Init -> Grad(loss_i wrt task params + features) ->      *)
(*                 Accumulate(task params) | Select(features)              *)
(*   StackStep     row i of every feature's Jacobian <- task i (zeros if   *)
(*                 absent)                                                  *)
(*   then the Jac / Aggregate / Accumulate actions of Backward.tla with    *)
(*   tensors := features, inputs := shared parameters.                     *)
(* Property layer (C02), by FORWARD mode only:                             *)
(*   task parameter p:  grad0 (+) sum over the tasks i listing p of        *)
(*                      d loss_i / d p   (total derivative)                *)
(*   shared parameters: slices of Agg(R),  R[i] = sum over features f of   *)
(*        (d loss_i / d f, features cut out as independent variables)      *)
(*        . (d f / d shared)                                               *)
(* Features are required to be mutually independent (none computed from    *)
(* another): see DESIGN.md 9.                                              *)
(***************************************************************************)
EXTENDS Programs, TLC, Json

CONSTANTS MaxLeaves, MaxOps, MaxTensors, ChunkSizes, MaxRows, SampleMod, SamplePick, PreModes,
          MaxTasks

VARIABLES P, phase, call, grad, d, ordJ, rows, sweeps, pending,      \* as in Backward.tla
          mt,        \* [feats, losses, tparams, natural]  (sequences over tasks)
          task,      \* number of tasks already processed
          featCt     \* per task: feature node -> cotangent received from the head

bvars == <<P, phase, call, grad, d, ordJ, rows, sweeps, pending>>
vars  == <<P, phase, call, grad, d, ordJ, rows, sweeps, pending, mt, task, featCt>>

B == INSTANCE Backward

None  == <<>>
Plus(g, u) == IF g = None THEN u ELSE VAdd(g, u)
NoMt  == [feats |-> <<>>, losses |-> <<>>, tparams |-> <<>>, natural |-> <<>>]

\* ------------------------------------------------------------------ build: trunk
Init == /\ B!Init /\ phase = "build" /\ mt = NoMt /\ task = 0 /\ featCt = <<>>

AddLeaf == B!AddLeaf /\ UNCHANGED <<mt, task, featCt>>
AddOp   == B!AddOp   /\ UNCHANGED <<mt, task, featCt>>

\* ancestors
RECURSIVE Anc(_, _)
Anc(Pg, i) == IF Pg[i].op = "leaf" THEN {}
              ELSE UNION {{x} \cup Anc(Pg, x) : x \in Range(Args(Pg[i]))}

FeatureSeqs == {s \in UNION {[1..n -> Differentiable(P)] : n \in 1..2} :
                  /\ \A i, j \in DOMAIN s : i < j => s[i] < s[j]
                  /\ \A i, j \in DOMAIN s : i # j => s[i] \notin Anc(P, s[j])}

MarkFeatures ==
    /\ phase = "build" /\ NumOps(P) >= 1
    /\ \E fs \in FeatureSeqs :
         /\ Len(P) \in Range(fs)                  \* otherwise already explored on a shorter trunk
         /\ mt' = [NoMt EXCEPT !.feats = fs]
    /\ phase' = "heads"
    /\ UNCHANGED <<P, call, grad, d, ordJ, rows, sweeps, pending, task, featCt>>

\* ------------------------------------------------------------------ build: heads
TrunkLen      == mt.feats[Len(mt.feats)]          \* trunk = nodes 1..last feature (by MarkFeatures)
TrunkRGLeaves == {l \in RGLeaves(P) : l <= TrunkLen}
HeadLeaves    == {l \in RGLeaves(P) : l > TrunkLen}
SumRow(n)     == <<[i \in 1..n |-> 1]>>
AltRow(n)     == <<[i \in 1..n |-> IF i % 2 = 1 THEN 2 ELSE -1]>>
NewLeaf(n, t) == [op |-> "leaf", size |-> n, val |-> [i \in 1..n |-> ((t + i) % 3) + 1], rg |-> TRUE]

\* a head = nodes appended to P; returns [nodes, natural]  (natural = its own task leaves)
HeadTemplates(t) ==
    LET n  == Len(P)
        sz == Sizes(P)
        F  == mt.feats
    IN
    \* own parameter of the size of feature j:  loss = sum(f_j * p)
    { [nodes |-> << NewLeaf(sz[F[j]], t),
                    [op |-> "mul", a |-> F[j], b |-> n + 1],
                    [op |-> "lin", a |-> n + 2, mat |-> SumRow(sz[F[j]])] >>,
       natural |-> {n + 1}] : j \in DOMAIN F }
    \cup
    \* parameter shared with an earlier task (same size or scalar):  loss = alt(f_j * q)
    { [nodes |-> << [op |-> "mul", a |-> F[j], b |-> q],
                    [op |-> "lin", a |-> n + 1, mat |-> AltRow(sz[F[j]])] >>,
       natural |-> {q}] : j \in DOMAIN F, q \in HeadLeaves }   \* filtered by HeadOk
    \cup
    \* no parameter:  loss = alt(f_j)
    { [nodes |-> << [op |-> "lin", a |-> F[j], mat |-> AltRow(sz[F[j]])] >>,
       natural |-> {}] : j \in DOMAIN F }
    \cup
    \* scalar own parameter and BOTH features:  loss = sum(f_1) * p + alt(f_2)
    { [nodes |-> << NewLeaf(1, t),
                    [op |-> "lin", a |-> F[1], mat |-> SumRow(sz[F[1]])],
                    [op |-> "mul", a |-> n + 2, b |-> n + 1],
                    [op |-> "lin", a |-> F[2], mat |-> AltRow(sz[F[2]])],
                    [op |-> "add", a |-> n + 3, b |-> n + 4] >>,
       natural |-> {n + 1}] : j \in {x \in {1} : Len(F) = 2} }
    \cup
    \* a path from a shared leaf s AROUND the features:  loss = alt(f_j) + sum(s)
    { [nodes |-> << [op |-> "lin", a |-> F[j], mat |-> AltRow(sz[F[j]])],
                    [op |-> "lin", a |-> s, mat |-> SumRow(sz[s])],
                    [op |-> "add", a |-> n + 1, b |-> n + 2] >>,
       natural |-> {}] : j \in {1}, s \in TrunkRGLeaves }
    \cup
    \* two additive own parameters (autograd hands the SAME gradient tensor to both):
    \* loss = sum(f_j + (p + q))
    { [nodes |-> << NewLeaf(sz[F[j]], t), NewLeaf(sz[F[j]], t + 1),
                    [op |-> "add", a |-> n + 1, b |-> n + 2],
                    [op |-> "add", a |-> F[j], b |-> n + 3],
                    [op |-> "lin", a |-> n + 4, mat |-> SumRow(sz[F[j]])] >>,
       natural |-> {n + 1, n + 2}] : j \in {1} }
    \cup
    \* a head that ignores the features:  loss = sum(p * p)
    { [nodes |-> << NewLeaf(2, t),
                    [op |-> "mul", a |-> n + 1, b |-> n + 1],
                    [op |-> "lin", a |-> n + 2, mat |-> SumRow(2)] >>,
       natural |-> {n + 1}] : j \in {1} }

\* broadcasting constraint of the "shared with an earlier task" template
HeadOk(h) == \A x \in DOMAIN h.nodes :
                (h.nodes[x].op = "mul" /\ h.nodes[x].b \in HeadLeaves /\ h.nodes[x].a \in Range(mt.feats))
                   => (Sizes(P)[h.nodes[x].b] = Sizes(P)[h.nodes[x].a] \/ Sizes(P)[h.nodes[x].b] = 1)

AddHead ==
    /\ phase = "heads" /\ Len(mt.losses) < MaxTasks
    /\ \E h \in {x \in HeadTemplates(Len(mt.losses)) : HeadOk(x)} :
         /\ P' = P \o h.nodes
         /\ mt' = [mt EXCEPT !.losses = Append(@, Len(P) + Len(h.nodes)),
                             !.natural = Append(@, h.natural)]
    /\ UNCHANGED <<phase, call, grad, d, ordJ, rows, sweeps, pending, task, featCt>>

\* ------------------------------------------------------------------ the call
Weight(r)   == r - 2
PreGrad(sz) == [i \in 1..sz |-> 5 * i]
NTasks      == Len(mt.losses)

\* explicit parameter lists.  Modes: every task lists its natural parameters; the first task
\* lists none; every task also lists the NEXT task's natural parameters (overlap between tasks)
NaturalOf(i) == mt.natural[i]
TaskParamModes ==
    { [i \in 1..NTasks |-> NaturalOf(i)],
      [i \in 1..NTasks |-> IF i = 1 THEN {} ELSE NaturalOf(i)],
      [i \in 1..NTasks |-> NaturalOf(i) \cup NaturalOf((i % NTasks) + 1)] }
SharedChoices == {TrunkRGLeaves, {}} \cup {{s} : s \in {x \in TrunkRGLeaves : \A y \in TrunkRGLeaves : x <= y}}

ChooseCall ==
    /\ phase = "heads" /\ NTasks >= 1
    /\ \E sh \in SharedChoices, k \in ChunkSizes, tp \in TaskParamModes :
         /\ mt' = [mt EXCEPT !.tparams = tp]
         /\ \E pre \in {{}, sh \cup UNION {tp[i] : i \in 1..NTasks}} :
              /\ call' = [tensors |-> mt.feats, inputs |-> sh, k |-> k,
                          w |-> [r \in 1..NTasks |-> Weight(r)], pre |-> pre, m |-> NTasks]
              /\ grad' = [l \in Leaves(P) |-> IF l \in pre THEN PreGrad(P[l].size) ELSE None]
    /\ phase' = "tasks" /\ task' = 0 /\ featCt' = <<>>
    /\ UNCHANGED <<P, d, ordJ, rows, sweeps, pending>>

\* ------------------------------------------------------------------ pipeline
\* one task: a single reverse sweep from the loss; task parameters are accumulated, the
\* cotangents reaching the features are kept for the Stack
TaskStep ==
    /\ phase = "tasks" /\ task < NTasks
    /\ LET i   == task + 1
           adj == VJPAll(P, [o \in {mt.losses[i]} |-> <<1>>])
       IN  /\ grad' = [l \in Leaves(P) |-> IF l \in mt.tparams[i] THEN Plus(grad[l], adj[l]) ELSE grad[l]]
           /\ featCt' = Append(featCt, [f \in Range(mt.feats) |-> adj[f]])
    /\ task' = task + 1
    /\ UNCHANGED <<P, phase, call, d, ordJ, rows, sweeps, pending, mt>>

\* Stack: key f gets one row per task
StackStep ==
    /\ phase = "tasks" /\ task = NTasks
    /\ d' = [type |-> "Jacobians",
             map  |-> [f \in Range(mt.feats) |-> [i \in 1..NTasks |-> featCt[i][f]]]]
    /\ \E o \in PermSeqs(call.inputs) : ordJ' = o
    /\ phase' = "jac"
    /\ UNCHANGED <<P, call, grad, rows, sweeps, pending, mt, task, featCt>>

\* with no shared parameter the Jacobian has no column: Jac returns an empty tuple
JacSweep      == call.inputs # {} /\ B!JacSweep      /\ UNCHANGED <<mt, task, featCt>>
JacDone       == call.inputs # {} /\ B!JacDone       /\ UNCHANGED <<mt, task, featCt>>
DoAggregate   == B!DoAggregate   /\ UNCHANGED <<mt, task, featCt>>
AccumulateKey == B!AccumulateKey /\ UNCHANGED <<mt, task, featCt>>
Finish        == B!Finish        /\ UNCHANGED <<mt, task, featCt>>
NoShared      == /\ phase = "jac" /\ call.inputs = {}
                 /\ phase' = "done" /\ d' = [type |-> "Empty", map |-> <<>>]
                 /\ UNCHANGED <<P, call, grad, ordJ, rows, sweeps, pending, mt, task, featCt>>

Next == AddLeaf \/ AddOp \/ MarkFeatures \/ AddHead \/ ChooseCall \/ TaskStep \/ StackStep
        \/ JacSweep \/ JacDone \/ DoAggregate \/ AccumulateKey \/ Finish \/ NoShared
Spec == Init /\ [][Next]_vars

\* ------------------------------------------------------------------ property layer (forward mode)
Grad0(l) == IF l \in call.pre THEN PreGrad(P[l].size) ELSE None

\* the program in which every feature is cut out as an independent variable
CutProg == [n \in 1..Len(P) |-> IF n \in Range(mt.feats)
                                 THEN [op |-> "leaf", size |-> Sizes(P)[n], val |-> Vals(P)[n], rg |-> TRUE]
                                 ELSE P[n]]
\* Forward-mode tables, computed once per evaluation (TLC caches LET definitions):
\*   cj = FwdJac(CutProg)  (features independent),  fj = FwdJac(P)
Tables == [cj |-> Force(FwdJac(CutProg)), fj |-> Force(FwdJac(P)), cp |-> CutProg]
\* d loss_i / d f  (1 x size(f)), features independent
DLossDFeatT(T, i, f) == PickCols(T.cp, T.cj[mt.losses[i]][1], <<f>>)
DLossDFeat(i, f) == DLossDFeatT(Tables, i, f)
\* d f / d s  (size(f) x size(s))
DFeatDSharedT(T, f, s) == [r \in 1..Len(T.fj[f]) |-> PickCols(P, T.fj[f][r], <<s>>)]
\* row i of the Jacobian w.r.t. shared leaf s: sum_f (d loss_i/d f) . (d f/d s)
RowBlockT(T, i, s) ==
    LET contrib(f) == VecMat(DLossDFeatT(T, i, f), DFeatDSharedT(T, f, s), P[s].size)
        RECURSIVE Acc(_)
        Acc(fs) == IF fs = <<>> THEN Zeros(P[s].size) ELSE VAdd(contrib(Head(fs)), Acc(Tail(fs)))
    IN  Acc(mt.feats)
RowBlock(i, s) == RowBlockT(Tables, i, s)
SharedUpdateT(T, s) == VecMat(call.w, [i \in 1..NTasks |-> RowBlockT(T, i, s)], P[s].size)
SharedUpdate(s) == SharedUpdateT(Tables, s)
\* total derivative of loss_i w.r.t. a task parameter
TaskGradT(T, i, p) == PickCols(P, T.fj[mt.losses[i]][1], <<p>>)
TaskUpdateT(T, p) == LET RECURSIVE Acc(_)
                         Acc(i) == IF i = 0 THEN Zeros(P[p].size)
                                   ELSE IF p \in mt.tparams[i] THEN VAdd(TaskGradT(T, i, p), Acc(i - 1)) ELSE Acc(i - 1)
                     IN  Acc(NTasks)
TaskUpdate(p) == TaskUpdateT(Tables, p)
AllTaskParams == UNION {mt.tparams[i] : i \in 1..NTasks}
ExpectedT(T, l) == IF l \in call.inputs THEN Plus(Grad0(l), SharedUpdateT(T, l))
                   ELSE IF l \in AllTaskParams THEN Plus(Grad0(l), TaskUpdateT(T, l))
                   ELSE Grad0(l)
Expected(l) == ExpectedT(Tables, l)

Deposits == phase = "done" => LET T == Tables IN \A l \in Leaves(P) : grad[l] = ExpectedT(T, l)

\* the stacked cotangents equal the cut-program derivatives (Stack: row i belongs to task i)
StackIsTrue == phase = "jac" =>
                  LET T == Tables IN
                  \A f \in Range(mt.feats), i \in 1..NTasks : d.map[f][i] = DLossDFeatT(T, i, f)

\* C05 (mtl part): shared parameters get what torch.autograd.backward(features, grad_tensors =
\* sum_i w_i dloss_i/df) gives; one reverse sweep
TwinAutograd == phase = "done" =>
    LET T  == Tables
        ct == [f \in Range(mt.feats) |->
                 LET RECURSIVE Acc(_)
                     Acc(i) == IF i = 0 THEN Zeros(Sizes(P)[f])
                               ELSE VAdd(VScale(call.w[i], DLossDFeatT(T, i, f)), Acc(i - 1))
                 IN  Acc(NTasks)]
        adj == VJPAll(P, ct)
    IN  \A s \in call.inputs : SharedUpdateT(T, s) = adj[s]

TypeOK == WellFormed(P) /\ phase \in {"build", "heads", "tasks", "jac", "agg", "acc", "done"}

PropCall == /\ phase = "tasks" /\ task = 0
            /\ grad' = [l \in Leaves(P) |-> Expected(l)]
            /\ phase' = "done"
            /\ UNCHANGED <<P, call, d, ordJ, rows, sweeps, pending, mt, task, featCt>>

\* ------------------------------------------------------------------ scenario export
Scenario == [prog |-> P, feats |-> mt.feats, losses |-> mt.losses,
             tparams |-> [i \in 1..NTasks |-> mt.tparams[i]], shared |-> call.inputs,
             k |-> call.k, w |-> call.w, pre |-> call.pre,
             pregrad |-> [l \in call.pre |-> PreGrad(P[l].size)],
             jac |-> LET T == Tables IN [s \in call.inputs |-> [i \in 1..NTasks |-> RowBlockT(T, i, s)]],
             expected |-> LET T == Tables IN [l \in 1..Len(P) |-> IF l \in Leaves(P) THEN ExpectedT(T, l) ELSE None]]
ScnHash == 3 * Len(P) + 5 * Cardinality(call.inputs) + 7 * call.k + 17 * Cardinality(call.pre)
           + 13 * SumSeq([i \in 1..Len(P) |-> IF P[i].op = "leaf" THEN P[i].size + i
                                               ELSE i * P[i].a + (IF P[i].op \in Binary THEN 3 * P[i].b ELSE 1)])
           + 19 * SumSeq([i \in 1..NTasks |-> i * Cardinality(mt.tparams[i]) + mt.losses[i]])
           + 23 * SumSeq([i \in 1..Len(mt.feats) |-> i * mt.feats[i]])
Export == (phase = "tasks" /\ task = 0 /\ (ScnHash % SampleMod) = SamplePick)
             => PrintT(<<"SCN", ToJson(Scenario)>>)
=============================================================================
