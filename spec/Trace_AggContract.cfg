CONSTANT MaxCalls = 1
CONSTANT HistLevel = 1
CONSTANT NSeeds = 2
SPECIFICATION TraceSpec
INVARIANT TraceConsumed
CHECK_DEADLOCK FALSE
