CONSTANT MaxIter = 3
CONSTANT Bound = 700
SPECIFICATION Spec
INVARIANT TypeOK
INVARIANT UntouchedStays
INVARIANT PlainSGD
INVARIANT Export
CHECK_DEADLOCK FALSE
