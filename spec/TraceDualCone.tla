--------------------------- MODULE TraceDualCone ---------------------------
(***************************************************************************)
(* Trace validation for DualCone (C03/C04): every episode is one call of   *)
(* the real UPGrad / DualProj on J = 2^e * J0 (J0 integer, lambda_max of   *)
(* J0 J0^T an integer: family F2) with norm_eps = 2^-a, reg_eps = p/q and  *)
(* preference vector u, together with the combination weights the code     *)
(* returned, rationalised by the harness ([] when they are not rational).   *)
(* The episode is accepted iff the logged weights ARE the specification's   *)
(* DualProjW / UPGradW (or u below the norm_eps threshold); a rejected      *)
(* episode names the first failing clause of the KKT system evaluated       *)
(* exactly on the logged weights.  Verdicts are total.                      *)
(*                                                                         *)
(* Presentations and histories (DualCone.tla, section of that name): every  *)
(* episode also logs the dtype the preference vector was given in (pdt;     *)
(* "none" = default preference), the tensor OBJECT that carried the matrix  *)
(* (obj; tmode = "reused": the instance was written in place into an object *)
(* of an earlier episode, whose former content the driver read back into    *)
(* `before`) and the aggregator OBJECT that was called (aobj / amode).  The  *)
(* trace specification keeps what every object holds (held, made), rejects  *)
(* a log whose claimed history is not the one it reconstructs (MALFORMED,   *)
(* a machinery failure) and accepts an episode on the CURRENT content only: *)
(* the expected weights do not depend on the presentation or the history.   *)
(***************************************************************************)
EXTENDS DualCone, IOUtils, TLCExt

Episodes == JsonDeserialize(IOEnv.TRACE_FILE)
NEp      == Len(Episodes)

VARIABLES ep, nAcc, nRej, nSkip, held, made
tvars == <<fam, ents, phase, res, ep, nAcc, nRej, nSkip, held, made>>

E == Episodes[ep]

\* exact threshold test: sign((2^e s)^2 - norm_eps^2) = sign(lam * 4^(e + a) - 1)
ThreshSign(lam, k) == IF k >= 0 THEN Sgn(lam * Pow4(k) - 1) ELSE Sgn(lam - Pow4(0 - k))

Expected(e) ==
    LET G   == TLCEval(Gram(e.J))
        L   == LamFloor(G)
        A   == AReg(G, e.reg[1], e.reg[2], L)
        sg  == ThreshSign(L, e.e + e.a)
    IN  IF sg < 0 THEN e.u
        ELSE IF e.agg = "dualproj" THEN DualProjW(A, e.u) ELSE UPGradW(A, e.u)

InFamily(e) == LET G == TLCEval(Gram(e.J)) IN
               LamIsInt(G) /\ ThreshSign(LamFloor(G), e.e + e.a) # 0

\* exact arithmetic on LOGGED weights is only attempted when they are small rationals (32-bit range);
\* the equality test E.w = Expected(E) itself never computes with them
SmallW(w)  == \A i \in DOMAIN w : w[i][2] <= 64 /\ Abs(w[i][1]) <= 1000
AwL(A, w)  == [i \in 1..Len(A) |-> RSumL([j \in 1..Len(A) |-> RMul(R(A[i][j]), w[j])])]

\* which clause of the definition the logged weights break (DualProj: the KKT system itself;
\* UPGrad: the sum of the row-wise projections)
Failing(e) ==
    LET G   == TLCEval(Gram(e.J))
        L   == LamFloor(G)
        A   == AReg(G, e.reg[1], e.reg[2], L)
        w   == e.w
        Aw  == AwL(A, w)
        m   == Len(e.J)
    IN  IF w = <<>> THEN "weights_are_not_rational_on_an_exact_instance"
        ELSE IF ThreshSign(L, e.e + e.a) < 0 THEN "below_norm_eps_weights_must_be_the_preference_vector"
        ELSE IF ~SmallW(w) THEN "weights_differ_from_the_exact_projection"
        ELSE IF \E i \in 1..m : RLt(w[i], e.u[i]) THEN "w_below_preference_vector"
        ELSE IF \E i \in 1..m : RSign(Aw[i]) < 0 THEN "regularised_cone_constraint_violated"
        ELSE IF e.agg = "upgrad" THEN "not_the_sum_of_the_row_projections_of_diag_u"
        ELSE IF \E i \in 1..m : RLt(e.u[i], w[i]) /\ RSign(Aw[i]) # 0 THEN "complementary_slackness_violated"
        ELSE "kkt_point_of_another_problem"

\* C04 on the logged weights, exactly: (G w)_i >= - reg_eps s^2 w_i  <=>  ((q G + p s^2 I) w)_i >= 0
\* "yes" | "no" | "unknown" (weights not small rationals: the harness evaluates the predicate in float64)
ConeBad(e) ==
    LET G   == TLCEval(Gram(e.J))
        L   == LamFloor(G)
        A   == AReg(G, e.reg[1], e.reg[2], L)
    IN  IF ThreshSign(L, e.e + e.a) < 0 THEN "no"
        ELSE IF e.w = <<>> \/ ~SmallW(e.w) THEN "unknown"
        ELSE IF \E i \in 1..Len(e.J) : RSign(AwL(A, e.w)[i]) < 0 THEN "yes" ELSE "no"

\* what the call was made with, as far as the objects are concerned
Content(e) == [J |-> e.J, e |-> e.e]
Args(e)    == [agg |-> e.agg, u |-> e.u, a |-> e.a, reg |-> e.reg, pdt |-> e.pdt]

\* the log's claimed presentation / history is the one reconstructed from the earlier episodes
WellFormed(e) ==
    /\ e.pdt = "none" \/ (e.pdt \in {PrefDtypes[k] : k \in DOMAIN PrefDtypes} /\ Presentable(e.u, e.pdt))
    /\ IF e.tmode = "reused" THEN e.obj \in DOMAIN held /\ held[e.obj] = e.before
                             ELSE e.tmode = "fresh" /\ e.obj \notin DOMAIN held
    /\ IF e.amode = "reused" THEN e.aobj \in DOMAIN made /\ made[e.aobj] = Args(e)
                             ELSE e.amode = "fresh" /\ e.aobj \notin DOMAIN made

TInit == /\ fam = [m |-> 1, n |-> 1, e |-> 0] /\ ents = <<>> /\ phase = "trace" /\ res = <<>>
         /\ ep = 1 /\ nAcc = 0 /\ nRej = 0 /\ nSkip = 0 /\ held = <<>> /\ made = <<>>

Step(acc, rej, skip) == /\ ep' = ep + 1 /\ nAcc' = nAcc + acc /\ nRej' = nRej + rej /\ nSkip' = nSkip + skip
                        /\ held' = [x \in DOMAIN held \cup {E.obj} |-> IF x = E.obj THEN Content(E) ELSE held[x]]
                        /\ made' = [x \in DOMAIN made \cup {E.aobj} |-> IF x = E.aobj THEN Args(E) ELSE made[x]]
                        /\ UNCHANGED <<fam, ents, phase, res>>

TMalformed == ep <= NEp /\ ~WellFormed(E)
              /\ PrintT(<<"MALFORMED", ToJson([ep |-> E.ep])>>) /\ Step(0, 0, 1)
TSkip   == ep <= NEp /\ WellFormed(E) /\ ~InFamily(E)
           /\ PrintT(<<"SKIP", ToJson([ep |-> E.ep])>>) /\ Step(0, 0, 1)
TAccept == ep <= NEp /\ WellFormed(E) /\ InFamily(E) /\ E.w = Expected(E) /\ Step(1, 0, 0)
TReject == ep <= NEp /\ WellFormed(E) /\ InFamily(E) /\ E.w # Expected(E)
           /\ PrintT(<<"REJECT", ToJson([ep |-> E.ep, clause |-> Failing(E), expected |-> Expected(E), cone |-> ConeBad(E)])>>)
           /\ Step(0, 1, 0)
TDone   == ep = NEp + 1 /\ phase = "trace"
           /\ PrintT(<<"SUMMARY", ToJson([episodes |-> NEp, accepted |-> nAcc, rejected |-> nRej, skipped |-> nSkip])>>)
           /\ phase' = "end" /\ UNCHANGED <<fam, ents, res, ep, nAcc, nRej, nSkip, held, made>>

TNext == TMalformed \/ TSkip \/ TAccept \/ TReject \/ TDone
TraceSpec == TInit /\ [][TNext]_tvars

TraceConsumed == (phase = "end") => (nAcc + nRej + nSkip = NEp)
=============================================================================
