------------------------------- MODULE SymAgg -------------------------------
(***************************************************************************)
(* Helper module of AggSymmetry (C08, C09, C10): exact, integer/rational   *)
(* definitions of the aggregators whose value is an exact function of an   *)
(* integer matrix, and exact classification predicates for the others.     *)
(*                                                                         *)
(* A matrix is carried as integer numerators Jn with one common positive   *)
(* denominator den (J = Jn / den); den is 1 or 2 (Hadamard/2 blocks).      *)
(* Output vectors are sequences of normalised rationals <<num, den>>.      *)
(* All names carry the prefix Sym (other aggregator modules are written    *)
(* independently; nothing here depends on them).                           *)
(***************************************************************************)
EXTENDS IntMat, Rat, TLC

SymIdPerm(m)     == [i \in 1..m |-> i]
SymPerm(v, p)    == [i \in 1..Len(p) |-> v[p[i]]]          \* entry i of the result = entry p[i] of v
SymSwap(p, i, j) == [k \in 1..Len(p) |-> IF k = i THEN p[j] ELSE IF k = j THEN p[i] ELSE p[k]]
SymIsPerm(p, m)  == Len(p) = m /\ Range(p) = 1..m

RECURSIVE SymSort(_)
SymSort(s) == IF s = <<>> THEN <<>>
              ELSE LET i == CHOOSE i \in 1..Len(s) : \A j \in 1..Len(s) : s[i] <= s[j]
                   IN  <<s[i]>> \o SymSort([k \in 1..(Len(s) - 1) |-> IF k < i THEN s[k] ELSE s[k + 1]])

RECURSIVE SymSeqOf(_)                 \* a finite set of integers as an increasing sequence
SymSeqOf(S) == IF S = {} THEN <<>>
               ELSE LET x == CHOOSE x \in S : \A y \in S : x <= y IN <<x>> \o SymSeqOf(S \ {x})

-----------------------------------------------------------------------------
(* integer linear algebra on the Gramian                                   *)

RECURSIVE SymIDet(_)
SymIDet(M) == IF Len(M) = 0 THEN 1
              ELSE IF Len(M) = 1 THEN M[1][1]
              ELSE SumSeq([j \in 1..Len(M) |->
                     IF M[1][j] = 0 THEN 0
                     ELSE (IF j % 2 = 1 THEN 1 ELSE -1) * M[1][j] * SymIDet(Minor(M, 1, j))])

SymSub(G, S)  == [a \in 1..Len(S) |-> [b \in 1..Len(S) |-> G[S[a]][S[b]]]]   \* principal submatrix
SymTrace(G)   == SumSeq([i \in 1..Len(G) |-> G[i][i]])
SymPD(M)      == \A k \in 1..Len(M) : SymIDet(Leading(M, k)) > 0
SymLamI(t, G) == [i \in 1..Len(G) |-> [j \in 1..Len(G) |-> (IF i = j THEN t ELSE 0) - G[i][j]]]

\* rank of J = rank of G = largest size of a non-singular principal submatrix (G is symmetric PSD)
SymRank(G) == LET sizes == {Cardinality(S) : S \in {T \in SUBSET (1..Len(G)) :
                                                       SymIDet(SymSub(G, SymSeqOf(T))) # 0}}
              IN  CHOOSE r \in sizes : \A q \in sizes : q <= r          \* {} contributes size 0

\* floor of the largest eigenvalue:  t <= lambda_max  <=>  t I - G is not positive definite
SymLamFloor(G) == LET tr == SymTrace(G)
                      below(t) == ~SymPD(SymLamI(t, G))
                  IN  CHOOSE t \in 0..tr : below(t) /\ (t = tr \/ ~below(t + 1))

SymNonZeroRows(G) == {i \in 1..Len(G) : G[i][i] # 0}
SymConflictFree(G) == \A i, j \in 1..Len(G) : G[i][j] >= 0

-----------------------------------------------------------------------------
(* aggregators that are exact on (Jn, den)                                 *)

SymConstant(w, Jn, den, n) == [j \in 1..n |-> Frac(SumSeq([i \in 1..Len(Jn) |-> w[i] * Jn[i][j]]), den)]
SymSum(Jn, den, n)         == SymConstant(Ones(Len(Jn)), Jn, den, n)
SymMean(Jn, den, n)        == [j \in 1..n |-> Frac(SumSeq(Col(Jn, j)), Len(Jn) * den)]

\* TrimmedMean(b): column-wise, drop the b smallest and b largest, mean of the rest
SymTM(b, Jn, den, n) ==
    LET m == Len(Jn) IN
    [j \in 1..n |-> LET sc == SymSort(Col(Jn, j))
                    IN  Frac(SumSeq([k \in 1..(m - 2 * b) |-> sc[b + k]]), (m - 2 * b) * den)]
\* a value tie at a trim boundary (which *row* is dropped is ambiguous, the value is not)
SymTMTie(b, Jn, n) ==
    b >= 1 /\ \E j \in 1..n : LET sc == SymSort(Col(Jn, j)) IN
                                 sc[b] = sc[b + 1] \/ sc[Len(Jn) - b] = sc[Len(Jn) - b + 1]

\* GradDrop (sign dropout), column by column.  Purity of column c: P = (abs + sum) / (2 abs) with sum / abs the sum of
\* the entries / of their absolute values (no purity on an all-zero column: 0 / 0).  A column keeps its positive
\* entries when f(P) > U and its negative entries when f(P) < U (U a uniform draw in [0, 1)); row r contributes its
\* entry in full when its sign is kept, else the leaked share leak_r = L[r] / 4.
\*   DETERMINISTIC configurations: purity functions with values in {0, 1} - f(P) = 1: "pos" whatever U, f(P) = 0:
\*   "neg" whatever U > 0.  "ge": f(P) = [P >= 1/2] (P >= 1/2 iff sum >= 0), "gt": f(P) = [P > 1/2].
\*   RANDOMISED configurations (identity, any increasing f with f(0) = 0, f(1) = 1): a sign-pure column is decided
\*   (P = 1: "pos", P = 0: "neg"), a mixed column is one of the two candidates "pos" / "neg".
SymGDSum(Jn, c) == SumSeq(Col(Jn, c))
SymGDAbs(Jn, c) == SumSeq([r \in 1..Len(Jn) |-> Abs(Jn[r][c])])
SymGDKeep(f, Jn, c) == IF SymGDAbs(Jn, c) = 0 THEN "none"
                       ELSE IF f = "ge" THEN (IF SymGDSum(Jn, c) >= 0 THEN "pos" ELSE "neg")
                       ELSE (IF SymGDSum(Jn, c) > 0 THEN "pos" ELSE "neg")
SymGDKind(Jn, c) == IF SymGDAbs(Jn, c) = 0 THEN "zero"
                    ELSE IF SymGDSum(Jn, c) = SymGDAbs(Jn, c) THEN "pos"
                    ELSE IF SymGDSum(Jn, c) = 0 - SymGDAbs(Jn, c) THEN "neg" ELSE "mixed"
SymGDCoef(l, x, ch) == IF (ch = "pos" /\ x > 0) \/ (ch = "neg" /\ x < 0) THEN 4 ELSE l
SymGDCoord(L, Jn, den, c, ch) ==
    Frac(SumSeq([r \in 1..Len(Jn) |-> SymGDCoef(L[r], Jn[r][c], ch) * Jn[r][c]]), 4 * den)
SymGDVal(f, L, Jn, den, n)   == [c \in 1..n |-> SymGDCoord(L, Jn, den, c, SymGDKeep(f, Jn, c))]
SymGDCand(ch, L, Jn, den, n) == [c \in 1..n |-> SymGDCoord(L, Jn, den, c, ch)]

\* integer square root, and Krum on the integer squared-distance matrix with score intervals
RECURSIVE SymIsqrtB(_, _, _)
SymIsqrtB(x, lo, hi) == IF lo = hi THEN lo
                        ELSE LET mid == (lo + hi + 1) \div 2
                             IN  IF mid * mid <= x THEN SymIsqrtB(x, mid, hi) ELSE SymIsqrtB(x, lo, mid - 1)
SymIsqrt(x) == SymIsqrtB(x, 0, 46340)

SymSqDist(G) == [i \in 1..Len(G) |-> [j \in 1..Len(G) |-> G[i][i] + G[j][j] - 2 * G[i][j]]]

SymRes == 256         \* distances are bracketed to 1/256:  lo <= 256 sqrt(d) <= hi
SymLo(d) == SymIsqrt(d * SymRes * SymRes)
SymHi(d) == LET r == SymLo(d) IN IF r * r = d * SymRes * SymRes THEN r ELSE r + 1

\* score of row i = sum of its (m - f - 2) smallest non-self distances; selected = k lowest scores.
\* amb = the selected SET cannot be decided from the brackets (includes every exact score tie).
SymKrumScores(G, f) ==          \* [lo, hi]: brackets of 256 * score, one per row
    LET m  == Len(G)
        D  == SymSqDist(G)
        nc == m - f - 2
        \* the nc smallest non-self squared distances of every row (sqrt is monotone)
        near == [i \in 1..m |-> LET o == SymSort([q \in 1..(m - 1) |-> D[i][IF q < i THEN q ELSE q + 1]])
                                IN  [q \in 1..nc |-> o[q]]]
        br == [i \in 1..m |-> [q \in 1..nc |-> LET d == near[i][q]
                                                    r == SymLo(d)
                                                IN  <<r, IF r * r = d * SymRes * SymRes THEN r ELSE r + 1>>]]
    IN  [lo |-> [i \in 1..m |-> SumSeq([q \in 1..nc |-> br[i][q][1]])],
         hi |-> [i \in 1..m |-> SumSeq([q \in 1..nc |-> br[i][q][2]])]]

SymKrumSelect(sc, k) ==
    LET m  == Len(sc.lo)
        S0 == {i \in 1..m : Cardinality({j \in (1..m) \ {i} : ~(sc.hi[i] < sc.lo[j])}) <= k - 1}
        ok == Cardinality(S0) = k /\ \A i \in S0, j \in (1..m) \ S0 : sc.hi[i] < sc.lo[j]
    IN  [amb |-> ~ok, sel |-> IF ok THEN S0 ELSE {}]

SymKrum(G, f, k) == SymKrumSelect(SymKrumScores(G, f), k)

SymKrumValue(sel, k, Jn, den, n) ==
    [j \in 1..n |-> Frac(SumSeq([i \in 1..Len(Jn) |-> IF i \in sel THEN Jn[i][j] ELSE 0]), k * den)]

-----------------------------------------------------------------------------
(* MGDA (Frank-Wolfe): exact argmin ties of the first two iterations        *)

\* integer formulation (alpha = A / D with one common denominator; no rational blow-up)
SymIArgMinTie(v) == \E i, j \in 1..Len(v) : i # j /\ (\A q \in 1..Len(v) : v[i] <= v[q]) /\ v[i] = v[j]
SymIArgMin(v)    == CHOOSE i \in 1..Len(v) : \A q \in 1..Len(v) : v[i] <= v[q] /\ (v[q] = v[i] => i <= q)

\* first iteration of mgda.py from alpha = 1/m with exact line search:
\*   ga = G 1 (true value ga / m),  a = ga[t]/m,  b = sum(ga)/m^2,  c = G[t][t]
\*   gamma = (b - a) / (b + c - 2a) = gn / gd,   alpha2 = ((gd - gn) 1 + gn m e_t) / (gd m)
SymMGDATies(G) ==
    LET m   == Len(G)
        ga  == MatVec(G, Ones(m))
        t   == SymIArgMin(ga)
        sg  == SumSeq(ga)
        c   == G[t][t]
        one == c * m <= ga[t]                         \* c <= a : gamma = 1
        zer == ~one /\ sg <= m * ga[t]                \* b <= a : gamma = 0
        gn  == IF one THEN 1 ELSE IF zer THEN 0 ELSE sg - m * ga[t]
        gd  == IF one \/ zer THEN 1 ELSE sg + c * m * m - 2 * m * ga[t]
        A2  == [i \in 1..m |-> (gd - gn) + (IF i = t THEN gn * m ELSE 0)]
        tie1 == SymIArgMinTie(ga)
    IN  [tie1 |-> tie1, tie2 |-> tie1 \/ SymIArgMinTie(MatVec(G, A2)),
         gn |-> gn, gd |-> gd]      \* first line-search step gamma = gn / gd  (gd = m^2 (b + c - 2a))

-----
(* IMTL-G: its guard compares |sum(pinv(G) d)| with 0; bracket  sum_i y_i sqrt(G_ii),            *)
(* y = G^-1 1 (non-zero rows only), to 1/256 and flag instances whose bracket contains 0          *)
SymIMTLGDegenerate(G) ==
    LET nz == SymSeqOf(SymNonZeroRows(G))
        H  == SymSub(G, nz)
        r  == Len(nz)
    IN  IF r = 0 \/ SymIDet(H) = 0 THEN TRUE
        ELSE LET \* y = adj(H) 1 = det(H) H^-1 1 in integers (det(H) > 0: H is a Gramian of independent rows)
                 y  == [i \in 1..r |-> SymIDet(ReplaceCol(H, i, [q \in 1..r |-> 1]))]
                 lo == SumSeq([i \in 1..r |-> y[i] * (IF y[i] >= 0 THEN SymLo(H[i][i]) ELSE SymHi(H[i][i]))])
                 hi == SumSeq([i \in 1..r |-> y[i] * (IF y[i] >= 0 THEN SymHi(H[i][i]) ELSE SymLo(H[i][i]))])
             IN  lo <= 0 /\ hi >= 0

-----------------------------------------------------------------------------
(* ConFIG on matrices with linearly independent COLUMNS (tall matrices, m >= n = rank, necessarily with    *)
(* dependent rows when m > n) whose non-zero rows share ONE squared norm rho.                              *)
(* ConFIG normalises the rows (U = J / sqrt(rho) on the non-zero rows, 0 on the others), takes the minimum *)
(* norm least squares solution x of U x = w (w = ones or the preference vector), and returns               *)
(*     A(J) = (sum_i <g_i, u>) u ,  u = x / |x| .                                                           *)
(* With independent columns x = (U^T U)^-1 U^T w = sqrt(rho) (J^T J)^-1 J^T w, so the DIRECTION is the     *)
(* integer vector y0 = adj(J^T J) J^T w (Cramer), and  A(J) = (sum_i <g_i, y>) y / <y, y>  is RATIONAL.     *)
(* A positive row scaling does not change U: A(diag(c) J) = (sum_i c_i d_i) y / <y, y>, d_i = <g_i, y>,    *)
(* a linear form in c whose coefficients d_i have BOTH signs as soon as rows conflict - the total length    *)
(* then changes sign with c.  y0 = 0 (J^T w = 0) is the degenerate class: the exact direction is zero.      *)
SymColGram(J0) == LET n == Len(J0[1])
                  IN  [a \in 1..n |-> [b \in 1..n |-> SumSeq([i \in 1..Len(J0) |-> J0[i][a] * J0[i][b]])]]
SymEqualNorm(G) == \A i, j \in SymNonZeroRows(G) : G[i][i] = G[j][j]
RECURSIVE SymVGcd(_)
SymVGcd(v) == IF v = <<>> THEN 0 ELSE Gcd(Abs(Head(v)), SymVGcd(Tail(v)))
SymConFIG(Jn, w) ==
    LET n  == Len(Jn[1])
        C  == SymColGram(Jn)
        t  == VecMat(w, Jn, n)                                            \* J^T w (zero rows contribute nothing)
        y0 == [j \in 1..n |-> SymIDet(ReplaceCol(C, j, t))]               \* det(C) C^-1 t
        g  == SymVGcd(y0)
        y  == IF g = 0 THEN y0 ELSE [j \in 1..n |-> y0[j] \div g]
    IN  [y0 |-> y0, det |-> SymIDet(C), t |-> t, y |-> y, d |-> MatVec(Jn, y), yy |-> Dot(y, y), deg |-> g = 0]

\* sign of the linear form  l(c) = sum_i c_i d_i  for c_i < 2^23 and |d_i| small, without leaving 32 bits:
\* l = L0 + 2^10 L1 + 2^20 L2 with L_k = sum_i digit_k(c_i) d_i (base-1024 digits, the top one unbounded)
SymDigit(c, d, k) == SumSeq([i \in 1..Len(c) |-> (IF k = 2 THEN c[i] \div 1048576
                                                  ELSE IF k = 1 THEN (c[i] \div 1024) % 1024 ELSE c[i] % 1024) * d[i]])
SymSignL(c, d) == LET s1 == SymDigit(c, d, 1) + (SymDigit(c, d, 0) \div 1024)       \* floor division: carries
                      r0 == SymDigit(c, d, 0) % 1024
                      s2 == SymDigit(c, d, 2) + (s1 \div 1024)
                      r1 == s1 % 1024
                  IN  IF s2 > 0 THEN 1 ELSE IF s2 < 0 THEN 0 - 1 ELSE IF r1 > 0 \/ r0 > 0 THEN 1 ELSE 0

-----------------------------------------------------------------------------
(* classification of an integer instance (all fields are invariant under the whole group)       *)
SymClassify(J0) ==
    LET G  == Gram(J0)
        m  == Len(J0)
        nz == SymSeqOf(SymNonZeroRows(G))
        rk == SymRank(G)
        mg == SymMGDATies(G)
    IN  [rank        |-> rk,
         fullRowRank |-> rk = m,
         rankUnamb   |-> rk = Len(nz),             \* the non-zero rows are linearly independent
         zeroRows    |-> m - Len(nz),
         detG        |-> SymIDet(G),
         detNZ       |-> SymIDet(SymSub(G, nz)),   \* >= 1 iff rankUnamb
         trG         |-> SymTrace(G),
         lamFloor    |-> SymLamFloor(G),           \* floor(sigma_max^2)
         conflictFree |-> SymConflictFree(G),
         mgdaTie1    |-> mg.tie1,
         mgdaTie2    |-> mg.tie2,
         mgdaGd      |-> mg.gd,
         imtlgDegenerate |-> SymIMTLGDegenerate(G),
         \* independent COLUMNS (rank = n; invariant under row permutations and square orthogonal Q, NOT under
         \* appended zero columns) and one common squared norm of the non-zero rows: ConFIG is exact (SymConFIG)
         detCol      |-> SymIDet(SymColGram(J0)),  \* det(J^T J) >= 1 iff the columns are independent
         colFull     |-> SymIDet(SymColGram(J0)) # 0,
         equalNorm   |-> SymEqualNorm(G)]
=============================================================================
