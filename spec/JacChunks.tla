----------------------------- MODULE JacChunks -----------------------------
(***************************************************************************)
(* Row-chunking plan of the Jacobian computation (torchjd Jac transform).  *)
(*                                                                         *)
(* A call differentiates m rows (one per scalar of `tensors`, resp. one    *)
(* per loss for mtl_backward) with parallel_chunk_size k (k = 0 encodes    *)
(* None).  Every *sweep* is one traversal of the autograd graph between    *)
(* the differentiated tensors and the parameters; a sweep of more than one *)
(* row is necessarily batched (vmap).                                      *)
(*                                                                         *)
(* Two layers (DESIGN.md 6):                                               *)
(*   PropNext  - what property C07 allows: any partition into              *)
(*               ceil(m/Cap) sweeps of <= Cap rows, no batching at all     *)
(*               when Cap = 1 or m = 1, every row computed exactly once    *)
(*               and assembled at its own position;                        *)
(*   ImplNext  - what today's code does: full blocks [i*Cap,(i+1)*Cap)     *)
(*               then the remainder, vmap iff the block has > 1 row, all   *)
(*               sweeps but the last retain the graph, the last one uses   *)
(*               the caller's flag.                                        *)
(* TLC checks Impl => Prop (refinement) and the invariants below for every *)
(* (m, k, retain) with m <= MaxM, k in {None, 1 .. m+2}, plus the sparse    *)
(* family m in LargeM, k in LargeK(m).                                     *)
(***************************************************************************)
EXTENDS Integers, Sequences, FiniteSets, TLC, Json

CONSTANTS MaxM,      \* every m in 1..MaxM with every k in {None, 1..m+2} (exhaustive)
          LargeM     \* a sparse set of larger row counts (each > MaxM), each with the ladder LargeK(m) of chunk sizes

VARIABLES m,             \* number of rows
          k,             \* parallel_chunk_size, 0 = None
          retainCaller,  \* retain_graph passed by the caller
          done,          \* set of rows already differentiated
          sweeps,        \* sequence of [rows, vmap, retain] records, one per sweep
          assembled,     \* sequence of row ids in the order they are stacked into the Jacobian
          status         \* "running" | "done"

vars == <<m, k, retainCaller, done, sweeps, assembled, status>>

CeilDiv(a, b) == (a + b - 1) \div b
Cap       == IF k = 0 THEN m ELSE k
NSweeps   == CeilDiv(m, Cap)
Rows      == 1..m

\* chunk sizes tried for a large m: None, 1, a small odd one, around typical internal batching limits
\* (2^5, 2^6 and their neighbours), and around m itself
LargeK(mm) == {0, 1, 7, 31, 32, 33, 64, 65, mm - 1, mm, mm + 1}
MaxAll == IF LargeM = {} THEN MaxM ELSE CHOOSE x \in LargeM : \A y \in LargeM : x >= y
TypeOK == /\ m \in (1..MaxM) \cup LargeM /\ k \in 0..(MaxAll + 2) /\ retainCaller \in BOOLEAN
          /\ done \subseteq Rows /\ status \in {"running", "done"}
          /\ \A i \in DOMAIN sweeps : sweeps[i].rows \in 1..m

Init == /\ m \in (1..MaxM) \cup LargeM
        /\ k \in (IF m <= MaxM THEN 0..(m + 2) ELSE LargeK(m))
        /\ retainCaller \in BOOLEAN
        /\ done = {} /\ sweeps = <<>> /\ assembled = <<>> /\ status = "running"

-----------------------------------------------------------------------------
(* Property layer                                                          *)

\* named conjuncts of the guard, so that a rejected trace can name the failing clause
G_Size(r)      == r >= 1 /\ r <= Cap                         \* "sweeps of at most k rows"
G_Fits(r)      == Cardinality(done) + r <= m                 \* no row differentiated twice / too many
G_Count        == Len(sweeps) + 1 <= NSweeps                 \* "exactly ceil(rows/k) sweeps"
G_Batch(r, vm) == /\ (r > 1 => vm)                           \* several rows in one sweep = batched
                  /\ ((Cap = 1 \/ m = 1) => ~vm)             \* strictly sequential: never vmap

PropSweepGuard(r, vm) == status = "running" /\ G_Size(r) /\ G_Fits(r) /\ G_Count /\ G_Batch(r, vm)

PropSweepFailing(r, vm) ==
    IF status # "running" THEN "sweep_after_finish"
    ELSE IF ~G_Size(r) THEN "sweep_has_more_rows_than_chunk_size"
    ELSE IF ~G_Fits(r) THEN "more_rows_differentiated_than_exist"
    ELSE IF ~G_Count THEN "more_than_ceil_m_over_k_sweeps"
    ELSE IF ~G_Batch(r, vm) THEN
         (IF r > 1 /\ ~vm THEN "multi_row_sweep_not_batched" ELSE "vmap_used_in_sequential_mode")
    ELSE "none"

\* r rows not yet done are taken; whatever the sizes of the sweeps, each row ends up at its own
\* position of the assembled Jacobian (this is "the update does not depend on k")
PropSweep(r, vm, ret) ==
    /\ PropSweepGuard(r, vm)
    \* which r rows are taken is not observable and irrelevant to every guard (only the number
    \* of rows done matters), so the property layer takes, w.l.o.g., the r lowest free ones
    /\ done' = done \cup {i \in Rows : i > Cardinality(done) /\ i <= Cardinality(done) + r}
    /\ sweeps' = Append(sweeps, [rows |-> r, vmap |-> vm, retain |-> ret])
    \* `assembled` is left unconstrained here (how partial results are buffered is free); it is
    \* pinned at PropFinish.  TraceJacChunks conjoins assembled' = assembled to bind it.
    /\ UNCHANGED <<m, k, retainCaller, status>>

PropFinishGuard == status = "running" /\ done = Rows /\ Len(sweeps) = NSweeps
PropFinishFailing ==
    IF done # Rows THEN "rows_missing_at_finish"
    ELSE IF Len(sweeps) # NSweeps THEN "number_of_sweeps_differs_from_ceil_m_over_k"
    ELSE "none"

PropFinish == /\ PropFinishGuard
              /\ status' = "done"
              /\ assembled' = [i \in 1..m |-> i]
              /\ UNCHANGED <<m, k, retainCaller, done, sweeps>>

PropNext == (\E r \in 1..m, vm \in BOOLEAN, ret \in BOOLEAN : PropSweep(r, vm, ret)) \/ PropFinish
PropSpec == Init /\ [][PropNext]_vars

-----------------------------------------------------------------------------
(* Implementation-shaped layer (jac.py: Jac._differentiate, _get_jac_matrix_chunk)        *)

ImplRowsOfSweep(i) ==       \* i = 0-based sweep index
    LET start == i * Cap + 1
        end   == IF i < NSweeps - 1 THEN (i + 1) * Cap ELSE m
    IN  start..end

ImplSweep ==
    /\ status = "running"
    /\ Len(sweeps) < NSweeps
    /\ LET i    == Len(sweeps)
           S    == ImplRowsOfSweep(i)
           r    == Cardinality(S)
           last == (i = NSweeps - 1)
       IN  /\ done' = done \cup S
           /\ sweeps' = Append(sweeps, [rows |-> r, vmap |-> (r > 1),
                                        retain |-> IF last THEN retainCaller ELSE TRUE])
           /\ assembled' = assembled \o [j \in 1..r |-> (i * Cap) + j]     \* torch.vstack(chunks)
    /\ UNCHANGED <<m, k, retainCaller, status>>

ImplFinish == /\ status = "running" /\ Len(sweeps) = NSweeps
              /\ status' = "done"
              /\ UNCHANGED <<m, k, retainCaller, done, sweeps, assembled>>

ImplNext == ImplSweep \/ ImplFinish
ImplSpec == Init /\ [][ImplNext]_vars
FairImplSpec == ImplSpec /\ WF_vars(ImplNext)

\* The plan the implementation layer predicts for the current (m, k, retain): used for DRIFT notes
ImplPlan == [i \in 1..NSweeps |->
               LET r == Cardinality(ImplRowsOfSweep(i - 1))
               IN [rows |-> r, vmap |-> (r > 1),
                   retain |-> IF i = NSweeps THEN retainCaller ELSE TRUE]]

-----------------------------------------------------------------------------
(* Properties checked by TLC on ImplSpec                                                *)

SumRows == LET F[i \in 0..Len(sweeps)] == IF i = 0 THEN 0 ELSE F[i - 1] + sweeps[i].rows
           IN  F[Len(sweeps)]

\* C07, counting clause
CountAndSize == status = "done" =>
                   /\ Len(sweeps) = NSweeps
                   /\ SumRows = m
                   /\ \A i \in DOMAIN sweeps : sweeps[i].rows <= Cap

\* C07, sequential clause
NoVmapWhenSequential == (Cap = 1 \/ m = 1) => \A i \in DOMAIN sweeps : ~sweeps[i].vmap

\* C07, value clause: the assembled Jacobian has every row exactly once, at its own position,
\* whatever the chunk size (so the aggregated update cannot depend on k)
AssembledInOrder == status = "done" => assembled = [i \in 1..m |-> i]

\* C13, internal part: no sweep but the last may free the graph
OnlyLastMayFree == \A i \in DOMAIN sweeps : (i < NSweeps) => sweeps[i].retain
LastUsesCallerFlag == status = "done" => sweeps[Len(sweeps)].retain = retainCaller

\* at termination the implementation agrees with the plan it exports
PlanIsWhatHappens == status = "done" => sweeps = ImplPlan

\* the implementation always terminates in NSweeps + 1 steps (no deadlock before "done")
Terminates == <>(status = "done")

-----------------------------------------------------------------------------
(* Scenario export for specification -> code replay: one line per (m, k, retain)          *)

\* a fixed integer Jacobian with pairwise different rows and a row-order-sensitive weighting
JEntry(r, c)  == ((r * 7 + c * 3 + r * c) % 5) - 2
NCols         == 3
Weight(r)     == r
ExpectedGrad  == [c \in 1..NCols |->
                    LET F[r \in 0..m] == IF r = 0 THEN 0 ELSE F[r - 1] + Weight(r) * JEntry(r, c)
                    IN  F[m]]

Scenario == [m |-> m, k |-> k, retain |-> retainCaller, plan |-> ImplPlan,
             nsweeps |-> NSweeps,
             jac |-> [r \in 1..m |-> [c \in 1..NCols |-> JEntry(r, c)]],
             weights |-> [r \in 1..m |-> Weight(r)],
             expected |-> ExpectedGrad]

Export == (status = "done") => PrintT(<<"SCN", ToJson(Scenario)>>)
=============================================================================
