--------------------------- MODULE TraceImpartial ---------------------------
(***************************************************************************)
(* Trace validation for Impartial (code -> specification), predicate       *)
(* level: every episode is one random integer matrix J (and preference     *)
(* vector u) on which the harness evaluated, in float64 on the real        *)
(* aggregator's output, the defining equalities of C17 and logged the      *)
(* residuals in integer units of eps x natural scale.  The specification   *)
(* decides EXACTLY whether J is inside the quantifier (full row rank and   *)
(* condition bound, Impartial!AdmitGram / AdmitUnit) and how many units    *)
(* the instance is allowed (64 x its exact condition bound).               *)
(* Episodes with k > 0 were run on the WIDE presentation of J (every column *)
(* repeated 4^k times, scaled 2^-k: Impartial!Widen): the Gramian, hence   *)
(* admissibility and condition bound, are those of J (Impartial!WideOK).   *)
(* IMTL-G and Aligned-MTL reduce over the n columns only in the Gramian    *)
(* and the row norms, which are exact for these integer matrices in        *)
(* float64 (Impartial!Exact64, decided here per episode): same allowance.  *)
(* ConFIG takes the pseudo-inverse of the inexact m x n unit-row matrix:   *)
(* its allowance carries the worst-case factor n of an n-term sum.         *)
(* Verdicts are total: accepted | skipped (outside the quantifier) |       *)
(* REJECT with the failing clause.                                         *)
(***************************************************************************)
EXTENDS Impartial, IOUtils, TLCExt

Episodes == JsonDeserialize(IOEnv.TRACE_FILE)
NEp      == Len(Episodes)

VARIABLES ep, nAcc, nRej, nSkip, nWide, worstPct, stage
tvars == <<fam, inst, ep, nAcc, nRej, nSkip, nWide, worstPct, stage>>

E == Episodes[ep]

TInit == fam = "trace" /\ inst = <<"none">> /\ ep = 1 /\ nAcc = 0 /\ nRej = 0 /\ nSkip = 0 /\ nWide = 0 /\ worstPct = 0 /\ stage = "run"

Admissible(e) == LET G == Gram(e.J) IN IF e.agg = "ConFIG" THEN AdmitUnit(G) ELSE AdmitGram(G)
Allowed(e)    == LET G == Gram(e.J) IN IF e.agg = "ConFIG" THEN AllowedUnitsU(G) ELSE AllowedUnits(G)

\* number of columns of the matrix the aggregator was run on; the units of a ConFIG residual on a wide
\* episode are n eps (x <= a n  <=>  CeilDiv(x, n) <= a for integers)
Width(e)  == Len(e.J[1]) * Pow(4, e.k)
WF(e)     == IF e.agg = "ConFIG" /\ e.k > 0 THEN Width(e) ELSE 1
U(e, x)   == CeilDiv(x, WF(e))
WideExact(e) == e.k > 0 => (e.k <= 11 /\ Exact64(e.J, e.k))

Failing(e) ==
    LET o == e.obs  a == Allowed(e) IN
    IF ~o.finite THEN "result_not_finite"
    ELSE IF e.agg = "IMTLG" THEN
         (IF o.sum_units > a THEN "weights_do_not_sum_to_one"
          ELSE IF o.proj_units > a THEN "projections_onto_the_rows_differ" ELSE "none")
    ELSE IF e.agg = "ConFIG" THEN
         (IF ~o.pos THEN "cosine_not_positive"
          ELSE IF U(e, o.cos_units) > a THEN "cosines_not_proportional_to_preference"
          ELSE IF U(e, o.len_units) > a THEN "length_is_not_the_sum_of_projections" ELSE "none")
    ELSE (IF o.orth_units > a THEN "rebalanced_rows_not_orthogonal_of_length_sigma_min"
          ELSE IF o.comb_units > a THEN "not_the_preference_weighted_combination" ELSE "none")

\* largest residual of an accepted episode, in per cent of its allowance (evidence only)
MaxI(a, b) == IF a > b THEN a ELSE b
UsedPct(e) == LET o == e.obs  a == Allowed(e)
                  u == IF e.agg = "IMTLG" THEN MaxI(o.sum_units, o.proj_units)
                       ELSE IF e.agg = "ConFIG" THEN MaxI(U(e, o.cos_units), U(e, o.len_units))
                       ELSE MaxI(o.orth_units, o.comb_units)
              IN  (100 * u) \div a

TStep ==
    /\ stage = "run" /\ ep <= NEp
    /\ Assert(WideExact(E), <<"wide episode whose reductions are not exact", E.ep>>)
    /\ nWide' = nWide + (IF E.k > 0 /\ Admissible(E) THEN 1 ELSE 0)
    /\ IF ~Admissible(E)
       THEN nSkip' = nSkip + 1 /\ UNCHANGED <<nAcc, nRej, worstPct>>
       ELSE LET f == Failing(E) IN
            IF f = "none" THEN nAcc' = nAcc + 1 /\ worstPct' = MaxI(worstPct, UsedPct(E)) /\ UNCHANGED <<nRej, nSkip>>
            ELSE /\ PrintT(<<"REJECT", ToJson([ep |-> E.ep, clause |-> f, allowed |-> Allowed(E)])>>)
                 /\ nRej' = nRej + 1 /\ UNCHANGED <<nAcc, nSkip, worstPct>>
    /\ ep' = ep + 1
    /\ UNCHANGED <<fam, inst, stage>>

TDone == /\ stage = "run" /\ ep = NEp + 1
         /\ PrintT(<<"SUMMARY", ToJson([episodes |-> NEp, accepted |-> nAcc, rejected |-> nRej,
                                         skipped |-> nSkip, wide_admissible |-> nWide,
                                         worst_percent_of_allowance |-> worstPct])>>)
         /\ stage' = "end"
         /\ UNCHANGED <<fam, inst, ep, nAcc, nRej, nSkip, nWide, worstPct>>

TNext == TStep \/ TDone
TraceSpec == TInit /\ [][TNext]_tvars
TraceConsumed == (stage = "end") => (nAcc + nRej + nSkip = NEp)
=============================================================================
