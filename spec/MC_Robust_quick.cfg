CONSTANT MaxM = 6
CONSTANT NCols = 3
CONSTANT HSeeds = {1, 2}
CONSTANT NPat = 4
CONSTANT Kinds = {"tm", "krum"}
CONSTANT TSeeds = {5001, 5002}
CONSTANT ManyM = {27, 40}
CONSTANT ManySteps = 2
CONSTANT HistM = {}
CONSTANT HistLen = 0
CONSTANT HistPats = {}
SPECIFICATION Spec
INVARIANT TypeOK
INVARIANT RejectIsTerminal
INVARIANT TMImplIsProp
INVARIANT TMRobust
INVARIANT KrumChecks
INVARIANT KrumImplIsProp
INVARIANT OffsetInvariant
INVARIANT Export
CHECK_DEADLOCK FALSE
