------------------------------ MODULE Autograd ------------------------------
(***************************************************************************)
(* The abstract autograd universe (DESIGN.md 3.2): programs over flat      *)
(* integer vectors, their forward values, the TRUE Jacobian by forward     *)
(* mode (tangent propagation - this is what the properties talk about) and *)
(* reverse mode VJP (what torch.autograd.grad returns, None materialised   *)
(* as zeros - this is what the pipeline model uses).  Everything is exact  *)
(* integer arithmetic.                                                     *)
(*                                                                         *)
(* A program is a sequence of nodes; node i may only refer to nodes < i:   *)
(*   [op |-> "leaf",   size, val, rg]       user tensor (rg = requires_grad)*)
(*   [op |-> "lin",    a, mat]              y = mat . x   (constant matrix) *)
(*   [op |-> "scale",  a, c]                y = c * x                       *)
(*   [op |-> "add",    a, b]                y = a + b   (size-1 broadcast)  *)
(*   [op |-> "mul",    a, b]                y = a * b   (size-1 broadcast)  *)
(*   [op |-> "cat",    a, b]                y = cat(a, b)                   *)
(*   [op |-> "detach", a]                   y = a.detach()                  *)
(* Tensor shapes are a presentation matter of the harness; the semantics   *)
(* is on the flattened (row-major) vector.                                 *)
(***************************************************************************)
EXTENDS IntMat, TLC

\* TLC keeps [x \in S |-> e] as a closure and re-evaluates e on every application; TLCEval forces a
\* value once.  It is the identity semantically.
Force(v) == TLCEval(v)

Ops == {"leaf", "lin", "scale", "add", "mul", "cat", "detach"}
Unary  == {"lin", "scale", "detach"}
Binary == {"add", "mul", "cat"}

Args(nd) == IF nd.op \in Unary THEN <<nd.a>> ELSE IF nd.op \in Binary THEN <<nd.a, nd.b>> ELSE <<>>

\* ---------------------------------------------------------------- sizes, values
RECURSIVE SizesUpTo(_, _)
SizesUpTo(P, n) ==
    IF n = 0 THEN <<>>
    ELSE LET prev == SizesUpTo(P, n - 1)
             nd   == P[n]
             sz   == CASE nd.op = "leaf"   -> nd.size
                       [] nd.op = "lin"    -> Len(nd.mat)
                       [] nd.op = "scale"  -> prev[nd.a]
                       [] nd.op = "detach" -> prev[nd.a]
                       [] nd.op = "cat"    -> prev[nd.a] + prev[nd.b]
                       [] OTHER            -> IF prev[nd.a] >= prev[nd.b] THEN prev[nd.a] ELSE prev[nd.b]
         IN  Append(prev, sz)
Sizes(P) == SizesUpTo(P, Len(P))

\* broadcast a size-1 vector to n entries
Bc(v, n) == IF Len(v) = n THEN v ELSE [i \in 1..n |-> v[1]]

RECURSIVE ValsUpTo(_, _)
ValsUpTo(P, n) ==
    IF n = 0 THEN <<>>
    ELSE LET prev == ValsUpTo(P, n - 1)
             nd   == P[n]
             v    == CASE nd.op = "leaf"   -> nd.val
                       [] nd.op = "lin"    -> MatVec(nd.mat, prev[nd.a])
                       [] nd.op = "scale"  -> VScale(nd.c, prev[nd.a])
                       [] nd.op = "detach" -> prev[nd.a]
                       [] nd.op = "cat"    -> prev[nd.a] \o prev[nd.b]
                       [] nd.op = "add"    -> LET n2 == IF Len(prev[nd.a]) >= Len(prev[nd.b]) THEN Len(prev[nd.a]) ELSE Len(prev[nd.b])
                                              IN VAdd(Bc(prev[nd.a], n2), Bc(prev[nd.b], n2))
                       [] nd.op = "mul"    -> LET n2 == IF Len(prev[nd.a]) >= Len(prev[nd.b]) THEN Len(prev[nd.a]) ELSE Len(prev[nd.b])
                                              IN VMul(Bc(prev[nd.a], n2), Bc(prev[nd.b], n2))
         IN  Append(prev, Force(v))
Vals(P) == ValsUpTo(P, Len(P))

\* requires_grad propagation
RECURSIVE RGUpTo(_, _)
RGUpTo(P, n) ==
    IF n = 0 THEN <<>>
    ELSE LET prev == RGUpTo(P, n - 1)
             nd   == P[n]
             r    == CASE nd.op = "leaf"   -> nd.rg
                       [] nd.op = "detach" -> FALSE
                       [] nd.op \in Unary  -> prev[nd.a]
                       [] OTHER            -> prev[nd.a] \/ prev[nd.b]
         IN  Append(prev, r)
RG(P) == RGUpTo(P, Len(P))

Leaves(P)   == {i \in 1..Len(P) : P[i].op = "leaf"}
IsLeaf(P,i) == P[i].op = "leaf"

\* ---------------------------------------------------------------- forward mode: the true Jacobian
\* Columns: the scalars of ALL leaves, concatenated in node order.
LeafSeq(P) == LET RECURSIVE F(_)
                  F(n) == IF n = 0 THEN <<>> ELSE IF P[n].op = "leaf" THEN Append(F(n - 1), n) ELSE F(n - 1)
              IN  F(Len(P))
RECURSIVE ColOffsetUpTo(_, _)
ColOffsetUpTo(P, n) ==     \* number of leaf scalars in nodes 1..n
    IF n = 0 THEN 0 ELSE ColOffsetUpTo(P, n - 1) + (IF P[n].op = "leaf" THEN P[n].size ELSE 0)
TotalCols(P)    == ColOffsetUpTo(P, Len(P))
LeafOffset(P,l) == ColOffsetUpTo(P, l - 1)      \* 0-based column offset of leaf l

\* replicate a 1-row Jacobian to n rows (broadcast of a size-1 operand)
BcRows(J, n) == IF Len(J) = n THEN J ELSE [i \in 1..n |-> J[1]]

\* FJ[n] = d node_n / d (all leaf scalars), a Size(n) x TotalCols matrix.
\* A leaf that does not require grad, or anything behind detach, is a constant: zero Jacobian.
RECURSIVE FwdJacUpTo(_, _, _)
FwdJacUpTo(P, vals, n) ==
    IF n = 0 THEN <<>>
    ELSE LET prev == FwdJacUpTo(P, vals, n - 1)
             nd   == P[n]
             C    == TotalCols(P)
             j    == CASE nd.op = "leaf"   -> IF nd.rg
                                              THEN [i \in 1..nd.size |-> Unit(C, LeafOffset(P, n) + i)]
                                              ELSE ZeroMat(nd.size, C)
                       [] nd.op = "lin"    -> MatMul(nd.mat, prev[nd.a], C)
                       [] nd.op = "scale"  -> MScale(nd.c, prev[nd.a])
                       [] nd.op = "detach" -> ZeroMat(Len(vals[n]), C)
                       [] nd.op = "cat"    -> VCat(prev[nd.a], prev[nd.b])
                       [] nd.op = "add"    -> LET n2 == Len(vals[n])
                                              IN MAdd(BcRows(prev[nd.a], n2), BcRows(prev[nd.b], n2))
                       [] nd.op = "mul"    -> LET n2 == Len(vals[n])
                                              IN MAdd(RowScale(Bc(vals[nd.b], n2), BcRows(prev[nd.a], n2)),
                                                      RowScale(Bc(vals[nd.a], n2), BcRows(prev[nd.b], n2)))
         IN  Append(prev, Force(j))
FwdJac(P) == FwdJacUpTo(P, Force(Vals(P)), Len(P))

\* TrueJac(P, outs, ins): rows = scalars of the tensors `outs` (sequence of node ids, flattened, in
\* the order given), columns = scalars of the leaves `ins` (sequence of leaf ids, in order given)
RECURSIVE ConcatRows(_, _)
ConcatRows(FJ, outs) == IF outs = <<>> THEN <<>> ELSE FJ[Head(outs)] \o ConcatRows(FJ, Tail(outs))
RECURSIVE PickCols(_, _, _)
PickCols(P, row, ins) == IF ins = <<>> THEN <<>>
                         ELSE Slice(row, LeafOffset(P, Head(ins)) + 1, P[Head(ins)].size) \o PickCols(P, row, Tail(ins))
TrueJac(P, outs, ins) == LET full == Force(ConcatRows(Force(FwdJac(P)), outs))
                         IN  [r \in 1..Len(full) |-> PickCols(P, full[r], ins)]
\* block of TrueJac belonging to one leaf
TrueJacBlock(P, outs, l) == TrueJac(P, outs, <<l>>)

\* ---------------------------------------------------------------- reverse mode: VJP
\* cts: function node id -> cotangent vector for the nodes in `outs`.
\* Returns the sequence of adjoints of all nodes (zeros where nothing flows = materialised None).
PushTo(adj, i, contrib) == [adj EXCEPT ![i] = VAdd(@, contrib)]
SumAll(v) == <<SumSeq(v)>>
\* reduce a cotangent of size n back to an operand of size sz (undo broadcasting)
Unbc(g, sz) == IF Len(g) = sz THEN g ELSE SumAll(g)

RECURSIVE BackFrom(_, _, _, _, _)
BackFrom(P, vals, rg, n, adj) ==
    IF n = 0 THEN adj
    ELSE LET nd == P[n]
             g  == adj[n]
             sz == [i \in 1..Len(P) |-> Len(vals[i])]
             adj2 ==
               IF ~rg[n] THEN adj      \* no grad_fn: nothing flows below (constants, detach, rg=False)
               ELSE CASE nd.op = "leaf"   -> adj
                      [] nd.op = "lin"    -> PushTo(adj, nd.a, VecMat(g, nd.mat, sz[nd.a]))
                      [] nd.op = "scale"  -> PushTo(adj, nd.a, VScale(nd.c, g))
                      [] nd.op = "detach" -> adj
                      [] nd.op = "cat"    -> PushTo(PushTo(adj, nd.a, Slice(g, 1, sz[nd.a])),
                                                    nd.b, Slice(g, sz[nd.a] + 1, sz[nd.b]))
                      [] nd.op = "add"    -> PushTo(PushTo(adj, nd.a, Unbc(g, sz[nd.a])), nd.b, Unbc(g, sz[nd.b]))
                      [] nd.op = "mul"    -> PushTo(PushTo(adj, nd.a, Unbc(VMul(g, Bc(vals[nd.b], Len(g))), sz[nd.a])),
                                                    nd.b, Unbc(VMul(g, Bc(vals[nd.a], Len(g))), sz[nd.b]))
         IN  BackFrom(P, vals, rg, n - 1, Force(adj2))

\* adjoints of all nodes for cotangents ct[o] on the output nodes o \in DOMAIN ct
VJPAll(P, ct) ==
    LET vals == Force(Vals(P))
        init == [i \in 1..Len(P) |-> IF i \in DOMAIN ct THEN ct[i] ELSE Zeros(Len(vals[i]))]
    IN  BackFrom(P, vals, RG(P), Len(P), init)
\* what torch.autograd.grad(outs, ins, grad_outputs = ct) returns, concatenated over `ins`
RECURSIVE ConcatAdj(_, _)
ConcatAdj(adj, ins) == IF ins = <<>> THEN <<>> ELSE adj[Head(ins)] \o ConcatAdj(adj, Tail(ins))
VJP(P, ct, ins) == ConcatAdj(VJPAll(P, ct), ins)

\* VJP w.r.t. arbitrary *nodes* (used for features in mtl_backward): differentiate w.r.t. an
\* intermediate node t = stop the flow at t and read its adjoint.  Reading adj[t] after a full
\* back-propagation is the same thing, because adj[t] is complete before t is processed.
\* (BackFrom processes nodes in decreasing order and t only receives from nodes > t.)

\* row r of the Jacobian by reverse mode: cotangent = r-th unit vector over the flattened outs
RECURSIVE OutOffsets(_, _)
OutOffsets(sz, outs) == IF outs = <<>> THEN <<>>
                        ELSE <<0>> \o [i \in 1..(Len(outs) - 1) |-> sz[Head(outs)] + OutOffsets(sz, Tail(outs))[i]]
TotalRows(P, outs) == SumSeq([i \in 1..Len(outs) |-> Sizes(P)[outs[i]]])
UnitCt(P, outs, r) ==
    LET sz  == Sizes(P)
        off == OutOffsets(sz, outs)
    IN  [o \in Range(outs) |->
           LET idx == CHOOSE i \in 1..Len(outs) : outs[i] = o      \* outs has no duplicates
           IN  [e \in 1..sz[o] |-> IF off[idx] + e = r THEN 1 ELSE 0]]
RevJac(P, outs, ins) == [r \in 1..TotalRows(P, outs) |-> VJP(P, UnitCt(P, outs, r), ins)]

\* ---------------------------------------------------------------- well-formedness of a program
WellFormed(P) ==
    /\ \A n \in 1..Len(P) :
         LET nd == P[n] IN
         /\ nd.op \in Ops
         /\ \A x \in Range(Args(nd)) : x \in 1..(n - 1)
         /\ nd.op = "leaf" => Len(nd.val) = nd.size /\ nd.size >= 1
    /\ LET sz == Sizes(P) IN
       \A n \in 1..Len(P) :
         LET nd == P[n] IN
         /\ nd.op = "lin" => (\A r \in 1..Len(nd.mat) : Len(nd.mat[r]) = sz[nd.a]) /\ Len(nd.mat) >= 1
         /\ nd.op \in {"add", "mul"} => (sz[nd.a] = sz[nd.b] \/ sz[nd.a] = 1 \/ sz[nd.b] = 1)
=============================================================================
