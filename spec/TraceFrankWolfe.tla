-------------------------- MODULE TraceFrankWolfe --------------------------
(***************************************************************************)
(* Code -> specification validation of recorded MGDA calls with            *)
(* epsilon = EpsNum/EpsDen (0 in the shipped configuration) and            *)
(* max_iters = K on integer matrices.                                      *)
(* Episode: [ep, J, K, out]; out = the returned vector (of 2^-e times the  *)
(* call on 2^e J), rationalised by the harness (<<num, den>> entries), or  *)
(* <<>> if it is not a rational with denominator <= DenCap.                *)
(* The episode is accepted iff out is one of FinalVectors(J, K): the exact *)
(* K-step Frank-Wolfe iterates of module FrankWolfe, argmin ties left      *)
(* nondeterministic.  Episodes whose candidates have a denominator above   *)
(* DenCap (the harness could not rationalise them uniquely) or whose K     *)
(* iterations do not fit TLC's 32-bit integers (CanStep) are SKIPPED.      *)
(***************************************************************************)
EXTENDS FrankWolfe, TLCExt

CONSTANT DenCap

Episodes == JsonDeserialize(IOEnv.TRACE_FILE)
NEp      == Len(Episodes)

VARIABLES ep, stage, nAcc, nRej, nSkip
tvars == <<pc, J, G, m, alpha, k, t, gamma, branch, ties, path, stopped, ep, stage, nAcc, nRej, nSkip>>
Ep == Episodes[ep]

TInit == /\ J = <<<<0>>>> /\ G = <<<<0>>>> /\ m = 1 /\ alpha = Uniform(1) /\ k = 0 /\ t = 0
         /\ gamma = RZero /\ branch = "none" /\ ties = 0 /\ path = <<>> /\ stopped = FALSE /\ pc = "Done"
         /\ ep = 1 /\ stage = "run" /\ nAcc = 0 /\ nRej = 0 /\ nSkip = 0

TCheck == /\ ep <= NEp /\ stage = "run"
          /\ LET C   == FinalVectors(Ep.J, Ep.K)
                 big == ~Complete(Ep.J, Ep.K) \/ \E v \in C : MaxDenV(v) > DenCap
             IN  IF big THEN nSkip' = nSkip + 1 /\ nAcc' = nAcc /\ nRej' = nRej
                 ELSE IF Ep.out \in C THEN nAcc' = nAcc + 1 /\ nRej' = nRej /\ nSkip' = nSkip
                 ELSE /\ PrintT(<<"REJECT", ToJson([ep |-> Ep.ep,
                                   clause |-> "output_is_not_an_exact_frank_wolfe_iterate_after_K_steps",
                                   expected |-> C])>>)
                      /\ nRej' = nRej + 1 /\ nAcc' = nAcc /\ nSkip' = nSkip
          /\ ep' = ep + 1
          /\ UNCHANGED <<pc, J, G, m, alpha, k, t, gamma, branch, ties, path, stopped, stage>>

TDone == /\ ep = NEp + 1 /\ stage = "run"
         /\ PrintT(<<"SUMMARY", ToJson([episodes |-> NEp, accepted |-> nAcc, rejected |-> nRej,
                                         skipped |-> nSkip])>>)
         /\ stage' = "end"
         /\ UNCHANGED <<pc, J, G, m, alpha, k, t, gamma, branch, ties, path, stopped, ep, nAcc, nRej, nSkip>>

TNext == TCheck \/ TDone
TraceSpec == TInit /\ [][TNext]_tvars
TraceConsumed == (stage = "end") => (nAcc + nRej + nSkip = NEp)
=============================================================================
