---------------------------- MODULE TracePCGrad ----------------------------
(***************************************************************************)
(* Code -> specification validation of recorded PCGrad calls.              *)
(*                                                                         *)
(* Episode (one real call of torchjd's PCGrad on an integer matrix):       *)
(*   [ep, kind, J, draws, w, out]                                          *)
(*   kind = "drawn": draws[i] is the permutation of ALL rows (1-based)     *)
(*          that torch.randperm returned for row i.  The episode is        *)
(*          stepped through the ACTIONS of the PlusCal algorithm of module *)
(*          PCGrad (Rows, Proj), the hidden choice of Rows being bound to  *)
(*          the logged draw; the final weights and output must be the      *)
(*          logged ones (rationalised by the harness, <<num, den>>).       *)
(*   kind = "free":  the draws were not observed.  Property layer only:    *)
(*          the logged output must be a member of Candidates(J), the       *)
(*          finite set of results over all ((m-1)!)^m order combinations.  *)
(* out = <<>> encodes an output that is not a rational with denominator    *)
(* <= DenCap (cannot match any expectation).  An episode whose expected    *)
(* value has a denominator above DenCap is SKIPPED (counted), because the  *)
(* harness could not have rationalised it uniquely.                        *)
(* Verdicts are total: every episode ends accepted / rejected / skipped.   *)
(***************************************************************************)
EXTENDS PCGrad, TLCExt

CONSTANT DenCap

Episodes == JsonDeserialize(IOEnv.TRACE_FILE)
NEp      == Len(Episodes)

VARIABLES ep, stage, nAcc, nRej, nSkip
cvars == <<ep, stage, nAcc, nRej, nSkip>>
tvars == <<pc, J, G, m, i, weights, cur, order, orders, consumed, j, ep, stage, nAcc, nRej, nSkip>>

Ep == Episodes[ep]

TInit == /\ J = <<<<0>>>> /\ G = <<<<0>>>> /\ m = 1 /\ i = 1 /\ weights = RZeros(1) /\ cur = RZeros(1)
         /\ order = <<>> /\ orders = <<>> /\ consumed = <<>> /\ j = 0 /\ pc = "Done"
         /\ ep = 1 /\ stage = "load" /\ nAcc = 0 /\ nRej = 0 /\ nSkip = 0

Verdict(v) == /\ ep' = ep + 1 /\ stage' = "load"
              /\ nAcc' = nAcc + (IF v = "acc" THEN 1 ELSE 0)
              /\ nRej' = nRej + (IF v = "rej" THEN 1 ELSE 0)
              /\ nSkip' = nSkip + (IF v = "skip" THEN 1 ELSE 0)

Reject(clause, expected) ==
    PrintT(<<"REJECT", ToJson([ep |-> Ep.ep, clause |-> clause, expected |-> expected])>>)

DrawsOK == /\ Len(Ep.draws) = Len(Ep.J)
           /\ \A r \in 1..Len(Ep.draws) : IsPerm(Ep.draws[r], Len(Ep.J))

\* ---- kind = "drawn": load, then step the algorithm's own actions
Load == /\ ep <= NEp /\ stage = "load" /\ Ep.kind = "drawn" /\ DrawsOK
        /\ J' = Ep.J /\ G' = Gram(Ep.J) /\ m' = Len(Ep.J) /\ i' = 1
        /\ weights' = RZeros(Len(Ep.J)) /\ cur' = RZeros(Len(Ep.J))
        /\ order' = <<>> /\ orders' = <<>> /\ consumed' = <<>> /\ j' = 0 /\ pc' = "Rows"
        /\ stage' = "run"
        /\ UNCHANGED <<ep, nAcc, nRej, nSkip>>

LoadBad == /\ ep <= NEp /\ stage = "load" /\ Ep.kind = "drawn" /\ ~DrawsOK
           /\ Reject("logged_draws_are_not_permutations_of_the_rows", <<>>)
           /\ Verdict("rej")
           /\ UNCHANGED <<pc, J, G, m, i, weights, cur, order, orders, consumed, j>>

TStep == /\ ep <= NEp /\ stage = "run" /\ pc # "Done"
         /\ (Rows \/ Proj)
         /\ ((pc = "Rows" /\ i <= m) => order' = Without(Ep.draws[i], i))     \* bind the hidden choice
         /\ UNCHANGED cvars

TFinish == /\ ep <= NEp /\ stage = "run" /\ pc = "Done"
           /\ LET big == MaxDenV(weights) > DenCap \/ MaxDenV(Output) > DenCap
                  wOK == Ep.w = <<>> \/ Ep.w = weights
                  oOK == Ep.out = Output
              IN  IF big THEN Verdict("skip")
                  ELSE IF ~wOK THEN Reject("weights_are_not_the_sequential_projections_in_the_drawn_orders", weights)
                                    /\ Verdict("rej")
                  ELSE IF ~oOK THEN Reject("output_is_not_the_sum_of_the_projected_rows_in_the_drawn_orders", Output)
                                    /\ Verdict("rej")
                  ELSE Verdict("acc")
           /\ UNCHANGED <<pc, J, G, m, i, weights, cur, order, orders, consumed, j>>

\* ---- kind = "free": membership in the finite candidate set (property layer)
TFree == /\ ep <= NEp /\ stage = "load" /\ Ep.kind = "free"
         /\ LET C   == Candidates(Ep.J)
                big == \E v \in C : MaxDenV(v) > DenCap
            IN  IF big THEN Verdict("skip")
                ELSE IF Ep.out \in C THEN Verdict("acc")
                ELSE Reject("output_is_in_no_combination_of_projection_orders", C) /\ Verdict("rej")
         /\ UNCHANGED <<pc, J, G, m, i, weights, cur, order, orders, consumed, j>>

TDone == /\ ep = NEp + 1 /\ stage = "load"
         /\ PrintT(<<"SUMMARY", ToJson([episodes |-> NEp, accepted |-> nAcc, rejected |-> nRej,
                                         skipped |-> nSkip])>>)
         /\ stage' = "end"
         /\ UNCHANGED <<pc, J, G, m, i, weights, cur, order, orders, consumed, j, ep, nAcc, nRej, nSkip>>

TNext == Load \/ LoadBad \/ TStep \/ TFinish \/ TFree \/ TDone
TraceSpec == TInit /\ [][TNext]_tvars

\* while an episode is being stepped the module's own invariants must hold on it
TraceStepRefines  == (stage = "run") => StepRefines
TraceConsumed     == (stage = "end") => (nAcc + nRej + nSkip = NEp)
=============================================================================
