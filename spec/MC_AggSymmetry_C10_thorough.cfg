CONSTANT Mode = "rows"
CONSTANT MaxSteps = 4
CONSTANT MaxZero = 0
CONSTANT RowCounts = {2, 3, 4, 5}
CONSTANT PadCounts = {}
CONSTANT NGen = 10
SPECIFICATION Spec
INVARIANT TypeOK
INVARIANT Consistent
INVARIANT GramInvariant
INVARIANT LawC10
INVARIANT WidenLaw
INVARIANT NearMaxLaw
INVARIANT ClassInvariant
INVARIANT Export
CHECK_DEADLOCK FALSE
