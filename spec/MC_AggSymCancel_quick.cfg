CONSTANT RowCounts = {3, 4}
CONSTANT NGen = 4
CONSTANT MaxSteps = 3
SPECIFICATION Spec
INVARIANT TypeOK
INVARIANT Consistent
INVARIANT SubsetLaw
INVARIANT LawC10
INVARIANT Export
CHECK_DEADLOCK FALSE
