-------------------------- MODULE TraceMtlBackward --------------------------
(***************************************************************************)
(* Trace validation of recorded mtl_backward() calls against the property  *)
(* layer of MtlBackward.tla (forward-mode definitions RowBlock, TaskUpdate).*)
(* Episode: prog, feats, losses, tparams, shared, k, w, grad0, matrix,      *)
(* grad1 (see harness/trace_mtl.py).  Events: Load ; Agg ; Ret.             *)
(***************************************************************************)
EXTENDS MtlBackward, IOUtils, TLCExt

Episodes == JsonDeserialize(IOEnv.TRACE_FILE)
NEp == Len(Episodes)

VARIABLES ep, stage, nAcc, nRej
tvars == <<P, phase, call, grad, d, ordJ, rows, sweeps, pending, mt, task, featCt, ep, stage, nAcc, nRej>>

E == Episodes[ep]
SeqToSet(s) == {s[i] : i \in DOMAIN s}

TInit == /\ Init /\ ep = 1 /\ stage = "load" /\ nAcc = 0 /\ nRej = 0

Load == /\ ep <= NEp /\ stage = "load"
        /\ P' = E.prog
        /\ mt' = [feats |-> E.feats, losses |-> E.losses,
                  tparams |-> [i \in 1..Len(E.losses) |-> SeqToSet(E.tparams[i])],
                  natural |-> [i \in 1..Len(E.losses) |-> {}]]
        /\ call' = [tensors |-> E.feats, inputs |-> SeqToSet(E.shared), k |-> E.k, w |-> E.w,
                    pre |-> {}, m |-> Len(E.losses)]
        /\ grad' = [l \in {i \in 1..Len(E.prog) : E.prog[i].op = "leaf"} |-> E.grad0[l]]
        /\ phase' = "tasks" /\ task' = 0 /\ featCt' = <<>> /\ stage' = "agg"
        /\ UNCHANGED <<d, ordJ, rows, sweeps, pending, ep, nAcc, nRej>>

NextEp(ok) == /\ ep' = ep + 1 /\ stage' = "load"
              /\ nAcc' = nAcc + (IF ok THEN 1 ELSE 0) /\ nRej' = nRej + (IF ok THEN 0 ELSE 1)
              /\ phase' = "build"

Reject(clause) == /\ PrintT(<<"REJECT", ToJson([ep |-> E.ep, clause |-> clause])>>)
                  /\ NextEp(FALSE)
                  /\ UNCHANGED <<P, call, grad, d, ordJ, rows, sweeps, pending, mt, task, featCt>>

TExpectedT(T, l) == IF l \in call.inputs THEN Plus(E.grad0[l], SharedUpdateT(T, l))
                    ELSE IF l \in AllTaskParams THEN Plus(E.grad0[l], TaskUpdateT(T, l))
                    ELSE E.grad0[l]
TExpected(l) == TExpectedT(Tables, l)

RECURSIVE HCatBlocks(_, _, _)
HCatBlocks(T, o, i) == IF o = <<>> THEN <<>> ELSE RowBlockT(T, i, Head(o)) \o HCatBlocks(T, Tail(o), i)
MatrixOK == \/ call.inputs = {}
            \/ LET T == Tables IN
               \E o \in PermSeqs(call.inputs) :
                  E.matrix = [i \in 1..NTasks |-> HCatBlocks(T, o, i)]

TAgg == /\ ep <= NEp /\ stage = "agg" /\ MatrixOK
        /\ stage' = "ret"
        /\ UNCHANGED <<P, phase, call, grad, d, ordJ, rows, sweeps, pending, mt, task, featCt, ep, nAcc, nRej>>
TAggReject == /\ ep <= NEp /\ stage = "agg" /\ ~MatrixOK
              /\ Reject("row_i_of_the_matrix_is_not_the_gradient_of_loss_i_through_the_features")

RetOK == LET T == Tables IN \A l \in Leaves(P) : E.grad1[l] = TExpectedT(T, l)
FirstBad == CHOOSE l \in Leaves(P) : E.grad1[l] # TExpected(l)

TRet == /\ ep <= NEp /\ stage = "ret" /\ RetOK
        /\ grad' = [l \in Leaves(P) |-> E.grad1[l]]
        /\ NextEp(TRUE)
        /\ UNCHANGED <<P, call, d, ordJ, rows, sweeps, pending, mt, task, featCt>>
TRetReject == /\ ep <= NEp /\ stage = "ret" /\ ~RetOK
              /\ PrintT(<<"DETAIL", ToJson([ep |-> E.ep, leaf |-> FirstBad, expected |-> TExpected(FirstBad),
                                             got |-> E.grad1[FirstBad]])>>)
              /\ Reject(IF FirstBad \in call.inputs THEN "shared_parameter_did_not_get_its_slice_of_the_aggregation"
                        ELSE IF FirstBad \in AllTaskParams THEN "task_parameter_did_not_get_the_sum_of_its_tasks_gradients"
                        ELSE "grad_of_non_requested_leaf_changed")

TDone == /\ ep = NEp + 1 /\ stage = "load"
         /\ PrintT(<<"SUMMARY", ToJson([episodes |-> NEp, accepted |-> nAcc, rejected |-> nRej])>>)
         /\ stage' = "end"
         /\ UNCHANGED <<P, phase, call, grad, d, ordJ, rows, sweeps, pending, mt, task, featCt, ep, nAcc, nRej>>

TNext == Load \/ TAgg \/ TAggReject \/ TRet \/ TRetReject \/ TDone
TraceSpec == TInit /\ [][TNext]_tvars
TraceConsumed == (stage = "end") => (nAcc + nRej = NEp)
=============================================================================
