------------------------------- MODULE Robust -------------------------------
(***************************************************************************)
(* Byzantine-robust aggregators TrimmedMean(b) and Krum(f, k) under a      *)
(* bounded number of arbitrary rows (property C16).                        *)
(*                                                                         *)
(* Numbers.  An entry of the matrix is  a + b*S  with small integers a, b  *)
(* and S = 2^SExp a fixed huge scale that is never multiplied out (TLC has *)
(* 32-bit integers): J = JA + S*JB.  Honest rows have JB = 0 and entries   *)
(* in -3..3; a corrupted row is any of the patterns below (plausible,      *)
(* mild outlier +-BigB, huge +-S, one huge coordinate, sign flip, ...),    *)
(* i.e. up to ~1e12 times the honest scale.  Every comparison the          *)
(* aggregators need is decided exactly:                                    *)
(*  - entries: a + b*S < a' + b'*S  iff  (b, a) < (b', a') lexicographic   *)
(*    (|a| < S);                                                           *)
(*  - squared distances are polynomials A + B*S + C*S^2 with integer       *)
(*    coefficients, ordered lexicographically on (C, B, A);                *)
(*  - a Krum score is a sum of square roots; it is enclosed in an interval *)
(*    by integer square roots: S*[l1lo, l1hi]/1000 +- w for the terms with *)
(*    C > 0 and [l0lo, l0hi]/Q for the others.  "score i < score j" is     *)
(*    claimed only when the enclosures are disjoint (Below); everything    *)
(*    else is a tie / ambiguity and BOTH outcomes are allowed (and the     *)
(*    instance is counted as ambiguous).  The enclosures are exact; the    *)
(*    real aggregators compute the scores in floating point, so a gap is   *)
(*    only claimed when it also exceeds the accumulated rounding of a      *)
(*    float32 score (Margin: derived from the number of terms; no tuned    *)
(*    tolerance is involved).                                              *)
(*                                                                         *)
(* Fault action Corrupt(i, p): replace row i by pattern p; enabled while   *)
(* fewer than b (resp. f) rows are corrupted.                              *)
(*                                                                         *)
(* Instance families.                                                      *)
(*  small   m <= MaxM rows, every fault sequence over the pattern set;     *)
(*          honest matrices from HSeeds (generic entries -3..3) and, for   *)
(*          TrimmedMean, from TSeeds: TIE-HEAVY matrices (a column on      *)
(*          which all rows agree on a non-zero value, a nearly unanimous   *)
(*          +-1 sign column, quantised -1/0/1 columns, duplicated rows),   *)
(*          where "the b largest" and "the b smallest" overlap in value    *)
(*          (sorted[b] = sorted[m-b+1]) for every admissible b, including  *)
(*          2b + 1 = m.                                                    *)
(*  many    m in ManyM (more than MaxM rows, up to ~40), Krum only: the    *)
(*          honest rows are a small integer SPREAD (entries -3..3); ONE    *)
(*          seed-determined fault sequence per (m, seed, f) replaces, in   *)
(*          ManySteps block steps, up to f rows (CorruptBlock); f is       *)
(*          sampled over its admissible range (FSamples), every k is       *)
(*          exported.  The 2^m subsets are not enumerated: the selection   *)
(*          is given by MustIn / MayIn, unique iff |MustIn| = k.           *)
(* Common offset.  Every scenario (all families) is ALSO presented as      *)
(* J + o * 1 1^T for the offsets o = oa + ob*S of Offsets (o = 2^17 is     *)
(* exact in float32 next to the spread, o = S = 2^39 in float64): "large   *)
(* common mean + small spread".  Dist2 only uses differences of rows, so   *)
(* the distances, the scores and hence the exact Krum selection are those  *)
(* of the spread matrix, and TrimmedMean(J + o) = TrimmedMean(J) + o       *)
(* (OffsetInvariant, checked by TLC).  The offset is carried exactly and   *)
(* is never added to anything that is squared.                             *)
(*                                                                         *)
(* Histories (HistSpec).  An aggregator is an OBJECT that is called again  *)
(* and again; the property is a statement about EVERY call of a history:   *)
(* what the n-th call must return is a function of the object's            *)
(* parameters and of the n-th matrix ONLY (HistExpected, HistPerCall) -    *)
(* whatever was passed before, whatever dtype, whatever number of rows.    *)
(* `hist` is the sequence of calls made so far on one object (the current  *)
(* matrix is the last one); the history actions change the matrix between  *)
(* two calls in the ways that matter for an object that remembers          *)
(* something: a row is corrupted / the rows the previous call SELECTED are *)
(* replaced by outliers (same m, same dtype, the selection must move) /    *)
(* corrupted rows become honest again (the selection must move back) / the *)
(* last row disappears and comes back (m changes and returns; the call in  *)
(* between may have too few rows: rejected, and the next one accepted) /   *)
(* the dtype changes and comes back / the same matrix is passed again.     *)
(* All histories of HistLen calls over these actions are explored, every   *)
(* call is subject to the same invariants as a single matrix, and every    *)
(* complete history is exported with the per-call expectations.            *)
(*                                                                         *)
(* Property layer: TrimmedMean = per column, remove the largest and the    *)
(* smallest entry b times, average the rest (PropTM); the result lies in   *)
(* the range of the untouched rows.  Krum = any set T of k rows such that  *)
(* no row outside T has a score definitely below one inside (KrumAllowed); *)
(* the output is the plain average of T.  Too few rows => rejected.        *)
(* Implementation-shaped layer: sort / narrow(start=b, length=m-2b) / mean *)
(* by ranks (ImplTM).  TLC checks ImplTM = PropTM and the range clause in  *)
(* every reachable state, for all admissible (b), (f, k).                  *)
(***************************************************************************)
EXTENDS Integers, Sequences, FiniteSets, TLC, Json, Rat

CONSTANTS MaxM,       \* matrices with 1..MaxM rows
          NCols,      \* number of columns
          HSeeds,     \* set of seeds of the honest matrices
          NPat,       \* corruption patterns 1..NPat are used
          Kinds,      \* subset of {"tm", "krum"}
          TSeeds,     \* seeds of the tie-heavy honest matrices (TrimmedMean; disjoint from HSeeds)
          ManyM,      \* row counts of the many-row family (each > MaxM; Krum)
          ManySteps,  \* number of block steps of a many-row fault sequence
          HistM,      \* row counts (at the first call) of the history family (each <= MaxM)
          HistLen,    \* number of calls of a history
          HistPats    \* corruption patterns used between two calls of a history

VARIABLES kind,       \* "tm" | "krum"
          m,          \* number of rows
          par,        \* trim_number b, resp. n_byzantine f
          hs,         \* seed of the honest matrix
          status,     \* "ok" | "reject" (too few rows for the parameter)
          corrupt,    \* set of corrupted rows
          JA, JB,     \* the current matrix J = JA + S * JB
          hist        \* HistSpec: the calls made so far on ONE object (<<>> in Spec: one call per object)

vars == <<kind, m, par, hs, status, corrupt, JA, JB, hist>>

SExp      == 39                 \* S = 2^39 = 5.5e11 (<= 1e12 x honest scale whenever that scale is >= 1)
SOver1000 == 549755813          \* floor(2^39 / 1000)
BigB      == 20                 \* magnitude of a mild outlier
Exps      == <<0 - 20, 0, 10>>  \* the harness replays every scenario on 2^e * J for e in Exps:
                                \* all comparisons are homogeneous, so TM(2^e J) = 2^e TM(J) and the
                                \* Krum selection is unchanged (powers of two are exact in floats)

\* common offsets oa + ob * S on which every scenario is replayed, with the dtypes in which
\* offset + entry is exactly representable (2^17 + small and 2^17 + b * 2^39 need <= 24 bits)
OffSmall == 131072              \* 2^17
Offsets  == << [a |-> 0,        b |-> 0, dtypes |-> <<"float32", "float64">>],
               [a |-> OffSmall, b |-> 0, dtypes |-> <<"float32", "float64">>],
               [a |-> 0,        b |-> 1, dtypes |-> <<"float64">>] >>

Rows == 1..m
Cols == 1..NCols
IsMany(mm) == mm > MaxM

-----------------------------------------------------------------------------
(* Honest matrices and corruption patterns                                 *)
HEntry(s, r, c) == (((s * 7919 + r * 1009 + c * 131 + r * c * 17 + s * r * 31 + s * c * 57 + r * r * 53 + c * c * r * 29) % 1031) % 7) - 3
\* tie-heavy honest matrices: column c = 1 (mod 3): all rows agree on a non-zero value; c = 2 (mod 3):
\* +-1 signs, nearly unanimous; c = 0 (mod 3): quantised to -1/0/1; a row whose hash is 0 mod 3 is a
\* duplicate of the previous row
TieSign(s)      == IF s % 2 = 0 THEN 1 ELSE 0 - 1
TieConst(s)     == ((s % 5) + 1) * TieSign(s)
TieSrc(s, r)    == IF r > 1 /\ (s * 37 + r * 101 + r * r * 7) % 3 = 0 THEN r - 1 ELSE r
TieEntry(s, r, c) ==
    LET rr == TieSrc(s, r) IN
    CASE c % 3 = 1 -> TieConst(s)
      [] c % 3 = 2 -> IF (s * 53 + rr * 211 + rr * rr * 13 + c * 5) % 5 = 0 THEN 0 - TieSign(s \div 2) ELSE TieSign(s \div 2)
      [] OTHER     -> ((HEntry(s, rr, c) + 3) % 3) - 1
Honest(s, mm)   == IF s \in TSeeds THEN [r \in 1..mm |-> [c \in Cols |-> TieEntry(s, r, c)]]
                   ELSE [r \in 1..mm |-> [c \in Cols |-> HEntry(s, r, c)]]
ZeroM(mm)       == [r \in 1..mm |-> [c \in Cols |-> 0]]
Alt(x)          == IF x % 2 = 0 THEN 1 ELSE 0 - 1

\* the row written by pattern p into row i: [a |-> level-0 part, b |-> coefficients of S]
Pattern(p, i) ==
    CASE p = 1 -> [a |-> [c \in Cols |-> BigB],                                b |-> [c \in Cols |-> 0]]
      [] p = 2 -> [a |-> [c \in Cols |-> 0],                                   b |-> [c \in Cols |-> 1]]
      [] p = 3 -> [a |-> [c \in Cols |-> IF c = 1 THEN 0 ELSE HEntry(hs, i, c)],
                   b |-> [c \in Cols |-> IF c = 1 THEN 0 - 1 ELSE 0]]                 \* one huge coordinate
      [] p = 4 -> [a |-> [c \in Cols |-> 0 - HEntry(hs, i, c)],                b |-> [c \in Cols |-> 0]]  \* sign flip
      [] p = 5 -> [a |-> [c \in Cols |-> 0],                                   b |-> [c \in Cols |-> Alt(c + i)]]
      [] p = 6 -> [a |-> [c \in Cols |-> Alt(c) * BigB],                       b |-> [c \in Cols |-> 0]]
      [] p = 7 -> [a |-> [c \in Cols |-> 1],                                   b |-> [c \in Cols |-> 0]]  \* plausible
      [] p = 8 -> [a |-> [c \in Cols |-> IF c = 1 THEN BigB ELSE 0],
                   b |-> [c \in Cols |-> IF c = NCols THEN 1 ELSE 0]]                 \* mild and huge mixed

-----------------------------------------------------------------------------
(* Row-count requirements                                                  *)
TMAdmissible(mm, b)      == mm >= 2 * b + 1
KrumAdmissible(mm, f, k) == mm >= f + 3 /\ mm >= k
ParRange(kd, mm) == IF kd = "tm" THEN 0..((mm + 1) \div 2)          \* includes the first inadmissible b
                    ELSE 0..(IF mm >= 2 THEN mm - 2 ELSE 0)          \* includes the first inadmissible f
StatusOf(kd, mm, p) == IF kd = "tm" THEN (IF TMAdmissible(mm, p) THEN "ok" ELSE "reject")
                       ELSE (IF mm >= p + 3 THEN "ok" ELSE "reject")

\* many-row family: sampled n_byzantine (0, 1, m/8, m/3, the largest admissible m-3, the first
\* inadmissible m-2)
FSamples(mm) == {0, 1, mm \div 8, mm \div 3, mm - 3, mm - 2}

InitSmall == /\ kind \in Kinds /\ m \in 1..MaxM
             /\ hs \in (IF kind = "tm" THEN HSeeds \cup TSeeds ELSE HSeeds)
             /\ par \in ParRange(kind, m)
InitMany  == /\ kind = "krum" /\ "krum" \in Kinds /\ m \in ManyM /\ hs \in HSeeds
             /\ par \in FSamples(m)
Init == /\ (InitSmall \/ InitMany)
        /\ status = StatusOf(kind, m, par)
        /\ corrupt = {}
        /\ JA = Honest(hs, m) /\ JB = ZeroM(m)
        /\ hist = <<>>

Corrupt(i, p) == /\ status = "ok"
                 /\ ~IsMany(m)
                 /\ i \notin corrupt
                 /\ Cardinality(corrupt) < par
                 /\ corrupt' = corrupt \cup {i}
                 /\ JA' = [JA EXCEPT ![i] = Pattern(p, i).a]
                 /\ JB' = [JB EXCEPT ![i] = Pattern(p, i).b]
                 /\ UNCHANGED <<kind, m, par, hs, status, hist>>

\* many rows: the tree of all fault sequences is far too large; ONE sequence per (m, seed, f) is
\* followed, in ManySteps block steps: the victims are the first rows in a seed-determined order,
\* the pattern written into a victim is seed-determined as well (mild and huge ones mixed)
VKey(s, r)     == (s * 131 + r * 7919 + r * r * 31) % 1009
VBefore(s, a, b) == VKey(s, a) < VKey(s, b) \/ (VKey(s, a) = VKey(s, b) /\ a < b)
Victims(s, mm, n) == {r \in 1..mm : Cardinality({q \in 1..mm : VBefore(s, q, r)}) < n}
VPat(s, i)     == 1 + ((s * 17 + i * 29 + i * i * 3) % NPat)
BlockOf(f)     == (f + ManySteps - 1) \div ManySteps
CorruptBlock == /\ status = "ok"
                /\ IsMany(m)
                /\ Cardinality(corrupt) < par
                /\ LET c1  == IF Cardinality(corrupt) + BlockOf(par) < par
                              THEN Cardinality(corrupt) + BlockOf(par) ELSE par
                       new == Victims(hs, m, c1) \ corrupt
                   IN  /\ corrupt' = corrupt \cup new
                       /\ JA' = [i \in Rows |-> IF i \in new THEN Pattern(VPat(hs, i), i).a ELSE JA[i]]
                       /\ JB' = [i \in Rows |-> IF i \in new THEN Pattern(VPat(hs, i), i).b ELSE JB[i]]
                /\ UNCHANGED <<kind, m, par, hs, status, hist>>

Next == \/ \E i \in Rows, p \in 1..NPat : Corrupt(i, p)
        \/ CorruptBlock
Spec == Init /\ [][Next]_vars

-----------------------------------------------------------------------------
(* TrimmedMean                                                             *)

\* entries as keys <<b, a>>, ordered lexicographically
KLess(x, y) == x[1] < y[1] \/ (x[1] = y[1] /\ x[2] < y[2])
ColKeys(A, B, c) == [i \in 1..Len(A) |-> <<B[i][c], A[i][c]>>]

\* property layer: remove the largest and the smallest, b times; average what is left
RemoveAt(s, i) == TLCEval([j \in 1..(Len(s) - 1) |-> IF j < i THEN s[j] ELSE s[j + 1]])
MaxIdx(s) == CHOOSE i \in DOMAIN s : \A j \in DOMAIN s : ~KLess(s[i], s[j])
MinIdx(s) == CHOOSE i \in DOMAIN s : \A j \in DOMAIN s : ~KLess(s[j], s[i])
RECURSIVE Trim(_, _)
Trim(s, n) == IF n = 0 THEN s
              ELSE LET s1 == RemoveAt(s, MaxIdx(s)) IN Trim(RemoveAt(s1, MinIdx(s1)), n - 1)
SumIdx(s, t) == LET F[i \in 0..Len(s)] == IF i = 0 THEN 0 ELSE F[i - 1] + s[i][t] IN F[Len(s)]
MeanKeys(s)  == [a |-> Frac(SumIdx(s, 2), Len(s)), b |-> Frac(SumIdx(s, 1), Len(s))]
ColsOf(A) == 1..Len(A[1])
PropTM(A, B, b) == TLCEval([c \in ColsOf(A) |-> MeanKeys(Trim(TLCEval(ColKeys(A, B, c)), b))])

\* implementation-shaped layer: sort, narrow(start = b, length = m - 2b), mean  (ranks 1..m)
RankIn(s, i) == Cardinality({j \in DOMAIN s : KLess(s[j], s[i]) \/ (s[j] = s[i] /\ j < i)}) + 1
ImplTMCol(s, b) ==
    LET keep == TLCEval({i \in DOMAIN s : RankIn(s, i) > b /\ RankIn(s, i) <= Len(s) - b})
        F[i \in 0..Len(s)] == IF i = 0 THEN <<0, 0>>
                              ELSE LET p == F[i - 1] IN
                                   IF i \in keep THEN <<p[1] + s[i][1], p[2] + s[i][2]>> ELSE p
        tot == F[Len(s)]
    IN  [a |-> Frac(tot[2], Cardinality(keep)), b |-> Frac(tot[1], Cardinality(keep))]
ImplTM(A, B, b) == TLCEval([c \in ColsOf(A) |-> ImplTMCol(TLCEval(ColKeys(A, B, c)), b)])

\* range of the untouched rows of column c (level-0 integers)
MinOf(S) == CHOOSE x \in S : \A y \in S : x <= y
MaxOf(S) == CHOOSE x \in S : \A y \in S : x >= y
HonestVals(A, bad, c) == {A[i][c] : i \in (1..Len(A)) \ bad}
InHonestRange(out, A, bad) ==
    \A c \in ColsOf(A) : /\ out[c].b = RZero
                    /\ RLe(R(MinOf(HonestVals(A, bad, c))), out[c].a)
                    /\ RLe(out[c].a, R(MaxOf(HonestVals(A, bad, c))))

-----------------------------------------------------------------------------
(* Krum                                                                    *)

\* squared distance between rows i and j as a polynomial A + B*S + C*S^2
Dist2(A, B, i, j) ==
    LET F[c \in 0..Len(A[1])] ==
          IF c = 0 THEN <<0, 0, 0>>
          ELSE LET da == A[i][c] - A[j][c]
                   db == B[i][c] - B[j][c]
                   p  == F[c - 1]
               IN  <<p[1] + da * da, p[2] + 2 * da * db, p[3] + db * db>>
    IN  [A |-> F[Len(A[1])][1], B |-> F[Len(A[1])][2], C |-> F[Len(A[1])][3]]
DLess(x, y) == x.C < y.C \/ (x.C = y.C /\ (x.B < y.B \/ (x.B = y.B /\ x.A < y.A)))

RECURSIVE ISqrtB(_, _, _)
ISqrtB(x, lo, hi) == IF lo = hi THEN lo
                     ELSE LET mid == (lo + hi + 1) \div 2
                          IN  IF mid * mid <= x THEN ISqrtB(x, mid, hi) ELSE ISqrtB(x, lo, mid - 1)
ISqrt(x) == ISqrtB(x, 0, 46340)                       \* floor(sqrt(x)), 0 <= x < 2^31
SqLo(x, q) == ISqrt(x * q * q)                        \* floor(q * sqrt(x))
SqHi(x, q) == LET r == ISqrt(x * q * q) IN IF r * r = x * q * q THEN r ELSE r + 1
\* precision of the level-0 enclosure: q * q * maxA must stay below 2^31
QOf(maxA) == IF maxA <= 2000 THEN 1000 ELSE IF maxA <= 200000 THEN 100
             ELSE IF maxA <= 20000000 THEN 10 ELSE 1

AbsI(x) == IF x < 0 THEN 0 - x ELSE x

\* all scores of the matrix (A, B) for n_byzantine = f: function row -> enclosure record
KrumScores(A, B, f) ==
    LET mm   == Len(A)
        RR   == 1..mm
        ncl  == mm - f - 2
        \* TLCEval: TLC keeps [x \in S |-> e] as a closure and re-evaluates e at every application
        D    == TLCEval([i \in RR |-> TLCEval([j \in RR |-> Dist2(A, B, i, j)])])
        \* position of j among the other rows of i, by distance (ties by index: equal distances
        \* contribute equal amounts, so the choice among them does not change the score)
        Pos(i, j) == Cardinality({l \in RR \ {i} : DLess(D[i][l], D[i][j]) \/ (D[i][l] = D[i][j] /\ l < j)})
        Near == TLCEval([i \in RR |-> TLCEval({j \in RR \ {i} : Pos(i, j) < ncl})])
        maxA == MaxOf({0} \cup {D[i][j].A : i \in RR, j \in RR})
        q    == QOf(maxA)
        \* enclosure of one distance (one integer square root per pair; D is symmetric)
        Enc(d) == IF d.C > 0
                  THEN LET r == ISqrt(d.C * 1000000) IN
                       [l1lo |-> r, l1hi |-> IF r * r = d.C * 1000000 THEN r ELSE r + 1,
                        l0lo |-> 0, l0hi |-> 0, w |-> AbsI(d.B) + d.A, n1 |-> 1]
                  ELSE LET r == ISqrt(d.A * q * q) IN
                       [l1lo |-> 0, l1hi |-> 0,
                        l0lo |-> r, l0hi |-> IF r * r = d.A * q * q THEN r ELSE r + 1, w |-> AbsI(d.B) + d.A, n1 |-> 0]
        EN   == TLCEval([i \in RR |-> TLCEval([j \in RR |-> IF j < i THEN <<>> ELSE Enc(D[i][j])])])
        En(i, j) == IF j < i THEN EN[j][i] ELSE EN[i][j]
        Sum(i, Fn(_)) == LET js == Near[i]
                             G[l \in 0..mm] == IF l = 0 THEN 0
                                               ELSE IF l \in js THEN G[l - 1] + Fn(En(i, l)) ELSE G[l - 1]
                         IN  G[mm]
        L1lo(e) == e.l1lo
        L1hi(e) == e.l1hi
        L0lo(e) == e.l0lo
        L0hi(e) == e.l0hi
        W(e)    == e.w
        N1(e)   == e.n1
    IN  TLCEval([i \in RR |-> [l1lo |-> Sum(i, L1lo), l1hi |-> Sum(i, L1hi), l0lo |-> Sum(i, L0lo),
                               l0hi |-> Sum(i, L0hi), w |-> Sum(i, W), n1 |-> Sum(i, N1), near |-> Near[i],
                               g |-> ncl + Len(A[1]) + 3]])

\* implementation-shaped neighbourhood (krum.py): the n_closest + 1 smallest entries of row i of the
\* distance matrix INCLUDING the self-distance, of which the first is dropped - against the property
\* layer's "m - f - 2 nearest OTHER rows"; compared as bags of distances (equal bags = equal scores)
KrumImplNeighboursAreProp(A, B, f) ==
    LET mm   == Len(A)
        RR   == 1..mm
        ncl  == mm - f - 2
        D    == TLCEval([i \in RR |-> TLCEval([j \in RR |-> Dist2(A, B, i, j)])])
        Before(i, l, j) == DLess(D[i][l], D[i][j]) \/ (D[i][l] = D[i][j] /\ l < j)
        PosAll(i, j)    == Cardinality({l \in RR : Before(i, l, j)})
        PosOthers(i, j) == Cardinality({l \in RR \ {i} : Before(i, l, j)})
        ImplNear(i) == {j \in RR : PosAll(i, j) >= 1 /\ PosAll(i, j) <= ncl}
        PropNear(i) == {j \in RR \ {i} : PosOthers(i, j) < ncl}
        Bag(i, S)   == [d \in {D[i][j] : j \in S} |-> Cardinality({j \in S : D[i][j] = d})]
    IN  \A i \in RR : Bag(i, ImplNear(i)) = Bag(i, PropNear(i))

\* score si is DEFINITELY smaller than score sj, also when both are computed in floating point.
\* Rounding: a distance over n columns carries a relative error <= (n/2 + 3) u (differences, squares,
\* n - 1 additions, square root), the sum of ncl of them (any order) <= (ncl - 1) u more; with
\* u = 2^-24 (float32) a computed score is within gamma = g * 2^-23 of the exact one, g = ncl + n + 3
\* (twice the bound).  Computed si < computed sj is guaranteed when sj - si > gamma (si + sj).
\* (1) S-parts, in units of S/1000: |sqrt(A + B S + C S^2) - S sqrt(C)| <= |B| + A for C >= 1 and
\*     sqrt(A) <= A, so si <= U l1hi_i + w_i, sj >= U l1lo_j - w_j with w_i + w_j < U = S/1000:
\*     sj - si > U (l1lo_j - l1hi_i - 1)  and  si + sj < U (l1hi_i + l1hi_j + 2);
\* (2) no S-part on either side: plain interval comparison of the level-0 sums (units 1/q).
Margin(g, x) == (g * x + 8388607) \div 8388608                         \* ceil(g * x / 2^23)
Below(si, sj) == \/ (/\ si.l1hi + 1 + Margin(si.g, si.l1hi + sj.l1hi + 2) <= sj.l1lo
                     /\ si.w + sj.w < SOver1000)
                 \/ (/\ si.n1 = 0 /\ sj.n1 = 0
                     /\ si.l0hi + Margin(si.g, si.l0hi + sj.l0hi) < sj.l0lo)

BelowRel(sc) == TLCEval({p \in (DOMAIN sc) \X (DOMAIN sc) : Below(sc[p[1]], sc[p[2]])})

\* property layer: T may be the selected set iff it has k rows and no row outside is definitely
\* better than a row inside
KrumAllowed(T, rel, RR, k) == /\ Cardinality(T) = k
                              /\ \A i \in T, j \in RR \ T : <<j, i>> \notin rel
KrumSelections(rel, RR, k) == {T \in SUBSET RR : KrumAllowed(T, rel, RR, k)}

\* rows that every / some allowed selection contains
MustIn(rel, RR, k) == {i \in RR : Cardinality({j \in RR : <<i, j>> \in rel}) >= Cardinality(RR) - k}
MayIn(rel, RR, k)  == {i \in RR : Cardinality({j \in RR : <<j, i>> \in rel}) < k}

\* many rows: the same two sets for every k from the numbers of rows definitely above / below each
\* row (the 2^m subsets are never enumerated).  Every allowed selection T satisfies
\* MustIn <= T <= MayIn (a row i with >= m - k rows definitely above it is in T: otherwise T, k rows
\* out of the other m - 1, would contain one of them, i.e. a row definitely worse than the outside
\* row i; checked against the enumeration in the small family, KrumWellDefinedOn); hence
\* |MustIn| = k makes MustIn the only candidate, and it is a selection iff KrumAllowed ("decided").
KrumMany(A, B, f) ==
    LET RR  == 1..Len(A)
        mm  == Len(A)
        sc  == KrumScores(A, B, f)
        rel == BelowRel(sc)
        nAbove == TLCEval([i \in RR |-> Cardinality({j \in RR : <<i, j>> \in rel})])
        nBelow == TLCEval([i \in RR |-> Cardinality({j \in RR : <<j, i>> \in rel})])
    IN  [sc |-> sc, rel |-> rel,
         must |-> TLCEval([k \in RR |-> {i \in RR : nAbove[i] >= mm - k}]),
         may  |-> TLCEval([k \in RR |-> {i \in RR : nBelow[i] < k}])]

\* the average of the rows T, per column, as two rationals
RowAvg(A, B, T) ==
    [c \in ColsOf(A) |->
       LET F[i \in 0..Len(A)] == IF i = 0 THEN <<0, 0>>
                                 ELSE LET p == F[i - 1] IN
                                      IF i \in T THEN <<p[1] + A[i][c], p[2] + B[i][c]>> ELSE p
           tot == F[Len(A)]
       IN  [a |-> Frac(tot[1], Cardinality(T)), b |-> Frac(tot[2], Cardinality(T))]]

HugeRows(B) == {i \in 1..Len(B) : \E c \in 1..Len(B[i]) : B[i][c] # 0}

-----------------------------------------------------------------------------
(* Checked by TLC                                                          *)

TypeOK == /\ kind \in Kinds /\ m \in (1..MaxM) \cup ManyM /\ hs \in HSeeds \cup TSeeds /\ status \in {"ok", "reject"}
          /\ \A x \in ManyM : x > MaxM
          /\ HSeeds \cap TSeeds = {}
          /\ corrupt \subseteq Rows /\ Cardinality(corrupt) <= par
          /\ Len(JA) = m /\ Len(JB) = m
          /\ \A i \in Rows \ corrupt : JA[i] = Honest(hs, m)[i] /\ JB[i] = ZeroM(m)[i]

\* a rejected parameter never gets a fault; an accepted one has the rows it needs
RejectIsTerminal == status = "reject" => corrupt = {}

\* TrimmedMean: the implementation-shaped definition is the property-layer definition ...
TMImplIsProp == (kind = "tm" /\ status = "ok") => ImplTM(JA, JB, par) = PropTM(JA, JB, par)
\* ... and up to b arbitrary rows keep every coordinate within the range of the untouched rows
TMRobust == (kind = "tm" /\ status = "ok") => InHonestRange(PropTM(JA, JB, par), JA, corrupt)

\* Krum: everything the clauses below need, computed once per state
KrumAll(A, B, f) ==
    LET sc  == KrumScores(A, B, f)
        rel == BelowRel(sc)
        RR  == 1..Len(A)
    IN  [sc |-> sc, rel |-> rel,
         sels |-> TLCEval([k \in RR |-> TLCEval(KrumSelections(rel, RR, k))])]

\* for every admissible k some selection is allowed, every row that must be selected may be, and
\* exactly-decidable instances have a single selection
KrumWellDefinedOn(ka, RR) ==
    \A k \in RR : LET sels == ka.sels[k] IN
                   /\ sels # {}
                   /\ \A T \in sels : MustIn(ka.rel, RR, k) \subseteq T /\ T \subseteq MayIn(ka.rel, RR, k)
                   /\ (Cardinality(MustIn(ka.rel, RR, k)) = k => sels = {MustIn(ka.rel, RR, k)})
\* rows that are huge in some coordinate are never selected while enough other rows exist and
\* the neighbourhood is larger than the group of huge rows (m - f - 2 >= number of huge rows)
KrumIgnoresFarRowsOn(ka, B, f) ==
    LET mm == Len(B)
        huge == HugeRows(B)
    IN  (mm - f - 2 >= Cardinality(huge)) =>
           \A k \in 1..(mm - Cardinality(huge)) : \A T \in ka.sels[k] : T \cap huge = {}
\* enclosure arithmetic stays far below the 32-bit limit / the S/1000 separation
SlackOKOn(ka) == \A i \in DOMAIN ka.sc : ka.sc[i].w < 100000000

\* the same clauses for the many-row family, on MustIn / MayIn
KrumManyWellDefinedOn(km, RR) ==
    \A k \in RR : /\ km.must[k] \subseteq km.may[k]
                   /\ Cardinality(km.must[k]) <= k /\ k <= Cardinality(km.may[k])
                   /\ (Cardinality(km.must[k]) = k => KrumAllowed(km.must[k], km.rel, RR, k))
KrumManyIgnoresFarRowsOn(km, B, f) ==
    LET mm == Len(B)
        huge == HugeRows(B)
    IN  (mm - f - 2 >= Cardinality(huge)) =>
           \A k \in 1..(mm - Cardinality(huge)) : km.may[k] \cap huge = {}

KrumChecks == (kind = "krum" /\ status = "ok") =>
                 IF IsMany(m)
                 THEN LET km == KrumMany(JA, JB, par) IN
                      /\ KrumManyWellDefinedOn(km, Rows)
                      /\ KrumManyIgnoresFarRowsOn(km, JB, par)
                      /\ SlackOKOn(km)
                 ELSE LET ka == KrumAll(JA, JB, par) IN
                      /\ KrumWellDefinedOn(ka, Rows)
                      /\ KrumIgnoresFarRowsOn(ka, JB, par)
                      /\ SlackOKOn(ka)
KrumImplIsProp == (kind = "krum" /\ status = "ok") => KrumImplNeighboursAreProp(JA, JB, par)
\* the three clauses separately (used to name the failing one when KrumChecks is violated)
KrumWellDefined    == (kind = "krum" /\ status = "ok" /\ ~IsMany(m)) => KrumWellDefinedOn(KrumAll(JA, JB, par), Rows)
KrumIgnoresFarRows == (kind = "krum" /\ status = "ok" /\ ~IsMany(m)) => KrumIgnoresFarRowsOn(KrumAll(JA, JB, par), JB, par)
SlackOK            == (kind = "krum" /\ status = "ok" /\ ~IsMany(m)) => SlackOKOn(KrumAll(JA, JB, par))

\* A common offset changes nothing that Krum looks at and shifts the trimmed mean by itself: the
\* exact results for "large common mean + small spread" are those of the spread matrix.
ShiftM(M, o) == [i \in 1..Len(M) |-> [c \in 1..Len(M[i]) |-> M[i][c] + o]]
OffsetInvariant ==
    status = "ok" =>
      \A x \in DOMAIN Offsets :
         LET o  == Offsets[x]
             A2 == TLCEval(ShiftM(JA, o.a))
             B2 == TLCEval(ShiftM(JB, o.b))
         IN  IF kind = "krum"
             THEN \A i \in Rows, j \in Rows : i < j => Dist2(A2, B2, i, j) = Dist2(JA, JB, i, j)
             ELSE LET t1 == PropTM(JA, JB, par)
                      t2 == PropTM(A2, B2, par)
                  IN  \A c \in Cols : /\ t2[c].a = RAdd(t1[c].a, R(o.a))
                                       /\ t2[c].b = RAdd(t1[c].b, R(o.b))

-----------------------------------------------------------------------------
(* Scenario export: every reachable (J, parameter), with the expected results             *)
MaxRows == CHOOSE x \in ({MaxM} \cup ManyM) : \A y \in ({MaxM} \cup ManyM) : x >= y
SetToSeq(S) == LET F[n \in 0..MaxRows] == IF n = 0 THEN <<>>
                                          ELSE IF n \in S THEN Append(F[n - 1], n) ELSE F[n - 1]
               IN  F[MaxRows]
SetsToSeq(SS) == LET RECURSIVE G(_)
                     G(X) == IF X = {} THEN <<>>
                             ELSE LET T == CHOOSE T \in X : TRUE IN <<SetToSeq(T)>> \o G(X \ {T})
                 IN  G(SS)

\* mode "enum": `allowed` lists every allowed selection; mode "bounds" (many rows): `allowed` holds the
\* unique selection when the case is decided, and every selection T satisfies must <= T <= may
\* (kmax: the largest n_selected reported; an object's n_selected stays when the row count changes)
KrumCasesUpTo(A, B, f, kmax) ==
    LET mm  == Len(A)
        ok  == mm >= f + 3
        ka  == IF ok THEN KrumAll(A, B, f) ELSE <<>>
    IN  [k \in 1..kmax |->
           IF ok /\ k <= mm
           THEN [k |-> k, status |-> "ok", mode |-> "enum", allowed |-> SetsToSeq(ka.sels[k]),
                 must |-> <<>>, may |-> <<>>]
           ELSE [k |-> k, status |-> "reject", mode |-> "enum", allowed |-> <<>>, must |-> <<>>, may |-> <<>>]]
KrumCases(A, B, f) == KrumCasesUpTo(A, B, f, Len(A) + 1)
KrumCasesMany(A, B, f) ==
    LET mm  == Len(A)
        ok  == mm >= f + 3
        km  == IF ok THEN KrumMany(A, B, f) ELSE <<>>
    IN  [k \in 1..(mm + 1) |->
           IF ok /\ k <= mm
           THEN [k |-> k, status |-> "ok", mode |-> "bounds",
                 allowed |-> IF Cardinality(km.must[k]) = k THEN <<SetToSeq(km.must[k])>> ELSE <<>>,
                 must |-> SetToSeq(km.must[k]), may |-> SetToSeq(km.may[k])]
           ELSE [k |-> k, status |-> "reject", mode |-> "bounds", allowed |-> <<>>, must |-> <<>>, may |-> <<>>]]

Scenario ==
    [kind |-> kind, m |-> m, par |-> par, hs |-> hs, status |-> status, corrupt |-> SetToSeq(corrupt),
     ja |-> JA, jb |-> JB, sexp |-> SExp, exps |-> Exps, offs |-> Offsets,
     fam |-> IF IsMany(m) THEN "many" ELSE IF hs \in TSeeds THEN "ties" ELSE "small",
     tm |-> IF kind = "tm" /\ status = "ok" THEN PropTM(JA, JB, par) ELSE <<>>,
     hmin |-> IF status = "ok" THEN [c \in Cols |-> MinOf(HonestVals(JA, corrupt, c))] ELSE <<>>,
     hmax |-> IF status = "ok" THEN [c \in Cols |-> MaxOf(HonestVals(JA, corrupt, c))] ELSE <<>>,
     krum |-> IF kind = "krum" THEN (IF IsMany(m) THEN KrumCasesMany(JA, JB, par) ELSE KrumCases(JA, JB, par))
              ELSE <<>>]

Export == PrintT(<<"SCN", ToJson(Scenario)>>)

-----------------------------------------------------------------------------
(* Histories of calls on ONE aggregator object (HistSpec)                  *)

OtherDT(d)  == IF d = "float32" THEN "float64" ELSE "float32"
FirstDT(s)  == IF s % 2 = 0 THEN "float32" ELSE "float64"      \* dtype of the first call (both occur: HSeeds)
\* one call: the matrix passed (with the rows of it that are corrupted), its dtype, and how it was
\* obtained from the matrix of the previous call
Call(A, B, bad, d, act) == [A |-> A, B |-> B, bad |-> bad, d |-> d, act |-> act]
CurDT       == hist[Len(hist)].d
M0          == Len(hist[1].A)                                  \* number of rows at the first call
FirstN(S, n) == {i \in S : Cardinality({j \in S : j < i}) < n}

HInit == /\ kind \in Kinds /\ m \in HistM /\ hs \in HSeeds
         /\ par \in {p \in ParRange(kind, m) : StatusOf(kind, m, p) = "ok"}
         /\ status = "ok" /\ corrupt = {}
         /\ JA = Honest(hs, m) /\ JB = ZeroM(m)
         /\ hist = << Call(Honest(hs, m), ZeroM(m), {}, FirstDT(hs), "first") >>

\* the object is called on (A2, B2) in dtype d2
HStep(A2, B2, bad2, d2, act) ==
    /\ Len(hist) < HistLen
    /\ JA' = A2 /\ JB' = B2 /\ corrupt' = bad2
    /\ m' = Len(A2)
    /\ status' = StatusOf(kind, Len(A2), par)
    /\ hist' = Append(hist, Call(A2, B2, bad2, d2, act))
    /\ UNCHANGED <<kind, par, hs>>

WriteRows(V, p) == [A |-> [i \in Rows |-> IF i \in V THEN Pattern(p, i).a ELSE JA[i]],
                    B |-> [i \in Rows |-> IF i \in V THEN Pattern(p, i).b ELSE JB[i]]]
HonestRows(V)   == [A |-> [i \in Rows |-> IF i \in V THEN Honest(hs, m)[i] ELSE JA[i]],
                    B |-> [i \in Rows |-> IF i \in V THEN ZeroM(m)[i] ELSE JB[i]]]

\* one more row is corrupted (any row, selected by the previous call or not)
HCorrupt(i, p) == /\ status = "ok" /\ i \notin corrupt /\ Cardinality(corrupt) < par
                  /\ LET w == WriteRows({i}, p) IN HStep(w.A, w.B, corrupt \cup {i}, CurDT, "corrupt")

\* the rows the previous call selected: Krum - the n rows with the definitely smallest scores (the
\* selection of Krum(f, n), when it is decided); TrimmedMean - the first n rows with an entry that
\* survived the trimming of its column
PrevSelected(n) ==
    IF kind = "krum"
    THEN LET must == MustIn(BelowRel(KrumScores(JA, JB, par)), Rows, n)
         IN  IF Cardinality(must) = n THEN must ELSE {}
    ELSE LET s == TLCEval([c \in Cols |-> ColKeys(JA, JB, c)])
         IN  FirstN({i \in Rows : \E c \in Cols : RankIn(s[c], i) > par /\ RankIn(s[c], i) <= m - par}, n)
\* ALL the rows that may still be corrupted are spent, at once, on rows the previous call selected
\* (a block of >= 2 rows; a single selected row is an instance of HCorrupt)
HCorruptSel(p) == /\ status = "ok" /\ par - Cardinality(corrupt) >= 2
                  /\ LET V == PrevSelected(par - Cardinality(corrupt)) \ corrupt
                         w == WriteRows(V, p)
                     IN  /\ Cardinality(V) >= 2
                         /\ HStep(w.A, w.B, corrupt \cup V, CurDT, "corrupt_selected")
\* corrupted rows are honest again: one of them / all of them
HRestore(i)    == /\ i \in corrupt
                  /\ LET w == HonestRows({i}) IN HStep(w.A, w.B, corrupt \ {i}, CurDT, "restore")
HRestoreAll    == /\ Cardinality(corrupt) >= 2
                  /\ LET w == HonestRows(corrupt) IN HStep(w.A, w.B, {}, CurDT, "restore_all")
\* the last row disappears (possibly leaving too few rows for the parameter) and comes back
HResize        == IF m = M0
                  THEN /\ m >= 2
                       /\ HStep(SubSeq(JA, 1, m - 1), SubSeq(JB, 1, m - 1), corrupt \ {m}, CurDT, "fewer_rows")
                  ELSE HStep(Append(JA, Honest(hs, m + 1)[m + 1]), Append(JB, ZeroM(m + 1)[m + 1]), corrupt, CurDT, "rows_back")
\* ... or a corrupted row comes in its place (same m as two calls ago, another matrix)
HRowsBackBad(p) == /\ m = M0 - 1 /\ Cardinality(corrupt) < par
                   /\ HStep(Append(JA, Pattern(p, m + 1).a), Append(JB, Pattern(p, m + 1).b), corrupt \cup {m + 1},
                            CurDT, "rows_back_corrupted")
\* the same matrix in the other dtype / once more as it is
HDType         == HStep(JA, JB, corrupt, OtherDT(CurDT), "dtype")
HSame          == HStep(JA, JB, corrupt, CurDT, "same")

HNext == \/ \E i \in Rows, p \in HistPats : HCorrupt(i, p)
         \/ \E p \in HistPats : HCorruptSel(p)
         \/ \E i \in Rows : HRestore(i)
         \/ \E p \in HistPats : HRowsBackBad(p)
         \/ HRestoreAll \/ HResize \/ HDType \/ HSame
HistSpec == HInit /\ [][HNext]_vars

\* What the n-th call of history h must return: a function of the object (kind, parameter) and of
\* the n-th matrix ONLY.  (Krum: one object per n_selected k <= M0 + 1, all of them passed through the
\* same history; k stays when the number of rows changes.)
CallExpect(kd, p, c, kmax) ==
    LET mm == Len(c.A)
        st == StatusOf(kd, mm, p)
    IN  [m |-> mm, d |-> c.d, act |-> c.act, status |-> st, corrupt |-> SetToSeq(c.bad), ja |-> c.A, jb |-> c.B,
         tm   |-> IF kd = "tm" /\ st = "ok" THEN PropTM(c.A, c.B, p) ELSE <<>>,
         hmin |-> IF st = "ok" THEN [cc \in Cols |-> MinOf(HonestVals(c.A, c.bad, cc))] ELSE <<>>,
         hmax |-> IF st = "ok" THEN [cc \in Cols |-> MaxOf(HonestVals(c.A, c.bad, cc))] ELSE <<>>,
         krum |-> IF kd = "krum" THEN KrumCasesUpTo(c.A, c.B, p, kmax) ELSE <<>>]
HistExpectedK(h, n, kmax) == CallExpect(kind, par, h[n], kmax)
HistExpected(h, n) == HistExpectedK(h, n, Len(h[1].A) + 1)

HistTypeOK == /\ Len(hist) >= 1 /\ Len(hist) <= HistLen
              /\ HistM \subseteq 1..MaxM
              /\ LET c == hist[Len(hist)] IN c.A = JA /\ c.B = JB /\ c.bad = corrupt /\ Len(c.A) = m
              /\ \A n \in DOMAIN hist : /\ Len(hist[n].A) \in {M0, M0 - 1} /\ Len(hist[n].B) = Len(hist[n].A)
                                        /\ hist[n].bad \subseteq 1..Len(hist[n].A)
                                        /\ Cardinality(hist[n].bad) <= par
                                        /\ hist[n].d \in {"float32", "float64"}
\* the expectation for the n-th call is that of a FRESH object whose first and only call gets the n-th
\* matrix, whatever the earlier calls were (evaluated where the history is exported)
HistPerCall == Len(hist) = HistLen =>
                  \A n \in DOMAIN hist : HistExpectedK(hist, n, M0 + 1) = HistExpectedK(<<hist[n]>>, 1, M0 + 1)

\* calls whose result must DIFFER from that of the previous call although m and dtype are the same:
\* Krum - the n_selected for which both selections are decided and different; TrimmedMean - <<1>>
SelChanged(ex, n) ==
    IF n = 1 \/ ex[n].m # ex[n - 1].m \/ ex[n].d # ex[n - 1].d \/ ex[n].status # "ok" THEN <<>>
    ELSE IF kind = "tm" THEN (IF ex[n].tm # ex[n - 1].tm THEN <<1>> ELSE <<>>)
    ELSE SetToSeq({k \in 1..ex[n].m : /\ Len(ex[n].krum[k].allowed) = 1 /\ Len(ex[n - 1].krum[k].allowed) = 1
                                      /\ ex[n].krum[k].allowed # ex[n - 1].krum[k].allowed})
HistoryScenario ==
    LET ex == TLCEval([n \in DOMAIN hist |-> HistExpected(hist, n)]) IN
    [kind |-> kind, par |-> par, hs |-> hs, m0 |-> M0, sexp |-> SExp, exps |-> Exps, offs |-> Offsets,
     calls |-> ex, changed |-> [n \in DOMAIN hist |-> SelChanged(ex, n)]]
HistExport == Len(hist) = HistLen => PrintT(<<"HIST", ToJson(HistoryScenario)>>)
=============================================================================
