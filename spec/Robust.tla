------------------------------- MODULE Robust -------------------------------
(***************************************************************************)
(* Byzantine-robust aggregators TrimmedMean(b) and Krum(f, k) under a      *)
(* bounded number of arbitrary rows (property C16).                        *)
(*                                                                         *)
(* Numbers.  An entry of the matrix is  a + b*S  with small integers a, b  *)
(* and S = 2^SExp a fixed huge scale that is never multiplied out (TLC has *)
(* 32-bit integers): J = JA + S*JB.  Honest rows have JB = 0 and entries   *)
(* in -3..3; a corrupted row is any of the patterns below (plausible,      *)
(* mild outlier +-BigB, huge +-S, one huge coordinate, sign flip, ...),    *)
(* i.e. up to ~1e12 times the honest scale.  Every comparison the          *)
(* aggregators need is decided exactly:                                    *)
(*  - entries: a + b*S < a' + b'*S  iff  (b, a) < (b', a') lexicographic   *)
(*    (|a| < S);                                                           *)
(*  - squared distances are polynomials A + B*S + C*S^2 with integer       *)
(*    coefficients, ordered lexicographically on (C, B, A);                *)
(*  - a Krum score is a sum of square roots; it is enclosed in an interval *)
(*    by integer square roots: S*[l1lo, l1hi]/1000 +- w for the terms with *)
(*    C > 0 and [l0lo, l0hi]/Q for the others.  "score i < score j" is     *)
(*    claimed only when the enclosures are disjoint (Below); everything    *)
(*    else is a tie / ambiguity and BOTH outcomes are allowed (and the     *)
(*    instance is counted as ambiguous).  No tolerance is involved.        *)
(*                                                                         *)
(* Fault action Corrupt(i, p): replace row i by pattern p; enabled while   *)
(* fewer than b (resp. f) rows are corrupted.                              *)
(*                                                                         *)
(* Property layer: TrimmedMean = per column, remove the largest and the    *)
(* smallest entry b times, average the rest (PropTM); the result lies in   *)
(* the range of the untouched rows.  Krum = any set T of k rows such that  *)
(* no row outside T has a score definitely below one inside (KrumAllowed); *)
(* the output is the plain average of T.  Too few rows => rejected.        *)
(* Implementation-shaped layer: sort / narrow(start=b, length=m-2b) / mean *)
(* by ranks (ImplTM).  TLC checks ImplTM = PropTM and the range clause in  *)
(* every reachable state, for all admissible (b), (f, k), m <= MaxM.       *)
(***************************************************************************)
EXTENDS Integers, Sequences, FiniteSets, TLC, Json, Rat

CONSTANTS MaxM,       \* matrices with 1..MaxM rows
          NCols,      \* number of columns
          HSeeds,     \* set of seeds of the honest matrices
          NPat,       \* corruption patterns 1..NPat are used
          Kinds       \* subset of {"tm", "krum"}

VARIABLES kind,       \* "tm" | "krum"
          m,          \* number of rows
          par,        \* trim_number b, resp. n_byzantine f
          hs,         \* seed of the honest matrix
          status,     \* "ok" | "reject" (too few rows for the parameter)
          corrupt,    \* set of corrupted rows
          JA, JB      \* the current matrix J = JA + S * JB

vars == <<kind, m, par, hs, status, corrupt, JA, JB>>

SExp      == 39                 \* S = 2^39 = 5.5e11 (<= 1e12 x honest scale whenever that scale is >= 1)
SOver1000 == 549755813          \* floor(2^39 / 1000)
BigB      == 20                 \* magnitude of a mild outlier
Exps      == <<0 - 20, 0, 10>>  \* the harness replays every scenario on 2^e * J for e in Exps:
                                \* all comparisons are homogeneous, so TM(2^e J) = 2^e TM(J) and the
                                \* Krum selection is unchanged (powers of two are exact in floats)

Rows == 1..m
Cols == 1..NCols

-----------------------------------------------------------------------------
(* Honest matrices and corruption patterns                                 *)
HEntry(s, r, c) == (((s * 7919 + r * 1009 + c * 131 + r * c * 17 + s * r * 31 + s * c * 57 + r * r * 53 + c * c * r * 29) % 1031) % 7) - 3
Honest(s, mm)   == [r \in 1..mm |-> [c \in Cols |-> HEntry(s, r, c)]]
ZeroM(mm)       == [r \in 1..mm |-> [c \in Cols |-> 0]]
Alt(x)          == IF x % 2 = 0 THEN 1 ELSE 0 - 1

\* the row written by pattern p into row i: [a |-> level-0 part, b |-> coefficients of S]
Pattern(p, i) ==
    CASE p = 1 -> [a |-> [c \in Cols |-> BigB],                                b |-> [c \in Cols |-> 0]]
      [] p = 2 -> [a |-> [c \in Cols |-> 0],                                   b |-> [c \in Cols |-> 1]]
      [] p = 3 -> [a |-> [c \in Cols |-> IF c = 1 THEN 0 ELSE HEntry(hs, i, c)],
                   b |-> [c \in Cols |-> IF c = 1 THEN 0 - 1 ELSE 0]]                 \* one huge coordinate
      [] p = 4 -> [a |-> [c \in Cols |-> 0 - HEntry(hs, i, c)],                b |-> [c \in Cols |-> 0]]  \* sign flip
      [] p = 5 -> [a |-> [c \in Cols |-> 0],                                   b |-> [c \in Cols |-> Alt(c + i)]]
      [] p = 6 -> [a |-> [c \in Cols |-> Alt(c) * BigB],                       b |-> [c \in Cols |-> 0]]
      [] p = 7 -> [a |-> [c \in Cols |-> 1],                                   b |-> [c \in Cols |-> 0]]  \* plausible
      [] p = 8 -> [a |-> [c \in Cols |-> IF c = 1 THEN BigB ELSE 0],
                   b |-> [c \in Cols |-> IF c = NCols THEN 1 ELSE 0]]                 \* mild and huge mixed

-----------------------------------------------------------------------------
(* Row-count requirements                                                  *)
TMAdmissible(mm, b)      == mm >= 2 * b + 1
KrumAdmissible(mm, f, k) == mm >= f + 3 /\ mm >= k
ParRange(kd, mm) == IF kd = "tm" THEN 0..((mm + 1) \div 2)          \* includes the first inadmissible b
                    ELSE 0..(IF mm >= 2 THEN mm - 2 ELSE 0)          \* includes the first inadmissible f
StatusOf(kd, mm, p) == IF kd = "tm" THEN (IF TMAdmissible(mm, p) THEN "ok" ELSE "reject")
                       ELSE (IF mm >= p + 3 THEN "ok" ELSE "reject")

Init == /\ kind \in Kinds /\ m \in 1..MaxM /\ hs \in HSeeds
        /\ par \in ParRange(kind, m)
        /\ status = StatusOf(kind, m, par)
        /\ corrupt = {}
        /\ JA = Honest(hs, m) /\ JB = ZeroM(m)

Corrupt(i, p) == /\ status = "ok"
                 /\ i \notin corrupt
                 /\ Cardinality(corrupt) < par
                 /\ corrupt' = corrupt \cup {i}
                 /\ JA' = [JA EXCEPT ![i] = Pattern(p, i).a]
                 /\ JB' = [JB EXCEPT ![i] = Pattern(p, i).b]
                 /\ UNCHANGED <<kind, m, par, hs, status>>

Next == \E i \in Rows, p \in 1..NPat : Corrupt(i, p)
Spec == Init /\ [][Next]_vars

-----------------------------------------------------------------------------
(* TrimmedMean                                                             *)

\* entries as keys <<b, a>>, ordered lexicographically
KLess(x, y) == x[1] < y[1] \/ (x[1] = y[1] /\ x[2] < y[2])
ColKeys(A, B, c) == [i \in 1..Len(A) |-> <<B[i][c], A[i][c]>>]

\* property layer: remove the largest and the smallest, b times; average what is left
RemoveAt(s, i) == TLCEval([j \in 1..(Len(s) - 1) |-> IF j < i THEN s[j] ELSE s[j + 1]])
MaxIdx(s) == CHOOSE i \in DOMAIN s : \A j \in DOMAIN s : ~KLess(s[i], s[j])
MinIdx(s) == CHOOSE i \in DOMAIN s : \A j \in DOMAIN s : ~KLess(s[j], s[i])
RECURSIVE Trim(_, _)
Trim(s, n) == IF n = 0 THEN s
              ELSE LET s1 == RemoveAt(s, MaxIdx(s)) IN Trim(RemoveAt(s1, MinIdx(s1)), n - 1)
SumIdx(s, t) == LET F[i \in 0..Len(s)] == IF i = 0 THEN 0 ELSE F[i - 1] + s[i][t] IN F[Len(s)]
MeanKeys(s)  == [a |-> Frac(SumIdx(s, 2), Len(s)), b |-> Frac(SumIdx(s, 1), Len(s))]
ColsOf(A) == 1..Len(A[1])
PropTM(A, B, b) == TLCEval([c \in ColsOf(A) |-> MeanKeys(Trim(TLCEval(ColKeys(A, B, c)), b))])

\* implementation-shaped layer: sort, narrow(start = b, length = m - 2b), mean  (ranks 1..m)
RankIn(s, i) == Cardinality({j \in DOMAIN s : KLess(s[j], s[i]) \/ (s[j] = s[i] /\ j < i)}) + 1
ImplTMCol(s, b) ==
    LET keep == TLCEval({i \in DOMAIN s : RankIn(s, i) > b /\ RankIn(s, i) <= Len(s) - b})
        F[i \in 0..Len(s)] == IF i = 0 THEN <<0, 0>>
                              ELSE LET p == F[i - 1] IN
                                   IF i \in keep THEN <<p[1] + s[i][1], p[2] + s[i][2]>> ELSE p
        tot == F[Len(s)]
    IN  [a |-> Frac(tot[2], Cardinality(keep)), b |-> Frac(tot[1], Cardinality(keep))]
ImplTM(A, B, b) == TLCEval([c \in ColsOf(A) |-> ImplTMCol(TLCEval(ColKeys(A, B, c)), b)])

\* range of the untouched rows of column c (level-0 integers)
MinOf(S) == CHOOSE x \in S : \A y \in S : x <= y
MaxOf(S) == CHOOSE x \in S : \A y \in S : x >= y
HonestVals(A, bad, c) == {A[i][c] : i \in (1..Len(A)) \ bad}
InHonestRange(out, A, bad) ==
    \A c \in ColsOf(A) : /\ out[c].b = RZero
                    /\ RLe(R(MinOf(HonestVals(A, bad, c))), out[c].a)
                    /\ RLe(out[c].a, R(MaxOf(HonestVals(A, bad, c))))

-----------------------------------------------------------------------------
(* Krum                                                                    *)

\* squared distance between rows i and j as a polynomial A + B*S + C*S^2
Dist2(A, B, i, j) ==
    LET F[c \in 0..Len(A[1])] ==
          IF c = 0 THEN <<0, 0, 0>>
          ELSE LET da == A[i][c] - A[j][c]
                   db == B[i][c] - B[j][c]
                   p  == F[c - 1]
               IN  <<p[1] + da * da, p[2] + 2 * da * db, p[3] + db * db>>
    IN  [A |-> F[Len(A[1])][1], B |-> F[Len(A[1])][2], C |-> F[Len(A[1])][3]]
DLess(x, y) == x.C < y.C \/ (x.C = y.C /\ (x.B < y.B \/ (x.B = y.B /\ x.A < y.A)))

RECURSIVE ISqrtB(_, _, _)
ISqrtB(x, lo, hi) == IF lo = hi THEN lo
                     ELSE LET mid == (lo + hi + 1) \div 2
                          IN  IF mid * mid <= x THEN ISqrtB(x, mid, hi) ELSE ISqrtB(x, lo, mid - 1)
ISqrt(x) == ISqrtB(x, 0, 46340)                       \* floor(sqrt(x)), 0 <= x < 2^31
SqLo(x, q) == ISqrt(x * q * q)                        \* floor(q * sqrt(x))
SqHi(x, q) == LET r == ISqrt(x * q * q) IN IF r * r = x * q * q THEN r ELSE r + 1
\* precision of the level-0 enclosure: q * q * maxA must stay below 2^31
QOf(maxA) == IF maxA <= 2000 THEN 1000 ELSE IF maxA <= 200000 THEN 100
             ELSE IF maxA <= 20000000 THEN 10 ELSE 1

AbsI(x) == IF x < 0 THEN 0 - x ELSE x

\* all scores of the matrix (A, B) for n_byzantine = f: function row -> enclosure record
KrumScores(A, B, f) ==
    LET mm   == Len(A)
        RR   == 1..mm
        ncl  == mm - f - 2
        \* TLCEval: TLC keeps [x \in S |-> e] as a closure and re-evaluates e at every application
        D    == TLCEval([i \in RR |-> TLCEval([j \in RR |-> Dist2(A, B, i, j)])])
        \* position of j among the other rows of i, by distance (ties by index: equal distances
        \* contribute equal amounts, so the choice among them does not change the score)
        Pos(i, j) == Cardinality({l \in RR \ {i} : DLess(D[i][l], D[i][j]) \/ (D[i][l] = D[i][j] /\ l < j)})
        Near == TLCEval([i \in RR |-> TLCEval({j \in RR \ {i} : Pos(i, j) < ncl})])
        maxA == MaxOf({0} \cup {D[i][j].A : i \in RR, j \in RR})
        q    == QOf(maxA)
        Sum(i, Fn(_)) == LET js == Near[i]
                             G[l \in 0..mm] == IF l = 0 THEN 0
                                               ELSE IF l \in js THEN G[l - 1] + Fn(D[i][l]) ELSE G[l - 1]
                         IN  G[mm]
        L1lo(d) == IF d.C > 0 THEN SqLo(d.C, 1000) ELSE 0
        L1hi(d) == IF d.C > 0 THEN SqHi(d.C, 1000) ELSE 0
        L0lo(d) == IF d.C = 0 THEN SqLo(d.A, q) ELSE 0
        L0hi(d) == IF d.C = 0 THEN SqHi(d.A, q) ELSE 0
        W(d)    == AbsI(d.B) + d.A
        N1(d)   == IF d.C > 0 THEN 1 ELSE 0
    IN  TLCEval([i \in RR |-> [l1lo |-> Sum(i, L1lo), l1hi |-> Sum(i, L1hi), l0lo |-> Sum(i, L0lo),
                               l0hi |-> Sum(i, L0hi), w |-> Sum(i, W), n1 |-> Sum(i, N1), near |-> Near[i]]])

\* implementation-shaped neighbourhood (krum.py): the n_closest + 1 smallest entries of row i of the
\* distance matrix INCLUDING the self-distance, of which the first is dropped - against the property
\* layer's "m - f - 2 nearest OTHER rows"; compared as bags of distances (equal bags = equal scores)
KrumImplNeighboursAreProp(A, B, f) ==
    LET mm   == Len(A)
        RR   == 1..mm
        ncl  == mm - f - 2
        D    == TLCEval([i \in RR |-> TLCEval([j \in RR |-> Dist2(A, B, i, j)])])
        Before(i, l, j) == DLess(D[i][l], D[i][j]) \/ (D[i][l] = D[i][j] /\ l < j)
        PosAll(i, j)    == Cardinality({l \in RR : Before(i, l, j)})
        PosOthers(i, j) == Cardinality({l \in RR \ {i} : Before(i, l, j)})
        ImplNear(i) == {j \in RR : PosAll(i, j) >= 1 /\ PosAll(i, j) <= ncl}
        PropNear(i) == {j \in RR \ {i} : PosOthers(i, j) < ncl}
        Bag(i, S)   == [d \in {D[i][j] : j \in S} |-> Cardinality({j \in S : D[i][j] = d})]
    IN  \A i \in RR : Bag(i, ImplNear(i)) = Bag(i, PropNear(i))

\* score si is DEFINITELY smaller than score sj.
\* (1) the S-parts are separated by >= S/1000 while everything else is bounded by w:
\*     |sqrt(A + B S + C S^2) - S sqrt(C)| <= |B| + A for C >= 1, and sqrt(A) <= A;
\* (2) no S-part on either side: plain interval comparison of the level-0 sums.
Below(si, sj) == \/ (si.l1hi < sj.l1lo /\ si.w + sj.w < SOver1000)
                 \/ (si.n1 = 0 /\ sj.n1 = 0 /\ si.l0hi < sj.l0lo)

BelowRel(sc) == TLCEval({p \in (DOMAIN sc) \X (DOMAIN sc) : Below(sc[p[1]], sc[p[2]])})

\* property layer: T may be the selected set iff it has k rows and no row outside is definitely
\* better than a row inside
KrumAllowed(T, rel, RR, k) == /\ Cardinality(T) = k
                              /\ \A i \in T, j \in RR \ T : <<j, i>> \notin rel
KrumSelections(rel, RR, k) == {T \in SUBSET RR : KrumAllowed(T, rel, RR, k)}

\* rows that every / some allowed selection contains
MustIn(rel, RR, k) == {i \in RR : Cardinality({j \in RR : <<i, j>> \in rel}) >= Cardinality(RR) - k}
MayIn(rel, RR, k)  == {i \in RR : Cardinality({j \in RR : <<j, i>> \in rel}) < k}

\* the average of the rows T, per column, as two rationals
RowAvg(A, B, T) ==
    [c \in ColsOf(A) |->
       LET F[i \in 0..Len(A)] == IF i = 0 THEN <<0, 0>>
                                 ELSE LET p == F[i - 1] IN
                                      IF i \in T THEN <<p[1] + A[i][c], p[2] + B[i][c]>> ELSE p
           tot == F[Len(A)]
       IN  [a |-> Frac(tot[1], Cardinality(T)), b |-> Frac(tot[2], Cardinality(T))]]

HugeRows(B) == {i \in 1..Len(B) : \E c \in 1..Len(B[i]) : B[i][c] # 0}

-----------------------------------------------------------------------------
(* Checked by TLC                                                          *)

TypeOK == /\ kind \in Kinds /\ m \in 1..MaxM /\ hs \in HSeeds /\ status \in {"ok", "reject"}
          /\ corrupt \subseteq Rows /\ Cardinality(corrupt) <= par
          /\ Len(JA) = m /\ Len(JB) = m
          /\ \A i \in Rows \ corrupt : JA[i] = Honest(hs, m)[i] /\ JB[i] = ZeroM(m)[i]

\* a rejected parameter never gets a fault; an accepted one has the rows it needs
RejectIsTerminal == status = "reject" => corrupt = {}

\* TrimmedMean: the implementation-shaped definition is the property-layer definition ...
TMImplIsProp == (kind = "tm" /\ status = "ok") => ImplTM(JA, JB, par) = PropTM(JA, JB, par)
\* ... and up to b arbitrary rows keep every coordinate within the range of the untouched rows
TMRobust == (kind = "tm" /\ status = "ok") => InHonestRange(PropTM(JA, JB, par), JA, corrupt)

\* Krum: everything the clauses below need, computed once per state
KrumAll(A, B, f) ==
    LET sc  == KrumScores(A, B, f)
        rel == BelowRel(sc)
        RR  == 1..Len(A)
    IN  [sc |-> sc, rel |-> rel,
         sels |-> TLCEval([k \in RR |-> TLCEval(KrumSelections(rel, RR, k))])]

\* for every admissible k some selection is allowed, every row that must be selected may be, and
\* exactly-decidable instances have a single selection
KrumWellDefinedOn(ka, RR) ==
    \A k \in RR : LET sels == ka.sels[k] IN
                   /\ sels # {}
                   /\ \A T \in sels : MustIn(ka.rel, RR, k) \subseteq T /\ T \subseteq MayIn(ka.rel, RR, k)
                   /\ (Cardinality(MustIn(ka.rel, RR, k)) = k => sels = {MustIn(ka.rel, RR, k)})
\* rows that are huge in some coordinate are never selected while enough other rows exist and
\* the neighbourhood is larger than the group of huge rows (m - f - 2 >= number of huge rows)
KrumIgnoresFarRowsOn(ka, B, f) ==
    LET mm == Len(B)
        huge == HugeRows(B)
    IN  (mm - f - 2 >= Cardinality(huge)) =>
           \A k \in 1..(mm - Cardinality(huge)) : \A T \in ka.sels[k] : T \cap huge = {}
\* enclosure arithmetic stays far below the 32-bit limit / the S/1000 separation
SlackOKOn(ka) == \A i \in DOMAIN ka.sc : ka.sc[i].w < 100000000

KrumChecks == (kind = "krum" /\ status = "ok") =>
                 LET ka == KrumAll(JA, JB, par) IN
                 /\ KrumWellDefinedOn(ka, Rows)
                 /\ KrumIgnoresFarRowsOn(ka, JB, par)
                 /\ SlackOKOn(ka)
KrumImplIsProp == (kind = "krum" /\ status = "ok") => KrumImplNeighboursAreProp(JA, JB, par)
\* the three clauses separately (used to name the failing one when KrumChecks is violated)
KrumWellDefined    == (kind = "krum" /\ status = "ok") => KrumWellDefinedOn(KrumAll(JA, JB, par), Rows)
KrumIgnoresFarRows == (kind = "krum" /\ status = "ok") => KrumIgnoresFarRowsOn(KrumAll(JA, JB, par), JB, par)
SlackOK            == (kind = "krum" /\ status = "ok") => SlackOKOn(KrumAll(JA, JB, par))

-----------------------------------------------------------------------------
(* Scenario export: every reachable (J, parameter), with the expected results             *)
SetToSeq(S) == LET F[n \in 0..MaxM] == IF n = 0 THEN <<>>
                                       ELSE IF n \in S THEN Append(F[n - 1], n) ELSE F[n - 1]
               IN  F[MaxM]
SetsToSeq(SS) == LET RECURSIVE G(_)
                     G(X) == IF X = {} THEN <<>>
                             ELSE LET T == CHOOSE T \in X : TRUE IN <<SetToSeq(T)>> \o G(X \ {T})
                 IN  G(SS)

KrumCases(A, B, f) ==
    LET mm  == Len(A)
        ok  == mm >= f + 3
        ka  == IF ok THEN KrumAll(A, B, f) ELSE <<>>
    IN  [k \in 1..(mm + 1) |->
           IF ok /\ k <= mm
           THEN [k |-> k, status |-> "ok", allowed |-> SetsToSeq(ka.sels[k])]
           ELSE [k |-> k, status |-> "reject", allowed |-> <<>>]]

Scenario ==
    [kind |-> kind, m |-> m, par |-> par, hs |-> hs, status |-> status, corrupt |-> SetToSeq(corrupt),
     ja |-> JA, jb |-> JB, sexp |-> SExp, exps |-> Exps,
     tm |-> IF kind = "tm" /\ status = "ok" THEN PropTM(JA, JB, par) ELSE <<>>,
     hmin |-> IF status = "ok" THEN [c \in Cols |-> MinOf(HonestVals(JA, corrupt, c))] ELSE <<>>,
     hmax |-> IF status = "ok" THEN [c \in Cols |-> MaxOf(HonestVals(JA, corrupt, c))] ELSE <<>>,
     krum |-> IF kind = "krum" THEN KrumCases(JA, JB, par) ELSE <<>>]

Export == PrintT(<<"SCN", ToJson(Scenario)>>)
=============================================================================
