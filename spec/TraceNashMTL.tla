---------------------------- MODULE TraceNashMTL ----------------------------
(***************************************************************************)
(* Trace validation for NashMTL (C19): histories of calls and resets       *)
(* recorded from one real instance are stepped through the actions of      *)
(* NashMTL.tla; the verdict of every call uses the PROPERTY layer          *)
(* (PropRecompute / PropChain on the history consumed so far).             *)
(*                                                                         *)
(* File (JSON): [mode |-> "plan" | "validate", episodes |-> <<...>>]       *)
(* episode: [ep, k, clip, niter, events, interp]                           *)
(*   clip  : max_norm > 0 (BOOLEAN); when FALSE the norm clause is vacuous *)
(*   event : [t |-> "call"|"reset", sym, solves, exc, oid, wid, norm_ok]   *)
(*           sym    matrix identifier (string)                              *)
(*           solves number of cvxpy Problem.solve invocations of the call  *)
(*           exc    "none" or the exception type                           *)
(*           oid    identifier of the observed output vector               *)
(*           wid    identifier of the observed weights (the vector returned *)
(*                  by the weighting, up to the max_norm rescaling: two    *)
(*                  calls get the same identifier iff the later one applies *)
(*                  the weights of the earlier one, rescaled against its    *)
(*                  own matrix)                                             *)
(*           norm_ok  |out| <= max_norm (with the derived allowance)       *)
(*   interp: sequence of [chain, sym, oid]: the interpretation, obtained   *)
(*           from FRESH real instances, of the term clip(Solve-chain).J_sym *)
(* mode "plan": no observation is read; for every call the term whose      *)
(*   interpretation is needed is printed (<<"NEED", ...>>), so that the    *)
(*   harness never encodes the schedule itself.                            *)
(* mode "validate": every call is checked; a failing call ends its episode *)
(*   with <<"REJECT", [ep, at, clause]>>; the other episodes go on.        *)
(***************************************************************************)
EXTENDS NashMTL, IOUtils, TLCExt

TFile    == JsonDeserialize(IOEnv.TRACE_FILE)
Mode     == TFile.mode
Episodes == TFile.episodes
NEp      == Len(Episodes)

VARIABLES ep, pos, stage, nAcc, nRej, nCalls
tvars == <<k, clipOn, niter, hist, inst, fresh, calls, ep, pos, stage, nAcc, nRej, nCalls>>

E  == Episodes[ep]
Ev == E.events[pos]

TInit == /\ k = 1 /\ clipOn = TRUE /\ niter = 20 /\ hist = <<>> /\ inst = NewInst /\ fresh = NewInst /\ calls = <<>>
         /\ ep = 1 /\ pos = 1 /\ stage = "load" /\ nAcc = 0 /\ nRej = 0 /\ nCalls = 0

Load == /\ ep <= NEp /\ stage = "load"
        /\ k' = E.k /\ clipOn' = E.clip /\ niter' = E.niter /\ hist' = <<>> /\ inst' = NewInst /\ fresh' = NewInst /\ calls' = <<>>
        /\ pos' = 1 /\ stage' = "events"
        /\ UNCHANGED <<ep, nAcc, nRej, nCalls>>

NextEp(ok) == /\ ep' = ep + 1 /\ stage' = "load" /\ pos' = 1
              /\ nAcc' = nAcc + (IF ok THEN 1 ELSE 0) /\ nRej' = nRej + (IF ok THEN 0 ELSE 1)

\* what the property layer prescribes for a call of matrix J appended to the history
HPlus(J)      == Append(hist, J)
WantRe(J)     == PropRecompute(HPlus(J), k, Len(hist) + 1)
WantChain(J)  == PropChain(HPlus(J), k, Len(hist) + 1)
WantRef(J)    == PropRef(HPlus(J), k, Len(hist) + 1)      \* the call that opened the period
Interp(J)     == {i \in DOMAIN E.interp : E.interp[i].chain = WantChain(J) /\ E.interp[i].sym = J}

Clause(J) ==
    IF Ev.exc # "none" THEN "call_raised"
    ELSE IF WantRe(J) /\ Ev.solves = 0 THEN "scheduled_recompute_did_not_solve"
    ELSE IF ~WantRe(J) /\ Ev.solves > 0 THEN "solver_invoked_on_a_reuse_call"
    ELSE IF ~WantRe(J) /\ Ev.wid # E.events[WantRef(J)].wid
         THEN "reuse_call_did_not_apply_the_weights_of_the_recompute_call_of_its_period"
    ELSE IF Interp(J) = {} THEN "MISSING"
    ELSE IF \E i \in Interp(J) : E.interp[i].oid # Ev.oid THEN "output_is_not_clip_of_scheduled_weights_times_matrix"
    ELSE IF clipOn /\ ~Ev.norm_ok THEN "norm_exceeds_max_norm"
    ELSE "none"

\* the implementation layer must agree with the property layer on the consumed history
\* (proved by the model check; re-checked here on the longer recorded histories)
LayersAgree(J) == LET ni == CallInst(inst, k, niter, J) IN
                  /\ CallSucceeds(inst, k)
                  /\ Recomputes(inst.step, k) = WantRe(J)
                  /\ Chain(ni.alpha) = WantChain(J)
                  /\ AllNiter(ni.alpha, niter)
                  /\ (IF Recomputes(inst.step, k) THEN Len(hist) + 1 ELSE calls[Len(calls)].ref) = WantRef(J)

TCall == /\ ep <= NEp /\ stage = "events" /\ pos <= Len(E.events) /\ Ev.t = "call"
         /\ (~LayersAgree(Ev.sym) => PrintT(<<"MODELGAP", ToJson([ep |-> E.ep, at |-> pos])>>))
         /\ IF Mode = "plan"
            THEN /\ PrintT(<<"NEED", ToJson([ep |-> E.ep, at |-> pos, sym |-> Ev.sym,
                                             recompute |-> WantRe(Ev.sym), ref |-> WantRef(Ev.sym),
                                             chain |-> WantChain(Ev.sym)])>>)
                 /\ Call(Ev.sym) /\ pos' = pos + 1 /\ nCalls' = nCalls + 1
                 /\ UNCHANGED <<ep, stage, nAcc, nRej>>
            ELSE IF Clause(Ev.sym) = "none"
            THEN /\ Call(Ev.sym) /\ pos' = pos + 1 /\ nCalls' = nCalls + 1
                 /\ UNCHANGED <<ep, stage, nAcc, nRej>>
            ELSE /\ PrintT(<<"REJECT", ToJson([ep |-> E.ep, at |-> pos, clause |-> Clause(Ev.sym),
                                               recompute |-> WantRe(Ev.sym), ref |-> WantRef(Ev.sym),
                                               chain |-> WantChain(Ev.sym)])>>)
                 /\ NextEp(FALSE)
                 /\ UNCHANGED <<k, clipOn, niter, hist, inst, fresh, calls, nCalls>>

TReset == /\ ep <= NEp /\ stage = "events" /\ pos <= Len(E.events) /\ Ev.t = "reset"
          /\ Reset /\ pos' = pos + 1
          /\ UNCHANGED <<ep, stage, nAcc, nRej, nCalls>>

TFinish == /\ ep <= NEp /\ stage = "events" /\ pos = Len(E.events) + 1
           /\ NextEp(TRUE)
           /\ UNCHANGED <<k, clipOn, niter, hist, inst, fresh, calls, nCalls>>

TDone == /\ ep = NEp + 1 /\ stage = "load"
         /\ PrintT(<<"SUMMARY", ToJson([episodes |-> NEp, accepted |-> nAcc, rejected |-> nRej,
                                         calls |-> nCalls, mode |-> Mode])>>)
         /\ stage' = "end"
         /\ UNCHANGED <<k, clipOn, niter, hist, inst, fresh, calls, ep, pos, nAcc, nRej, nCalls>>

TNext == Load \/ TCall \/ TReset \/ TFinish \/ TDone
TraceSpec == TInit /\ [][TNext]_tvars

TraceConsumed == (stage = "end") => (nAcc + nRej = NEp)
\* on every consumed prefix the lock-step fresh copy is indistinguishable (reset == new)
TResetIsFresh == Obs(inst) = Obs(fresh)
=============================================================================
