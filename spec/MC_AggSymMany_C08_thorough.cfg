CONSTANT Mode = "cols"
CONSTANT ManyM = {26, 27, 31, 33, 40}
CONSTANT Seeds = {1, 2, 3}
CONSTANT MaxSteps = 2
CONSTANT PadCounts = {3, 61, 1021}
SPECIFICATION Spec
INVARIANT TypeOK
INVARIANT Consistent
INVARIANT DistInvariant
INVARIANT OffsetInvariant
INVARIANT LawMany
INVARIANT PadLaw
CHECK_DEADLOCK FALSE
