CONSTANT Family <- FamTiny
CONSTANT FWK = 0
CONSTANT SampleMod = 1
CONSTANT SamplePick = 0
SPECIFICATION TraceSpec
INVARIANT TraceConsumed
CHECK_DEADLOCK FALSE
