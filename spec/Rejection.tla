----------------------------- MODULE Rejection -----------------------------
(***************************************************************************)
(* C20 - a call rejected for its arguments changes nothing.                *)
(*                                                                         *)
(* A scenario = a valid backward / mtl_backward call on the fixed program  *)
(* of FixedProg.tla + ONE fault of one kind at one POSITION of one         *)
(* argument list (+ pre-existing .grad contents).  The implementation-     *)
(* shaped layer is the sequence of checks and writes the code performs, in *)
(* its order (after the fix 15bf8f5: all parameters are validated before   *)
(* the pipeline runs); TLC steps through it and checks                     *)
(*     NothingChanged  ==  outcome = "raised"  =>  grad = grad0            *)
(* for every scenario, and that every faulty scenario is indeed rejected   *)
(* and the fault-free one deposits the expected update.                    *)
(* Every scenario is exported with its concrete argument lists and is      *)
(* executed on the real code.                                              *)
(***************************************************************************)
EXTENDS FixedProg, TLC, Json

VARIABLES scn, pc, grad, outcome
vars == <<scn, pc, grad, outcome>>

\* ------------------------------------------------------------------ argument lists with a fault
InsertAt(s, p, x) == SubSeq(s, 1, p - 1) \o <<x>> \o SubSeq(s, p, Len(s))      \* x becomes s'[p]
ReplaceAt(s, p, x) == [s EXCEPT ![p] = x]

BwdBases == { [tensors |-> <<F, Y>>, inputs |-> <<A>>],
              [tensors |-> <<F>>, inputs |-> <<A, Bb>>],
              [tensors |-> <<Y, L1>>, inputs |-> <<Bb, T1, A>>] }
MtlBases == { [losses |-> <<L1, L2>>, feats |-> <<F>>, tparams |-> << <<T1>>, <<T2>> >>, shared |-> <<A, Bb>>],
              [losses |-> <<L3, L2>>, feats |-> <<F>>, tparams |-> << <<U1, T1, U2>>, <<T2>> >>, shared |-> <<Bb>>],
              [losses |-> <<L1>>, feats |-> <<F>>, tparams |-> << <<T1>> >>, shared |-> <<A, Bb>>] }

BwdFaults == {"none", "chunk", "empty_tensors", "dup_tensor", "nonleaf_param", "nograd_param",
              "agg_wrong_len", "agg_too_few_rows", "agg_nonfinite"}
MtlFaults == {"none", "chunk", "empty_features", "empty_losses", "nonscalar_loss", "len_mismatch",
              "overlap", "dup_feature", "dup_shared", "dup_taskparam", "nonleaf_shared", "nograd_shared",
              "nonleaf_taskparam", "nograd_taskparam"}

\* all (base, fault, position) combinations for backward: the faulty argument lists
BwdScenarios ==
    UNION { UNION {
      CASE f = "none"          -> {[fn |-> "backward", fault |-> f, tensors |-> b.tensors, inputs |-> b.inputs, k |-> k, agg |-> "constant"] : k \in {0, 1, 2}}
        [] f = "chunk"         -> {[fn |-> "backward", fault |-> f, tensors |-> b.tensors, inputs |-> b.inputs, k |-> k, agg |-> "constant"] : k \in {-1, -3}}
        [] f = "empty_tensors" -> {[fn |-> "backward", fault |-> f, tensors |-> <<>>, inputs |-> b.inputs, k |-> 0, agg |-> "constant"]}
        [] f = "dup_tensor"    -> {[fn |-> "backward", fault |-> f, tensors |-> InsertAt(b.tensors, p, b.tensors[1]), inputs |-> b.inputs, k |-> 0, agg |-> "constant"]
                                     : p \in 2..(Len(b.tensors) + 1)}
        [] f = "nonleaf_param" -> {[fn |-> "backward", fault |-> f, tensors |-> b.tensors, inputs |-> InsertAt(b.inputs, p, G), k |-> k, agg |-> "constant"]
                                     : p \in 1..(Len(b.inputs) + 1), k \in {0, 1}}
        [] f = "nograd_param"  -> {[fn |-> "backward", fault |-> f, tensors |-> b.tensors, inputs |-> InsertAt(b.inputs, p, Ee), k |-> 0, agg |-> "constant"]
                                     : p \in 1..(Len(b.inputs) + 1)}
        [] f = "agg_nonfinite" -> {[fn |-> "backward", fault |-> f, tensors |-> b.tensors, inputs |-> b.inputs, k |-> k, agg |-> a]
                                     : k \in {0, 1}, a \in {"constant_on_nan", "constant_on_inf", "constant_on_ninf"}}
                                  \* a valid aggregator, but the Jacobian has a non-finite entry next to finite ones (the first
                                  \* entry of leaf b is nan / +inf / -inf and every base differentiates a product with b)
        [] f = "agg_wrong_len" -> {[fn |-> "backward", fault |-> f, tensors |-> b.tensors, inputs |-> b.inputs, k |-> k, agg |-> "constant_wrong_len"] : k \in {0, 1}}
        [] f = "agg_too_few_rows" -> {[fn |-> "backward", fault |-> f, tensors |-> b.tensors, inputs |-> b.inputs, k |-> 0, agg |-> a]
                                     : a \in {"krum_too_few", "trimmed_too_few", "krum_one_short"}     \* far too few rows / exactly one short
                                            \cup (IF NRowsOfT(b.tensors) % 2 = 0 THEN {"trimmed_one_short"} ELSE {})}
      : f \in BwdFaults } : b \in BwdBases }

MtlRec(b, f, losses, feats, tparams, shared, k) ==
    [fn |-> "mtl", fault |-> f, losses |-> losses, feats |-> feats, tparams |-> tparams, shared |-> shared, k |-> k, agg |-> "constant"]

MtlScenarios ==
    UNION { UNION {
      CASE f = "none"           -> {MtlRec(b, f, b.losses, b.feats, b.tparams, b.shared, k) : k \in {0, 1}}
        [] f = "chunk"          -> {MtlRec(b, f, b.losses, b.feats, b.tparams, b.shared, k) : k \in {-1, -2}}
        [] f = "empty_features" -> {MtlRec(b, f, b.losses, <<>>, b.tparams, b.shared, 0)}
        [] f = "empty_losses"   -> {MtlRec(b, f, <<>>, b.feats, <<>>, b.shared, 0)}
        [] f = "nonscalar_loss" -> {MtlRec(b, f, ReplaceAt(b.losses, i, x), b.feats, b.tparams, b.shared, 0)
                                      : i \in DOMAIN b.losses, x \in {8, 10}}   \* 8: two elements; 10: ONE element, presented
                                                                                \* with shape (1,) or (1,1) - not a scalar either
        [] f = "len_mismatch"   -> {MtlRec(b, f, b.losses, b.feats, Append(b.tparams, <<>>), b.shared, 0),
                                    MtlRec(b, f, Append(b.losses, L2), b.feats, b.tparams, b.shared, 0)}
        [] f = "overlap"        -> {MtlRec(b, f, b.losses, b.feats, [b.tparams EXCEPT ![i] = InsertAt(@, p, b.shared[1])], b.shared, 0)
                                      : i \in DOMAIN b.tparams, p \in 1..2}
        [] f = "dup_feature"    -> {MtlRec(b, f, b.losses, b.feats \o b.feats, b.tparams, b.shared, 0)}
        [] f = "dup_shared"     -> {MtlRec(b, f, b.losses, b.feats, b.tparams, InsertAt(b.shared, p, b.shared[1]), 0) : p \in 2..(Len(b.shared) + 1)}
        [] f = "dup_taskparam"  -> {MtlRec(b, f, b.losses, b.feats, [b.tparams EXCEPT ![i] = Append(@, @[1])], b.shared, 0) : i \in DOMAIN b.tparams}
        [] f = "nonleaf_shared" -> {MtlRec(b, f, b.losses, b.feats, b.tparams, InsertAt(b.shared, p, G), k) : p \in 1..(Len(b.shared) + 1), k \in {0, 1}}
        [] f = "nograd_shared"  -> {MtlRec(b, f, b.losses, b.feats, b.tparams, InsertAt(b.shared, p, Ee), 0) : p \in 1..(Len(b.shared) + 1)}
        [] f = "nonleaf_taskparam" -> {MtlRec(b, f, b.losses, b.feats, [b.tparams EXCEPT ![i] = InsertAt(@, p, G)], b.shared, 0)
                                      : i \in DOMAIN b.tparams, p \in 1..2}
        [] f = "nograd_taskparam"  -> {MtlRec(b, f, b.losses, b.feats, [b.tparams EXCEPT ![i] = InsertAt(@, p, Ee)], b.shared, 0)
                                      : i \in DOMAIN b.tparams, p \in 1..2}
      : f \in MtlFaults } : b \in MtlBases }

\* G (a non-leaf) inside tasks_params of a task whose loss does not depend on it is still invalid
Scenarios == BwdScenarios \cup MtlScenarios

PreContent(l) == [i \in 1..P0[l].size |-> 10 * l + i]
\* .grad is tracked on every leaf that requires grad AND on the frozen leaf Ee: a parameter that was trained
\* (its .grad was populated), then frozen with requires_grad_(False) without clearing it, carries a STALE .grad;
\* it is still "neither a leaf requiring grad nor retaining grad", and a rejected call must leave the stale
\* .grad alone as well
Tracked == GradLeaves \cup {Ee}
NoGradFaults == {"nograd_param", "nograd_shared", "nograd_taskparam"}
Pre0(pre, stale) == [l \in Tracked |-> IF l \in pre \/ (l = Ee /\ stale) THEN PreContent(l) ELSE None]

\* ------------------------------------------------------------------ the steps of the code, in order
\* each step: [kind |-> "check", faults |-> set of faults it detects]  or  [kind |-> "write", leaves |-> set]
Chk(fs)  == [kind |-> "check", faults |-> fs, leaves |-> {}]
Wr(ls)   == [kind |-> "write", faults |-> {}, leaves |-> ls]

TaskParamsOf(s, i) == IF i <= Len(s.tparams) THEN Range(s.tparams[i]) \cap GradLeaves ELSE {}
StepsOf(s) ==
    IF s.fn = "backward" THEN
      << Chk({"chunk"}), Chk({"empty_tensors"}),
         Chk({"nonleaf_param", "nograd_param"}),                 \* up-front validation of ALL inputs
         Chk({"dup_tensor"}),                                    \* construction of the transforms
         Chk({"agg_wrong_len", "agg_too_few_rows", "agg_nonfinite"}),             \* Init, Diagonalize, Jac, Aggregate
         Wr(Range(s.inputs) \cap GradLeaves) >>                  \* Accumulate: last stage
    ELSE
      << Chk({"chunk"}), Chk({"empty_features"}), Chk({"overlap"}), Chk({"nonscalar_loss"}),
         Chk({"empty_losses"}), Chk({"len_mismatch"}),
         Chk({"nonleaf_shared", "nograd_shared", "nonleaf_taskparam", "nograd_taskparam"}),
         Chk({"dup_feature", "dup_shared", "dup_taskparam"}) >>     \* construction of the transforms
      \o [i \in 1..Len(s.losses) |-> Wr(TaskParamsOf(s, i))]     \* task i: Grad then Accumulate
      \o << Wr(Range(s.shared) \cap GradLeaves) >>               \* Jac, Aggregate, Accumulate

W(s) == IF s.fn = "backward" THEN [r \in 1..NRowsOfT(s.tensors) |-> r - 2]
        ELSE [r \in 1..Len(s.losses) |-> r - 2]

\* what one write step adds (only reached in fault-free scenarios or after a missed check)
WriteUpdate(s, stepIdx, l) ==
    IF s.fn = "backward" THEN BwdUpdate(s.tensors, W(s), l)
    ELSE LET nChk == 8 IN
         IF stepIdx - nChk <= Len(s.losses)
         THEN TrueJac(P0, <<s.losses[stepIdx - nChk]>>, <<l>>)[1]
         ELSE MtlSharedUpdate(s.feats, s.losses, W(s), l)

Init == /\ \E s \in Scenarios, pre \in {{}, GradLeaves, {A, T1, U1}} :
            \E stale \in (IF s.fault \in NoGradFaults \cup {"none"} THEN BOOLEAN ELSE {FALSE}) :
              /\ scn = s @@ [pre |-> pre, stale |-> stale]
              /\ grad = Pre0(pre, stale)
        /\ pc = 1 /\ outcome = "running"

Step ==
    /\ outcome = "running"
    /\ LET steps == StepsOf(scn) IN
       IF pc > Len(steps)
       THEN outcome' = "returned" /\ UNCHANGED <<grad, pc, scn>>
       ELSE LET st == steps[pc] IN
            IF st.kind = "check"
            THEN IF scn.fault \in st.faults
                 THEN outcome' = "raised" /\ UNCHANGED <<grad, pc, scn>>
                 ELSE pc' = pc + 1 /\ UNCHANGED <<grad, outcome, scn>>
            ELSE /\ grad' = [l \in Tracked |-> IF l \in st.leaves THEN Plus(grad[l], WriteUpdate(scn, pc, l)) ELSE grad[l]]
                 /\ pc' = pc + 1 /\ UNCHANGED <<outcome, scn>>
Spec == Init /\ [][Step]_vars

\* ------------------------------------------------------------------ properties
NothingChanged == (outcome = "raised") => (grad = Pre0(scn.pre, scn.stale))
FaultyIsRejected == (outcome = "returned") => (scn.fault = "none")
ValidIsAccepted  == (outcome = "raised") => (scn.fault # "none")
\* no write step may precede a check step (the structural reason why NothingChanged holds)
ChecksBeforeWrites == LET steps == StepsOf(scn) IN
    \A i, j \in DOMAIN steps : (steps[i].kind = "write" /\ steps[j].kind = "check") => j < i

Export == (pc = 1 /\ outcome = "running") => PrintT(<<"SCN", ToJson(scn @@ [pregrad |-> Pre0(scn.pre, scn.stale)])>>)
ASSUME PrintT(<<"STATIC", ToJson([prog |-> P0])>>)
=============================================================================
