CONSTANT MaxLeaves = 2
CONSTANT MaxOps = 2
CONSTANT MaxTensors = 2
CONSTANT ChunkSizes = {0, 2}
CONSTANT MaxRows = 5
CONSTANT SampleMod = 48
CONSTANT SamplePick = 0
CONSTANT PreModes = {"none", "all"}
SPECIFICATION Spec
INVARIANT TypeOK
INVARIANT Deposits
INVARIANT OthersUntouched
INVARIANT TwinAutograd
INVARIANT RevEqualsFwd
INVARIANT JacIsTrue
INVARIANT Export
CHECK_DEADLOCK FALSE
