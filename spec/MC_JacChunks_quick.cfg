CONSTANT LargeM = {33, 40, 64, 100}
CONSTANT MaxM = 12
SPECIFICATION FairImplSpec
INVARIANT TypeOK
INVARIANT CountAndSize
INVARIANT NoVmapWhenSequential
INVARIANT AssembledInOrder
INVARIANT OnlyLastMayFree
INVARIANT LastUsesCallerFlag
INVARIANT PlanIsWhatHappens
INVARIANT Export
PROPERTY PropSpec
PROPERTY Terminates
CHECK_DEADLOCK FALSE
