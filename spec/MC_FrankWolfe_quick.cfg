CONSTANT Ms = {1, 2, 3}
CONSTANT N = 2
CONSTANT E = 1
CONSTANT UseFile = FALSE
CONSTANT K = 2
CONSTANT EpsNum = 0
CONSTANT EpsDen = 1
SPECIFICATION FairSpec
INVARIANT TypeOK
INVARIANT OnSimplex
INVARIANT NotLongerThanMean
INVARIANT LineSearchExact
INVARIANT TwoRowsClosedForm
INVARIANT ScaleFree
INVARIANT FinalsAgree
INVARIANT Export
PROPERTY Monotone
PROPERTY Terminates
CHECK_DEADLOCK FALSE
