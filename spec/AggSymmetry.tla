----------------------------- MODULE AggSymmetry -----------------------------
(***************************************************************************)
(* Metamorphic laws of the aggregators (properties C08, C09, C10).         *)
(*                                                                         *)
(* STATE: an instance `base` (integer matrix J0 with m rows, n0 columns,   *)
(* parameter vectors P0 - preference / leak numerators - and W0 - Constant *)
(* weights) together with the TRANSFORMED instance (J / den, P, W) and the *)
(* group element that produced it: row permutation rp, the n0 x n matrix   *)
(* Q / den with Q Q^T = den^2 I (signed permutations, Hadamard/2 blocks,   *)
(* appended zero columns), and the row scalings c1, c2 with coefficients   *)
(* ca, cb of the linearity law.                                            *)
(*                                                                         *)
(* ACTIONS are the GENERATORS of the transformation groups; TLC reaches    *)
(* every group element (within MaxSteps) by composing them:                *)
(*   SwapRows(i,j)   transpose two rows and the entries of P and W   (C10) *)
(*   SwapCols(a,b) NegCol(a) Hadamard(q) AppendZero                  (C08) *)
(*   PadZero(k, lay)  k zero columns (1 <= k <= 2^14) appended, prepended   *)
(*                    or interleaved: NOT materialised, carried as `pad`     *)
(*   WideTo(wk, w, lay)  the WIDE presentation: every column repeated 4^wk  *)
(*                    times and scaled by 2^-wk (same Gramian), then zero   *)
(*                    columns up to the total width w, w from a ladder of   *)
(*                    widths that are no multiples of block-like sizes      *)
(*                    (primes, 2^k +- 1): NOT materialised either      (C08) *)
(*   BumpC1(i) BumpC2(i) BumpA BumpB   scale rows / coefficients     (C09) *)
(*                                                                         *)
(* INVARIANTS (checked in every reachable state, i.e. along every path):   *)
(*   Consistent     the transformed instance is the group element applied  *)
(*                  to the base instance; Q is orthogonal (Q Q^T = den^2 I)*)
(*   GramInvariant  Gram(J Q) = Gram(J) permuted                           *)
(*   LawC08         A(J Q) = A(J) Q        Mean Sum Constant Krum;         *)
(*                  TrimmedMean for column permutations + zero columns     *)
(*   LawC09         A(diag(a c1 + b c2) J) = a A(diag(c1)J) + b A(diag(c2)J)*)
(*                  Mean Sum Constant                                       *)
(*   LawC10         A_{pi P}(pi J) = A_P(J)  Mean Sum Constant TrimmedMean  *)
(*                  Krum (selection permuted, ambiguity flag invariant)    *)
(*   PadLaw         inserting ONE zero column at ANY position keeps the     *)
(*                  Gramian, the orthonormal rows of Q and commutes with   *)
(*                  every exact aggregator (induction step: any count, any *)
(*                  layout); the two layouts of PadZero for small counts   *)
(*   WidenLaw       repeating every column 4 times and halving keeps the   *)
(*                  Gramian and commutes with every exact aggregator (the  *)
(*                  WIDE presentation m x (n 4^k) / 2^k used by C10)       *)
(*   WideLaw        WidenLaw composed with zero columns in every layout     *)
(*                  (materialised for wk = 1, k = PadSmall; the general     *)
(*                  case by the two induction steps)                        *)
(*   HistLaw        ONE aggregator object, ONE storage: the matrix a call   *)
(*                  sees is the content written last into the presented     *)
(*                  cell, whatever was there (and was aggregated) before    *)
(*   NearMaxLaw     fixed weights with sum |w_i| <= 1: every partial sum of *)
(*                  w @ J (any order, any grouping) is bounded by max |J|   *)
(*                  - the aggregators for which entries next to the largest *)
(*                  finite float are inside the quantifier of C10           *)
(*   RowBracket     the Rayleigh bracket of the singular values by the     *)
(*                  squared row norms (see below): with it the side of     *)
(*                  norm_eps on which sigma_max AND the smallest non-zero  *)
(*                  singular value of 2^e diag(c) J lie is decided exactly *)
(*                  from gd = diag(Gram(J)) and c (UPGrad ladder of C09)   *)
(*   LawConFIG      (part of LawC09; the direction clauses also in LawC08 *)
(*                  and LawC10) ConFIG on the TALL instances of the family *)
(*                  (independent columns, dependent and conflicting rows,  *)
(*                  one common row norm): direction y from the normal      *)
(*                  equations, A(diag(c) J) = (sum_i c_i d_i) y / <y,y>,   *)
(*                  the length l(c) = sum_i c_i d_i carried by its base-   *)
(*                  1024 digits (linear in c), its SIGN decided exactly -  *)
(*                  it changes between c1, c2 and a c1 + b c2              *)
(*   GradDrop       (part of LawC08, PadLaw, WidenLaw, WideLaw) with a 0/1-  *)
(*                  valued purity function, with and without leak: by value *)
(*                  under column permutations, zero columns in any layout   *)
(*                  and the wide presentation; the two candidates per       *)
(*                  column of the randomised purity functions likewise      *)
(*   NullLaw        (part of LawC09) axis-aligned exactly opposed rows and  *)
(*                  the zero matrix: ConFIG's exact direction is null for   *)
(*                  every positive row scaling (0 = a 0 + b 0)              *)
(*   Defaults       documented default arguments of UPGrad may be written   *)
(*                  or omitted (ArgForms): the same configuration           *)
(*   Export         prints the scenario with the expected values and the   *)
(*                  exact classification of the instance                   *)
(* Further instance families of the same laws have their own modules:      *)
(* AggSymMany (27..40 rows = common offset + spread; C08, C10) and         *)
(* AggSymCancel (GradDrop on columns with large cancelling entries; C10).  *)
(***************************************************************************)
EXTENDS SymAgg, Json

CONSTANTS Mode,        \* "rows" | "cols" | "scale" | "mixed" | "trace" (all generators)
          MaxSteps,    \* number of generators composed
          MaxZero,     \* number of zero columns that may be appended
          RowCounts,   \* set of row counts m of the instances
          NGen,        \* generated instances per row count (besides the curated ones)
          PadCounts    \* the counts k that TLC offers to PadZero(k, lay) (any 1..PadMax is an action)

MaxDen == 2
CStep  == 1024                \* one bump of a row scaling: x 2^10
CMax   == 1048576             \* 2^20: c spans 6 orders of magnitude
ABMax  == 3
PadMax == 16384               \* 2^14 zero columns (a large frozen / unused parameter block)
PadSmall == 2                 \* counts for which TLC materialises the padded matrix (PadLaw)
WideK  == 5                   \* wide presentation: every column repeated 4^5 times, scaled by 2^-5
WideKMax == 5

VARIABLES base,   \* [id, m, n, J, P, W]  - constant along a behaviour
          cls,    \* SymClassify(base.J)   - constant along a behaviour
          rp,     \* row i of the transformed instance is row rp[i] of the base
          Q, den, \* column transformation numerators (n0 x n) and common denominator
          J,      \* numerators of the transformed matrix (m x n), same denominator den
          P, W,   \* transformed parameter vectors
          c1, c2, ca, cb,
          pad,    \* [cnt, lay, wk]: every column repeated 4^wk times (scaled 2^-wk), then cnt further all-zero
                  \* columns "append"ed, "prepend"ed or "interleave"d (the presentation; not materialised)
          steps

vars == <<base, cls, rp, Q, den, J, P, W, c1, c2, ca, cb, pad, steps>>
NoPad == [cnt |-> 0, lay |-> "none", wk |-> 0]

M  == base.m
N0 == base.n
N  == IF M = 0 THEN 0 ELSE Len(Q[1])

-----------------------------------------------------------------------------
(* instance family                                                         *)

Curated == <<
  \* m = 2
  << <<1, 1, 1, 1>>, <<-1, -1, -1, 1>> >>,
  << <<2, -1, 0>>, <<-1, 2, 1>> >>,
  << <<1, 0, 0>>, <<0, 0, 0>> >>,
  << <<1, 2, 3>>, <<2, 4, 6>> >>,
  << <<3, 4, 0, 0>>, <<-4, 3, 0, 0>> >>,
  << <<3, -1, 2, 0>>, <<-3, 2, -1, 1>> >>,
  \* m = 3
  << <<1, 1, 1, 1>>, <<-1, -1, -1, 1>>, <<1, -1, 1, -1>> >>,
  << <<1, 0, 0>>, <<0, 0, 0>>, <<0, 1, 0>> >>,
  << <<2, 0, -1>>, <<-1, 2, 0>>, <<0, -1, 2>> >>,
  << <<3, 4, 0>>, <<0, 0, 2>>, <<-4, 3, 0>> >>,
  << <<1, 2, 3>>, <<2, 4, 6>>, <<-1, 0, 1>> >>,
  << <<1, -2, 1, 0>>, <<-2, 1, 0, 1>>, <<0, 1, -2, 1>> >>,
  << <<0, 0, 0>>, <<0, 0, 0>>, <<0, 0, 0>> >>,
  << <<1, 1, 0>>, <<1, 1, 0>>, <<0, 0, 1>> >>,
  << <<0, 0, 0>>, <<-3, 1, 3>>, <<-2, 1, 0>> >>,
  << <<2, 1, 1, 0>>, <<-3, 1, 0, 2>>, <<1, -2, 2, -1>> >>,
  \* m = 4
  << <<1, 0, 0, 0>>, <<0, 0, 0, 0>>, <<0, 1, 0, 0>>, <<1, 1, 1, 1>> >>,
  << <<2, 1, 0, -1>>, <<-1, 2, 1, 0>>, <<0, -1, 2, 1>>, <<1, 0, -1, 2>> >>,
  << <<1, 1, 1, 1>>, <<1, -1, 1, -1>>, <<-1, -1, 1, 1>>, <<2, 0, 0, -1>> >>,
  << <<1, 2, 0, 0>>, <<1, 2, 0, 1>>, <<-2, 1, 1, 0>>, <<0, 0, 2, -1>> >>,
  << <<2, 2, 0>>, <<2, 1, 0>>, <<1, 2, 0>>, <<-2, -2, 1>> >>,
  << <<1, -1, 0, 2>>, <<-2, 1, 1, -1>>, <<0, 0, 0, 0>>, <<1, 2, -2, 0>> >>,
  \* m = 5
  << <<1, 0, 0>>, <<0, 1, 0>>, <<0, 0, 1>>, <<1, 1, 0>>, <<-1, 0, 1>> >>,
  << <<1, 1, 0, 0>>, <<0, 0, 0, 0>>, <<-1, 1, 0, 1>>, <<0, 1, 1, -1>>, <<1, 0, -1, 1>> >>,
  << <<1, 1, 1>>, <<1, 0, 1>>, <<0, 1, 1>>, <<-1, -1, 0>>, <<1, 1, -1>> >>,
  \* badly conditioned but of unambiguous rank: two nearly (anti)parallel rows, independent non-zero rows,
  \* lambda_min / lambda_max of the Gramian between 2.5e-4 and 7.2e-4 (condition number of J 37 .. 63)
  << <<4, 4, 3>>, <<-3, -3, -2>> >>,
  << <<4, 3, -3>>, <<-3, -2, 2>>, <<1, 2, 2>> >>,
  << <<4, 4, 3, 0>>, <<3, 3, 2, 0>>, <<0, -1, 1, 2>>, <<1, -1, 0, 1>> >>,
  \* TALL (more objectives than parameters, n < m) with conflicting, linearly independent non-zero rows and one
  \* zero row: every zero-column presentation turns them into square / wide matrices
  << <<1, 2>>, <<0, 0>>, <<-2, -1>> >>,
  << <<1, 1, -1>>, <<0, 0, 0>>, <<2, -2, 0>>, <<-1, -2, -2>> >>,
  \* TALL with independent COLUMNS (rank = n < m: the rows are necessarily dependent), CONFLICTING rows and one
  \* common squared row norm (5, 25, 9, 6): the family on which ConFIG is exact (SymAgg!SymConFIG) and on which
  \* the projections <g_i, u> of the rows on ConFIG's direction have BOTH signs, so that the total length
  \* sum_i c_i <g_i, u> changes sign with the row scaling c.  Positive row scalings (C09) turn them into
  \* matrices with rows of any norms; one has a zero row, one has J^T 1 = 0 (exact direction zero: degenerate)
  << <<-1, 2>>, <<2, -1>>, <<-2, -1>> >>,
  << <<4, -3>>, <<0, 5>>, <<-3, -4>> >>,
  << <<-1, 2>>, <<2, 1>>, <<-1, -2>>, <<-2, -1>> >>,
  << <<0, 0, 3>>, <<2, -1, 2>>, <<1, -2, -2>>, <<-2, 2, -1>> >>,
  << <<-1, -1, -2>>, <<-1, -1, 2>>, <<1, 2, -1>>, <<1, -2, 1>> >>,
  << <<-1, 2>>, <<0, 0>>, <<2, -1>>, <<-2, -1>> >>,
  << <<1, 2>>, <<-1, -2>>, <<2, -1>>, <<-2, 1>> >>,
  << <<2, 1>>, <<-2, -1>>, <<2, -1>>, <<1, 2>>, <<-1, -2>> >>,
  << <<2, 1, -2>>, <<-2, -2, -1>>, <<0, 0, 3>>, <<2, -2, -1>>, <<-1, 2, 2>> >>,
  \* AXIS-ALIGNED rows (at most one non-zero entry per row) that are exactly opposed: the matrix of unit rows is a
  \* sign matrix that no positive row scaling changes, and U^T 1 = 0 - ConFIG's exact direction is null for every c
  \* (NullDir below; the second one also with its preference vector)
  << <<0, 3, 0>>, <<0, -5, 0>> >>,
  << <<0, 2>>, <<0, -7>>, <<0, 0>> >> >>

CuratedBadlyConditioned == {26, 27, 28}       \* positions of the badly conditioned instances in Curated
CuratedTall == 31..39                         \* positions of the tall equal-norm instances in Curated

\* parameter vectors of instance number k: entries 0..4 (pref / leak*4), not all zero;
\* Constant weights W = P - 2 (negative, zero and positive weights)
ParamP(k, m) == LET p == [i \in 1..m |-> (k * 3 + i * i + k * i) % 5]
                IN  IF \A i \in 1..m : p[i] = 0 THEN [i \in 1..m |-> i] ELSE p
ParamW(k, m) == [i \in 1..m |-> ParamP(k, m)[i] - 2]

Amp(m) == IF m <= 3 THEN 3 ELSE IF m = 4 THEN 2 ELSE 1
GenJ(k, m) == LET n == (IF m = 5 THEN 5 ELSE 3) + (k % 2)     \* m = 5: n >= m so that full row rank occurs
                  a == Amp(m)
              IN  [r \in 1..m |-> [c \in 1..n |->
                     ((k * k * 7 + k * (r * 5 + c * 3) + r * 13 + c * 29 + r * c * 11 + (k \div 3) * r) % (2 * a + 1)) - a]]

\* curated instance 15 (first row zero) carries ALL its preference weight on the zero-gradient row
MkInst(id, k, Jm) == [id |-> id, m |-> Len(Jm), n |-> Len(Jm[1]), J |-> Jm,
                      P |-> IF id = 15 THEN <<2, 0, 0>> ELSE IF id = 41 THEN <<3, 3, 1>> ELSE ParamP(k, Len(Jm)),
                      W |-> ParamW(k, Len(Jm))]

Instances ==
    {MkInst(i, i, Curated[i]) : i \in {q \in 1..Len(Curated) : Len(Curated[q]) \in RowCounts}}
    \cup {MkInst(100 * m + k, k + m, GenJ(k, m)) : k \in 1..NGen, m \in RowCounts}

-----------------------------------------------------------------------------
(* the group element applied to the base instance                          *)

Jp  == SymPerm(base.J, rp)                        \* row-permuted base, denominator 1
J0Q == MatMul(base.J, Q, N)                       \* columns transformed, rows in base order
XC  == [i \in 1..M |-> ca * c1[i] + cb * c2[i]]   \* a c1 + b c2

Init == /\ base \in Instances
        /\ cls = SymClassify(base.J)
        /\ rp = SymIdPerm(base.m)
        /\ Q = Identity(base.n) /\ den = 1
        /\ J = base.J /\ P = base.P /\ W = base.W
        /\ c1 = Ones(base.m) /\ c2 = Ones(base.m) /\ ca = 1 /\ cb = 1
        /\ pad = NoPad
        /\ steps = 0

\* PadZero closes a word: the padded columns are not materialised, no generator acts on them
Tick == steps < MaxSteps /\ pad = NoPad /\ steps' = steps + 1
RowsOn  == Mode \in {"rows", "mixed", "trace"}
ColsOn  == Mode \in {"cols", "mixed", "trace"}
ScaleOn == Mode \in {"scale", "trace"}

\* ---- C10: transpose two rows, and the parameter vectors with them
SwapRows(i, j) ==
    /\ RowsOn /\ Tick /\ i < j
    /\ rp' = SymSwap(rp, i, j) /\ J' = SymSwap(J, i, j)
    /\ P' = SymSwap(P, i, j) /\ W' = SymSwap(W, i, j)
    /\ c1' = SymSwap(c1, i, j) /\ c2' = SymSwap(c2, i, j)
    /\ UNCHANGED <<base, cls, Q, den, ca, cb, pad>>

\* ---- C08: generators of the column group
ColSwapM(A, a, b) == [i \in 1..Len(A) |-> SymSwap(A[i], a, b)]
ColNegM(A, a)     == [i \in 1..Len(A) |-> [j \in 1..Len(A[i]) |-> IF j = a THEN -A[i][j] ELSE A[i][j]]]
H4 == << <<1, 1, 1, 1>>, <<1, -1, 1, -1>>, <<1, 1, -1, -1>>, <<1, -1, -1, 1>> >>     \* H4 H4^T = 4 I
\* columns q[1..4] := block . H4, all other columns doubled (the common denominator doubles)
ColHadM(A, q) == [i \in 1..Len(A) |-> [j \in 1..Len(A[i]) |->
                    IF \E b \in 1..4 : q[b] = j
                    THEN LET b == CHOOSE b \in 1..4 : q[b] = j
                         IN  SumSeq([a \in 1..4 |-> A[i][q[a]] * H4[a][b]])
                    ELSE 2 * A[i][j]]]
AllEven(A) == \A i \in 1..Len(A) : \A j \in 1..Len(A[i]) : A[i][j] % 2 = 0
HalveM(A)  == [i \in 1..Len(A) |-> [j \in 1..Len(A[i]) |-> A[i][j] \div 2]]
RECURSIVE NormQJ(_, _, _)
NormQJ(Qm, Jm, d) == IF d > 1 /\ AllEven(Qm) THEN NormQJ(HalveM(Qm), HalveM(Jm), d \div 2)
                     ELSE <<Qm, Jm, d>>

SwapCols(a, b) == /\ ColsOn /\ Tick /\ a < b
                  /\ Q' = ColSwapM(Q, a, b) /\ J' = ColSwapM(J, a, b)
                  /\ UNCHANGED <<base, cls, rp, den, P, W, c1, c2, ca, cb, pad>>
NegCol(a)      == /\ ColsOn /\ Tick
                  /\ Q' = ColNegM(Q, a) /\ J' = ColNegM(J, a)
                  /\ UNCHANGED <<base, cls, rp, den, P, W, c1, c2, ca, cb, pad>>
Hadamard(q)    == /\ ColsOn /\ Tick
                  /\ LET r == NormQJ(ColHadM(Q, q), ColHadM(J, q), 2 * den)
                     IN  /\ r[3] <= MaxDen
                         /\ Q' = r[1] /\ J' = r[2] /\ den' = r[3]
                  /\ UNCHANGED <<base, cls, rp, P, W, c1, c2, ca, cb, pad>>
AppendZero     == /\ ColsOn /\ Tick /\ N < N0 + MaxZero
                  /\ Q' = [i \in 1..N0 |-> Append(Q[i], 0)]
                  /\ J' = [i \in 1..M |-> Append(J[i], 0)]
                  /\ UNCHANGED <<base, cls, rp, den, P, W, c1, c2, ca, cb, pad>>

\* k all-zero columns at once (parameters that influence nothing: a frozen block, an unused head).  They are
\* NOT materialised: the state keeps the m x N matrix and the pair (count, layout); the presented matrix
\* is PadM(J, pad) below.  Any count 1..PadMax is an action (TraceAggSymmetry steps logged counts through
\* it); Next offers the counts of PadCounts.
PadLays == {"append", "interleave", "prepend"}
PadZero(k, lay) == /\ ColsOn /\ Tick /\ k \in 1..PadMax /\ lay \in PadLays
                   /\ pad' = [cnt |-> k, lay |-> lay, wk |-> 0]
                   /\ UNCHANGED <<base, cls, rp, Q, den, J, P, W, c1, c2, ca, cb>>

\* The WIDE presentation of the current matrix with total width w: every column repeated 4^wk times and the
\* whole scaled by 2^-wk (WidenLaw: the Gramian, hence every weight, every classification and every allowance
\* are those of the narrow matrix; A(wide J) = wide A(J)), then w - N 4^wk all-zero columns in layout `lay`.
\* With wk = 0 this is PadZero(w - N, lay).  A Jacobian of that width is what one layer of a real network
\* produces; nothing in the statement of C08 lets the update depend on how its columns are cut into blocks,
\* so the widths of the ladder are primes and 2^k +- 1, and the informative columns lie at the front, at the
\* back or spread over the whole width.  Any (wk, w, lay) within the bounds is an action (TraceAggSymmetry
\* steps logged presentations through it); Next offers ONE of them per state (WidePick, rotating through the
\* ladder, the exponents and the layouts with the state) so that the state space stays small while every
\* width and layout is reached from many instances and words.
Pow4(k) == IF k = 0 THEN 1 ELSE IF k = 1 THEN 4 ELSE IF k = 2 THEN 16 ELSE IF k = 3 THEN 64 ELSE IF k = 4 THEN 256 ELSE 1024
WideTo(wk, w, lay) == /\ ColsOn /\ Tick /\ wk \in 0..WideKMax
                      /\ LET k == w - N * Pow4(wk) IN
                            /\ k \in 0..PadMax /\ (k = 0) = (lay = "none") /\ (k > 0 => lay \in PadLays)
                            /\ (k > 0 \/ wk > 0)
                            /\ pad' = [cnt |-> k, lay |-> lay, wk |-> wk]
                      /\ UNCHANGED <<base, cls, rp, Q, den, J, P, W, c1, c2, ca, cb>>
WideWidths == <<521, 769, 1023, 1025, 2053, 4099, 8191, 16381>>     \* primes and 2^10 +- 1
PadLaySeq  == <<"prepend", "interleave", "append">>
StateHash  == base.id + 3 * steps
              + SumSeq([i \in 1..N0 |-> SumSeq([j \in 1..N |-> (2 * i + 3 * j) * Q[i][j] * Q[i][j]])])
WKMaxFor(w) == CHOOSE k \in 0..WideKMax : N * Pow4(k) <= w /\ (k = WideKMax \/ N * Pow4(k + 1) > w)
WidePick == LET h  == StateHash
                nw == Len(WideWidths)
                w  == WideWidths[(h % nw) + 1]
                km == WKMaxFor(w)
                v  == (h \div nw) % 3                       \* densest / one step sparser / half the exponent
                wk == IF v = 0 THEN km ELSE IF v = 1 THEN (IF km >= 1 THEN km - 1 ELSE 0) ELSE km \div 2
                ly == PadLaySeq[((h \div (3 * nw)) % 3) + 1]
            IN  [wk |-> wk, w |-> w, lay |-> IF w = N * Pow4(wk) THEN "none" ELSE ly]

Quads == {q \in [1..4 -> 1..N] : q[1] < q[2] /\ q[2] < q[3] /\ q[3] < q[4]}

\* ---- C09: generators of the positive row scalings and of the coefficients
BumpC1(i) == /\ ScaleOn /\ Tick /\ c1[i] < CMax /\ c1' = [c1 EXCEPT ![i] = @ * CStep]
             /\ UNCHANGED <<base, cls, rp, Q, den, J, P, W, c2, ca, cb, pad>>
BumpC2(i) == /\ ScaleOn /\ Tick /\ c2[i] < CMax /\ c2' = [c2 EXCEPT ![i] = @ * CStep]
             /\ UNCHANGED <<base, cls, rp, Q, den, J, P, W, c1, ca, cb, pad>>
BumpA     == /\ ScaleOn /\ Tick /\ ca < ABMax /\ ca' = ca + 1
             /\ UNCHANGED <<base, cls, rp, Q, den, J, P, W, c1, c2, cb, pad>>
BumpB     == /\ ScaleOn /\ Tick /\ cb < ABMax /\ cb' = cb + 1
             /\ UNCHANGED <<base, cls, rp, Q, den, J, P, W, c1, c2, ca, pad>>

\* one named action per generator family (TLC reports coverage per named action)
DoSwapRows   == \E i, j \in 1..M : SwapRows(i, j)
DoSwapCols   == \E a, b \in 1..N : SwapCols(a, b)
DoNegCol     == \E a \in 1..N : NegCol(a)
DoHadamard   == \E q \in Quads : Hadamard(q)
DoAppendZero == AppendZero
DoPadZero    == \E k \in PadCounts, lay \in PadLays : PadZero(k, lay)
DoWide       == PadCounts # {} /\ LET p == WidePick IN WideTo(p.wk, p.w, p.lay)
DoBumpC1     == \E i \in 1..M : BumpC1(i)
DoBumpC2     == \E i \in 1..M : BumpC2(i)
DoBumpA      == BumpA
DoBumpB      == BumpB

Next == DoSwapRows \/ DoSwapCols \/ DoNegCol \/ DoHadamard \/ DoAppendZero \/ DoPadZero \/ DoWide
        \/ DoBumpC1 \/ DoBumpC2 \/ DoBumpA \/ DoBumpB

Spec == Init /\ [][Next]_vars

-----------------------------------------------------------------------------
(* what the transformed instance must be                                   *)

IdN0 == [i \in 1..N0 |-> [j \in 1..N0 |-> IF i = j THEN den * den ELSE 0]]

TypeOK == /\ SymIsPerm(rp, M) /\ den \in {1, 2} /\ steps \in 0..MaxSteps
          /\ Len(J) = M /\ \A i \in 1..M : Len(J[i]) = N
          /\ ca \in 1..ABMax /\ cb \in 1..ABMax
          /\ pad.cnt \in 0..PadMax /\ (pad.cnt = 0) = (pad.lay = "none") /\ pad.lay \in PadLays \cup {"none"}
          /\ pad.wk \in 0..WideKMax

Consistent == /\ J = MatMul(Jp, Q, N)
              /\ P = SymPerm(base.P, rp) /\ W = SymPerm(base.W, rp)
              /\ Gram(Q) = IdN0                        \* Q/den has orthonormal rows

GBase == Gram(base.J)
GramInvariant == Gram(J) = [i \in 1..M |-> [j \in 1..M |-> den * den * GBase[rp[i]][rp[j]]]]

\* Gramian of the transformed instance at denominator 1 (exact division by GramInvariant)
GNow == LET G == Gram(J) IN [i \in 1..M |-> [j \in 1..M |-> G[i][j] \div (den * den)]]

\* all preference weight sits on zero-gradient rows: ConFIG's direction pinv(U) u is then EXACTLY zero and
\* so is its result (the code normalises the direction, so this class has its own expected value)
PrefDeg == \A i \in 1..M : GBase[i][i] # 0 => base.P[i] = 0

\* Q is a column permutation with zero columns inserted (the clause for ALL deterministic aggregators)
QIsColPerm == den = 1 /\ \A i \in 1..N0 : \A j \in 1..N : Q[i][j] \in {0, 1}

RQ == [i \in 1..N0 |-> [j \in 1..N |-> Frac(Q[i][j], den)]]
TimesQ(x) == RVecMat(x, RQ, N)                      \* x Q for a rational row vector x of length n0

KrumKs   == {k \in {1, 2, M - 1} : k >= 1 /\ k <= M}
\* GradDrop: the deterministic purity functions (SymAgg!SymGDKeep) and the leak configurations (none, P / 4)
GDFs     == {"ge", "gt"}
GDCfgSeq == << <<"ge", FALSE>>, <<"ge", TRUE>>, <<"gt", FALSE>>, <<"gt", TRUE>> >>
GDLeak(lk, p) == IF lk THEN p ELSE Zeros(Len(p))
KrumCfgs == (0..(M - 3)) \X KrumKs
TMCfgs   == 0..((M - 1) \div 2)

LawC08 ==
    /\ SymMean(J, den, N) = TimesQ(SymMean(Jp, 1, N0))
    /\ SymSum(J, den, N) = TimesQ(SymSum(Jp, 1, N0))
    /\ SymConstant(P, J, den, N) = TimesQ(SymConstant(P, Jp, 1, N0))
    /\ SymConstant(W, J, den, N) = TimesQ(SymConstant(W, Jp, 1, N0))
    /\ \A f \in 0..(M - 3) :
          LET s0 == SymKrumScores(Gram(Jp), f)
              s1 == SymKrumScores(GNow, f)
          IN  /\ s1 = s0
              /\ \A k \in KrumKs :
                    LET k0 == SymKrumSelect(s0, k) IN
                    ~k0.amb => SymKrumValue(k0.sel, k, J, den, N)
                                 = TimesQ(SymKrumValue(k0.sel, k, Jp, 1, N0))
    /\ QIsColPerm => \A b \in TMCfgs : SymTM(b, J, den, N) = TimesQ(SymTM(b, Jp, 1, N0))
    \* GradDrop with a 0/1-valued purity function is deterministic: by value; its two candidates per column (what a
    \* randomised purity function can return there) move with the columns as well; with and without leak
    /\ QIsColPerm => \A L \in {Zeros(M), P} :
          /\ \A f \in GDFs : SymGDVal(f, L, J, den, N) = TimesQ(SymGDVal(f, L, Jp, 1, N0))
          /\ \A ch \in {"pos", "neg"} : SymGDCand(ch, L, J, den, N) = TimesQ(SymGDCand(ch, L, Jp, 1, N0))
    \* ConFIG where it is exact (CfgOn, defined with LawC09 below): the direction turns with Q
    /\ (cls.colFull /\ cls.equalNorm /\ N = N0 /\ den = 1) =>
          \A w \in {Ones(M), P} : /\ SymConFIG(J, w).y = VecMat(SymConFIG(Jp, w).y, Q, N)
                                  /\ SymConFIG(J, w).d = SymConFIG(Jp, w).d

LawC10 ==
    /\ SymMean(J, den, N) = SymMean(J0Q, den, N)
    /\ SymSum(J, den, N) = SymSum(J0Q, den, N)
    /\ SymConstant(P, J, den, N) = SymConstant(base.P, J0Q, den, N)
    /\ SymConstant(W, J, den, N) = SymConstant(base.W, J0Q, den, N)
    /\ \A b \in TMCfgs : SymTM(b, J, den, N) = SymTM(b, J0Q, den, N)
    /\ \A f \in 0..(M - 3) :
          LET s0 == SymKrumScores(GBase, f)
              s1 == SymKrumScores(GNow, f)
          IN  /\ s1 = [lo |-> SymPerm(s0.lo, rp), hi |-> SymPerm(s0.hi, rp)]
              /\ \A k \in KrumKs :
                    LET k0 == SymKrumSelect(s0, k)
                        k1 == SymKrumSelect(s1, k)
                    IN  /\ k1.amb = k0.amb
                        /\ ~k0.amb => /\ k1.sel = {i \in 1..M : rp[i] \in k0.sel}
                                      /\ SymKrumValue(k1.sel, k, J, den, N)
                                           = SymKrumValue(k0.sel, k, J0Q, den, N)
    \* ConFIG where it is exact: the direction does not depend on the order of the rows, the coefficients of the
    \* length move with the rows
    /\ (cls.colFull /\ cls.equalNorm /\ N = N0) =>
          /\ SymConFIG(J, Ones(M)).y = SymConFIG(J0Q, Ones(M)).y /\ SymConFIG(J, P).y = SymConFIG(J0Q, base.P).y
          /\ SymConFIG(J, P).d = SymPerm(SymConFIG(J0Q, base.P).d, rp)

-----------------------------------------------------------------------------
(* zero columns in any number and at any place; the wide presentation                           *)

\* position (1-based) of materialised column j (of nn) among the nn + k presented columns
PPos(j, nn, k, lay) == IF lay = "interleave" THEN j + ((j - 1) * k) \div nn
                       ELSE IF lay = "prepend" THEN j + k ELSE j
PadPos(j, k, lay) == PPos(j, N, k, lay)
\* the presentation carried by the state has NW = N 4^wk materialised columns: column j of the matrix is
\* materialised columns (j-1) 4^wk + 1 .. j 4^wk.  Exported / logged: the position of the FIRST copy of every
\* column and of the last materialised column (the replay computes all positions and must agree on these)
WR == Pow4(pad.wk)
NW == N * WR
PadPosSeq == [q \in 1..(N + 1) |-> PPos(IF q <= N THEN (q - 1) * WR + 1 ELSE NW, NW, pad.cnt, pad.lay)]
\* the presented vector / matrix (only ever evaluated by TLC for k <= PadSmall)
PadVec(v, k, lay, zero) == [c \in 1..(N + k) |->
                              IF \E j \in 1..N : PadPos(j, k, lay) = c
                              THEN v[CHOOSE j \in 1..N : PadPos(j, k, lay) = c] ELSE zero]
PadM(A, k, lay) == [i \in 1..Len(A) |-> PadVec(A[i], k, lay, 0)]
\* ONE zero column inserted after position p (0 = in front)
InsVec(v, p, zero) == [c \in 1..(Len(v) + 1) |-> IF c <= p THEN v[c] ELSE IF c = p + 1 THEN zero ELSE v[c - 1]]
InsM(A, p) == [i \in 1..Len(A) |-> InsVec(A[i], p, 0)]

\* the exact values on the current matrix, computed once per state (TLC evaluates a LET-bound value once)
BaseVals == [mean |-> SymMean(J, den, N), sum |-> SymSum(J, den, N),
             cP |-> SymConstant(P, J, den, N), cW |-> SymConstant(W, J, den, N),
             tm |-> [b \in TMCfgs |-> SymTM(b, J, den, N)], tie |-> [b \in TMCfgs |-> SymTMTie(b, J, N)],
             G |-> Gram(J),
             gd |-> [q \in 1..Len(GDCfgSeq) |-> SymGDVal(GDCfgSeq[q][1], GDLeak(GDCfgSeq[q][2], P), J, den, N)],
             gdc |-> [pos |-> SymGDCand("pos", P, J, den, N), neg |-> SymGDCand("neg", P, J, den, N)],
             kr |-> [fk \in KrumCfgs |-> LET r == SymKrum(GNow, fk[1], fk[2]) IN      \* selection: a function of the Gramian
                                          [amb |-> r.amb, sel |-> r.sel,
                                           val |-> IF r.amb THEN <<>> ELSE SymKrumValue(r.sel, fk[2], J, den, N)]]]

\* what a presentation (X, d) of the current matrix with n columns obtained by the embedding `emb` of
\* vectors must satisfy: Gramian g2 times the old one at denominator d (so every function of J J^T - weights,
\* classification, tie brackets - is the same) and every exact aggregator commutes with it
Commutes(bv, X, d, g2, n, emb(_), newtie) ==
    /\ Gram(X) = [i \in 1..M |-> [j \in 1..M |-> g2 * bv.G[i][j]]]
    /\ SymMean(X, d, n) = emb(bv.mean) /\ SymSum(X, d, n) = emb(bv.sum)
    /\ SymConstant(P, X, d, n) = emb(bv.cP) /\ SymConstant(W, X, d, n) = emb(bv.cW)
    /\ \A b \in TMCfgs : /\ SymTM(b, X, d, n) = emb(bv.tm[b])
                          /\ SymTMTie(b, X, n) = (bv.tie[b] \/ (b >= 1 /\ newtie))     \* a zero column is one big tie
    /\ \A fk \in KrumCfgs : ~bv.kr[fk].amb => SymKrumValue(bv.kr[fk].sel, fk[2], X, d, n) = emb(bv.kr[fk].val)
    \* GradDrop works column by column: a zero column gets 0 (no entry to keep, nothing to leak), a repeated and
    \* halved column half the value, every other column what it got before
    /\ \A q \in 1..Len(GDCfgSeq) : SymGDVal(GDCfgSeq[q][1], GDLeak(GDCfgSeq[q][2], P), X, d, n) = emb(bv.gd[q])
    /\ SymGDCand("pos", P, X, d, n) = emb(bv.gdc.pos) /\ SymGDCand("neg", P, X, d, n) = emb(bv.gdc.neg)

\* Induction step of the zero-column clause: in EVERY reachable state (so after every word, including the
\* states that already carry appended zero columns) inserting one more zero column at ANY position p keeps
\* the Gramian, the orthonormal rows of Q and every exact value.  The result is again a state of the same
\* form, hence k columns at any places - the two layouts of PadZero for every count - follow by induction
\* on k; the layouts themselves are materialised for k <= PadSmall.  Evaluated in the states in which
\* PadZero is enabled (a state reached by PadZero has the matrix of its predecessor, and a word of full
\* length cannot be padded any more: nothing to evaluate there besides the index map).
PadLaw ==
    /\ (pad = NoPad /\ steps < MaxSteps) =>
         LET bv == BaseVals IN
         /\ \A p \in 0..N : LET emb(v) == InsVec(v, p, RZero) IN
                               Gram(InsM(Q, p)) = IdN0 /\ Commutes(bv, InsM(J, p), den, 1, N + 1, emb, TRUE)
         /\ \A k \in 1..PadSmall : \A lay \in PadLays :
               LET emb(v) == PadVec(v, k, lay, RZero) IN
               Gram(PadM(Q, k, lay)) = IdN0 /\ Commutes(bv, PadM(J, k, lay), den, 1, N + k, emb, TRUE)
    /\ \A q \in 1..(N + 1) : /\ PadPosSeq[q] \in 1..(NW + pad.cnt)
                              /\ ((q > 1 /\ q <= N) => PadPosSeq[q - 1] < PadPosSeq[q])
                              /\ ((q = N + 1) => PadPosSeq[N] <= PadPosSeq[q])

\* The wide presentation: every column repeated 4 times, the whole halved (denominator doubled).  One step
\* keeps the Gramian and commutes with every exact aggregator; the result is again an integer matrix over a
\* power-of-two denominator, so k steps (4^k copies, 2^-k) follow by induction.  Row permutations act on
\* rows, widening on columns: they commute, and the classification (a function of the Gramian) is that of
\* the narrow instance.
WidenV(v, r) == [c \in 1..(r * Len(v)) |-> v[((c - 1) \div r) + 1]]
WidenM(A, r) == [i \in 1..Len(A) |-> WidenV(A[i], r)]
HalfR(x) == Frac(x[1], 2 * x[2])
WidenLaw ==
    LET emb(v) == [c \in 1..(4 * N) |-> HalfR(WidenV(v, 4)[c])]
    IN  Commutes(BaseVals, WidenM(J, 4), 2 * den, 4, 4 * N, emb, FALSE)     \* Gram(X) / (2 den)^2 = Gram(J) / den^2

\* WideTo composes the two: widen, then zero columns in any layout.  Materialised here for one widening step and
\* PadSmall zero columns in every layout (the matrix Q widened and padded keeps orthonormal rows, so the
\* presented transformed matrix IS the base matrix times an n0 x w matrix with orthonormal rows); more steps
\* and more columns by the induction steps WidenLaw and PadLaw.  The widening step is evaluated wherever WideTo
\* is enabled (after every word), the composition with the three layouts on every instance of the family.
PadVecN(v, nn, k, lay, zero) == [c \in 1..(nn + k) |->
                                   IF \E j \in 1..nn : PPos(j, nn, k, lay) = c
                                   THEN v[CHOOSE j \in 1..nn : PPos(j, nn, k, lay) = c] ELSE zero]
WideLaw ==
    (pad = NoPad /\ steps < MaxSteps) =>
        LET bv == BaseVals
            X  == WidenM(J, 4)
            QW == WidenM(Q, 4)
            embW(v) == [c \in 1..(4 * N) |-> HalfR(WidenV(v, 4)[c])]
        IN  /\ Commutes(bv, X, 2 * den, 4, 4 * N, embW, FALSE)
            /\ Gram(QW) = [i \in 1..N0 |-> [j \in 1..N0 |-> 4 * IdN0[i][j]]]
            /\ steps = 0 => \A lay \in PadLays :        \* the composition: on every instance of the family
                  LET emb(v) == PadVecN(embW(v), 4 * N, PadSmall, lay, RZero)
                      XP == [i \in 1..M |-> PadVecN(X[i], 4 * N, PadSmall, lay, 0)]
                      QP == [i \in 1..N0 |-> PadVecN(QW[i], 4 * N, PadSmall, lay, 0)]
                  IN  /\ Gram(QP) = [i \in 1..N0 |-> [j \in 1..N0 |-> 4 * IdN0[i][j]]]
                      /\ Commutes(bv, XP, 2 * den, 4, 4 * N + PadSmall, emb, TRUE)
            /\ LET p == WidePick IN p.w \in Range(WideWidths) /\ p.wk \in 0..WideKMax /\ N * Pow4(p.wk) <= p.w

\* ---- histories and presentations of the ARGUMENT (one aggregator object, one storage)
\* The statements are about the matrix, not about the tensor object that carries it.  A training loop keeps
\* ONE aggregator object and very often ONE pre-allocated Jacobian buffer that is refilled in place.  Storage
\* model: a cell holds the matrix written last.  A step (c, p) of a plan puts content c ("this" = the
\* transformed matrix of the state in its presentation, "other" = another matrix of the same shape with a
\* different Gramian) where presentation p says and calls THE SAME aggregator object on it:
\*   "fresh"    a new tensor                       "refill"   the cell `buf`, overwritten in place (copy_)
\*   "view"     ONE strided view object of a larger cell `big`, overwritten in place through the view
\*   "newview"  the same region of `big`, a NEW view object for every call
\* HistLaw: the matrix a call sees is the content of its step, whatever the cell held (and whatever was
\* aggregated) before; hence the expected value of a call on "this" is the one of a fresh object on a fresh
\* tensor - which is where the replay takes its reference from.
OtherRows == [i \in 1..M |-> [j \in 1..N |-> (i + 1) * J[M + 1 - i][j]]]    \* rows reversed and scaled by 2..m+1
HistPlans == <<
    << [c |-> "other", p |-> "refill"],  [c |-> "this", p |-> "refill"] >>,
    << [c |-> "other", p |-> "view"],    [c |-> "this", p |-> "view"] >>,
    << [c |-> "this", p |-> "refill"],   [c |-> "other", p |-> "refill"], [c |-> "this", p |-> "refill"] >>,
    << [c |-> "other", p |-> "newview"], [c |-> "this", p |-> "newview"] >>,
    << [c |-> "other", p |-> "fresh"],   [c |-> "this", p |-> "fresh"] >> >>
HistPlan == HistPlans[(StateHash % Len(HistPlans)) + 1]
CellName(p) == IF p = "refill" THEN "buf" ELSE IF p \in {"view", "newview"} THEN "big" ELSE "new"
Content(c) == IF c = "this" THEN J ELSE OtherRows
RECURSIVE CellAfter(_, _, _)
CellAfter(plan, k, cell) == IF k = 0 THEN <<>>
                            ELSE IF CellName(plan[k].p) = cell THEN Content(plan[k].c)
                            ELSE CellAfter(plan, k - 1, cell)
HistLaw == \A q \in 1..Len(HistPlans) : \A k \in 1..Len(HistPlans[q]) :
              /\ HistPlans[q][k].c \in {"this", "other"} /\ HistPlans[q][k].p \in {"fresh", "refill", "view", "newview"}
              /\ CellAfter(HistPlans[q], k, CellName(HistPlans[q][k].p)) = Content(HistPlans[q][k].c)

Lin(A(_)) == A(RowScale(XC, J)) = RVAdd(RVScale(R(ca), A(RowScale(c1, J))), RVScale(R(cb), A(RowScale(c2, J))))

\* ConFIG where the model decides it exactly (independent columns, one common norm of the non-zero rows, the
\* presented matrix has the columns of the instance): direction y (normal equations), the coefficients d_i of
\* the length l(c) = sum_i c_i d_i, and the SIGN of l for the three scalings of the linearity law.  l(c) does not
\* fit 32 bits for c up to 2^20; it is carried by its base-1024 digits, on which linearity is checked.
CfgOn == cls.colFull /\ cls.equalNorm /\ N = N0 /\ pad = NoPad
CfgData(w) == LET r == SymConFIG(J, w)
              IN  [y |-> r.y, yy |-> r.yy, d |-> r.d, deg |-> r.deg,
                   sg |-> [x |-> SymSignL(XC, r.d), x1 |-> SymSignL(c1, r.d), x2 |-> SymSignL(c2, r.d)]]
CfgLaw(w) == LET r == SymConFIG(J, w) IN
    /\ r.det >= 1
    /\ MatVec(SymColGram(J), r.y0) = VScale(r.det, r.t)             \* (J^T J) y0 = det(J^T J) J^T w
    /\ r.deg = (\A j \in 1..N : r.t[j] = 0)                          \* zero direction iff J^T w = 0
    /\ \A k \in 0..2 : SymDigit(XC, r.d, k) = ca * SymDigit(c1, r.d, k) + cb * SymDigit(c2, r.d, k)
    /\ (\A i \in 1..M : c1[i] = 1 /\ c2[i] = 1) => SymSignL(c1, r.d) = Sgn(SumSeq(r.d))
LawConFIG == CfgOn => CfgLaw(Ones(M)) /\ CfgLaw(P)

\* ConFIG's direction is pinv(U) w with U the matrix of unit rows.  When every row has at most one non-zero entry
\* (axis-aligned), U = Sgn(J) entry by entry - a sign matrix, the same for diag(c) J with any positive c - and when
\* U^T w = 0 the direction pinv(U) w = pinv(U^T U) U^T w is null: A(diag(c) J) = 0 for EVERY c and the identity of C09
\* reads 0 = a 0 + b 0.  Whether the FLOATING-POINT direction is exactly null as well is decidable here only for the
\* zero matrix (U = 0 and pinv(0) = 0 whatever the SVD routine does): there the three values are claimed to be exactly
\* 0 in every dtype; on the other instances of this class the value depends on rounding inside the SVD (not claimed),
\* but the three values must EXIST: A(diag(c) J) is quantified over all finite matrices, an exception is a violation.
AxisAligned(X) == \A i \in 1..Len(X) : Cardinality({j \in 1..N : X[i][j] # 0}) <= 1
SgnM(X) == [i \in 1..Len(X) |-> [j \in 1..N |-> Sgn(X[i][j])]]
NullDir(w) == AxisAligned(J) /\ \A j \in 1..N : SumSeq([i \in 1..M |-> w[i] * Sgn(J[i][j])]) = 0
ZeroMatrix == \A i \in 1..M : \A j \in 1..N : J[i][j] = 0
NullLaw == /\ \A c \in {XC, c1, c2} : SgnM(RowScale(c, J)) = SgnM(J) /\ AxisAligned(RowScale(c, J)) = AxisAligned(J)
           /\ ZeroMatrix => NullDir(Ones(M)) /\ NullDir(P)
           /\ \A w \in {Ones(M), P} : (NullDir(w) /\ CfgOn) => SymConFIG(J, w).deg      \* agrees with the exact ConFIG model

\* The documented defaults of the public constructor UPGrad(pref_vector=None, norm_eps=0.0001, reg_eps=0.0001): a
\* configuration whose value equals the documented default may be WRITTEN in the constructor call or OMITTED - the
\* same configuration, the same bound.  The replay builds the objects of the walk down the ladder with every such
\* argument omitted and those of the walk up with all arguments written (ArgForms).
Defaults == [norm_eps |-> "1e-4", reg_exp |-> 4]
ArgForms == [down |-> "omitted", up |-> "written"]

LawC09 ==
    /\ NullLaw
    /\ LET A(X) == SymMean(X, den, N) IN Lin(A)
    /\ LET A(X) == SymSum(X, den, N) IN Lin(A)
    /\ LET A(X) == SymConstant(P, X, den, N) IN Lin(A)
    /\ LET A(X) == SymConstant(W, X, den, N) IN Lin(A)
    /\ LawConFIG

\* ---- singular values of a row-scaled matrix X = diag(c) J against a threshold (norm_eps of UPGrad)
\* For ANY real matrix X with rows x_i:  |x_i|^2 = |X^T e_i|^2 lies between the extreme eigenvalues of the
\* part of X X^T it lives on, hence
\*     max_i |x_i|^2 <= sigma_max(X)^2 <= sum_i |x_i|^2 ,
\*     sigma_r(X)^2  <= min { |x_i|^2 : x_i # 0 }   when the r non-zero rows are linearly independent.
\* With |x_i|^2 = c_i^2 gd[i] (gd = exact squared row norms exported with the scenario, c_i powers of two
\* times a, b <= 3) both sides of  norm_eps^2 4^-e  are decided by exact arithmetic on (gd, c): a triple
\* (a c1 + b c2, c1, c2) has its LARGEST singular values uniformly above norm_eps while the smallest row
\* of one of the three matrices certifies a non-zero singular value BELOW norm_eps as soon as the entries
\* of c1 and c2 straddle norm_eps 2^-e / |g_i| - reached by two bumps (c_i in {1, 2^10, 2^20}).
\* c_i^2 overflows TLC's integers, so TLC checks the bracket where it can evaluate every term: on the
\* instance itself (c = 1), against its own exact floor of sigma_max^2 and a positive-definiteness test.
GDiag == [i \in 1..M |-> GNow[i][i]]
MaxDiag == IF M = 0 THEN 0 ELSE CHOOSE x \in Range(GDiag) : \A y \in Range(GDiag) : y <= x
NZDiag  == {GDiag[i] : i \in SymNonZeroRows(GNow)}
MinNZDiag == IF NZDiag = {} THEN 0 ELSE CHOOSE x \in NZDiag : \A y \in NZDiag : x <= y
\* The configurations of norm_eps the replay runs (as written in the constructor call): the default, one above,
\* one below, and 0 - as the integer 0 and as the float 0.0 - "no lower cut-off".  norm_eps is only a THRESHOLD
\* below which sigma_max counts as zero; it is not a switch for the normalisation by sigma_max^2: for every
\* non-zero matrix (sigma_max(2^e diag(c) J) > 0 = norm_eps at EVERY scale e and every positive c, first clause
\* of RowBracket below) the regularisation reg_eps I is added to the NORMALISED Gramian, so the bound of C09 is
\* the same one, proportional to the scale of the matrix, at every scale.  On the zero matrix sigma_max = 0 is
\* not < 0 and the normalisation is 0 / 0: outside the quantifier, skipped and counted.
NormEpsCfgs == <<"1e-4", "1e-2", "1e-6", "0", "0.0">>
RowBracket ==
    /\ cls.trG > 0 => cls.lamFloor >= 1                                      \* a non-zero matrix has sigma_max > 0
    /\ MaxDiag <= cls.lamFloor /\ cls.lamFloor <= cls.trG                   \* max |g_i|^2 <= sigma_max^2 <= tr G
    /\ (cls.rankUnamb /\ cls.rank >= 1) =>                                   \* lambda_min(G') <= min |g_i|^2 :
          LET nz == SymSeqOf(SymNonZeroRows(GNow))                            \* G' - t I is NOT positive definite
              H  == SymSub(GNow, nz)
          IN  ~SymPD([i \in 1..Len(nz) |-> [j \in 1..Len(nz) |-> H[i][j] - (IF i = j THEN MinNZDiag ELSE 0)]])

\* the classification is a function of the Gramian up to simultaneous permutation: it must not
\* move along a path (this is what allows the harness to use ONE classification per instance)
ClassInvariant ==
    /\ SymRank(GNow) = cls.rank /\ SymIDet(GNow) = cls.detG
    /\ SymConflictFree(GNow) = cls.conflictFree /\ SymTrace(GNow) = cls.trG
    /\ SymMGDATies(GNow).tie1 = cls.mgdaTie1

-----------------------------------------------------------------------------
(* entries next to the largest finite float (C10, "for all finite matrices")                    *)

\* A weighted aggregator with FIXED weights w (independent of J: Mean, Sum, Constant) returns w @ J (C08 (i)).
\* Whatever the order and the grouping in which a floating-point matrix product accumulates the m terms
\* w_i J_ij of one output entry (sequentially, in blocks, pairwise, fused), every intermediate value is the
\* sum over a SUBSET S of the rows.  If sum_i |w_i| <= 1 then |sum_{i in S} w_i J_ij| <= max |J| for every S:
\* no intermediate can leave the range of the entries, so the result is finite and order-independent up to
\* rounding even when the entries are next to the largest finite float - such matrices are then inside "for
\* all finite matrices" of C10 for these aggregators (Mean; Constant with normalised weights P / sum P; the
\* Constant instances whose given weights happen to satisfy it).  For Sum (sum |w_i| = m), for the other
\* Constant weights and for everything that forms J J^T, distances or a sum BEFORE dividing, the same
\* matrices overflow in an order-dependent way on the unchanged code as well: they are outside what can be
\* demanded, and the flag exported here is what decides it (nothing is decided by the name of an aggregator).
MaxAbsJ == LET S == {Abs(J[i][j]) : i \in 1..M, j \in 1..N} IN CHOOSE x \in S : \A y \in S : y <= x
FixedW == [mean   |-> [n |-> Ones(M), d |-> M],  sum    |-> [n |-> Ones(M), d |-> 1],
           constP |-> [n |-> P, d |-> 1],        constW |-> [n |-> W, d |-> 1],
           constN |-> [n |-> P, d |-> SumSeq(P)]]                      \* P has entries 0..4, not all zero
AbsConvex(w) == w.d >= 1 /\ SumSeq([i \in 1..M |-> Abs(w.n[i])]) <= w.d
SubsetBound(w) == \A S \in SUBSET (1..M) : \A j \in 1..N :
                     Abs(SumSeq([i \in 1..M |-> IF i \in S THEN w.n[i] * J[i][j] ELSE 0])) <= w.d * MaxAbsJ
NearMaxLaw == \A key \in DOMAIN FixedW : AbsConvex(FixedW[key]) => SubsetBound(FixedW[key])
NearMaxFlags == [key \in DOMAIN FixedW |-> AbsConvex(FixedW[key])]

-----------------------------------------------------------------------------
(* scenario export                                                          *)

ExpLinear(X, d) == [mean |-> SymMean(X, d, N), sum |-> SymSum(X, d, N),
                    constP |-> SymConstant(P, X, d, N), constW |-> SymConstant(W, X, d, N),
                    constN |-> SymConstant(P, X, d * SumSeq(P), N)]

ExpRobust ==
    [tm   |-> [b1 \in 1..(((M - 1) \div 2) + 1) |->
                  [b |-> b1 - 1, tie |-> SymTMTie(b1 - 1, J, N), val |-> SymTM(b1 - 1, J, den, N)]],
     krum |-> LET cfgs == SymSeqOf({fk[1] * 10 + fk[2] : fk \in KrumCfgs})
              IN  [q \in 1..Len(cfgs) |->
                     LET f == cfgs[q] \div 10
                         k == cfgs[q] % 10
                         r == SymKrum(GNow, f, k)
                     IN  [f |-> f, k |-> k, amb |-> r.amb, sel |-> SymSeqOf(r.sel),
                          val |-> IF r.amb THEN <<>> ELSE SymKrumValue(r.sel, k, J, den, N)]]]

\* UPGrad's reg_eps ladder (C09, "reg_eps in a ladder down to 1e-12"): rung k is reg_eps = 10^-k.  The bound of
\* the statement is per rung, against that rung's reg_eps, whatever was evaluated before: the replay walks the
\* ladder with one fresh aggregator per rung DOWN and then UP again in one process, in exactly these orders.
RegExps == <<2, 4, 6, 8, 10, 12>>
LadderWalks == [down |-> RegExps, up |-> [k \in 1..Len(RegExps) |-> RegExps[Len(RegExps) + 1 - k]]]

Scenario ==
    [id |-> base.id, mode |-> Mode, m |-> M, n0 |-> N0, n |-> N, steps |-> steps,
     J0 |-> base.J, P0 |-> base.P, W0 |-> base.W,
     rp |-> rp, Q |-> Q, den |-> den, J |-> J, P |-> P, W |-> W,
     c1 |-> c1, c2 |-> c2, a |-> ca, b |-> cb,
     pad |-> pad, padpos |-> PadPosSeq, widek |-> WideK, ladder |-> LadderWalks, normeps |-> NormEpsCfgs,
     hist |-> HistPlan, other |-> OtherRows, nearmax |-> NearMaxFlags, maxabs |-> MaxAbsJ,
     badcond |-> base.id \in CuratedBadlyConditioned, tall |-> base.id \in CuratedTall,
     cfg |-> IF CfgOn THEN [on |-> TRUE, ones |-> CfgData(Ones(M)), pref |-> CfgData(P)]
             ELSE [on |-> FALSE, ones |-> <<>>, pref |-> <<>>],
     colperm |-> QIsColPerm, cls |-> cls, prefDeg |-> PrefDeg, gd |-> GDiag,
     nulldir |-> [ones |-> NullDir(Ones(M)), pref |-> NullDir(P), zero |-> ZeroMatrix],
     defaults |-> Defaults, argforms |-> ArgForms,
     gdrop |-> IF Mode = "cols" /\ QIsColPerm
               THEN [on |-> TRUE,
                     vals |-> [q \in 1..Len(GDCfgSeq) |->
                                 [f |-> GDCfgSeq[q][1], leak |-> GDCfgSeq[q][2],
                                  val |-> SymGDVal(GDCfgSeq[q][1], GDLeak(GDCfgSeq[q][2], P), J, den, N)]],
                     cand |-> [q \in 1..2 |-> LET L == GDLeak(q = 2, P) IN
                                 [leak |-> (q = 2), pos |-> SymGDCand("pos", L, J, den, N), neg |-> SymGDCand("neg", L, J, den, N)]],
                     kind |-> [c \in 1..N |-> SymGDKind(J, c)]]
               ELSE [on |-> FALSE, vals |-> <<>>, cand |-> <<>>, kind |-> <<>>],
     exp |-> ExpLinear(J, den), rob |-> ExpRobust,
     lin |-> IF Mode = "scale"
             THEN [x |-> ExpLinear(RowScale(XC, J), den), x1 |-> ExpLinear(RowScale(c1, J), den),
                   x2 |-> ExpLinear(RowScale(c2, J), den)]
             ELSE [x |-> <<>>, x1 |-> <<>>, x2 |-> <<>>]]

\* the documented defaults are configurations of the ladder (first norm_eps configuration, one of the rungs)
DefaultsOK == Defaults.norm_eps = NormEpsCfgs[1] /\ Defaults.reg_exp \in Range(RegExps)
Export == DefaultsOK /\ PrintT(<<"SCN", ToJson(Scenario)>>)
=============================================================================
