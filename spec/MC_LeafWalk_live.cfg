CONSTANT MaxN = 3
CONSTANT MaxLeaves = 2
CONSTANT MaxFeats = 2
CONSTANT MaxLosses = 2
CONSTANT LeafDTs = {"f64", "f32", "c128", "c64"}
CONSTANT ConstDTs = {"f64", "c64"}
CONSTANT SampleMod = 1
CONSTANT SamplePick = 1
SPECIFICATION FairSpec
INVARIANT TypeOK
INVARIANT WalkCorrect
PROPERTY WalkEnds
CHECK_DEADLOCK FALSE
