CONSTANT MaxLeaves = 1
CONSTANT MaxOps = 1
CONSTANT MaxTensors = 1
CONSTANT ChunkSizes = {0}
CONSTANT MaxRows = 1
CONSTANT MaxTasks = 1
CONSTANT SampleMod = 1
CONSTANT SamplePick = 0
CONSTANT PreModes = {"none"}
SPECIFICATION TraceSpec
CHECK_DEADLOCK FALSE
