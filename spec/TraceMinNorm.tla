---------------------------- MODULE TraceMinNorm ----------------------------
(***************************************************************************)
(* Trace validation of MGDA calls (C04) against MinNorm.tla.               *)
(* One episode = MGDA(epsilon = 0, max_iters = K) on an integer matrix J   *)
(* (m <= 3; K anywhere on the ladder of DualCone.tla, up to 60000; epsz =  *)
(* the presentation of epsilon = 0 the call was made with, "float" or      *)
(* "int": the verdict does not depend on it),                              *)
(* with what the harness observed of A(J), rounded OUTWARDS to             *)
(* fixed point so that every test below is implied by the real-number      *)
(* statement (no false alarm from rounding):                               *)
(*   a2lo, a2hi : floor / ceil of |A(J)|^2 * 1024                          *)
(*   phi        : ceil of (J . A(J))_i * 64  (upper bounds of the entries) *)
(* TLC computes minnorm^2 exactly (support enumeration), the bracket       *)
(* L <= s^2 < L+1 (Sylvester) and checks, with s^2 replaced by L+1:        *)
(*   rate   : |A|^2 - minnorm^2 <= 8 s^2 / (K + 2)                         *)
(*   entry  : (J.A)_i >= - s sqrt(|A|^2 - minnorm^2)                       *)
(*   hull   : |A|^2 >= minnorm^2  (A(J) is in the convex hull of the rows) *)
(***************************************************************************)
EXTENDS MinNorm, Json, IOUtils, TLCExt

Episodes == JsonDeserialize(IOEnv.TRACE_FILE)
NEp      == Len(Episodes)

VARIABLES ep, nAcc, nRej, stage
tvars == <<ep, nAcc, nRej, stage>>
E == Episodes[ep]

CeilDiv(a, b)  == (a + b - 1) \div b              \* a >= 0, b > 0
\* minnorm^2 = p/q rounded to 1/1024:  lo <= 1024 p/q <= hi
MnLo(mn) == (mn[1] * 1024) \div mn[2]
MnHi(mn) == CeilDiv(mn[1] * 1024, mn[2])

Verdict(e) ==
    LET G    == TLCEval(Gram(e.J))
        L    == LamFloor(G)
        mn   == MinNormSq(G)
        \* rate in units of 1/1024:  a2lo - mnhi <= ceil(8 (L+1) 1024 / (K+2))
        rate == CeilDiv(8 * (L + 1) * 1024, e.K + 2)
        \* gap upper bound in units of 1/64
        g64  == CeilDiv(IF e.a2hi > MnLo(mn) THEN e.a2hi - MnLo(mn) ELSE 0, 16)
    IN  IF e.epsz \notin {"float", "int"} \/ e.K < 1 THEN "model_malformed_configuration"
        ELSE IF ~MinNormWellDefined(G) THEN "model_min_norm_not_well_defined"
        ELSE IF e.a2hi < MnLo(mn) THEN "output_shorter_than_the_min_norm_point_of_the_hull"
        ELSE IF e.a2lo - MnHi(mn) > rate THEN "suboptimality_exceeds_8_s2_over_max_iters_plus_2"
        ELSE IF \E i \in DOMAIN e.phi : e.phi[i] < 0 /\ e.phi[i] * e.phi[i] > (L + 1) * g64 * 64
             THEN "entry_of_J_A_below_minus_s_sqrt_suboptimality"
        ELSE "ok"

TInit == ep = 1 /\ nAcc = 0 /\ nRej = 0 /\ stage = "run"
TStep == /\ stage = "run" /\ ep <= NEp
         /\ LET v == Verdict(E) IN
              /\ (v # "ok" => PrintT(<<"REJECT", ToJson([ep |-> E.ep, clause |-> v,
                                                          mn2 |-> MinNormSq(Gram(E.J)), lamLo |-> LamFloor(Gram(E.J))])>>))
              /\ nAcc' = nAcc + (IF v = "ok" THEN 1 ELSE 0)
              /\ nRej' = nRej + (IF v = "ok" THEN 0 ELSE 1)
         /\ ep' = ep + 1 /\ UNCHANGED stage
TDone == /\ stage = "run" /\ ep = NEp + 1
         /\ PrintT(<<"SUMMARY", ToJson([episodes |-> NEp, accepted |-> nAcc, rejected |-> nRej])>>)
         /\ stage' = "end" /\ UNCHANGED <<ep, nAcc, nRej>>
TNext == TStep \/ TDone
TraceSpec == TInit /\ [][TNext]_tvars
TraceConsumed == (stage = "end") => (nAcc + nRej = NEp)
=============================================================================
