--------------------------- MODULE TraceJacChunks ---------------------------
(***************************************************************************)
(* Trace validation for JacChunks: every episode recorded from the real    *)
(* torchjd (one backward / mtl_backward call: m, k, retain, and the list   *)
(* of observed sweeps) is stepped through the PROPERTY-layer actions of    *)
(* JacChunks.  A sweep event that no property-layer action allows ends the *)
(* episode with a REJECT line naming the failing clause; the remaining     *)
(* episodes are still validated (verdicts are total).                      *)
(* A second, independent verdict compares the episode with the             *)
(* implementation-layer plan; a mismatch there is only a DRIFT line.       *)
(***************************************************************************)
EXTENDS JacChunks, IOUtils, TLCExt

Episodes == JsonDeserialize(IOEnv.TRACE_FILE)      \* sequence of episode records
NEp      == Len(Episodes)

VARIABLES ep,       \* index of the current episode (NEp + 1 when finished)
          pos,      \* index of the next sweep event of the episode
          stage,    \* "load" | "sweeps" | "finish"
          nAcc, nRej, nDrift

tvars == <<m, k, retainCaller, done, sweeps, assembled, status, ep, pos, stage, nAcc, nRej, nDrift>>

E == Episodes[ep]

TInit == /\ m = 1 /\ k = 0 /\ retainCaller = FALSE /\ done = {} /\ sweeps = <<>>
         /\ assembled = <<>> /\ status = "running"
         /\ ep = 1 /\ pos = 1 /\ stage = "load" /\ nAcc = 0 /\ nRej = 0 /\ nDrift = 0

Load == /\ ep <= NEp /\ stage = "load"
        /\ m' = E.m /\ k' = E.k /\ retainCaller' = E.retain
        /\ done' = {} /\ sweeps' = <<>> /\ assembled' = <<>> /\ status' = "running"
        /\ pos' = 1 /\ stage' = "sweeps"
        /\ UNCHANGED <<ep, nAcc, nRej, nDrift>>

NextEpisode(accepted, drift) ==
        /\ ep' = ep + 1 /\ stage' = "load" /\ pos' = 1
        /\ nAcc' = nAcc + (IF accepted THEN 1 ELSE 0)
        /\ nRej' = nRej + (IF accepted THEN 0 ELSE 1)
        /\ nDrift' = nDrift + (IF drift THEN 1 ELSE 0)

\* one logged sweep = one property-layer Sweep action with the logged fields bound
TSweep == /\ ep <= NEp /\ stage = "sweeps" /\ pos <= Len(E.sweeps)
          /\ LET s == E.sweeps[pos] IN
                /\ PropSweepGuard(s.rows, s.vmap)
                /\ PropSweep(s.rows, s.vmap, s.retain)
          /\ assembled' = assembled
          /\ pos' = pos + 1
          /\ UNCHANGED <<ep, stage, nAcc, nRej, nDrift>>

TSweepReject ==
          /\ ep <= NEp /\ stage = "sweeps" /\ pos <= Len(E.sweeps)
          /\ LET s == E.sweeps[pos] IN
                /\ ~PropSweepGuard(s.rows, s.vmap)
                /\ PrintT(<<"REJECT", ToJson([ep |-> E.ep, at |-> pos,
                                               clause |-> PropSweepFailing(s.rows, s.vmap)])>>)
          /\ NextEpisode(FALSE, FALSE)
          /\ UNCHANGED <<m, k, retainCaller, done, sweeps, assembled, status>>

\* all sweeps consumed: the episode must be able to finish.  The set of rows is not logged, so
\* `done` holds *some* r-subset per sweep; PropFinishGuard only needs its cardinality.
AllRowsDone == Cardinality(done) = m
TFinish == /\ ep <= NEp /\ stage = "sweeps" /\ pos = Len(E.sweeps) + 1
           /\ AllRowsDone /\ Len(sweeps) = NSweeps
           /\ LET drift == (sweeps # ImplPlan) IN
                 /\ (drift => PrintT(<<"DRIFT", ToJson([ep |-> E.ep, observed |-> sweeps,
                                                         plan |-> ImplPlan])>>))
                 /\ NextEpisode(TRUE, drift)
           /\ UNCHANGED <<m, k, retainCaller, done, sweeps, assembled, status>>

TFinishReject ==
           /\ ep <= NEp /\ stage = "sweeps" /\ pos = Len(E.sweeps) + 1
           /\ ~(AllRowsDone /\ Len(sweeps) = NSweeps)
           /\ PrintT(<<"REJECT", ToJson([ep |-> E.ep, at |-> pos,
                        clause |-> IF ~AllRowsDone THEN "rows_missing_at_finish"
                                   ELSE "number_of_sweeps_differs_from_ceil_m_over_k"])>>)
           /\ NextEpisode(FALSE, FALSE)
           /\ UNCHANGED <<m, k, retainCaller, done, sweeps, assembled, status>>

TDone == /\ ep = NEp + 1 /\ stage = "load"
         /\ PrintT(<<"SUMMARY", ToJson([episodes |-> NEp, accepted |-> nAcc, rejected |-> nRej,
                                         drift |-> nDrift])>>)
         /\ stage' = "end"
         /\ UNCHANGED <<m, k, retainCaller, done, sweeps, assembled, status, ep, pos, nAcc, nRej, nDrift>>

TNext == Load \/ TSweep \/ TSweepReject \/ TFinish \/ TFinishReject \/ TDone
TraceSpec == TInit /\ [][TNext]_tvars

\* every step the trace spec takes on an accepted prefix is a property-layer step or a stutter
\* of the JacChunks variables (the cursor variables are the only ones that move otherwise)
TraceConsumed == (stage = "end") => (nAcc + nRej = NEp)
=============================================================================
