CONSTANT Shapes = {}
CONSTANT UseFile = FALSE
CONSTANT BSPick = 0
CONSTANT BSShapes <- BSShapesQuick
CONSTANT BSFile <- BSFileOn
SPECIFICATION Spec
INVARIANT BSMinNormSound
INVARIANT BSObviousStationary
INVARIANT BSHalfSpaceNotStationary
INVARIANT BSTwoRowsMinNorm
INVARIANT BSSymmetricLemma
INVARIANT BSUnscaledAgrees
INVARIANT BSExport
CHECK_DEADLOCK FALSE
