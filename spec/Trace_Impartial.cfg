CONSTANT Level = 1
SPECIFICATION TraceSpec
INVARIANT TraceConsumed
CHECK_DEADLOCK FALSE
