---------------------------- MODULE TraceMtlImpl ----------------------------
(***************************************************************************)
(* Binds the IMPLEMENTATION-SHAPED layer of MtlBackward.tla to the code:   *)
(* the harness records the tensor dictionary leaving Stack, Jac and        *)
(* Aggregate, the .grad of every leaf after each task's Accumulate and at  *)
(* the end; this module steps TaskStep*, StackStep, JacSweep*, JacDone,    *)
(* DoAggregate, AccumulateKey*, Finish / NoShared with those values bound. *)
(* Hidden orders stay existential.  A stage that no action explains shows  *)
(* up as a missing STAGE line: DRIFT only, never VIOLATION.                *)
(***************************************************************************)
EXTENDS MtlBackward, IOUtils, TLCExt

Episodes == JsonDeserialize(IOEnv.TRACE_FILE)
NEp == Len(Episodes)
VARIABLES ep, stage
tvars == <<P, phase, call, grad, d, ordJ, rows, sweeps, pending, mt, task, featCt, ep, stage>>
E == Episodes[ep]
SeqToSet(s) == {s[i] : i \in DOMAIN s}
MapOf(lst)  == [k \in {lst[i].k : i \in DOMAIN lst} |-> lst[CHOOSE i \in DOMAIN lst : lst[i].k = k].v]
Mark(s) == PrintT(<<"STAGE", ToJson([ep |-> E.ep, stage |-> s])>>)

TInit == Init /\ ep = 1 /\ stage = "load"

Load == /\ ep <= NEp /\ stage = "load"
        /\ P' = E.prog
        /\ mt' = [feats |-> E.feats, losses |-> E.losses,
                  tparams |-> [i \in 1..Len(E.losses) |-> SeqToSet(E.tparams[i])],
                  natural |-> [i \in 1..Len(E.losses) |-> {}]]
        /\ call' = [tensors |-> E.feats, inputs |-> SeqToSet(E.shared), k |-> E.k, w |-> E.w,
                    pre |-> {}, m |-> Len(E.losses)]
        /\ grad' = [l \in {i \in 1..Len(E.prog) : E.prog[i].op = "leaf"} |-> E.grad0[l]]
        /\ d' = [type |-> "Empty", map |-> <<>>] /\ ordJ' = <<>> /\ rows' = <<>> /\ sweeps' = <<>> /\ pending' = {}
        /\ phase' = "tasks" /\ task' = 0 /\ featCt' = <<>> /\ stage' = "run" /\ UNCHANGED ep

\* after task i the .grad of every leaf is the logged one
TTask == /\ TaskStep
         /\ \A l \in Leaves(P) : grad'[l] = E.after_task[task + 1][l]
         /\ Mark("Task")
         /\ UNCHANGED <<ep, stage>>
TStack == StackStep /\ d'.map = MapOf(E.after_stack) /\ Mark("Stack") /\ UNCHANGED <<ep, stage>>
TSweep == JacSweep /\ UNCHANGED <<ep, stage>>
TJacDone == JacDone /\ d'.map = MapOf(E.after_jac) /\ sweeps = E.sweeps /\ Mark("Jac") /\ UNCHANGED <<ep, stage>>
TDoAgg == DoAggregate /\ d'.map = MapOf(E.after_agg) /\ Mark("Aggregate") /\ UNCHANGED <<ep, stage>>
TAcc == AccumulateKey /\ UNCHANGED <<ep, stage>>
TFinish == /\ (Finish \/ NoShared)
           /\ \A l \in Leaves(P) : grad[l] = E.grad1[l]
           /\ Mark("Accumulate")
           /\ UNCHANGED <<ep, stage>>

NextEpisode == /\ ep <= NEp /\ stage = "run"
               /\ ep' = ep + 1 /\ stage' = "load"
               /\ P' = <<>> /\ phase' = "build" /\ call' = B!NoCall /\ grad' = <<>>
               /\ d' = [type |-> "Empty", map |-> <<>>]
               /\ ordJ' = <<>> /\ rows' = <<>> /\ sweeps' = <<>> /\ pending' = {}
               /\ mt' = NoMt /\ task' = 0 /\ featCt' = <<>>

TDone == /\ ep = NEp + 1 /\ stage = "load"
         /\ PrintT(<<"SUMMARY", ToJson([episodes |-> NEp])>>)
         /\ stage' = "end"
         /\ UNCHANGED <<P, phase, call, grad, d, ordJ, rows, sweeps, pending, mt, task, featCt, ep>>

TNext == Load \/ (stage = "run" /\ (TTask \/ TStack \/ TSweep \/ TJacDone \/ TDoAgg \/ TAcc \/ TFinish))
         \/ NextEpisode \/ TDone
TraceSpec == TInit /\ [][TNext]_tvars
=============================================================================
