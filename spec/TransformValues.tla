--------------------------- MODULE TransformValues ---------------------------
(***************************************************************************)
(* C15: the linear map every building-block transform computes, on exact   *)
(* integer dictionaries.  Keys are node ids of a program (Grad, Jac) or    *)
(* 1..n with flat sizes (Init, Select, Diagonalize, Stack, Aggregate).  A  *)
(* value is a flat row-major integer vector (gradient) or a sequence of    *)
(* rows (jacobian); tensor shapes are a presentation matter: the harness   *)
(* replays every scenario under the shapes of ShapeMenu (0-d .. 4-d, with  *)
(* size-1 dimensions) and with shuffled dictionary insertion orders.       *)
(*                                                                         *)
(* Definitions (what the transforms must compute):                         *)
(*   GradT  = reverse-mode VJP of Autograd.tla, zeros where nothing flows  *)
(*   JacT   = GradT row by row                                             *)
(*   InitT, SelectT, DiagT, StackT, AggT - see below                       *)
(* Checked by TLC on every program/call of the bounded universe:           *)
(*   GradIsVJP   GradT = cotangent . TrueJac (TrueJac by FORWARD mode)     *)
(*   Linear      JacT(2A - 3B) = 2 JacT(A) - 3 JacT(B)                     *)
(*   Unreachable inputs that no output depends on get zero rows            *)
(*   Chains      for every set of intermediate tensors that separates the  *)
(*               inputs from the outputs (and is an antichain):            *)
(*               JacT(mid -> ins) after JacT(outs -> mid) = JacT(outs->ins)*)
(* and on every value scenario: DiagT/StackT/AggT against independent      *)
(* matrix formulations (DiagIsDiagonal, StackRows, AggIsWJ).               *)
(*                                                                         *)
(* Element type.  Every transform returns values of the element type its   *)
(* inputs determine (OutDtype: the common dtype dt of keys and values) -   *)
(* checked on every replayed / recorded result.                            *)
(*                                                                         *)
(* PRECISION presentation (float64).  Small integers survive a round trip  *)
(* through float32, so an integer scenario cannot see one.  Every scenario *)
(* therefore carries a second integer input K (pattern 1..3, different per *)
(* key / row / entry) and the specified result on it; all maps are LINEAR  *)
(* in the dictionary they receive (ValuesLinear, Linear), hence            *)
(*      T(v + 2^-29 K) = T(v) + 2^-29 T(K)                                 *)
(* and both sides are exact in float64 (multiples of 2^-29 below 2^20)     *)
(* while v + 2^-29 K needs more than the 24 mantissa bits of float32.  The *)
(* harness realises the integers v as v + 2^-29 K and compares with        *)
(* EQUALITY; the trace driver logs the two integer parts of every float64  *)
(* value.  For Grad/Jac the second batch of cotangents (CtB) is the K.     *)
(*                                                                         *)
(* Argument presentations: ArgForms lists, per constructor argument, the   *)
(* forms (list, tuple, set, dict view, iterator, generator) in which the   *)
(* harness presents the key collections; the expected values do not depend *)
(* on them.                                                                *)
(***************************************************************************)
EXTENDS Programs, TLC, Json

CONSTANTS MaxLeaves, MaxOps, MaxOuts, MaxIns, MaxRows, Thin, LeafIdx, SampleMod, SamplePick, ValMod, ValPick

VARIABLES P, phase, call, scn
vars == <<P, phase, call, scn>>

\* ------------------------------------------------------------------ presentation shapes
ShapeMenu(n) ==
    CASE n = 1 -> << <<>>, <<1>>, <<1, 1>>, <<1, 1, 1, 1>> >>
      [] n = 2 -> << <<2>>, <<1, 2>>, <<2, 1>>, <<1, 1, 2>>, <<2, 1, 1, 1>> >>
      [] n = 3 -> << <<3>>, <<1, 3>>, <<3, 1, 1>> >>
      [] n = 4 -> << <<4>>, <<2, 2>>, <<2, 1, 2>>, <<2, 1, 1, 2>>, <<1, 4>>, <<4, 1>> >>
      [] n = 5 -> << <<5>>, <<5, 1>> >>
      [] n = 6 -> << <<6>>, <<2, 3>>, <<3, 2>>, <<1, 2, 3>>, <<3, 1, 2, 1>> >>
      [] n = 8 -> << <<8>>, <<2, 4>>, <<2, 2, 2>>, <<2, 1, 2, 2>> >>
      [] OTHER -> << <<n>> >>

\* ------------------------------------------------------------------ argument presentations / element type
\* Forms in which a key collection is handed to a constructor declared Iterable[Tensor].  "iter" and
\* "gen" are one-shot.  "set" only where the enumeration order is not part of the argument.  The
\* key_order of Aggregate is traversed three times by the constructor as written (one-shot
\* presentations make it raise ValueError today: recorded as an observation, not presented).
AllForms == {"list", "tuple", "set", "dictkeys", "iter", "gen"}
ArgForms == << [op |-> "init", arg |-> "values", forms |-> AllForms],
               [op |-> "select", arg |-> "keys", forms |-> AllForms],
               [op |-> "select", arg |-> "required_keys", forms |-> AllForms],
               [op |-> "diag", arg |-> "considered", forms |-> AllForms \ {"set"}],
               [op |-> "grad", arg |-> "outputs", forms |-> AllForms],
               [op |-> "grad", arg |-> "inputs", forms |-> AllForms],
               [op |-> "jac", arg |-> "outputs", forms |-> AllForms],
               [op |-> "jac", arg |-> "inputs", forms |-> AllForms],
               [op |-> "agg", arg |-> "key_order", forms |-> {"list", "tuple", "dictkeys"}],
               [op |-> "stack", arg |-> "transforms", forms |-> {"list", "tuple"}] >>
\* the element type of every value of the result, given the common element type of keys and input values
OutDtype(kind, dt) == dt

\* ------------------------------------------------------------------ Grad and Jac
\* g: function output node -> cotangent vector; result: function input node -> gradient vector
GradT(prog, ins, g) == LET adj == VJPAll(prog, g) IN [i \in Range(ins) |-> adj[i]]
\* J: function output node -> matrix with m rows; result: input node -> matrix with m rows
JacT(prog, ins, J, m) ==
    LET adjs == [r \in 1..m |-> VJPAll(prog, [o \in DOMAIN J |-> J[o][r]])]
    IN  [i \in Range(ins) |-> [r \in 1..m |-> adjs[r][i]]]

\* reachability along argument edges on which gradient flows (not through detach / rg = FALSE)
RECURSIVE ReachUpTo(_, _, _)
ReachUpTo(prog, src, n) ==      \* set of nodes <= n that depend (differentiably) on node src
    IF n < src THEN {}
    ELSE IF n = src THEN {src}
    ELSE LET prev == ReachUpTo(prog, src, n - 1)
         IN  IF prog[n].op # "detach" /\ RG(prog)[n] /\ Range(Args(prog[n])) \cap prev # {} THEN prev \cup {n} ELSE prev
Reaches(prog, src, dst) == dst \in ReachUpTo(prog, src, dst)

\* mid separates ins from outs: with the mid nodes removed nothing flows from an input to an output
RECURSIVE ReachAvoid(_, _, _, _)
ReachAvoid(prog, src, n, avoid) ==
    IF n < src THEN {}
    ELSE IF n = src THEN {src}
    ELSE LET prev == ReachAvoid(prog, src, n - 1, avoid)
         IN  IF n \notin avoid /\ prog[n].op # "detach" /\ RG(prog)[n] /\ Range(Args(prog[n])) \cap prev # {}
             THEN prev \cup {n} ELSE prev
ValidCut(prog, outs, mid, ins) ==
    /\ mid # {} /\ mid \cap (Range(outs) \cup Range(ins)) = {}
    /\ \A x \in mid : prog[x].op # "leaf" /\ RG(prog)[x]
    /\ \A x, y \in mid : x # y => ~Reaches(prog, x, y)                       \* antichain
    /\ \A i \in Range(ins), o \in Range(outs) : o \notin ReachAvoid(prog, i, o, mid)
    /\ \E i \in Range(ins), o \in Range(outs) : Reaches(prog, i, o)          \* not vacuous

\* ------------------------------------------------------------------ value transforms on keys 1..n
\* sizes: sequence of flat sizes; g: function key -> vector
InitT(sizes) == [k \in DOMAIN sizes |-> Ones(sizes[k])]
SelectT(d, K) == [k \in K |-> d[k]]
\* Diagonalize(order): one row per scalar of all keys in `order`; key order[i] gets, in row
\* off_i + e, its e-th gradient entry at position e, zeros elsewhere
DiagT(order, sizes, g) ==
    LET osz == [i \in DOMAIN order |-> sizes[order[i]]]
        off == Offsets(osz)
        N   == SumSeq(osz)
    IN  [k \in Range(order) |->
           LET i == CHOOSE i \in DOMAIN order : order[i] = k
           IN  [r \in 1..N |-> [e \in 1..osz[i] |-> IF r = off[i] + e THEN g[k][e] ELSE 0]]]
\* Stack(members): row i of key k = member i's gradient of k, zeros where member i has no k
StackT(members, sizes) ==
    [k \in UNION {DOMAIN members[i] : i \in DOMAIN members} |->
       [i \in DOMAIN members |-> IF k \in DOMAIN members[i] THEN members[i][k] ELSE Zeros(sizes[k])]]
\* Aggregate(Constant(w), order): unite the matrices column-wise in `order`, w^T . united, give each
\* key its own slice
RECURSIVE UniteV(_, _, _)
UniteV(J, ord, m) == IF ord = <<>> THEN [r \in 1..m |-> <<>>] ELSE HCat(J[Head(ord)], UniteV(J, Tail(ord), m))
AggT(order, sizes, J, w) ==
    LET m   == Len(w)
        osz == [i \in DOMAIN order |-> sizes[order[i]]]
        off == Offsets(osz)
        vec == VecMat(w, UniteV(J, order, m), SumSeq(osz))
    IN  [k \in Range(order) |-> LET i == CHOOSE i \in DOMAIN order : order[i] = k IN Slice(vec, off[i] + 1, osz[i])]

\* ------------------------------------------------------------------ the program part of the universe
NoCall == [outs |-> <<>>, ins |-> <<>>, m |-> 0]

\* cotangent patterns: integer, different per output / row / entry; two batches for linearity
CtA(oi, r, e) == ((oi * 7 + r * 3 + e * 5 + r * e) % 5) - 2
CtB(oi, r, e) == ((oi * 3 + r * 5 + e * 2 + oi * e) % 7) - 3
Batch(F(_, _, _), outs, m) ==
    [o \in Range(outs) |-> LET oi == CHOOSE i \in DOMAIN outs : outs[i] = o
                           IN  [r \in 1..m |-> [e \in 1..Sizes(P)[o] |-> F(oi, r, e)]]]
Comb(A, B) == [o \in DOMAIN A |-> [r \in DOMAIN A[o] |-> VSub(VScale(2, A[o][r]), VScale(3, B[o][r]))]]

AscSeq(S) == CHOOSE s \in PermSeqs(S) : \A i, j \in DOMAIN s : i < j => s[i] < s[j]
DescSeq(S) == CHOOSE s \in PermSeqs(S) : \A i, j \in DOMAIN s : i < j => s[i] > s[j]

OutSeqs == {s \in UNION {[1..n -> Differentiable(P)] : n \in 1..MaxOuts} : \A i, j \in DOMAIN s : i # j => s[i] # s[j]}
InCands(outs) == {i \in 1..Len(P) : RG(P)[i] /\ i \notin Range(outs)}

Init == /\ P = <<>> /\ phase \in {"build", "vstart"} /\ call = NoCall /\ scn = [kind |-> "none"]

AddLeaf == /\ phase = "build" /\ OnlyLeaves(P) /\ NumLeaves(P) < MaxLeaves
           /\ \E nd \in LeafExtensions(P) : LeafIndexOf(nd) \in LeafIdx /\ P' = Append(P, nd)
           /\ UNCHANGED <<phase, call, scn>>
AddOp == /\ phase = "build" /\ NumLeaves(P) >= 1 /\ NumOps(P) < MaxOps
         /\ \E nd \in OpExtensions(P) : OkExtension(P, nd) /\ P' = Append(P, nd)
         /\ UNCHANGED <<phase, call, scn>>

\* Thin = TRUE (quick tier): one batch size and one order of the inputs per (program, outs, input set),
\* picked by a content hash, instead of all of them
PreHash(outs, S) == SumSeq([i \in DOMAIN outs |-> i * outs[i]]) + SumSeq([i \in 1..Len(P) |-> IF i \in S THEN i * i ELSE 0])
                    + 3 * Len(P) + SumSeq(Vals(P)[Len(P)])
ChooseCall ==
    /\ phase = "build" /\ NumOps(P) >= 1
    /\ \E outs \in OutSeqs :
         /\ Len(P) \in Range(outs)                  \* otherwise the call was explored on a shorter program
         /\ \E S \in (SUBSET InCands(outs)) \ {{}} :
              /\ Cardinality(S) <= MaxIns
              /\ LET h == PreHash(outs, S) IN
                 \E ins \in (IF Thin THEN {IF h % 2 = 0 THEN AscSeq(S) ELSE DescSeq(S)} ELSE {AscSeq(S), DescSeq(S)}),
                    m \in (IF Thin THEN {1 + ((h \div 2) % MaxRows)} ELSE 1..MaxRows) :
                   call' = [outs |-> outs, ins |-> ins, m |-> m]
    /\ phase' = "call"
    /\ UNCHANGED <<P, scn>>

\* ------------------------------------------------------------------ the value part of the universe
SizeSeqs == UNION {[1..n -> {1, 2, 3, 4}] : n \in 1..3}
GVal(k, e) == ((k * 5 + e * 3 + k * e) % 7) - 3 + (IF k = 2 THEN 10 ELSE 0)     \* never all ones; key 2 differs from 1, 3
GDict(sizes, K) == [k \in K |-> [e \in 1..sizes[k] |-> GVal(k, e)]]
JVal(k, r, e) == ((k * 3 + r * 5 + e * 7 + r * e * k) % 9) - 4
JDict(sizes, m) == [k \in DOMAIN sizes |-> [r \in 1..m |-> [e \in 1..sizes[k] |-> JVal(k, r, e)]]]
WVec(m) == [r \in 1..m |-> 2 * r - 3]                                              \* -1, 1, 3: distinct, none is 1 for m = 1
MemberVal(i, k, e) == GVal(k, e) + 20 * i
\* the K patterns of the precision presentation: 1..3, different per key / row (member) / entry
KVal(k, e) == 1 + ((k + e) % 3)
KDict(sizes, K) == [k \in K |-> [e \in 1..sizes[k] |-> KVal(k, e)]]
KJDict(sizes, m) == [k \in DOMAIN sizes |-> [r \in 1..m |-> [e \in 1..sizes[k] |-> KVal(k + r, e)]]]
Members(F(_, _, _), ks, sizes) == [i \in DOMAIN ks |-> [k \in ks[i] |-> [e \in 1..sizes[k] |-> F(i, k, e)]]]
MemberK(i, k, e) == KVal(k + i, e)

ValScenarios(sizes) ==
    LET n == Len(sizes)
        K == 1..n
    IN  {[kind |-> "init", sizes |-> sizes, expected |-> InitT(sizes)]}
        \cup {[kind |-> "select", sizes |-> sizes, K |-> S, input |-> GDict(sizes, K),
               expected |-> SelectT(GDict(sizes, K), S),
               inputK |-> KDict(sizes, K), expectedK |-> SelectT(KDict(sizes, K), S)] : S \in SUBSET K}
        \cup {[kind |-> "diag", sizes |-> sizes, order |-> o, input |-> GDict(sizes, K),
               expected |-> DiagT(o, sizes, GDict(sizes, K)),
               inputK |-> KDict(sizes, K), expectedK |-> DiagT(o, sizes, KDict(sizes, K))] : o \in PermSeqs(K)}
        \cup {[kind |-> "agg", sizes |-> sizes, order |-> o, m |-> m, w |-> WVec(m), input |-> JDict(sizes, m),
               united |-> UniteV(JDict(sizes, m), o, m),
               expected |-> AggT(o, sizes, JDict(sizes, m), WVec(m)),
               expectedSum |-> AggT(o, sizes, JDict(sizes, m), Ones(m)),
               inputK |-> KJDict(sizes, m),
               expectedK |-> AggT(o, sizes, KJDict(sizes, m), WVec(m)),
               expectedSumK |-> AggT(o, sizes, KJDict(sizes, m), Ones(m))] : o \in PermSeqs(K), m \in 1..3}
        \cup {[kind |-> "stack", sizes |-> sizes, members |-> Members(MemberVal, ks, sizes),
               expected |-> StackT(Members(MemberVal, ks, sizes), sizes),
               membersK |-> Members(MemberK, ks, sizes),
               expectedK |-> StackT(Members(MemberK, ks, sizes), sizes)] :
                 ks \in UNION {[1..c -> SUBSET K] : c \in 1..(IF n = 3 THEN 2 ELSE 3)}}

VStart == /\ phase = "vstart"
          /\ \E s \in SizeSeqs : scn' = [kind |-> "sizes", sizes |-> s]
          /\ phase' = "vsizes"
          /\ UNCHANGED <<P, call>>
VScenario == /\ phase = "vsizes"
             /\ \E x \in ValScenarios(scn.sizes) : scn' = x
             /\ phase' = "vscn"
             /\ UNCHANGED <<P, call>>

Next == AddLeaf \/ AddOp \/ ChooseCall \/ VStart \/ VScenario
Spec == Init /\ [][Next]_vars

\* ------------------------------------------------------------------ properties: Grad / Jac
A0 == Batch(CtA, call.outs, call.m)
B0 == Batch(CtB, call.outs, call.m)
JacA == JacT(P, call.ins, A0, call.m)
JacB == JacT(P, call.ins, B0, call.m)
JacC == JacT(P, call.ins, Comb(A0, B0), call.m)
LeafIns == \A i \in Range(call.ins) : P[i].op = "leaf"
\* concatenation of the cotangents of row r over the outputs, in the order of outs
RECURSIVE CatCt(_, _, _)
CatCt(J, outs, r) == IF outs = <<>> THEN <<>> ELSE J[Head(outs)][r] \o CatCt(J, Tail(outs), r)

\* Grad / each Jac row = cotangent . TrueJac (forward mode), for inputs that are leaves
GradIsVJP == (phase = "call" /\ LeafIns) =>
    \A r \in 1..call.m :
       LET g == GradT(P, call.ins, [o \in DOMAIN A0 |-> A0[o][r]])
       IN  \A i \in Range(call.ins) :
             /\ g[i] = VecMat(CatCt(A0, call.outs, r), TrueJacBlock(P, call.outs, i), P[i].size)
             /\ g[i] = JacA[i][r]
Linear == phase = "call" =>
    \A i \in Range(call.ins), r \in 1..call.m :
       JacC[i][r] = VSub(VScale(2, JacA[i][r]), VScale(3, JacB[i][r]))
Unreachable == phase = "call" =>
    \A i \in Range(call.ins) :
       (\A o \in Range(call.outs) : ~Reaches(P, i, o)) => \A r \in 1..call.m : JacA[i][r] = Zeros(Sizes(P)[i])
Cuts == {mid \in SUBSET (1..Len(P)) : ValidCut(P, call.outs, mid, call.ins)}
Chains == phase = "call" =>
    \A mid \in Cuts :
       LET ms == AscSeq(mid)
           s1 == JacT(P, ms, A0, call.m)
       IN  JacT(P, call.ins, s1, call.m) = JacA

\* ------------------------------------------------------------------ properties: value transforms
\* independent formulations: Diagonalize = columns of diag(cat(g)); Stack row i restricted to the
\* keys of member i is member i; Aggregate = slices of w^T . [J_1 .. J_n]
DiagIsDiagonal == (phase = "vscn" /\ scn.kind = "diag") =>
    LET osz  == [i \in DOMAIN scn.order |-> scn.sizes[scn.order[i]]]
        flat == ConcatAdj(scn.input, scn.order)
        N    == SumSeq(osz)
        D    == [r \in 1..N |-> [c \in 1..N |-> IF r = c THEN flat[r] ELSE 0]]
        off  == Offsets(osz)
    IN  \A i \in DOMAIN scn.order : scn.expected[scn.order[i]] = ColSlice(D, off[i] + 1, osz[i])
StackRows == (phase = "vscn" /\ scn.kind = "stack") =>
    \A k \in DOMAIN scn.expected : \A i \in DOMAIN scn.members :
       scn.expected[k][i] = (IF k \in DOMAIN scn.members[i] THEN scn.members[i][k] ELSE Zeros(scn.sizes[k]))
AggIsWJ == (phase = "vscn" /\ scn.kind = "agg") =>
    \A k \in DOMAIN scn.expected : scn.expected[k] = VecMat(scn.w, scn.input[k], scn.sizes[k])

\* every value transform is linear in the dictionary it receives: T(2 v - 3 K) = 2 T(v) - 3 T(K).  This is
\* what makes the precision presentation exact: T(v + 2^-29 K) = T(v) + 2^-29 T(K)
CombV(a, b) == VSub(VScale(2, a), VScale(3, b))
CombG(A, B) == [k \in DOMAIN A |-> CombV(A[k], B[k])]
CombJ(A, B) == [k \in DOMAIN A |-> [r \in DOMAIN A[k] |-> CombV(A[k][r], B[k][r])]]
ValuesLinear == (phase = "vscn") =>
    CASE scn.kind = "select" -> SelectT(CombG(scn.input, scn.inputK), scn.K) = CombG(scn.expected, scn.expectedK)
      [] scn.kind = "diag"   -> DiagT(scn.order, scn.sizes, CombG(scn.input, scn.inputK)) = CombJ(scn.expected, scn.expectedK)
      [] scn.kind = "agg"    -> /\ AggT(scn.order, scn.sizes, CombJ(scn.input, scn.inputK), scn.w) = CombG(scn.expected, scn.expectedK)
                                /\ AggT(scn.order, scn.sizes, CombJ(scn.input, scn.inputK), Ones(scn.m))
                                     = CombG(scn.expectedSum, scn.expectedSumK)
      [] scn.kind = "stack"  -> StackT([i \in DOMAIN scn.members |-> CombG(scn.members[i], scn.membersK[i])], scn.sizes)
                                  = CombJ(scn.expected, scn.expectedK)
      [] OTHER               -> TRUE

\* ------------------------------------------------------------------ export
CallHash == SumSeq(Vals(P)[Len(P)]) + 3 * Len(P) + 7 * call.m
            + 13 * SumSeq([i \in 1..Len(P) |-> IF P[i].op = "leaf" THEN P[i].size + i
                                               ELSE i * P[i].a + (IF P[i].op \in Binary THEN 3 * P[i].b ELSE 1)])
            + 19 * SumSeq([i \in DOMAIN call.outs |-> i * call.outs[i]])
            + 23 * SumSeq([i \in DOMAIN call.ins |-> i * i * call.ins[i]])
CallScenario ==
    [prog |-> P, sizes |-> Sizes(P), outs |-> call.outs, ins |-> call.ins, m |-> call.m,
     ctA |-> A0, ctB |-> B0, jacA |-> JacA, jacB |-> JacB, jacC |-> JacC,
     unreachable |-> {i \in Range(call.ins) : \A o \in Range(call.outs) : ~Reaches(P, i, o)},
     cuts |-> {AscSeq(mid) : mid \in Cuts}]
ExportCall == (phase = "call" /\ (CallHash % SampleMod) = SamplePick) => PrintT(<<"CALL", ToJson(CallScenario)>>)

ValHash == SumSeq(scn.sizes) + 5 * Len(scn.sizes)
           + (IF scn.kind \in {"diag", "agg"} THEN 7 * SumSeq([i \in DOMAIN scn.order |-> i * scn.order[i]]) ELSE 0)
           + (IF scn.kind = "agg" THEN scn.m ELSE 0)
           + (IF scn.kind = "select" THEN 3 * Cardinality(scn.K) + SumSeq([k \in 1..3 |-> IF k \in scn.K THEN k * k ELSE 0]) ELSE 0)
           + (IF scn.kind = "stack" THEN SumSeq([i \in DOMAIN scn.members |-> i * (1 + SumSeq([k \in 1..3 |-> IF k \in DOMAIN scn.members[i] THEN k * k ELSE 0]))]) ELSE 0)
ExportVal == (phase = "vscn" /\ (ValHash % ValMod) = ValPick) => PrintT(<<"VAL", ToJson(scn)>>)
ExportMenu == (phase = "vstart") => PrintT(<<"MENU", ToJson([menu |-> [n \in 1..8 |-> ShapeMenu(n)], forms |-> ArgForms])>>)
=============================================================================
