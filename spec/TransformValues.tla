--------------------------- MODULE TransformValues ---------------------------
(***************************************************************************)
(* C15: the linear map every building-block transform computes, on exact   *)
(* integer dictionaries.  Keys are node ids of a program (Grad, Jac) or    *)
(* 1..n with flat sizes (Init, Select, Diagonalize, Stack, Aggregate).  A  *)
(* value is a flat row-major integer vector (gradient) or a sequence of    *)
(* rows (jacobian); tensor shapes are a presentation matter: the harness   *)
(* replays every scenario under the shapes of ShapeMenu (0-d .. 4-d, with  *)
(* size-1 dimensions) and with shuffled dictionary insertion orders.       *)
(*                                                                         *)
(* Definitions (what the transforms must compute):                         *)
(*   GradT  = reverse-mode VJP of Autograd.tla, zeros where nothing flows  *)
(*   JacT   = GradT row by row                                             *)
(*   InitT, SelectT, DiagT, StackT, AggT - see below                       *)
(* Checked by TLC on every program/call of the bounded universe:           *)
(*   GradIsVJP   GradT = cotangent . TrueJac (TrueJac by FORWARD mode)     *)
(*   Linear      JacT(2A - 3B) = 2 JacT(A) - 3 JacT(B)                     *)
(*   Unreachable inputs that no output depends on get zero rows            *)
(*   Chains      for every set of intermediate tensors that separates the  *)
(*               inputs from the outputs (and is an antichain):            *)
(*               JacT(mid -> ins) after JacT(outs -> mid) = JacT(outs->ins)*)
(* and on every value scenario: DiagT/StackT/AggT against independent      *)
(* matrix formulations (DiagIsDiagonal, StackRows, AggIsWJ).               *)
(*                                                                         *)
(* Element type.  Every transform returns values of the element type its   *)
(* inputs determine (OutDtype: the common dtype dt of keys and values) -   *)
(* checked on every replayed / recorded result.                            *)
(*                                                                         *)
(* PRECISION presentation (float64).  Small integers survive a round trip  *)
(* through float32, so an integer scenario cannot see one.  Every scenario *)
(* therefore carries a second integer input K (pattern 1..3, different per *)
(* key / row / entry) and the specified result on it; all maps are LINEAR  *)
(* in the dictionary they receive (ValuesLinear, Linear), hence            *)
(*      T(v + 2^-29 K) = T(v) + 2^-29 T(K)                                 *)
(* and both sides are exact in float64 (multiples of 2^-29 below 2^20)     *)
(* while v + 2^-29 K needs more than the 24 mantissa bits of float32.  The *)
(* harness realises the integers v as v + 2^-29 K and compares with        *)
(* EQUALITY; the trace driver logs the two integer parts of every float64  *)
(* value.  For Grad/Jac the second batch of cotangents (CtB) is the K.     *)
(*                                                                         *)
(* HISTORIES of applications of ONE transform OBJECT.  A transform is       *)
(* constructed once and may be applied any number of times (Grad / Jac     *)
(* with retain_graph).  The specification: a transform is a FUNCTION OF    *)
(* ITS INPUT DICTIONARY ONLY - the result of application n is T(input n),  *)
(* what a freshly constructed equal transform returns on that input,       *)
(* whatever the object was applied to before (batches of other row counts  *)
(* included), for any chunk size.  Program part: action ApplyAgain extends *)
(* a call into a history of up to MaxApps batches of cotangents (different *)
(* pattern per application, row counts in 1..MaxRows); an implementation-  *)
(* shaped layer (ObjRun: per-chunk blocks of rows appended to a list, the  *)
(* list stacked) refines the definition when the list is local to one      *)
(* application and provably does NOT when the list lives in the object    *)
(* (ObjectIsFunction, two conjuncts: the histories exported here tell the  *)
(* two apart).  Value part: action VHistory - one Init / Select /      *)
(* Diagonalize / Stack-of-Selects / Aggregate object and the compositions  *)
(* Aggregate o Diagonalize, Diagonalize o Init applied to MaxApps          *)
(* different dictionaries (Aggregate: every sequence of row counts), each  *)
(* application against the independent formulations (HistIndependent).     *)
(* Both are exported (HIST, HVAL) with the expected result of EVERY        *)
(* application and replayed on one real object per history.                *)
(*                                                                         *)
(* Argument presentations: ArgForms lists, per constructor argument, the   *)
(* forms (list, tuple, set, dict view, iterator, generator) in which the   *)
(* harness presents the key collections; the expected values do not depend *)
(* on them.                                                                *)
(***************************************************************************)
EXTENDS Programs, TLC, Json

CONSTANTS MaxLeaves, MaxOps, MaxOuts, MaxIns, MaxRows, Thin, LeafIdx, SampleMod, SamplePick, ValMod, ValPick,
          MaxApps, HistMod, HistPick

\* hist: the row counts of the batches one Jac object has been applied to so far (program part)
VARIABLES P, phase, call, scn, hist
vars == <<P, phase, call, scn, hist>>

\* ------------------------------------------------------------------ presentation shapes
ShapeMenu(n) ==
    CASE n = 1 -> << <<>>, <<1>>, <<1, 1>>, <<1, 1, 1, 1>> >>
      [] n = 2 -> << <<2>>, <<1, 2>>, <<2, 1>>, <<1, 1, 2>>, <<2, 1, 1, 1>> >>
      [] n = 3 -> << <<3>>, <<1, 3>>, <<3, 1, 1>> >>
      [] n = 4 -> << <<4>>, <<2, 2>>, <<2, 1, 2>>, <<2, 1, 1, 2>>, <<1, 4>>, <<4, 1>> >>
      [] n = 5 -> << <<5>>, <<5, 1>> >>
      [] n = 6 -> << <<6>>, <<2, 3>>, <<3, 2>>, <<1, 2, 3>>, <<3, 1, 2, 1>> >>
      [] n = 8 -> << <<8>>, <<2, 4>>, <<2, 2, 2>>, <<2, 1, 2, 2>> >>
      [] OTHER -> << <<n>> >>

\* ------------------------------------------------------------------ argument presentations / element type
\* Forms in which a key collection is handed to a constructor declared Iterable[Tensor].  "iter" and
\* "gen" are one-shot.  "set" only where the enumeration order is not part of the argument.  The
\* key_order of Aggregate is traversed three times by the constructor as written (one-shot
\* presentations make it raise ValueError today: recorded as an observation, not presented).
AllForms == {"list", "tuple", "set", "dictkeys", "iter", "gen"}
ArgForms == << [op |-> "init", arg |-> "values", forms |-> AllForms],
               [op |-> "select", arg |-> "keys", forms |-> AllForms],
               [op |-> "select", arg |-> "required_keys", forms |-> AllForms],
               [op |-> "diag", arg |-> "considered", forms |-> AllForms \ {"set"}],
               [op |-> "grad", arg |-> "outputs", forms |-> AllForms],
               [op |-> "grad", arg |-> "inputs", forms |-> AllForms],
               [op |-> "jac", arg |-> "outputs", forms |-> AllForms],
               [op |-> "jac", arg |-> "inputs", forms |-> AllForms],
               [op |-> "agg", arg |-> "key_order", forms |-> {"list", "tuple", "dictkeys"}],
               [op |-> "stack", arg |-> "transforms", forms |-> {"list", "tuple"}] >>
\* the element type of every value of the result, given the common element type of keys and input values
OutDtype(kind, dt) == dt

\* ------------------------------------------------------------------ Grad and Jac
\* g: function output node -> cotangent vector; result: function input node -> gradient vector
GradT(prog, ins, g) == LET adj == VJPAll(prog, g) IN [i \in Range(ins) |-> adj[i]]
\* J: function output node -> matrix with m rows; result: input node -> matrix with m rows
JacT(prog, ins, J, m) ==
    LET adjs == Force([r \in 1..m |-> VJPAll(prog, [o \in DOMAIN J |-> J[o][r]])])     \* (evaluated once)
    IN  [i \in Range(ins) |-> [r \in 1..m |-> adjs[r][i]]]

\* reachability along argument edges on which gradient flows (not through detach / rg = FALSE)
RECURSIVE ReachUpTo(_, _, _)
ReachUpTo(prog, src, n) ==      \* set of nodes <= n that depend (differentiably) on node src
    IF n < src THEN {}
    ELSE IF n = src THEN {src}
    ELSE LET prev == ReachUpTo(prog, src, n - 1)
         IN  IF prog[n].op # "detach" /\ RG(prog)[n] /\ Range(Args(prog[n])) \cap prev # {} THEN prev \cup {n} ELSE prev
Reaches(prog, src, dst) == dst \in ReachUpTo(prog, src, dst)

\* mid separates ins from outs: with the mid nodes removed nothing flows from an input to an output
RECURSIVE ReachAvoid(_, _, _, _)
ReachAvoid(prog, src, n, avoid) ==
    IF n < src THEN {}
    ELSE IF n = src THEN {src}
    ELSE LET prev == ReachAvoid(prog, src, n - 1, avoid)
         IN  IF n \notin avoid /\ prog[n].op # "detach" /\ RG(prog)[n] /\ Range(Args(prog[n])) \cap prev # {}
             THEN prev \cup {n} ELSE prev
ValidCut(prog, outs, mid, ins) ==
    /\ mid # {} /\ mid \cap (Range(outs) \cup Range(ins)) = {}
    /\ \A x \in mid : prog[x].op # "leaf" /\ RG(prog)[x]
    /\ \A x, y \in mid : x # y => ~Reaches(prog, x, y)                       \* antichain
    /\ \A i \in Range(ins), o \in Range(outs) : o \notin ReachAvoid(prog, i, o, mid)
    /\ \E i \in Range(ins), o \in Range(outs) : Reaches(prog, i, o)          \* not vacuous

\* ------------------------------------------------------------------ value transforms on keys 1..n
\* sizes: sequence of flat sizes; g: function key -> vector
InitT(sizes) == [k \in DOMAIN sizes |-> Ones(sizes[k])]
SelectT(d, K) == [k \in K |-> d[k]]
\* Diagonalize(order): one row per scalar of all keys in `order`; key order[i] gets, in row
\* off_i + e, its e-th gradient entry at position e, zeros elsewhere
DiagT(order, sizes, g) ==
    LET osz == [i \in DOMAIN order |-> sizes[order[i]]]
        off == Offsets(osz)
        N   == SumSeq(osz)
    IN  [k \in Range(order) |->
           LET i == CHOOSE i \in DOMAIN order : order[i] = k
           IN  [r \in 1..N |-> [e \in 1..osz[i] |-> IF r = off[i] + e THEN g[k][e] ELSE 0]]]
\* Stack(members): row i of key k = member i's gradient of k, zeros where member i has no k
StackT(members, sizes) ==
    [k \in UNION {DOMAIN members[i] : i \in DOMAIN members} |->
       [i \in DOMAIN members |-> IF k \in DOMAIN members[i] THEN members[i][k] ELSE Zeros(sizes[k])]]
\* Aggregate(Constant(w), order): unite the matrices column-wise in `order`, w^T . united, give each
\* key its own slice
RECURSIVE UniteV(_, _, _)
UniteV(J, ord, m) == IF ord = <<>> THEN [r \in 1..m |-> <<>>] ELSE HCat(J[Head(ord)], UniteV(J, Tail(ord), m))
AggT(order, sizes, J, w) ==
    LET m   == Len(w)
        osz == [i \in DOMAIN order |-> sizes[order[i]]]
        off == Offsets(osz)
        vec == VecMat(w, UniteV(J, order, m), SumSeq(osz))
    IN  [k \in Range(order) |-> LET i == CHOOSE i \in DOMAIN order : order[i] = k IN Slice(vec, off[i] + 1, osz[i])]

\* ------------------------------------------------------------------ the program part of the universe
NoCall == [outs |-> <<>>, ins |-> <<>>, m |-> 0]

\* cotangent patterns: integer, different per output / row / entry; two batches for linearity
CtA(oi, r, e) == ((oi * 7 + r * 3 + e * 5 + r * e) % 5) - 2
CtB(oi, r, e) == ((oi * 3 + r * 5 + e * 2 + oi * e) % 7) - 3
Batch(F(_, _, _), outs, m) ==
    [o \in Range(outs) |-> LET oi == CHOOSE i \in DOMAIN outs : outs[i] = o
                           IN  [r \in 1..m |-> [e \in 1..Sizes(P)[o] |-> F(oi, r, e)]]]
Comb(A, B) == [o \in DOMAIN A |-> [r \in DOMAIN A[o] |-> VSub(VScale(2, A[o][r]), VScale(3, B[o][r]))]]

AscSeq(S) == CHOOSE s \in PermSeqs(S) : \A i, j \in DOMAIN s : i < j => s[i] < s[j]
DescSeq(S) == CHOOSE s \in PermSeqs(S) : \A i, j \in DOMAIN s : i < j => s[i] > s[j]

OutSeqs == {s \in UNION {[1..n -> Differentiable(P)] : n \in 1..MaxOuts} : \A i, j \in DOMAIN s : i # j => s[i] # s[j]}
InCands(outs) == {i \in 1..Len(P) : RG(P)[i] /\ i \notin Range(outs)}

Init == /\ P = <<>> /\ phase \in {"build", "vstart"} /\ call = NoCall /\ scn = [kind |-> "none"] /\ hist = <<>>

AddLeaf == /\ phase = "build" /\ OnlyLeaves(P) /\ NumLeaves(P) < MaxLeaves
           /\ \E nd \in LeafExtensions(P) : LeafIndexOf(nd) \in LeafIdx /\ P' = Append(P, nd)
           /\ UNCHANGED <<phase, call, scn, hist>>
AddOp == /\ phase = "build" /\ NumLeaves(P) >= 1 /\ NumOps(P) < MaxOps
         /\ \E nd \in OpExtensions(P) : OkExtension(P, nd) /\ P' = Append(P, nd)
         /\ UNCHANGED <<phase, call, scn, hist>>

\* Thin = TRUE (quick tier): one batch size and one order of the inputs per (program, outs, input set),
\* picked by a content hash, instead of all of them
PreHash(outs, S) == SumSeq([i \in DOMAIN outs |-> i * outs[i]]) + SumSeq([i \in 1..Len(P) |-> IF i \in S THEN i * i ELSE 0])
                    + 3 * Len(P) + SumSeq(Vals(P)[Len(P)])
ChooseCall ==
    /\ phase = "build" /\ NumOps(P) >= 1
    /\ \E outs \in OutSeqs :
         /\ Len(P) \in Range(outs)                  \* otherwise the call was explored on a shorter program
         /\ \E S \in (SUBSET InCands(outs)) \ {{}} :
              /\ Cardinality(S) <= MaxIns
              /\ LET h == PreHash(outs, S) IN
                 \E ins \in (IF Thin THEN {IF h % 2 = 0 THEN AscSeq(S) ELSE DescSeq(S)} ELSE {AscSeq(S), DescSeq(S)}),
                    m \in (IF Thin THEN {1 + ((h \div 2) % MaxRows)} ELSE 1..MaxRows) :
                   call' = [outs |-> outs, ins |-> ins, m |-> m]
    /\ phase' = "call"
    /\ UNCHANGED <<P, scn, hist>>

CallHash == SumSeq(Vals(P)[Len(P)]) + 3 * Len(P) + 7 * call.m
            + 13 * SumSeq([i \in 1..Len(P) |-> IF P[i].op = "leaf" THEN P[i].size + i
                                               ELSE i * P[i].a + (IF P[i].op \in Binary THEN 3 * P[i].b ELSE 1)])
            + 19 * SumSeq([i \in DOMAIN call.outs |-> i * call.outs[i]])
            + 23 * SumSeq([i \in DOMAIN call.ins |-> i * i * call.ins[i]])

\* ------------------------------------------------------------------ histories of one Jac / Grad object (program part)
\* cotangents of application n: another integer pattern for every application (HistBatchesDiffer), so that
\* what an object kept from an earlier application cannot pass for the answer to the present one
CtH(n, oi, r, e) == ((oi * 7 + r * 3 + e * 5 + r * e + 2 * n + n * oi) % 5) - 2
HBatch(n, m) == Batch(LAMBDA oi, r, e : CtH(n, oi, r, e), call.outs, m)
\* THE SPECIFICATION of application n of the object Jac(call.outs, call.ins, any chunk size), given that the
\* object was applied to batches of hist[1], .., hist[n-1] rows before: the function JacT of batch n alone
\* (ForceJ: the same value, evaluated once instead of at every use)
ForceJ(J, m) == Force([i \in DOMAIN J |-> Force([r \in 1..m |-> Force(J[i][r])])])
HistJac(n) == ForceJ(JacT(P, call.ins, HBatch(n, hist[n]), hist[n]), hist[n])

\* the object as implemented: the rows of a batch are differentiated chunk by chunk (chunk size c; c = 0:
\* one chunk), the block of rows of each chunk is appended to a list, the result is the list stacked.
\* `kept` is what the object carries from one application to the next.  local = TRUE: the list belongs to
\* the application (the design); local = FALSE: the list belongs to the object (the class of defect this
\* region exists for: any memory of earlier applications that leaks into the result).
Min2(a, b) == IF a <= b THEN a ELSE b
RECURSIVE Blocks(_, _, _)
Blocks(rows, c, s) == IF s > Len(rows) THEN <<>>
                      ELSE <<SubSeq(rows, s, Min2(s + c - 1, Len(rows)))>> \o Blocks(rows, c, s + c)
RECURSIVE VStackAll(_)
VStackAll(list) == IF list = <<>> THEN <<>> ELSE Head(list) \o VStackAll(Tail(list))
ObjApply(kept, rows, c, local) ==
    LET list == (IF local THEN <<>> ELSE kept) \o Blocks(rows, IF c = 0 THEN Len(rows) ELSE c, 1)
    IN  [kept |-> list, out |-> VStackAll(list)]
\* rowsOf[k] = the specified rows of application k (for one input); the object after n applications
RECURSIVE ObjRun(_, _, _, _)
ObjRun(rowsOf, n, c, local) ==
    IF n = 0 THEN [kept |-> <<>>, out |-> <<>>]
    ELSE ObjApply(ObjRun(rowsOf, n - 1, c, local).kept, rowsOf[n], c, local)

\* Histories are explored for the calls of one content-hash class (a third of the class whose calls are
\* exported); Thin = TRUE: one next row count, different from the last one, picked by the hash; otherwise all.
HistPicked == (CallHash % (3 * SampleMod)) = SamplePick
NextRows(h) ==
    LET S == (1..MaxRows) \ {h[Len(h)]}
    IN  IF ~Thin THEN 1..MaxRows
        ELSE IF S = {} THEN {h[Len(h)]}
        ELSE {AscSeq(S)[1 + (((CallHash \div SampleMod) + 2 * Len(h) + SumSeq(h)) % Cardinality(S))]}
ApplyAgain ==
    /\ phase \in {"call", "hist"} /\ HistPicked
    /\ LET h == IF phase = "call" THEN <<call.m>> ELSE hist IN
         /\ Len(h) < MaxApps
         /\ \E m \in NextRows(h) : hist' = Append(h, m)
    /\ phase' = "hist"
    /\ UNCHANGED <<P, call, scn>>

\* ------------------------------------------------------------------ the value part of the universe
SizeSeqs == UNION {[1..n -> {1, 2, 3, 4}] : n \in 1..3}
GVal(k, e) == ((k * 5 + e * 3 + k * e) % 7) - 3 + (IF k = 2 THEN 10 ELSE 0)     \* never all ones; key 2 differs from 1, 3
GDict(sizes, K) == [k \in K |-> [e \in 1..sizes[k] |-> GVal(k, e)]]
JVal(k, r, e) == ((k * 3 + r * 5 + e * 7 + r * e * k) % 9) - 4
JDict(sizes, m) == [k \in DOMAIN sizes |-> [r \in 1..m |-> [e \in 1..sizes[k] |-> JVal(k, r, e)]]]
WVec(m) == [r \in 1..m |-> 2 * r - 3]                                              \* -1, 1, 3: distinct, none is 1 for m = 1
MemberVal(i, k, e) == GVal(k, e) + 20 * i
\* the K patterns of the precision presentation: 1..3, different per key / row (member) / entry
KVal(k, e) == 1 + ((k + e) % 3)
KDict(sizes, K) == [k \in K |-> [e \in 1..sizes[k] |-> KVal(k, e)]]
KJDict(sizes, m) == [k \in DOMAIN sizes |-> [r \in 1..m |-> [e \in 1..sizes[k] |-> KVal(k + r, e)]]]
Members(F(_, _, _), ks, sizes) == [i \in DOMAIN ks |-> [k \in ks[i] |-> [e \in 1..sizes[k] |-> F(i, k, e)]]]
MemberK(i, k, e) == KVal(k + i, e)

ValScenarios(sizes) ==
    LET n == Len(sizes)
        K == 1..n
    IN  {[kind |-> "init", sizes |-> sizes, expected |-> InitT(sizes)]}
        \cup {[kind |-> "select", sizes |-> sizes, K |-> S, input |-> GDict(sizes, K),
               expected |-> SelectT(GDict(sizes, K), S),
               inputK |-> KDict(sizes, K), expectedK |-> SelectT(KDict(sizes, K), S)] : S \in SUBSET K}
        \cup {[kind |-> "diag", sizes |-> sizes, order |-> o, input |-> GDict(sizes, K),
               expected |-> DiagT(o, sizes, GDict(sizes, K)),
               inputK |-> KDict(sizes, K), expectedK |-> DiagT(o, sizes, KDict(sizes, K))] : o \in PermSeqs(K)}
        \cup {[kind |-> "agg", sizes |-> sizes, order |-> o, m |-> m, w |-> WVec(m), input |-> JDict(sizes, m),
               united |-> UniteV(JDict(sizes, m), o, m),
               expected |-> AggT(o, sizes, JDict(sizes, m), WVec(m)),
               expectedSum |-> AggT(o, sizes, JDict(sizes, m), Ones(m)),
               inputK |-> KJDict(sizes, m),
               expectedK |-> AggT(o, sizes, KJDict(sizes, m), WVec(m)),
               expectedSumK |-> AggT(o, sizes, KJDict(sizes, m), Ones(m))] : o \in PermSeqs(K), m \in 1..3}
        \cup {[kind |-> "stack", sizes |-> sizes, members |-> Members(MemberVal, ks, sizes),
               expected |-> StackT(Members(MemberVal, ks, sizes), sizes),
               membersK |-> Members(MemberK, ks, sizes),
               expectedK |-> StackT(Members(MemberK, ks, sizes), sizes)] :
                 ks \in UNION {[1..c -> SUBSET K] : c \in 1..(IF n = 3 THEN 2 ELSE 3)}}

VStart == /\ phase = "vstart"
          /\ \E s \in SizeSeqs : scn' = [kind |-> "sizes", sizes |-> s]
          /\ phase' = "vsizes"
          /\ UNCHANGED <<P, call, hist>>
VScenario == /\ phase = "vsizes"
             /\ \E x \in ValScenarios(scn.sizes) : scn' = x
             /\ phase' = "vscn"
             /\ UNCHANGED <<P, call, hist>>

\* ------------------------------------------------------------------ histories of one value-transform object
\* inputs of application n: other integers for every application
GValN(n, k, e) == GVal(k, e) + 10 * n + ((n * e + k) % 3)
GDictN(sizes, K, n) == [k \in K |-> [e \in 1..sizes[k] |-> GValN(n, k, e)]]
JValN(n, k, r, e) == JVal(k, r, e) + 10 * n + ((n + r * e) % 3)
JDictN(sizes, m, n) == [k \in DOMAIN sizes |-> [r \in 1..m |-> [e \in 1..sizes[k] |-> JValN(n, k, r, e)]]]
\* row counts of the successive batches one Aggregate object receives: every sequence
RowSeqs == UNION {[1..a -> 1..3] : a \in 2..MaxApps}
\* the objects: the five value transforms (Stack over members that are Selects of the input, so that the
\* stacked rows depend on the input of the application) and two compositions
HistDescs(sizes) ==
    LET K == DOMAIN sizes IN
    {[obj |-> "init"]}
    \cup {[obj |-> "select", K |-> S] : S \in SUBSET K}
    \cup {[obj |-> "diag", order |-> o] : o \in PermSeqs(K)}
    \cup {[obj |-> "diaginit", order |-> o] : o \in PermSeqs(K)}
    \cup {[obj |-> "agg", order |-> o, ms |-> q] : o \in PermSeqs(K), q \in RowSeqs}
    \cup {[obj |-> "stack", ks |-> q] : q \in UNION {[1..c -> SUBSET K] : c \in 1..2}}
    \cup {[obj |-> "aggdiag", order |-> o, order2 |-> o2] : o \in PermSeqs(K), o2 \in PermSeqs(K)}
KeyHash(S) == SumSeq([k \in 1..3 |-> IF k \in S THEN k * k ELSE 0])
OrdHash(o) == SumSeq([i \in DOMAIN o |-> i * o[i]])
DescHash(sizes, d) ==
    SumSeq(sizes) + 5 * Len(sizes)
    + (CASE d.obj = "init"     -> 1
         [] d.obj = "select"   -> 2 + 3 * KeyHash(d.K)
         [] d.obj = "diag"     -> 3 + 7 * OrdHash(d.order)
         [] d.obj = "diaginit" -> 4 + 5 * OrdHash(d.order)
         [] d.obj = "agg"      -> 5 + 7 * OrdHash(d.order) + 11 * OrdHash(d.ms) + Len(d.ms)
         [] d.obj = "stack"    -> 6 + SumSeq([i \in DOMAIN d.ks |-> i * (1 + KeyHash(d.ks[i]))])
         [] OTHER              -> 7 + 7 * OrdHash(d.order) + 13 * OrdHash(d.order2))
\* the history of one object: THE SPECIFICATION of every application is the transform's function of the
\* input of that application alone
HistOf(sizes, d) ==
    LET K  == DOMAIN sizes
        N  == SumSeq(sizes)
        AN == 1..MaxApps
        G(n) == GDictN(sizes, K, n)
    IN  CASE d.obj = "init" ->
               [kind |-> "hist", obj |-> "init", sizes |-> sizes, apps |-> [n \in AN |-> [expected |-> InitT(sizes)]]]
          [] d.obj = "select" ->
               [kind |-> "hist", obj |-> "select", sizes |-> sizes, K |-> d.K,
                apps |-> [n \in AN |-> [input |-> G(n), expected |-> SelectT(G(n), d.K)]]]
          [] d.obj = "diag" ->
               [kind |-> "hist", obj |-> "diag", sizes |-> sizes, order |-> d.order,
                apps |-> [n \in AN |-> [input |-> G(n), expected |-> DiagT(d.order, sizes, G(n))]]]
          [] d.obj = "diaginit" ->
               [kind |-> "hist", obj |-> "diaginit", sizes |-> sizes, order |-> d.order,
                apps |-> [n \in AN |-> [expected |-> DiagT(d.order, sizes, InitT(sizes))]]]
          [] d.obj = "agg" ->
               [kind |-> "hist", obj |-> "agg", sizes |-> sizes, order |-> d.order, ms |-> d.ms,
                apps |-> [n \in DOMAIN d.ms |->
                            [m |-> d.ms[n], w |-> WVec(d.ms[n]), input |-> JDictN(sizes, d.ms[n], n),
                             expected |-> AggT(d.order, sizes, JDictN(sizes, d.ms[n], n), WVec(d.ms[n]))]]]
          [] d.obj = "stack" ->
               [kind |-> "hist", obj |-> "stack", sizes |-> sizes, ks |-> d.ks,
                apps |-> [n \in AN |-> [input |-> G(n),
                                        expected |-> StackT([i \in DOMAIN d.ks |-> SelectT(G(n), d.ks[i])], sizes)]]]
          [] OTHER ->
               [kind |-> "hist", obj |-> "aggdiag", sizes |-> sizes, order |-> d.order, order2 |-> d.order2,
                apps |-> [n \in AN |-> [input |-> G(n), w |-> WVec(N),
                                        expected |-> AggT(d.order, sizes, DiagT(d.order2, sizes, G(n)), WVec(N))]]]
\* thinning by content hash, one class in HistMod (the many row-count sequences of Aggregate: one in
\* 4 HistMod; the few Init / Select / Diagonalize objects: one in HistMod / 4)
PickMod(d) == IF d.obj = "agg" THEN 4 * HistMod
              ELSE IF d.obj \in {"stack", "aggdiag"} THEN HistMod
              ELSE IF HistMod >= 4 THEN HistMod \div 4 ELSE 1
VHistory == /\ phase = "vsizes"
            /\ \E d \in HistDescs(scn.sizes) : /\ (DescHash(scn.sizes, d) % PickMod(d)) = (HistPick % PickMod(d))
                                               /\ scn' = HistOf(scn.sizes, d)
            /\ phase' = "vhist"
            /\ UNCHANGED <<P, call, hist>>

Next == AddLeaf \/ AddOp \/ ChooseCall \/ ApplyAgain \/ VStart \/ VScenario \/ VHistory
Spec == Init /\ [][Next]_vars

\* ------------------------------------------------------------------ properties: Grad / Jac
A0 == Batch(CtA, call.outs, call.m)
B0 == Batch(CtB, call.outs, call.m)
JacA == JacT(P, call.ins, A0, call.m)
JacB == JacT(P, call.ins, B0, call.m)
JacC == JacT(P, call.ins, Comb(A0, B0), call.m)
LeafIns == \A i \in Range(call.ins) : P[i].op = "leaf"
\* concatenation of the cotangents of row r over the outputs, in the order of outs
RECURSIVE CatCt(_, _, _)
CatCt(J, outs, r) == IF outs = <<>> THEN <<>> ELSE J[Head(outs)][r] \o CatCt(J, Tail(outs), r)

\* Grad / each Jac row = cotangent . TrueJac (forward mode), for inputs that are leaves
GradIsVJP == (phase = "call" /\ LeafIns) =>
    \A r \in 1..call.m :
       LET g == GradT(P, call.ins, [o \in DOMAIN A0 |-> A0[o][r]])
       IN  \A i \in Range(call.ins) :
             /\ g[i] = VecMat(CatCt(A0, call.outs, r), TrueJacBlock(P, call.outs, i), P[i].size)
             /\ g[i] = JacA[i][r]
Linear == phase = "call" =>
    \A i \in Range(call.ins), r \in 1..call.m :
       JacC[i][r] = VSub(VScale(2, JacA[i][r]), VScale(3, JacB[i][r]))
Unreachable == phase = "call" =>
    \A i \in Range(call.ins) :
       (\A o \in Range(call.outs) : ~Reaches(P, i, o)) => \A r \in 1..call.m : JacA[i][r] = Zeros(Sizes(P)[i])
Cuts == {mid \in SUBSET (1..Len(P)) : ValidCut(P, call.outs, mid, call.ins)}
Chains == phase = "call" =>
    \A mid \in Cuts :
       LET ms == AscSeq(mid)
           s1 == JacT(P, ms, A0, call.m)
       IN  JacT(P, call.ins, s1, call.m) = JacA

\* ------------------------------------------------------------------ properties: histories of one object
\* (evaluated on the complete histories: their prefixes are the histories of the shorter ones)
\* refinement: the object as implemented, with the list of blocks local to the application, returns the
\* specified rows in every application, for every chunk size (0 = None) and every input; and the
\* histories explored here tell an object that keeps the list apart from the specified one
ObjectIsFunction == (phase = "hist" /\ Len(hist) = MaxApps) =>
    LET HJ == Force([n \in DOMAIN hist |-> HistJac(n)]) IN
    \A i \in Range(call.ins), c \in 0..(MaxRows + 1) :
       LET rowsOf == Force([k \in DOMAIN hist |-> HJ[k][i]]) IN
       /\ \A n \in DOMAIN hist : ObjRun(rowsOf, n, c, TRUE).out = rowsOf[n]
       /\ \A n \in 2..Len(hist) : ObjRun(rowsOf, n, c, FALSE).out # rowsOf[n]
\* two applications of one history never receive the same batch
HistBatchesDiffer == (phase = "hist" /\ Len(hist) = MaxApps) =>
    \A n1, n2 \in DOMAIN hist : (n1 # n2 /\ hist[n1] = hist[n2]) =>
       \A o \in Range(call.outs) : HBatch(n1, hist[n1])[o] # HBatch(n2, hist[n2])[o]
\* every application chains through every separating antichain (the composed object second << first)
HistChains == (phase = "hist" /\ Len(hist) = MaxApps) =>
    \A mid \in Cuts, n \in DOMAIN hist :
       JacT(P, call.ins, JacT(P, AscSeq(mid), HBatch(n, hist[n]), hist[n]), hist[n]) = HistJac(n)

\* ------------------------------------------------------------------ properties: value transforms
\* independent formulations: Diagonalize = columns of diag(cat(g)); Stack row i restricted to the
\* keys of member i is member i; Aggregate = slices of w^T . [J_1 .. J_n]
DiagIndep(order, sizes, input, expected) ==
    LET osz  == [i \in DOMAIN order |-> sizes[order[i]]]
        flat == ConcatAdj(input, order)
        N    == SumSeq(osz)
        D    == [r \in 1..N |-> [c \in 1..N |-> IF r = c THEN flat[r] ELSE 0]]
        off  == Offsets(osz)
    IN  \A i \in DOMAIN order : expected[order[i]] = ColSlice(D, off[i] + 1, osz[i])
DiagIsDiagonal == (phase = "vscn" /\ scn.kind = "diag") => DiagIndep(scn.order, scn.sizes, scn.input, scn.expected)
StackRows == (phase = "vscn" /\ scn.kind = "stack") =>
    \A k \in DOMAIN scn.expected : \A i \in DOMAIN scn.members :
       scn.expected[k][i] = (IF k \in DOMAIN scn.members[i] THEN scn.members[i][k] ELSE Zeros(scn.sizes[k]))
AggIsWJ == (phase = "vscn" /\ scn.kind = "agg") =>
    \A k \in DOMAIN scn.expected : scn.expected[k] = VecMat(scn.w, scn.input[k], scn.sizes[k])

\* every value transform is linear in the dictionary it receives: T(2 v - 3 K) = 2 T(v) - 3 T(K).  This is
\* what makes the precision presentation exact: T(v + 2^-29 K) = T(v) + 2^-29 T(K)
CombV(a, b) == VSub(VScale(2, a), VScale(3, b))
CombG(A, B) == [k \in DOMAIN A |-> CombV(A[k], B[k])]
CombJ(A, B) == [k \in DOMAIN A |-> [r \in DOMAIN A[k] |-> CombV(A[k][r], B[k][r])]]
ValuesLinear == (phase = "vscn") =>
    CASE scn.kind = "select" -> SelectT(CombG(scn.input, scn.inputK), scn.K) = CombG(scn.expected, scn.expectedK)
      [] scn.kind = "diag"   -> DiagT(scn.order, scn.sizes, CombG(scn.input, scn.inputK)) = CombJ(scn.expected, scn.expectedK)
      [] scn.kind = "agg"    -> /\ AggT(scn.order, scn.sizes, CombJ(scn.input, scn.inputK), scn.w) = CombG(scn.expected, scn.expectedK)
                                /\ AggT(scn.order, scn.sizes, CombJ(scn.input, scn.inputK), Ones(scn.m))
                                     = CombG(scn.expectedSum, scn.expectedSumK)
      [] scn.kind = "stack"  -> StackT([i \in DOMAIN scn.members |-> CombG(scn.members[i], scn.membersK[i])], scn.sizes)
                                  = CombJ(scn.expected, scn.expectedK)
      [] OTHER               -> TRUE

\* every application of every object of a value history, against the independent formulations
HistIndependent == (phase = "vhist") =>
    LET sz == scn.sizes
        K  == DOMAIN sz
    IN  \A n \in DOMAIN scn.apps :
          LET a == scn.apps[n] IN
          CASE scn.obj = "init"     -> DOMAIN a.expected = K /\ \A k \in K : a.expected[k] = Ones(sz[k])
            [] scn.obj = "select"   -> DOMAIN a.expected = scn.K /\ \A k \in scn.K : a.expected[k] = a.input[k]
            [] scn.obj = "diag"     -> DiagIndep(scn.order, sz, a.input, a.expected)
            [] scn.obj = "diaginit" -> /\ DiagIndep(scn.order, sz, [k \in K |-> Ones(sz[k])], a.expected)
                                       /\ a.expected = scn.apps[1].expected
            [] scn.obj = "agg"      -> /\ Len(a.w) = a.m /\ \A k \in K : Len(a.input[k]) = a.m
                                       /\ \A k \in K : a.expected[k] = VecMat(a.w, a.input[k], sz[k])
            [] scn.obj = "stack"    -> /\ DOMAIN a.expected = UNION {scn.ks[i] : i \in DOMAIN scn.ks}
                                       /\ \A k \in DOMAIN a.expected : \A i \in DOMAIN scn.ks :
                                            a.expected[k][i] = (IF k \in scn.ks[i] THEN a.input[k] ELSE Zeros(sz[k]))
            [] OTHER                -> LET osz == [i \in DOMAIN scn.order2 |-> sz[scn.order2[i]]]
                                           off == Offsets(osz)
                                       IN  \A i \in DOMAIN scn.order2 :
                                             LET k == scn.order2[i] IN
                                             a.expected[k] = [e \in 1..sz[k] |-> a.w[off[i] + e] * a.input[k][e]]
\* the inputs of the applications of one history differ from each other (a remembered input or result is visible)
HistInputsDiffer == (phase = "vhist" /\ scn.obj \in {"select", "diag", "stack", "aggdiag"}) =>
    \A n1, n2 \in DOMAIN scn.apps : n1 # n2 => \A k \in DOMAIN scn.sizes : scn.apps[n1].input[k] # scn.apps[n2].input[k]

\* ------------------------------------------------------------------ export
CallScenario ==
    [prog |-> P, sizes |-> Sizes(P), outs |-> call.outs, ins |-> call.ins, m |-> call.m,
     ctA |-> A0, ctB |-> B0, jacA |-> JacA, jacB |-> JacB, jacC |-> JacC,
     unreachable |-> {i \in Range(call.ins) : \A o \in Range(call.outs) : ~Reaches(P, i, o)},
     cuts |-> {AscSeq(mid) : mid \in Cuts}]
ExportCall == (phase = "call" /\ (CallHash % SampleMod) = SamplePick) => PrintT(<<"CALL", ToJson(CallScenario)>>)

ValHash == SumSeq(scn.sizes) + 5 * Len(scn.sizes)
           + (IF scn.kind \in {"diag", "agg"} THEN 7 * SumSeq([i \in DOMAIN scn.order |-> i * scn.order[i]]) ELSE 0)
           + (IF scn.kind = "agg" THEN scn.m ELSE 0)
           + (IF scn.kind = "select" THEN 3 * Cardinality(scn.K) + SumSeq([k \in 1..3 |-> IF k \in scn.K THEN k * k ELSE 0]) ELSE 0)
           + (IF scn.kind = "stack" THEN SumSeq([i \in DOMAIN scn.members |-> i * (1 + SumSeq([k \in 1..3 |-> IF k \in DOMAIN scn.members[i] THEN k * k ELSE 0]))]) ELSE 0)
ExportVal == (phase = "vscn" /\ (ValHash % ValMod) = ValPick) => PrintT(<<"VAL", ToJson(scn)>>)
HistScenario ==
    [prog |-> P, sizes |-> Sizes(P), outs |-> call.outs, ins |-> call.ins, ms |-> hist,
     apps |-> [n \in DOMAIN hist |->
                 LET J == HistJac(n) IN
                 [m |-> hist[n], ct |-> HBatch(n, hist[n]), jac |-> J, w |-> WVec(hist[n]),
                  agg |-> AggT(call.ins, Sizes(P), J, WVec(hist[n]))]],
     cuts |-> {AscSeq(mid) : mid \in Cuts}]
ExportHist == (phase = "hist" /\ Len(hist) = MaxApps) => PrintT(<<"HIST", ToJson(HistScenario)>>)
ExportHistVal == (phase = "vhist") => PrintT(<<"HVAL", ToJson(scn)>>)
ExportMenu == (phase = "vstart") => PrintT(<<"MENU", ToJson([menu |-> [n \in 1..8 |-> ShapeMenu(n)], forms |-> ArgForms])>>)
=============================================================================
