CONSTANT Family <- RSFamNone
CONSTANT RSFam <- RSFamQuick
CONSTANT RSFile <- RSFileOn
CONSTANT FWK = 0
CONSTANT SampleMod = 1
CONSTANT SamplePick = 0
SPECIFICATION Spec
INVARIANT RSKKTExistsUnique
INVARIANT RSNoConflictIsIdentity
INVARIANT RSHomogeneous
INVARIANT RSRefinesInteger
INVARIANT RSBracketSound
INVARIANT RSExport
CHECK_DEADLOCK FALSE
