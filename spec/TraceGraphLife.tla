--------------------------- MODULE TraceGraphLife ---------------------------
(***************************************************************************)
(* Trace validation for C13.  One episode = one history of <= 3 calls      *)
(* (torchjd.backward / torchjd.mtl_backward / torch.autograd.backward)     *)
(* executed on a real torch graph driven through torchjd ("tj") and on an  *)
(* identically built twin graph driven by torch.autograd alone ("tw"):     *)
(*   graph, feats, losses, taskp, shared - the shape (as GraphLife!S)      *)
(*   steps[i].call       - [fn, roots, targets, k, retain]                 *)
(*   steps[i].tj / .tw   - [outcome, freed]: success / RuntimeError of the *)
(*                         call and, after a successful call, the nodes    *)
(*                         whose own backward can no longer run (probes)   *)
(*   steps[i].sweeps     - the differentiation requests torchjd issued     *)
(*                         (implementation layer: DRIFT only)              *)
(* Every step is judged with the PROPERTY-layer operators of GraphLife     *)
(* (PropOutcome / PropFreed on the model state): the twin must agree with  *)
(* the model (else MACHINERY - the model of torch is wrong), torchjd must  *)
(* agree with the model (else REJECT naming the clause; nodes kept alive    *)
(* by mtl_backward that all lie on parameter-only branches of the heads -   *)
(* GraphLife!ParamOnlySaving - get a clause of their own).  The episode     *)
(* ends at its first failing call.                                         *)
(***************************************************************************)
EXTENDS GraphLife, IOUtils, TLCExt

Episodes == JsonDeserialize(IOEnv.TRACE_FILE)
NEp == Len(Episodes)

VARIABLES ep, pos, tstage, nAcc, nRej, nMach, nDrift, drifted
tvars == <<S, freed, hist, ncalls, stage, cur, plan, freed0, outcome,
           ep, pos, tstage, nAcc, nRej, nMach, nDrift, drifted>>
model == <<S, freed, hist, ncalls, stage, cur, plan, freed0, outcome>>

E == Episodes[ep]

ToShape(e) == [g |-> [i \in 1..Len(e.graph) |-> [k |-> e.graph[i].k, c |-> e.graph[i].c, sz |-> e.graph[i].sz]],
               feats |-> Range(e.feats), losses |-> e.losses,
               taskp |-> [i \in 1..Len(e.taskp) |-> Range(e.taskp[i])], shared |-> Range(e.shared)]
ToCall(c) == Call(c.fn, Range(c.roots), Range(c.targets), c.k, c.retain)
ToSweeps(s) == [i \in 1..Len(s) |-> Sw(Range(s[i].roots), Range(s[i].targets), s[i].retain)]

TInit == /\ S = Shape(<<>>, {}, <<>>, <<>>, {}) /\ freed = {} /\ hist = <<>> /\ ncalls = 0 /\ stage = "idle"
         /\ cur = NoCall /\ plan = <<>> /\ freed0 = {} /\ outcome = "ok"
         /\ ep = 1 /\ pos = 1 /\ tstage = "load" /\ nAcc = 0 /\ nRej = 0 /\ nMach = 0 /\ nDrift = 0
         /\ drifted = FALSE

Load == /\ ep <= NEp /\ tstage = "load"
        /\ S' = ToShape(E) /\ freed' = {} /\ ncalls' = 0
        /\ pos' = 1 /\ tstage' = "steps" /\ drifted' = FALSE
        /\ UNCHANGED <<hist, stage, cur, plan, freed0, outcome, ep, nAcc, nRej, nMach, nDrift>>

Finish(kind, dr) ==
    /\ ep' = ep + 1 /\ tstage' = "load" /\ pos' = 1 /\ drifted' = FALSE
    /\ nAcc' = nAcc + (IF kind = "acc" THEN 1 ELSE 0)
    /\ nRej' = nRej + (IF kind = "rej" THEN 1 ELSE 0)
    /\ nMach' = nMach + (IF kind = "mach" THEN 1 ELSE 0)
    /\ nDrift' = nDrift + (IF dr THEN 1 ELSE 0)
    /\ UNCHANGED <<S, freed, hist, ncalls, stage, cur, plan, freed0, outcome>>

St      == E.steps[pos]
C       == ToCall(St.call)
ExpOut  == PropOutcome(S, freed, C)
ExpObs  == Observable(S, PropFreed(S, freed, C))

SideOK(o)  == o.outcome = ExpOut /\ (ExpOut = "ok" => Range(o.freed) = ExpObs)
InUniverse == C.fn = "M" => MtlOK(S)

Clause(o) ==
    IF o.outcome # ExpOut
    THEN (IF ExpOut = "ok" THEN "call_fails_where_torch_autograd_succeeds"
          ELSE "call_succeeds_where_torch_autograd_fails")
    ELSE IF C.retain THEN "retain_graph_true_but_nodes_were_freed"
    ELSE IF Range(o.freed) \subseteq ExpObs
         THEN (IF C.fn = "M" /\ (ExpObs \ Range(o.freed)) \subseteq ParamOnlySaving(S)
               THEN "parameter_only_branch_not_freed_as_torch_autograd_backward_would"
               ELSE "graph_not_freed_as_torch_autograd_backward_would")
    ELSE "nodes_freed_that_torch_autograd_backward_keeps"

\* implementation layer: the sweeps torchjd issued are today's plan (DRIFT otherwise)
SweepsAsPlanned == (C.fn = "T" \/ St.tj.outcome # "ok") \/ ToSweeps(St.sweeps) = PlanOf(S, C)

TStep ==
    /\ ep <= NEp /\ tstage = "steps" /\ pos <= Len(E.steps)
    /\ IF ~InUniverse \/ ~SideOK(St.tw)
       THEN /\ PrintT(<<"MACHINERY", ToJson([ep |-> E.ep, at |-> pos, expected |-> [outcome |-> ExpOut, freed |-> ExpObs],
                                              twin |-> St.tw, universe |-> InUniverse])>>)
            /\ Finish("mach", drifted)
       ELSE IF ~SideOK(St.tj)
       THEN /\ PrintT(<<"REJECT", ToJson([ep |-> E.ep, at |-> pos, clause |-> Clause(St.tj),
                                           expected |-> [outcome |-> ExpOut, freed |-> ExpObs], got |-> St.tj])>>)
            /\ Finish("rej", drifted)
       ELSE /\ (~SweepsAsPlanned /\ ~drifted) =>
                   PrintT(<<"DRIFT", ToJson([ep |-> E.ep, at |-> pos, observed |-> St.sweeps,
                                              plan |-> PlanOf(S, C)])>>)
            /\ IF ExpOut = "fail" \/ pos = Len(E.steps)
               THEN Finish("acc", drifted \/ ~SweepsAsPlanned)
               ELSE /\ freed' = PropFreed(S, freed, C) /\ ncalls' = ncalls + 1
                    /\ pos' = pos + 1
                    /\ drifted' = (drifted \/ ~SweepsAsPlanned)
                    /\ UNCHANGED <<S, hist, stage, cur, plan, freed0, outcome, ep, tstage, nAcc, nRej, nMach, nDrift>>

\* an episode without steps (cannot happen with the drivers) is accepted vacuously
TEmpty == /\ ep <= NEp /\ tstage = "steps" /\ Len(E.steps) = 0 /\ Finish("acc", FALSE)

TDone == /\ ep = NEp + 1 /\ tstage = "load"
         /\ PrintT(<<"SUMMARY", ToJson([episodes |-> NEp, accepted |-> nAcc, rejected |-> nRej,
                                         machinery |-> nMach, drift |-> nDrift])>>)
         /\ tstage' = "end"
         /\ UNCHANGED <<S, freed, hist, ncalls, stage, cur, plan, freed0, outcome,
                        ep, pos, nAcc, nRej, nMach, nDrift, drifted>>

TNext == Load \/ TStep \/ TEmpty \/ TDone
TraceSpec == TInit /\ [][TNext]_tvars
TraceConsumed == (tstage = "end") => (nAcc + nRej + nMach = NEp)
=============================================================================
