CONSTANT MaxLeaves = 1
CONSTANT MaxOps = 1
CONSTANT MaxOuts = 1
CONSTANT MaxIns = 1
CONSTANT MaxRows = 1
CONSTANT Thin = TRUE
CONSTANT LeafIdx = {1}
CONSTANT SampleMod = 1
CONSTANT SamplePick = 0
CONSTANT ValMod = 1
CONSTANT ValPick = 0
CONSTANT MaxApps = 3
CONSTANT HistMod = 1
CONSTANT HistPick = 0
SPECIFICATION TraceSpec
INVARIANT TraceConsumed
CHECK_DEADLOCK FALSE
