-------------------------- MODULE TraceAccumulation --------------------------
(***************************************************************************)
(* Trace validation for Accumulation.tla: random long histories recorded   *)
(* from the real backward / mtl_backward (and the user's own .grad         *)
(* manipulations) are stepped through the module's actions with the logged *)
(* post-state bound.  Each event: [act, i, grad (per leaf, [] = None),     *)
(* same (per leaf: memory behind .grad unchanged by this step), distinct   *)
(* (all live .grad memories pairwise distinct and distinct from every      *)
(* tensor's own memory), vals (values of all tensors unchanged)].          *)
(***************************************************************************)
EXTENDS Accumulation, IOUtils, TLCExt

Episodes == JsonDeserialize(IOEnv.TRACE_FILE)
NEp == Len(Episodes)

VARIABLES ep, pos, nAcc, nRej
tvars == <<grad, store, nextId, val, hist, pre0, ep, pos, nAcc, nRej>>
E  == Episodes[ep]
Ev == E.events[pos]
SeqToSet(s) == {s[i] : i \in DOMAIN s}
\* logged per-leaf arrays are positional, in increasing leaf order
GradLeafSeq == <<1, 2, 3, 4, 5, 14, 15>>
PosOf(l) == CHOOSE i \in DOMAIN GradLeafSeq : GradLeafSeq[i] = l

TInit == /\ grad = [l \in GradLeaves |-> None] /\ store = [l \in GradLeaves |-> 0] /\ nextId = 20
         /\ val = Vals(P0) /\ hist = <<>> /\ pre0 = {}
         /\ ep = 1 /\ pos = 0 /\ nAcc = 0 /\ nRej = 0

Load == /\ ep <= NEp /\ pos = 0
        /\ pre0' = SeqToSet(E.pre)
        /\ grad' = [l \in GradLeaves |-> IF l \in SeqToSet(E.pre) THEN PreContent(l) ELSE None]
        /\ store' = [l \in GradLeaves |-> IF l \in SeqToSet(E.pre) THEN l ELSE 0]
        /\ nextId' = 20 /\ hist' = <<>> /\ pos' = 1
        /\ UNCHANGED <<val, ep, nAcc, nRej>>

TheAction == CASE Ev.act = "call"    -> Call(Ev.i)
               [] Ev.act = "zero"    -> ZeroGrad(Ev.i)
               [] Ev.act = "none"    -> SetNone(Ev.i)
               [] Ev.act = "edit"    -> EditGrad(Ev.i)
               [] Ev.act = "replace" -> ReplaceGrad(Ev.i)

Observed == /\ \A l \in GradLeaves : grad'[l] = Ev.grad[PosOf(l)]
            /\ \A l \in GradLeaves : (store'[l] = store[l]) = Ev.same[PosOf(l)]
            /\ Ev.distinct /\ Ev.vals

\* which clause fails, evaluated on the successor the module's action prescribes
Failing == IF ~Ev.vals THEN "a_tensor_value_changed"
           ELSE IF ~Ev.distinct THEN "a_fresh_grad_shares_memory_with_another_tensor"
           ELSE "see_DETAIL"

Step == /\ ep <= NEp /\ pos >= 1 /\ pos <= Len(E.events)
        /\ TheAction /\ Observed
        /\ pos' = pos + 1
        /\ UNCHANGED <<ep, nAcc, nRej>>

\* the module's action is deterministic: compute its successor to explain a rejection
ExpGrad(l) == IF Ev.act = "call" THEN (IF l \in Requested(Calls[Ev.i]) THEN Plus(grad[l], UpdTable[Ev.i][l]) ELSE grad[l])
              ELSE IF l # Ev.i THEN grad[l]
              ELSE CASE Ev.act = "zero" -> Zeros(Len(grad[l]))
                     [] Ev.act = "none" -> None
                     [] Ev.act = "edit" -> VAdd(grad[l], Ones(Len(grad[l])))
                     [] Ev.act = "replace" -> [j \in 1..P0[l].size |-> 7]
ExpSame(l) == IF Ev.act = "call" THEN ~(l \in Requested(Calls[Ev.i]) /\ grad[l] = None)
              ELSE IF l # Ev.i THEN TRUE
              ELSE Ev.act \in {"zero", "edit"}
StepOK == /\ \A l \in GradLeaves : ExpGrad(l) = Ev.grad[PosOf(l)] /\ ExpSame(l) = Ev.same[PosOf(l)]
          /\ Ev.distinct /\ Ev.vals
BadLeaf == CHOOSE l \in GradLeaves : ExpGrad(l) # Ev.grad[PosOf(l)] \/ ExpSame(l) # Ev.same[PosOf(l)]

NextEp(ok) == /\ ep' = ep + 1 /\ pos' = 0
              /\ nAcc' = nAcc + (IF ok THEN 1 ELSE 0) /\ nRej' = nRej + (IF ok THEN 0 ELSE 1)

StepReject == /\ ep <= NEp /\ pos >= 1 /\ pos <= Len(E.events) /\ ~StepOK
              /\ PrintT(<<"REJECT", ToJson([ep |-> E.ep, at |-> pos,
                    clause |-> IF ~(Ev.distinct /\ Ev.vals) THEN Failing
                               ELSE IF ExpGrad(BadLeaf) # Ev.grad[PosOf(BadLeaf)]
                                    THEN (IF Ev.act = "call" /\ BadLeaf \notin Requested(Calls[Ev.i])
                                          THEN "grad_of_non_requested_leaf_changed"
                                          ELSE "grad_is_not_previous_grad_plus_update")
                                    ELSE "memory_of_grad_not_as_specified_in_place_vs_fresh",
                    leaf |-> IF Ev.distinct /\ Ev.vals THEN BadLeaf ELSE 0,
                    expected |-> IF Ev.distinct /\ Ev.vals THEN ExpGrad(BadLeaf) ELSE <<>>])>>)
              /\ NextEp(FALSE)
              /\ UNCHANGED <<grad, store, nextId, val, hist, pre0>>

Finish == /\ ep <= NEp /\ pos = Len(E.events) + 1
          /\ NextEp(TRUE)
          /\ UNCHANGED <<grad, store, nextId, val, hist, pre0>>

TDone == /\ ep = NEp + 1 /\ pos = 0
         /\ PrintT(<<"SUMMARY", ToJson([episodes |-> NEp, accepted |-> nAcc, rejected |-> nRej])>>)
         /\ pos' = -1
         /\ UNCHANGED <<grad, store, nextId, val, hist, pre0, ep, nAcc, nRej>>

TNext == Load \/ Step \/ StepReject \/ Finish \/ TDone
TraceSpec == TInit /\ [][TNext]_tvars
TraceConsumed == (pos = -1) => (nAcc + nRej = NEp)
\* sanity: Step is enabled exactly when StepOK holds (the explanation agrees with the module)
=============================================================================
