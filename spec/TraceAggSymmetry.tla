-------------------------- MODULE TraceAggSymmetry --------------------------
(***************************************************************************)
(* Trace validation for AggSymmetry (C08, C09, C10), code -> specification.*)
(*                                                                         *)
(* An episode is one random instance (integer lattice matrix, parameter    *)
(* vectors), one random WORD of generators, the transformed instance the   *)
(* driver fed to the real aggregators, and what the real aggregators       *)
(* returned on the base and on the transformed instance (rationalised).    *)
(* The word is stepped through the SAME generator actions as the model     *)
(* check uses; at the end of the word the logged data must satisfy, in     *)
(* this order (the first failing clause is reported in a REJECT line):     *)
(*   generator_not_enabled   a logged generator is not an action of the    *)
(*                           specification in the current state            *)
(*   transformed_instance    the matrix / parameters fed to the code are   *)
(*                           the group element applied to the base         *)
(*   base_value, transformed_value   outputs of Mean Sum Constant          *)
(*                           TrimmedMean Krum equal the specification's    *)
(*   padded_zero_columns_updated   PadZero / WideTo: outputs are logged on *)
(*                           materialised columns (E.padpos, compared with *)
(*                           PadPosSeq) plus the number of non-zero        *)
(*                           entries on the padded columns: it must be 0   *)
(*   law_c08_c10 / law_c09   the logged outputs satisfy the law themselves *)
(*   classification          an aggregator was compared although the model *)
(*                           excludes the instance (rank / tie), or was    *)
(*                           skipped for a reason the model denies         *)
(*   float_relation          a compared float-valued aggregator broke the  *)
(*                           relation (predicate evaluated by the harness  *)
(*                           with the derived allowance)                   *)
(* Verdicts are total: every episode is accepted or rejected, then SUMMARY.*)
(***************************************************************************)
EXTENDS AggSymmetry, IOUtils, TLCExt

Episodes == JsonDeserialize(IOEnv.TRACE_FILE)
NEp      == Len(Episodes)

VARIABLES ep, pos, stage, nAcc, nRej
tvars == <<base, cls, rp, Q, den, J, P, W, c1, c2, ca, cb, pad, steps, ep, pos, stage, nAcc, nRej>>

E == Episodes[ep]

Dummy == [id |-> 0, m |-> 1, n |-> 1, J |-> <<<<0>>>>, P |-> <<1>>, W |-> <<1>>]

TInit == /\ base = Dummy /\ cls = SymClassify(Dummy.J) /\ rp = <<1>> /\ Q = <<<<1>>>> /\ den = 1
         /\ J = Dummy.J /\ P = Dummy.P /\ W = Dummy.W /\ c1 = <<1>> /\ c2 = <<1>> /\ ca = 1 /\ cb = 1
         /\ pad = NoPad /\ steps = 0 /\ ep = 1 /\ pos = 1 /\ stage = "load" /\ nAcc = 0 /\ nRej = 0

Load == /\ ep <= NEp /\ stage = "load"
        /\ base' = [id |-> E.ep, m |-> E.m, n |-> E.n, J |-> E.J0, P |-> E.P0, W |-> E.W0]
        /\ cls' = SymClassify(E.J0)
        /\ rp' = SymIdPerm(E.m) /\ Q' = Identity(E.n) /\ den' = 1
        /\ J' = E.J0 /\ P' = E.P0 /\ W' = E.W0
        /\ c1' = Ones(E.m) /\ c2' = Ones(E.m) /\ ca' = 1 /\ cb' = 1 /\ pad' = NoPad /\ steps' = 0
        /\ pos' = 1 /\ stage' = "gens"
        /\ UNCHANGED <<ep, nAcc, nRej>>

NextEpisode(accepted) ==
        /\ ep' = ep + 1 /\ stage' = "load" /\ pos' = 1
        /\ nAcc' = nAcc + (IF accepted THEN 1 ELSE 0)
        /\ nRej' = nRej + (IF accepted THEN 0 ELSE 1)

\* the module action named by a logged generator
GenAction(g) ==
    CASE g.g = "swaprows" -> SwapRows(g.i, g.j)
      [] g.g = "swapcols" -> SwapCols(g.i, g.j)
      [] g.g = "negcol"   -> NegCol(g.i)
      [] g.g = "hadamard" -> Hadamard(g.q)
      [] g.g = "zero"     -> AppendZero
      [] g.g = "pad"      -> PadZero(g.i, g.lay)       \* g.i = the logged COUNT (any 1..PadMax)
      [] g.g = "wide"     -> WideTo(g.j, g.i, g.lay)   \* g.i = the logged total WIDTH, g.j = the exponent wk
      [] g.g = "bumpc1"   -> BumpC1(g.i)
      [] g.g = "bumpc2"   -> BumpC2(g.i)
      [] g.g = "bumpa"    -> BumpA
      [] g.g = "bumpb"    -> BumpB
      [] OTHER            -> FALSE

GenGuard(g) ==
    CASE g.g = "swaprows" -> g.i \in 1..M /\ g.j \in 1..M /\ g.i < g.j
      [] g.g = "swapcols" -> g.i \in 1..N /\ g.j \in 1..N /\ g.i < g.j
      [] g.g = "negcol"   -> g.i \in 1..N
      [] g.g = "hadamard" -> /\ Len(g.q) = 4 /\ \A b \in 1..4 : g.q[b] \in 1..N
                             /\ g.q[1] < g.q[2] /\ g.q[2] < g.q[3] /\ g.q[3] < g.q[4]
                             /\ NormQJ(ColHadM(Q, g.q), ColHadM(J, g.q), 2 * den)[3] <= MaxDen
      [] g.g = "zero"     -> N < N0 + MaxZero
      [] g.g = "pad"      -> g.i \in 1..PadMax /\ g.lay \in PadLays
      [] g.g = "wide"     -> /\ g.j \in 0..WideKMax /\ (g.i - N * Pow4(g.j)) \in 0..PadMax
                             /\ (g.i = N * Pow4(g.j)) = (g.lay = "none") /\ g.lay \in PadLays \cup {"none"}
                             /\ (g.j > 0 \/ g.i > N)
      [] g.g = "bumpc1"   -> g.i \in 1..M /\ c1[g.i] < CMax
      [] g.g = "bumpc2"   -> g.i \in 1..M /\ c2[g.i] < CMax
      [] g.g = "bumpa"    -> ca < ABMax
      [] g.g = "bumpb"    -> cb < ABMax
      [] OTHER            -> FALSE

TGen == /\ ep <= NEp /\ stage = "gens" /\ pos <= Len(E.gens)
        /\ GenGuard(E.gens[pos]) /\ steps < MaxSteps /\ pad = NoPad
        /\ GenAction(E.gens[pos])
        /\ pos' = pos + 1
        /\ UNCHANGED <<ep, stage, nAcc, nRej>>

TGenReject ==
        /\ ep <= NEp /\ stage = "gens" /\ pos <= Len(E.gens)
        /\ ~(GenGuard(E.gens[pos]) /\ steps < MaxSteps /\ pad = NoPad)
        /\ PrintT(<<"REJECT", ToJson([ep |-> E.ep, at |-> pos, clause |-> "generator_not_enabled", agg |-> E.gens[pos].g])>>)
        /\ NextEpisode(FALSE)
        /\ UNCHANGED <<base, cls, rp, Q, den, J, P, W, c1, c2, ca, cb, pad, steps>>

-----------------------------------------------------------------------------
(* clauses evaluated when the word has been consumed                       *)

C_Instance == /\ E.J = J /\ E.den = den /\ E.P = P /\ E.W = W
              /\ E.c1 = c1 /\ E.c2 = c2 /\ E.a = ca /\ E.b = cb
              /\ E.pad = pad /\ E.padpos = PadPosSeq       \* where the driver put the materialised columns
              /\ E.pres \in {"fresh", "refill", "view", "newview"}     \* how the argument was presented (HistLaw:
                                                                       \* the expected values do not depend on it)

KCfgSeq == SymSeqOf({fk[1] * 10 + fk[2] : fk \in KrumCfgs})
NTM     == ((M - 1) \div 2) + 1

\* outputs logged for the matrix (X, d) with parameters (p, w) against the specification's values;
\* Krum is only compared where the model decides the selection (no tie / ambiguity)
ValuesOK(o, X, d, p, w, ncols, G) ==
    /\ o.mean = SymMean(X, d, ncols) /\ o.sum = SymSum(X, d, ncols)
    /\ o.constP = SymConstant(p, X, d, ncols) /\ o.constW = SymConstant(w, X, d, ncols)
    /\ Len(o.tm) = NTM /\ \A b1 \in 1..NTM : o.tm[b1].b = b1 - 1 /\ o.tm[b1].val = SymTM(b1 - 1, X, d, ncols)
    /\ Len(o.krum) = Len(KCfgSeq)
    /\ \A q \in 1..Len(KCfgSeq) :
          LET f == KCfgSeq[q] \div 10
              k == KCfgSeq[q] % 10
              r == SymKrum(G, f, k)
          IN  /\ o.krum[q].f = f /\ o.krum[q].k = k
              /\ ~r.amb => o.krum[q].val = SymKrumValue(r.sel, k, X, d, ncols)
    \* GradDrop with the 0/1-valued purity functions of the model, with and without leak p / 4 (deterministic)
    /\ Len(o.gd) = Len(GDCfgSeq)
    /\ \A q \in 1..Len(GDCfgSeq) :
          /\ o.gd[q].f = GDCfgSeq[q][1] /\ o.gd[q].leak = GDCfgSeq[q][2]
          /\ o.gd[q].val = SymGDVal(GDCfgSeq[q][1], GDLeak(GDCfgSeq[q][2], p), X, d, ncols)

C_Base  == ValuesOK(E.out0, base.J, 1, base.P, base.W, N0, GBase)
C_Trans == ValuesOK(E.out1, J, den, P, W, N, GNow)

\* the law on the LOGGED outputs themselves: A_{pi P}(pi J Q) = A_P(J) Q
C_LawSym ==
    /\ E.out1.mean = TimesQ(E.out0.mean) /\ E.out1.sum = TimesQ(E.out0.sum)
    /\ E.out1.constP = TimesQ(E.out0.constP) /\ E.out1.constW = TimesQ(E.out0.constW)
    /\ QIsColPerm => \A b1 \in 1..NTM : E.out1.tm[b1].val = TimesQ(E.out0.tm[b1].val)
    /\ QIsColPerm => \A q \in 1..Len(GDCfgSeq) :
          E.out1.gd[q].val = TimesQ(E.out0.gd[q].val)          \* the leak vector moves with the rows
    /\ \A q \in 1..Len(KCfgSeq) :
          ~SymKrum(GBase, KCfgSeq[q] \div 10, KCfgSeq[q] % 10).amb
             => E.out1.krum[q].val = TimesQ(E.out0.krum[q].val)

LinOK(x, x1, x2) == x = RVAdd(RVScale(R(ca), x1), RVScale(R(cb), x2))
LinVals(o, X) == /\ o.mean = SymMean(X, den, N) /\ o.sum = SymSum(X, den, N)
                 /\ o.constP = SymConstant(P, X, den, N) /\ o.constW = SymConstant(W, X, den, N)
C_LawScale ==
    /\ LinVals(E.lin.x, RowScale(XC, J)) /\ LinVals(E.lin.x1, RowScale(c1, J)) /\ LinVals(E.lin.x2, RowScale(c2, J))
    /\ LinOK(E.lin.x.mean, E.lin.x1.mean, E.lin.x2.mean)
    /\ LinOK(E.lin.x.sum, E.lin.x1.sum, E.lin.x2.sum)
    /\ LinOK(E.lin.x.constP, E.lin.x1.constP, E.lin.x2.constP)
    /\ LinOK(E.lin.x.constW, E.lin.x1.constW, E.lin.x2.constW)

\* the exact classification computed independently by the harness must be the model's
C_PyClass == /\ E.cls.rank = cls.rank /\ E.cls.rankUnamb = cls.rankUnamb /\ E.cls.detNZ = cls.detNZ
             /\ E.cls.trG = cls.trG /\ E.cls.lamFloor = cls.lamFloor /\ E.cls.conflictFree = cls.conflictFree
             /\ E.cls.mgdaTie1 = cls.mgdaTie1 /\ E.cls.mgdaGd = cls.mgdaGd
             /\ E.cls.imtlgDegenerate = cls.imtlgDegenerate /\ E.prefDeg = PrefDeg /\ E.zeroM = ZeroMatrix
             /\ E.cls.detCol = cls.detCol /\ E.cls.colFull = cls.colFull /\ E.cls.equalNorm = cls.equalNorm
             \* the driver's own exact ConFIG data (direction, coefficients of the length) are the model's
             /\ \A q \in 1..Len(E.flt) : E.flt[q].col =>
                    /\ CfgOn /\ den = 1
                    /\ LET r == SymConFIG(J, IF E.flt[q].pref THEN P ELSE Ones(M))
                       IN  E.flt[q].cfg = [y |-> r.y, yy |-> r.yy, d |-> r.d, deg |-> r.deg]

\* predicate-level entries: the model decides whether the relation is demanded
\* ConFIG is compared on dependent rows where the model computes it exactly (independent columns, one row norm)
CfgDeg(f) == f.col /\ f.cfg.deg /\ ~(f.pref /\ PrefDeg)
Excluded(f) == \/ (f.needsRank /\ ~cls.rankUnamb /\ ~f.col)
               \/ CfgDeg(f)
               \/ (f.tie = "mgda1" /\ cls.mgdaTie1)
               \/ (f.tie = "imtlg" /\ cls.imtlgDegenerate)
ReasonTrue(f) == CASE f.reason = "rank"     -> f.needsRank /\ ~cls.rankUnamb /\ ~f.col
                   [] f.reason = "cfgzero"  -> CfgDeg(f)
                   [] f.reason = "mgda_tie" -> cls.mgdaTie1
                   [] f.reason = "imtlg"    -> cls.imtlgDegenerate
                   [] f.reason = "threshold" -> TRUE      \* norm_eps bracket: decided by the harness from cls.lamFloor
                   [] OTHER -> FALSE
ClassOK(f) == IF f.compared THEN ~Excluded(f) ELSE ReasonTrue(f)
C_Class == \A q \in 1..Len(E.flt) : ClassOK(E.flt[q])
C_Float == \A q \in 1..Len(E.flt) : E.flt[q].compared => E.flt[q].ok
\* C09: c -> ConFIG(diag(c) J) is DEFINED on every finite matrix (float64, float32), compared or not; on the zero matrix
\* (NullLaw: the floating-point direction is exactly null) every value is the zero vector of the dtype of the matrix
C_Defined == \A q \in 1..Len(E.flt) : E.flt[q].defined
DefinedOK(f) == f.defined

FirstBad(pred(_)) == LET bad == {q \in 1..Len(E.flt) : ~pred(E.flt[q])}
                     IN  IF bad = {} THEN "none" ELSE E.flt[CHOOSE q \in bad : \A r \in bad : q <= r].agg
FloatOK(f) == f.compared => f.ok

Failing ==
    IF ~C_Instance THEN [clause |-> "transformed_instance", agg |-> "none"]
    ELSE IF ~C_Base THEN [clause |-> "base_value", agg |-> "exact"]
    ELSE IF ~C_Trans THEN [clause |-> "transformed_value", agg |-> "exact"]
    ELSE IF E.padnz # 0 THEN [clause |-> "padded_zero_columns_updated", agg |-> "exact"]
    ELSE IF E.kind = "sym" /\ ~C_LawSym THEN [clause |-> "law_c08_c10", agg |-> "exact"]
    ELSE IF E.kind = "scale" /\ ~C_LawScale THEN [clause |-> "law_c09", agg |-> "exact"]
    ELSE IF ~C_PyClass THEN [clause |-> "classification_differs_from_model", agg |-> "none"]
    ELSE IF ~C_Class THEN [clause |-> "classification", agg |-> FirstBad(ClassOK)]
    ELSE IF ~C_Defined THEN [clause |-> "defined_on_every_finite_matrix", agg |-> FirstBad(DefinedOK)]
    ELSE IF ~C_Float THEN [clause |-> "float_relation", agg |-> FirstBad(FloatOK)]
    ELSE [clause |-> "none", agg |-> "none"]

TFinish == /\ ep <= NEp /\ stage = "gens" /\ pos = Len(E.gens) + 1
           /\ LET f == Failing IN
                 /\ (f.clause # "none" =>
                        PrintT(<<"REJECT", ToJson([ep |-> E.ep, at |-> pos, clause |-> f.clause, agg |-> f.agg])>>))
                 /\ NextEpisode(f.clause = "none")
           /\ UNCHANGED <<base, cls, rp, Q, den, J, P, W, c1, c2, ca, cb, pad, steps>>

TDone == /\ ep = NEp + 1 /\ stage = "load"
         /\ PrintT(<<"SUMMARY", ToJson([episodes |-> NEp, accepted |-> nAcc, rejected |-> nRej])>>)
         /\ stage' = "end"
         /\ UNCHANGED <<base, cls, rp, Q, den, J, P, W, c1, c2, ca, cb, pad, steps, ep, pos, nAcc, nRej>>

TNext == Load \/ TGen \/ TGenReject \/ TFinish \/ TDone
TraceSpec == TInit /\ [][TNext]_tvars

\* along an accepted prefix the model's own invariants hold for the logged word as well
TraceConsistent == stage = "gens" => Consistent /\ GramInvariant
TraceConsumed == (stage = "end") => (nAcc + nRej = NEp)
=============================================================================
