CONSTANT LargeM = {}
CONSTANT MaxM = 1
SPECIFICATION TraceSpec
INVARIANT TraceConsumed
CHECK_DEADLOCK FALSE
