CONSTANT MaxM = 8
CONSTANT NCols = 1
CONSTANT HSeeds = {0}
CONSTANT NPat = 1
CONSTANT Kinds = {"tm", "krum"}
CONSTANT TSeeds = {}
CONSTANT ManyM = {}
CONSTANT ManySteps = 1
CONSTANT HistM = {}
CONSTANT HistLen = 0
CONSTANT HistPats = {}
SPECIFICATION TraceSpec
INVARIANT TraceConsumed
CHECK_DEADLOCK FALSE
