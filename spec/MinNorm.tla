------------------------------ MODULE MinNorm ------------------------------
(***************************************************************************)
(* Exact linear algebra shared by DualCone (C03/C04):                      *)
(*  - integer determinants, Sylvester brackets of lambda_max(G);           *)
(*  - the minimum-norm point of the convex hull of the rows of J           *)
(*    (min a^T G a on the simplex) by active-set (support) enumeration;    *)
(*  - Frank-Wolfe with exact clipped line search (mgda.py) in rationals,   *)
(*    argmin ties left nondeterministic, for the C04 allowance / rate.     *)
(* G is always an INTEGER symmetric PSD matrix (a Gramian), m <= 3.        *)
(***************************************************************************)
EXTENDS Rat, FiniteSets, TLC

IdxSet(M) == 1..Len(M)

\* a finite set of integers as the increasing sequence of its elements
RECURSIVE SortedSeq(_)
SortedSeq(S) == IF S = {} THEN <<>>
                ELSE LET x == CHOOSE y \in S : \A z \in S : y <= z
                     IN  <<x>> \o SortedSeq(S \ {x})

\* position of element i in the sorted sequence of S
PosIn(S, i) == Cardinality({j \in S : j <= i})

\* integer determinant (size <= 4), Laplace along the first row
RECURSIVE IDet(_)
IDet(M) == IF Len(M) = 0 THEN 1
           ELSE IF Len(M) = 1 THEN M[1][1]
           ELSE IF Len(M) = 2 THEN M[1][1] * M[2][2] - M[1][2] * M[2][1]
           ELSE LET F[j \in 0..Len(M)] ==
                      IF j = 0 THEN 0
                      ELSE F[j - 1] + (IF j % 2 = 1 THEN 1 ELSE -1) * M[1][j] * IDet(Minor(M, 1, j))
                IN  F[Len(M)]

ITrace(G)      == LET F[i \in 0..Len(G)] == IF i = 0 THEN 0 ELSE F[i - 1] + G[i][i] IN F[Len(G)]
IShift(t, G)   == TLCEval([i \in IdxSet(G) |-> [j \in IdxSet(G) |-> (IF i = j THEN t ELSE 0) - G[i][j]]])   \* t I - G
IPosDef(M)     == \A n \in 1..Len(M) : IDet(Leading(M, n)) > 0                  \* Sylvester
\* every principal minor >= 0  <=>  positive semi-definite (symmetric M)
PrincipalSub(M, S) == LET f == SortedSeq(S) IN [a \in 1..Len(f) |-> [b \in 1..Len(f) |-> M[f[a]][f[b]]]]
IPosSemiDef(M) == \A S \in (SUBSET IdxSet(M)) \ {{}} : IDet(PrincipalSub(M, S)) >= 0

\* lambda_max(G) < t   <=>   t I - G positive definite      (integer t)
LamMaxBelow(G, t) == IPosDef(IShift(t, G))
\* the integer L with  L <= lambda_max(G) < L + 1   (exists and is unique: 0 <= lambda_max <= tr G)
LamFloor(G) == CHOOSE t \in 0..ITrace(G) : ~LamMaxBelow(G, t) /\ LamMaxBelow(G, t + 1)
\* lambda_max(G) is an integer  <=>  it equals its floor L  <=>  L is an eigenvalue (det(L I - G) = 0)
\* AND the largest one (L I - G positive semi-definite, all principal minors >= 0)
LamIsInt(G) == LET L == LamFloor(G) IN IDet(IShift(L, G)) = 0 /\ IPosSemiDef(IShift(L, G))

\* rational threshold:  lambda_max(G) >= r   <=>   ~(r I - G > 0)
RShift(r, G)    == [i \in IdxSet(G) |-> [j \in IdxSet(G) |-> RSub(IF i = j THEN r ELSE RZero, R(G[i][j]))]]
LamMaxGeR(G, r) == ~RPosDef(RShift(r, G))

-----------------------------------------------------------------------------
(* Minimum-norm point of conv{rows}: min a^T G a, a >= 0, sum a = 1.       *)
(* For a support S the stationary point solves the bordered system         *)
(*      [ G_SS  1 ] [ a_S ]   [ 0 ]                                        *)
(*      [ 1^T   0 ] [ -mu ] = [ 1 ]          (mu = a^T G a)                *)
(* and is optimal iff a_S >= 0 and (G a)_i >= mu for every row i.  By      *)
(* Caratheodory an optimal support with affinely independent rows (<=> the *)
(* bordered matrix is non-singular) always exists; all optimal supports    *)
(* give the same value mu (checked by TLC: MinNormWellDefined).            *)

\* Integer form: B integer, a_S = N_S / D, mu = Mu / D with D = det B (sign normalised to D > 0).
Bordered(G, S) == LET f == SortedSeq(S)
                      k == Len(f)
                  IN  [a \in 1..(k + 1) |-> [b \in 1..(k + 1) |->
                         IF a <= k /\ b <= k THEN G[f[a]][f[b]]
                         ELSE IF a = k + 1 /\ b = k + 1 THEN 0 ELSE 1]]

Support(G, S) ==
    LET m   == Len(G)
        k   == Cardinality(S)
        B   == TLCEval(Bordered(G, S))
        d0  == IDet(B)
        sg  == IF d0 < 0 THEN -1 ELSE 1
        D   == sg * d0
        rhs == [a \in 1..(k + 1) |-> IF a = k + 1 THEN 1 ELSE 0]
        N   == TLCEval([i \in 1..m |-> IF i \in S THEN sg * IDet(ReplaceCol(B, PosIn(S, i), rhs)) ELSE 0])
        Mu  == 0 - sg * IDet(ReplaceCol(B, k + 1, rhs))
    IN  IF d0 = 0 THEN [ok |-> FALSE, alpha |-> RZeros(m), mu |-> RZero]
        ELSE [ok    |-> (\A i \in S : N[i] >= 0) /\ (\A i \in 1..m : Mu <= IDot(G[i], N)),
              alpha |-> TLCEval([i \in 1..m |-> Frac(N[i], D)]), mu |-> Frac(Mu, D)]

MinNormCands(G) == {c \in {Support(G, S) : S \in (SUBSET IdxSet(G)) \ {{}}} : c.ok}
MinNormSq(G)    == (CHOOSE c \in MinNormCands(G) : TRUE).mu
MinNormAlpha(G) == (CHOOSE c \in MinNormCands(G) : TRUE).alpha
MinNormWellDefined(G) == Cardinality({c.mu : c \in MinNormCands(G)}) = 1

-----------------------------------------------------------------------------
(* Frank-Wolfe as in mgda.py: t = argmin(G a) (ties free), exact line      *)
(* search on the segment [a, e_t] clipped to [0,1].  Iterates are kept as  *)
(* INTEGER numerators over one common denominator, a = N / d (reduced), so *)
(* that a^T G a = N^T G N / d^2 stays far below 32 bits.                   *)

RQuad(G, al)  == RDot(al, RMatVec(RMat(G), al))
RUniform(m)   == [i \in 1..m |-> Frac(1, m)]

IMatVecI(G, N) == TLCEval([i \in IdxSet(G) |-> IDot(G[i], N)])
RECURSIVE GcdSeq(_)
GcdSeq(s) == IF s = <<>> THEN 0 ELSE Gcd(Abs(Head(s)), GcdSeq(Tail(s)))
FWReduce(N, d) == LET g == Gcd(d, GcdSeq(N)) IN [N |-> [i \in DOMAIN N |-> N[i] \div g], d |-> d \div g]
FWStart(m)     == [N |-> [i \in 1..m |-> 1], d |-> m]

FWStep(G, st, t) ==
    LET GN == IMatVecI(G, st.N)
        A  == GN[t]                       \* a = A / d
        B  == IDot(st.N, GN)              \* b = B / d^2
        c  == G[t][t]
        d  == st.d
        gn == B - A * d                   \* gamma = gn / gd
        gd == B + c * d * d - 2 * A * d
    IN  IF c * d <= A THEN [N |-> [i \in IdxSet(G) |-> IF i = t THEN 1 ELSE 0], d |-> 1]     \* gamma = 1
        ELSE IF B <= A * d THEN st                                                            \* gamma = 0
        ELSE FWReduce([i \in IdxSet(G) |-> (c * d - A) * st.N[i] + (IF i = t THEN gn ELSE 0)], gd)

ArgMins(G, st) == LET GN == IMatVecI(G, st.N)
                  IN  {t \in IdxSet(G) : \A j \in IdxSet(G) : GN[t] <= GN[j]}

\* all iterates reachable after exactly K steps (any tie-break)
RECURSIVE FWReach(_, _)
FWReach(G, K) == IF K = 0 THEN {FWStart(Len(G))}
                 ELSE UNION {{FWStep(G, st, t) : t \in ArgMins(G, st)} : st \in FWReach(G, K - 1)}

FWAlpha(st)   == [i \in DOMAIN st.N |-> Frac(st.N[i], st.d)]
FWQuadNum(G, st) == IDot(st.N, IMatVecI(G, st.N))           \* a^T G a = FWQuadNum / d^2
IsSimplexPoint(st) == st.d > 0 /\ (\A i \in DOMAIN st.N : st.N[i] >= 0) /\ GcdSeq(st.N) > 0
                      /\ (LET F[i \in 0..Len(st.N)] == IF i = 0 THEN 0 ELSE F[i - 1] + st.N[i] IN F[Len(st.N)]) = st.d

\* gap = a^T G a - minnorm^2 = GapNum / (d^2 q)   with minnorm^2 = p / q
GapNum(G, st, mn2) == FWQuadNum(G, st) * mn2[2] - mn2[1] * st.d * st.d

\* C04 for an MGDA iterate (exact, no square roots; L = LamFloor(G) <= s^2 = lambda_max(G)):
\*   (G a)_i >= - s sqrt(gap)
\*   <=> (G a)_i >= 0  or  (gap > 0 and (G a)_i^2 <= s^2 gap)      [(G a)_i = GN_i / d]
\*   <=> GN_i >= 0  or  (GapNum > 0 and GN_i^2 q <= s^2 GapNum)
\*   decided by the sufficient integer test with L first, by Sylvester (s^2 >= r) otherwise
MGDAAllowanceOK(G, st, mn2, L) ==
    LET GN == IMatVecI(G, st.N)
        gp == GapNum(G, st, mn2)
    IN  /\ gp >= 0
        /\ \A i \in IdxSet(G) : \/ GN[i] >= 0
                                \/ gp > 0 /\ \/ GN[i] * GN[i] * mn2[2] <= L * gp
                                             \/ LamMaxGeR(G, Frac(GN[i] * GN[i] * mn2[2], gp))
\*   gap <= 8 s^2 / (K + 2)   <=>   GapNum (K + 2) <= 8 s^2 d^2 q
MGDARateOK(G, st, mn2, L, K) ==
    LET gp == GapNum(G, st, mn2)
    IN  \/ gp * (K + 2) <= 8 * L * st.d * st.d * mn2[2]
        \/ LamMaxGeR(G, Frac(gp * (K + 2), 8 * st.d * st.d * mn2[2]))
=============================================================================
