---------------------------- MODULE MC_Transforms ----------------------------
(***************************************************************************)
(* Enumeration of transform terms over the three keys, by TLC.             *)
(*                                                                         *)
(* State = one term t.  Initial states: ALL atoms (Init, Select,           *)
(* Diagonalize, Accumulate over every key set / key sequence, including    *)
(* the ones that cannot be built).  A step wraps a constructible term t    *)
(* of depth < MaxDepth together with a partner s from the pool (all        *)
(* constructible atoms plus the depth-1 terms of TransformsPool.tla) into  *)
(* Composition(t, s),                                                      *)
(* Composition(s, t), Conjunction([t, s]), Conjunction([s, t]),            *)
(* Stack([t, s]), Stack([s, t]), Conjunction([t]), Stack([t]); an atom t   *)
(* is also put into the flat three-member lists Conjunction([t, s, u]) and *)
(* Stack([t, s, u]) with atoms s, u requiring the same keys.  A term        *)
(* that cannot be built is a dead end (the real constructor must raise).   *)
(* Atoms are always expanded; of the depth-1 terms those whose content     *)
(* hash is Pick1 modulo Mod1, of the deeper ones Pick2 modulo Mod2.        *)
(*                                                                         *)
(* Checked on every term: implementation-shaped constructor = key typing   *)
(* (BuildAgrees); MRO-fold union type = most specific common type, on      *)
(* every input kind (ApplyAgrees); results have exactly the declared keys  *)
(* and satisfy the constraints of their type (KeyTyped); key mismatch is   *)
(* refused (KeyMismatch); associativity of composition, commutativity and  *)
(* associativity of conjunction (Laws).  Every term is exported with its   *)
(* verdicts for replay on the real classes.  PresentationFree: the atom a   *)
(* one-traversal constructor obtains from any admissible presentation of   *)
(* its key collections (list, tuple, set, dict view, iterator, generator;  *)
(* any enumeration order) is the term itself; the table of admissible      *)
(* forms is exported (FORMS) for the replay / trace driver.                *)
(***************************************************************************)
EXTENDS Transforms, TransformsPool, TLC, Json

CONSTANTS MaxDepth, Mod1, Pick1, Mod2, Pick2, ExportMod, Mod3, Pick3

VARIABLES t
vars == <<t>>

KeySets == SUBSET Keys
KeySeqs == {<<>>} \cup {<<x>> : x \in Keys} \cup {<<x, y>> : x \in Keys, y \in Keys}
           \cup PermSeqs(Keys) \cup {<<"a", "b", "a">>}

Atoms == {TInit(K) : K \in KeySets} \cup {TSelect(K, R) : K \in KeySets, R \in KeySets}
         \cup {TDiag(s) : s \in KeySeqs} \cup {TAcc(K) : K \in KeySets}
CAtoms == {y : y \in {x \in Atoms : Constructible(x)}}

Wraps(x, s) == {TComp(x, s), TComp(s, x), TConj(<<x, s>>), TConj(<<s, x>>), TStack(<<x, s>>), TStack(<<s, x>>),
                TConj(<<x>>), TStack(<<x>>)}
Nullary == {TConj(<<>>), TStack(<<>>)}

\* ------------------------------------------------------------------ content hash (sampling only)
KeyCode(k) == CASE k = "a" -> 1 [] k = "b" -> 2 [] OTHER -> 4
RECURSIVE SetCode(_)
SetCode(S) == IF S = {} THEN 0 ELSE LET k == CHOOSE x \in S : TRUE IN KeyCode(k) + SetCode(S \ {k})
RECURSIVE SeqCode(_)
SeqCode(s) == IF s = <<>> THEN 1 ELSE (KeyCode(Head(s)) + 5 * SeqCode(Tail(s))) % 10007
RECURSIVE TermHash(_), SeqHash(_)
SeqHash(ts) == IF ts = <<>> THEN 3 ELSE (TermHash(Head(ts)) + 31 * SeqHash(Tail(ts))) % 10007
TermHash(x) == CASE x.op = "init"   -> 11 + SetCode(x.K)
                 [] x.op = "select" -> 23 + SetCode(x.K) + 8 * SetCode(x.R)
                 [] x.op = "diag"   -> 101 + SeqCode(x.ks)
                 [] x.op = "acc"    -> 211 + SetCode(x.K)
                 [] x.op = "comp"   -> (307 + 17 * TermHash(x.outer) + 29 * TermHash(x.inner)) % 10007
                 [] x.op = "stack"  -> (401 + 13 * SeqHash(x.ts)) % 10007
                 [] OTHER           -> (503 + 19 * SeqHash(x.ts)) % 10007

\* partners: every constructible atom plus the depth-1 terms listed in TransformsPool.tla (a
\* content-hash sample of the constructible depth-1 terms this very module exports, written
\* there by the harness; a literal, because TLC re-evaluates a computed set in every state)
Pool == CAtoms \cup PoolLit

\* ------------------------------------------------------------------ behaviour
Init == t \in Atoms \cup Nullary
Expandable == /\ Constructible(t) /\ Depth(t) < MaxDepth
              /\ (Depth(t) = 1 => (TermHash(t) % Mod1) = Pick1)
              /\ (Depth(t) >= 2 => (TermHash(t) % Mod2) = Pick2)
\* flat member lists of THREE members: an atom with two atoms that require the same keys (so that the
\* verdict hinges on the pairwise disjointness of the output keys of ALL pairs, adjacent or not, and on
\* the stacking of three rows); a content-hash sample Pick3 modulo Mod3 of the ordered triples
SameReq(x) == {y \in CAtoms : Req(y) = Req(x)}
Wraps3(x, s, u) == {TConj(<<x, s, u>>), TStack(<<x, s, u>>)}
Ternary(x) == x.op \in {"conj", "stack"} /\ Len(x.ts) = 3
Next == \/ /\ Expandable /\ ~Ternary(t)
           /\ \E s \in Pool : t' \in Wraps(t, s)
        \/ /\ IsAtom(t) /\ Constructible(t) /\ MaxDepth >= 1
           /\ \E s, u \in SameReq(t) : /\ ((TermHash(t) + 3 * TermHash(s) + 7 * TermHash(u)) % Mod3) = Pick3
                                        /\ t' \in Wraps3(t, s, u)
Spec == Init /\ [][Next]_vars

\* ------------------------------------------------------------------ properties
KindSeq(R) == IF R = {} THEN <<"E", "G", "J">> ELSE <<"G", "J">>

BuildAgrees == (BuildImpl(t) = "ok") <=> Constructible(t)

ApplyAgrees == Constructible(t) =>
                 \A kind \in InputKinds(Req(t)) :
                    Apply("impl", t, InputDict(kind, Req(t))) = Apply("prop", t, InputDict(kind, Req(t)))

KeyTyped == Constructible(t) =>
              \A kind \in InputKinds(Req(t)) :
                 LET r == Apply("prop", t, InputDict(kind, Req(t)))
                 IN  r.st = "ok" => KeysOfD(r.d) = Out(t) /\ WellTyped(r.d)

KeyMismatch == Constructible(t) =>
                 \A K \in KeySets : K # Req(t) => Apply("prop", t, InputDict("G", K)).st = "keyerror"

\* the verdicts do not depend on how the key collections are presented to the constructors
PresentationFree == IsAtom(t) => PresentationFreeAtom(t)

\* the re-associated / mirrored variants of t the laws speak about
LawTerms ==
    (IF t.op = "comp" /\ t.outer.op = "comp"
     THEN {[law |-> "comp_assoc", other |-> TComp(t.outer.outer, TComp(t.outer.inner, t.inner))]} ELSE {})
    \cup
    (IF t.op = "conj" /\ Len(t.ts) = 2
     THEN {[law |-> "conj_comm", other |-> TConj(<<t.ts[2], t.ts[1]>>)]} ELSE {})
    \cup
    (IF t.op = "conj" /\ Len(t.ts) = 2 /\ t.ts[1].op = "conj" /\ Len(t.ts[1].ts) = 2
     THEN {[law |-> "conj_assoc", other |-> TConj(<<t.ts[1].ts[1], TConj(<<t.ts[1].ts[2], t.ts[2]>>)>>)],
           [law |-> "conj_flat",  other |-> TConj(<<t.ts[1].ts[1], t.ts[1].ts[2], t.ts[2]>>)]} ELSE {})

SameMeaning(x, y, strict) ==
    /\ Constructible(x) <=> Constructible(y)
    /\ Constructible(x) =>
         /\ Req(x) = Req(y) /\ Out(x) = Out(y)
         /\ \A kind \in InputKinds(Req(x)) :
              LET rx == Apply("prop", x, InputDict(kind, Req(x)))
                  ry == Apply("prop", y, InputDict(kind, Req(x)))
              IN  IF strict THEN rx = ry ELSE (rx.st = "ok" /\ ry.st = "ok") => rx.d = ry.d

Laws == \A l \in LawTerms : SameMeaning(t, l.other, l.law \in {"comp_assoc", "conj_comm"})

\* ------------------------------------------------------------------ export
AppRec(kind) == LET r == Apply("prop", t, InputDict(kind, Req(t)))
                IN  [kind |-> kind, st |-> r.st, type |-> r.d.type, m |-> r.d.m]
SetToSeq(S) == CHOOSE s \in PermSeqs(S) : TRUE
Scenario == [term |-> t, depth |-> Depth(t), ok |-> Constructible(t), hash |-> TermHash(t),
             req |-> IF Constructible(t) THEN Req(t) ELSE {},
             out |-> IF Constructible(t) THEN Out(t) ELSE {},
             apps |-> IF Constructible(t) THEN [i \in DOMAIN KindSeq(Req(t)) |-> AppRec(KindSeq(Req(t))[i])] ELSE <<>>,
             laws |-> IF Constructible(t) THEN SetToSeq(LawTerms) ELSE <<>>]
\* every constructible term is exported; of those that cannot be built, 1 out of ExportMod
\* (and every three-member list: there the refusals are the point)
Export == (Constructible(t) \/ (TermHash(t) % ExportMod) = 0 \/ Ternary(t)) => PrintT(<<"TERM", ToJson(Scenario)>>)
\* the admissible argument presentations (once, from the nullary conjunction)
ExportForms == (t = TConj(<<>>)) => PrintT(<<"FORMS", ToJson([table |-> FormTable])>>)
=============================================================================
