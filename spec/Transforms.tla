------------------------------ MODULE Transforms ------------------------------
(***************************************************************************)
(* Transform terms of torchjd.autojac._transform and their key typing.     *)
(*                                                                         *)
(* A term is a record:                                                     *)
(*   [op |-> "init",   K]            Init(K)            K a set of keys    *)
(*   [op |-> "select", K, R]         Select(K, R)                          *)
(*   [op |-> "diag",   ks]           Diagonalize(ks)    ks a SEQUENCE      *)
(*   [op |-> "acc",    K]            Accumulate(K)                         *)
(*   [op |-> "stack",  ts]           Stack(ts)          ts a sequence      *)
(*   [op |-> "conj",   ts]           Conjunction(ts)                       *)
(*   [op |-> "comp",   outer, inner] Composition(outer, inner)             *)
(*                                                                         *)
(* A dictionary is [type |-> T, m |-> [key -> [sh |-> shape, v |-> flat    *)
(* row-major integer values]]].                                            *)
(*                                                                         *)
(* Property layer (what C14 states): Constructible, Req, Out, Apply("prop")*)
(* Implementation layer (how base.py/select.py/stack.py/_utils.py decide): *)
(* BuildImpl (exception class or "ok", checks in code order, duplicates    *)
(* counted the way Conjunction counts them), Apply("impl") (union type by  *)
(* the MRO scan folded from EmptyTensorDict).  MC_Transforms checks that   *)
(* the layers agree on every enumerated term.                              *)
(*                                                                         *)
(* Outcome of an application (field st):                                   *)
(*   "ok"         - succeeds; result in field d                            *)
(*   "keyerror"   - key set of the input differs from Req: ValueError      *)
(*   "raise"      - a dictionary contradicting its type would have to be   *)
(*                  created: some exception                                *)
(*   "unspec"     - the statement does not say (a stage receives a         *)
(*                  dictionary of a type it is not defined on, or          *)
(*                  Diagonalize of no key); if it succeeds the keys must   *)
(*                  still be Out                                           *)
(***************************************************************************)
EXTENDS TensorDicts, IntMat

\* ------------------------------------------------------------------ term constructors
TInit(K)       == [op |-> "init", K |-> K]
TSelect(K, R)  == [op |-> "select", K |-> K, R |-> R]
TDiag(ks)      == [op |-> "diag", ks |-> ks]
TAcc(K)        == [op |-> "acc", K |-> K]
TStack(ts)     == [op |-> "stack", ts |-> ts]
TConj(ts)      == [op |-> "conj", ts |-> ts]
TComp(o, i)    == [op |-> "comp", outer |-> o, inner |-> i]

NoDup(s) == \A i, j \in DOMAIN s : i # j => s[i] # s[j]

\* ------------------------------------------------------------------ property layer: key typing
RECURSIVE Req(_), Out(_), Constructible(_), Depth(_)
Req(t) == CASE t.op = "init"   -> {}
            [] t.op = "select" -> t.R
            [] t.op = "diag"   -> Range(t.ks)
            [] t.op = "acc"    -> t.K
            [] t.op = "comp"   -> Req(t.inner)
            [] OTHER           -> UNION {Req(t.ts[i]) : i \in DOMAIN t.ts}
Out(t) == CASE t.op = "init"   -> t.K
            [] t.op = "select" -> t.K
            [] t.op = "diag"   -> Range(t.ks)
            [] t.op = "acc"    -> {}
            [] t.op = "comp"   -> Out(t.outer)
            [] OTHER           -> UNION {Out(t.ts[i]) : i \in DOMAIN t.ts}

Constructible(t) ==
    CASE t.op = "init"   -> TRUE
      [] t.op = "select" -> t.K \subseteq t.R
      [] t.op = "diag"   -> NoDup(t.ks)
      [] t.op = "acc"    -> TRUE
      [] t.op = "comp"   -> /\ Constructible(t.outer) /\ Constructible(t.inner)
                            /\ Req(t.outer) = Out(t.inner)
      [] t.op = "stack"  -> /\ \A i \in DOMAIN t.ts : Constructible(t.ts[i])
                            /\ \A i, j \in DOMAIN t.ts : Req(t.ts[i]) = Req(t.ts[j])
      [] OTHER           -> /\ \A i \in DOMAIN t.ts : Constructible(t.ts[i])
                            /\ \A i, j \in DOMAIN t.ts : Req(t.ts[i]) = Req(t.ts[j])
                            /\ \A i, j \in DOMAIN t.ts : i # j => Out(t.ts[i]) \cap Out(t.ts[j]) = {}

Depth(t) == CASE t.op = "comp" -> 1 + (IF Depth(t.outer) >= Depth(t.inner) THEN Depth(t.outer) ELSE Depth(t.inner))
              [] t.op \in {"stack", "conj"} ->
                   1 + (IF t.ts = <<>> THEN 0
                        ELSE LET ds == {Depth(t.ts[i]) : i \in DOMAIN t.ts}
                             IN  CHOOSE x \in ds : \A y \in ds : y <= x)
              [] OTHER -> 0

\* ------------------------------------------------------------------ implementation layer: constructors
\* "ok" or the class of the exception; sub-terms are built first (Python evaluates arguments first)
RECURSIVE BuildImpl(_)
FirstBad(rs) == IF \E i \in DOMAIN rs : rs[i] # "ok"
                THEN rs[CHOOSE i \in DOMAIN rs : rs[i] # "ok" /\ \A j \in DOMAIN rs : rs[j] # "ok" => i <= j]
                ELSE "ok"
\* number of (key, member) pairs vs number of distinct keys, as Conjunction.__init__ counts
RECURSIVE SumCard(_)
SumCard(sets) == IF sets = <<>> THEN 0 ELSE Cardinality(Head(sets)) + SumCard(Tail(sets))
BuildImpl(t) ==
    CASE t.op = "init"   -> "ok"
      [] t.op = "select" -> IF t.K \subseteq t.R THEN "ok" ELSE "ValueError"
      [] t.op = "diag"   -> IF Cardinality(Range(t.ks)) = Len(t.ks) THEN "ok" ELSE "ValueError"   \* ordered_set
      [] t.op = "acc"    -> "ok"
      [] t.op = "comp"   -> LET parts == FirstBad(<<BuildImpl(t.outer), BuildImpl(t.inner)>>)
                            IN  IF parts # "ok" THEN parts
                                ELSE IF Req(t.outer) # Out(t.inner) THEN "ValueError" ELSE "ok"
      [] OTHER           ->
           LET parts == FirstBad([i \in DOMAIN t.ts |-> BuildImpl(t.ts[i])])
               req   == UNION {Req(t.ts[i]) : i \in DOMAIN t.ts}
               outs  == [i \in DOMAIN t.ts |-> Out(t.ts[i])]
           IN  IF parts # "ok" THEN parts
               ELSE IF \E i \in DOMAIN t.ts : Req(t.ts[i]) # req THEN "ValueError"
               ELSE IF t.op = "conj" /\ Cardinality(UNION Range(outs)) # SumCard(outs) THEN "ValueError"
               ELSE "ok"

\* ------------------------------------------------------------------ argument presentations
\* Every key-collection argument of an atom's constructor is declared Iterable[Tensor] (the member
\* lists of Stack / Conjunction: Sequence[Transform]).  A PRESENTATION of such an argument is a form
\* together with an enumeration of the collection.  Traversing a presentation yields the
\* enumeration; a one-shot form (iterator, generator) yields it on the FIRST traversal only and
\* nothing afterwards.  The contract of Iterable allows a constructor ONE traversal per argument.
\* Everything above and below (Constructible, Req, Out, BuildImpl, Apply) is a function of the term
\* alone: the verdicts do not depend on the presentation.  MC_Transforms checks (PresentationFree)
\* that the atom a one-traversal constructor obtains from ANY admissible presentation is the term
\* itself, and exports the table of admissible forms (FormTable) from which the replay and the
\* trace driver draw the presentation of every argument of every atom occurrence.
Forms      == {"list", "tuple", "set", "dictkeys", "iter", "gen"}
SeqForms   == {"list", "tuple"}                 \* what a Sequence argument can be
OneShot(f) == f \in {"iter", "gen"}
Unordered(f) == f = "set"                       \* the enumeration order is not the caller's
Dedups(f)  == f \in {"set", "dictkeys"}         \* cannot carry a collection with a repeated key
ArgNames(op) == CASE op = "init"   -> <<"values">>
                  [] op = "select" -> <<"keys", "required_keys">>
                  [] op = "diag"   -> <<"considered">>
                  [] op = "acc"    -> <<"required_keys">>
                  [] OTHER         -> <<"transforms">>
\* the order (and multiplicity) of the enumeration is part of the argument only for Diagonalize
OrderedArg(op, i) == op = "diag"
\* the enumerations of argument i of atom x a caller may hand over
ArgEnums(x, i) == CASE x.op = "init"   -> PermSeqs(x.K)
                    [] x.op = "select" -> IF i = 1 THEN PermSeqs(x.K) ELSE PermSeqs(x.R)
                    [] x.op = "diag"   -> {x.ks}
                    [] OTHER           -> PermSeqs(x.K)
Admissible(f, op, i, items) == /\ f \in Forms
                               /\ OrderedArg(op, i) => ~Unordered(f)
                               /\ Dedups(f) => NoDup(items)
\* what the n-th traversal of a presentation yields
Seen(f, items, n) == IF OneShot(f) /\ n > 1 THEN <<>> ELSE items
\* the atom a constructor that traverses each argument once obtains
Rebuilt(x, fs, en) ==
    CASE x.op = "init"   -> TInit(Range(Seen(fs[1], en[1], 1)))
      [] x.op = "select" -> TSelect(Range(Seen(fs[1], en[1], 1)), Range(Seen(fs[2], en[2], 1)))
      [] x.op = "diag"   -> TDiag(Seen(fs[1], en[1], 1))
      [] OTHER           -> TAcc(Range(Seen(fs[1], en[1], 1)))
IsAtom(x) == x.op \in {"init", "select", "diag", "acc"}
PresentationFreeAtom(x) ==
    LET n == Len(ArgNames(x.op)) IN
    \A fs \in [1..n -> Forms] : \A en \in [1..n -> UNION {ArgEnums(x, i) : i \in 1..n}] :
       (\A i \in 1..n : en[i] \in ArgEnums(x, i) /\ Admissible(fs[i], x.op, i, en[i])) => Rebuilt(x, fs, en) = x
\* admissible forms per constructor argument: for a duplicate-free collection / for one with a repeated key
FormRow(op, i) == [op |-> op, arg |-> ArgNames(op)[i],
                   forms |-> {f \in Forms : (OrderedArg(op, i) => ~Unordered(f))},
                   dupforms |-> {f \in Forms : (OrderedArg(op, i) => ~Unordered(f)) /\ ~Dedups(f)},
                   oneshot |-> {f \in Forms : OneShot(f)}]
FormTable == <<FormRow("init", 1), FormRow("select", 1), FormRow("select", 2), FormRow("diag", 1), FormRow("acc", 1),
               [op |-> "stack", arg |-> "transforms", forms |-> SeqForms, dupforms |-> SeqForms, oneshot |-> {}],
               [op |-> "conj", arg |-> "transforms", forms |-> SeqForms, dupforms |-> SeqForms, oneshot |-> {}]>>

\* ------------------------------------------------------------------ dictionaries with values
EmptyFn == [k \in {} |-> 0]
EmptyD == [type |-> "Empty", m |-> EmptyFn]
ShapesOfD(D) == [k \in DOMAIN D.m |-> D.m[k].sh]
KeysOfD(D) == DOMAIN D.m
Restrict(f, S) == [k \in S |-> f[k]]
Merge(f, g) == [k \in (DOMAIN f) \cup (DOMAIN g) |-> IF k \in DOMAIN g THEN g[k] ELSE f[k]]

Res(st, D) == [st |-> st, d |-> D]
Bad(st)    == [st |-> st, d |-> EmptyD]

KeySize(k) == Numel(KeyShape(k))
RECURSIVE ConcatAll(_)
ConcatAll(ss) == IF ss = <<>> THEN <<>> ELSE Head(ss) \o ConcatAll(Tail(ss))

\* Diagonalize on Gradients: key ks[i] gets the columns of diag(cat(values in ks order)) that
\* belong to it: N rows, row off_i + e holds the e-th entry of its gradient at position e
DiagEntry(ks, D, i) ==
    LET sizes == [j \in DOMAIN ks |-> KeySize(ks[j])]
        off   == Offsets(sizes)
        N     == SumSeq(sizes)
        g     == D.m[ks[i]].v
        rows  == [r \in 1..N |-> [e \in 1..sizes[i] |-> IF r = off[i] + e THEN g[e] ELSE 0]]
    IN  [sh |-> <<N>> \o KeyShape(ks[i]), v |-> ConcatAll(rows)]

\* Stack: row i of key k is member i's value for k, zeros where member i has no k
StackEntry(rs, k) ==
    [sh |-> <<Len(rs)>> \o KeyShape(k),
     v  |-> ConcatAll([i \in DOMAIN rs |-> IF k \in DOMAIN rs[i].d.m THEN rs[i].d.m[k].v ELSE Zeros(KeySize(k))])]

Stackable(D) == D.type \in {"Gradients", "Empty"} \/ DOMAIN D.m = {}

RECURSIVE MergeAll(_)
MergeAll(fs) == IF fs = <<>> THEN EmptyFn ELSE Merge(Head(fs), MergeAll(Tail(fs)))

RECURSIVE Apply(_, _, _)
Apply(mode, t, D) ==
    IF KeysOfD(D) # Req(t) THEN Bad("keyerror")
    ELSE
    CASE t.op = "init"   -> Res("ok", [type |-> "Gradients",
                                       m |-> [k \in t.K |-> [sh |-> KeyShape(k), v |-> Ones(KeySize(k))]]])
      [] t.op = "select" -> Res("ok", [type |-> D.type, m |-> Restrict(D.m, t.K)])
      [] t.op = "diag"   -> IF t.ks = <<>> \/ D.type # "Gradients" THEN Bad("unspec")
                            ELSE Res("ok", [type |-> "Jacobians",
                                            m |-> [k \in Range(t.ks) |->
                                                     DiagEntry(t.ks, D, CHOOSE i \in DOMAIN t.ks : t.ks[i] = k)]])
      [] t.op = "acc"    -> IF D.type \in {"Gradients", "Empty"} THEN Res("ok", EmptyD) ELSE Bad("unspec")
      [] t.op = "comp"   -> LET r == Apply(mode, t.inner, D)
                            IN  IF r.st # "ok" THEN r ELSE Apply(mode, t.outer, r.d)
      [] OTHER           ->
           LET rs == [i \in DOMAIN t.ts |-> Apply(mode, t.ts[i], D)]
           IN  IF \E i \in DOMAIN rs : rs[i].st = "unspec" THEN Bad("unspec")
               ELSE IF \E i \in DOMAIN rs : rs[i].st # "ok" THEN Bad("raise")
               ELSE IF t.op = "stack" THEN
                    IF \A i \in DOMAIN rs : Stackable(rs[i].d)
                    THEN Res("ok", [type |-> "Jacobians",
                                    m |-> [k \in UNION {DOMAIN rs[i].d.m : i \in DOMAIN rs} |-> StackEntry(rs, k)]])
                    ELSE Bad("unspec")
               ELSE LET ty == UnionType(mode, [i \in DOMAIN rs |-> rs[i].d.type])
                        mm == MergeAll([i \in DOMAIN rs |-> rs[i].d.m])
                        U  == [type |-> ty, m |-> mm]
                    IN  IF Valid(ty, KeyShape, ShapesOfD(U)) THEN Res("ok", U) ELSE Bad("raise")

\* a dictionary is well-typed: the shapes satisfy the constraints of its type and carry the values
WellTyped(D) == /\ Valid(D.type, KeyShape, ShapesOfD(D))
                /\ \A k \in DOMAIN D.m : Len(D.m[k].v) = Numel(D.m[k].sh)

\* ------------------------------------------------------------------ input dictionaries
InVal(k) == CASE k = "a" -> <<2, -3>> [] k = "b" -> <<5>> [] OTHER -> <<-1, 4>>
InputDict(kind, R) ==
    CASE kind = "E" -> EmptyD
      [] kind = "G" -> [type |-> "Gradients", m |-> [k \in R |-> [sh |-> KeyShape(k), v |-> InVal(k)]]]
      [] OTHER      -> [type |-> "Jacobians",
                        m |-> [k \in R |-> [sh |-> <<2>> \o KeyShape(k), v |-> InVal(k) \o VScale(-2, InVal(k))]]]
InputKinds(R) == IF R = {} THEN {"E", "G", "J"} ELSE {"G", "J"}
=============================================================================
