--------------------------- MODULE TraceGradDrop ---------------------------
(***************************************************************************)
(* Code -> specification validation of recorded GradDrop calls.            *)
(*                                                                         *)
(* Episode: [ep, J, leak, f, ubits, ubase, out, bad]                       *)
(*   J      integer matrix, leak rational vector (<<num, den>>), f kind    *)
(*   ubits  <<>> when the uniform draw was not observed (free seed);       *)
(*          otherwise ubits[c] = floor(U_c * ubase): the draw is known to  *)
(*          lie in [ubits[c]/ubase, (ubits[c]+1)/ubase), which the         *)
(*          specification compares EXACTLY with f(P_c)                     *)
(*   out    the returned vector, exact dyadic rationals                    *)
(*   bad    coordinates whose value is not a small dyadic rational (such a *)
(*          value can be in no candidate set)                              *)
(* Property layer: every coordinate must be a member of its candidate set  *)
(* { kept-sign entries + leaked share of the others } for a sign choice    *)
(* that the (possibly unobserved) draw allows.                             *)
(***************************************************************************)
EXTENDS GradDrop, TLCExt

Episodes == JsonDeserialize(IOEnv.TRACE_FILE)
NEp      == Len(Episodes)

VARIABLES ep, stage, nAcc, nRej
tvars == <<J, leak, fkind, choice, i, vec, phase, ep, stage, nAcc, nRej>>
Ep == Episodes[ep]

Allowed(e, c) ==
    IF e.ubits = <<>> THEN Reachable(e.J, e.f, c)
    ELSE ChoicesFromInterval(e.J, e.f, c, Frac(e.ubits[c], e.ubase), Frac(e.ubits[c] + 1, e.ubase))
CandSet(e, c) == {Coord(e.J, e.leak, c, ch) : ch \in Allowed(e, c)}
BadCoords(e)  == {c \in 1..Len(e.out) : c \in {e.bad[x] : x \in DOMAIN e.bad} \/ e.out[c] \notin CandSet(e, c)}
OutsidePair(e) == {c \in BadCoords(e) : c \in {e.bad[x] : x \in DOMAIN e.bad} \/ e.out[c] \notin CoordPair(e.J, e.leak, c)}

TInit == /\ J = <<<<0>>>> /\ leak = <<RZero>> /\ fkind = "id" /\ choice = <<>> /\ i = 1
         /\ vec = RZeros(1) /\ phase = "done"
         /\ ep = 1 /\ stage = "run" /\ nAcc = 0 /\ nRej = 0

TCheck == /\ ep <= NEp /\ stage = "run"
          /\ LET bc == BadCoords(Ep) IN
                IF Len(Ep.out) # Len(Ep.J[1]) THEN
                     /\ PrintT(<<"REJECT", ToJson([ep |-> Ep.ep, clause |-> "output_has_wrong_length", cols |-> {}, cand |-> <<>>])>>)
                     /\ nRej' = nRej + 1 /\ nAcc' = nAcc
                ELSE IF bc = {} THEN nAcc' = nAcc + 1 /\ nRej' = nRej
                ELSE /\ PrintT(<<"REJECT", ToJson([ep |-> Ep.ep,
                               clause |-> IF OutsidePair(Ep) # {}
                                          THEN "coordinate_is_neither_the_positive_nor_the_negative_sum_plus_leak"
                                          ELSE "coordinate_keeps_a_sign_the_draw_does_not_allow",
                               cols |-> bc,
                               cand |-> [c \in 1..Len(Ep.out) |-> CandSet(Ep, c)]])>>)
                     /\ nRej' = nRej + 1 /\ nAcc' = nAcc
          /\ ep' = ep + 1
          /\ UNCHANGED <<J, leak, fkind, choice, i, vec, phase, stage>>

TDone == /\ ep = NEp + 1 /\ stage = "run"
         /\ PrintT(<<"SUMMARY", ToJson([episodes |-> NEp, accepted |-> nAcc, rejected |-> nRej])>>)
         /\ stage' = "end"
         /\ UNCHANGED <<J, leak, fkind, choice, i, vec, phase, ep, nAcc, nRej>>

TNext == TCheck \/ TDone
TraceSpec == TInit /\ [][TNext]_tvars
TraceConsumed == (stage = "end") => (nAcc + nRej = NEp)
=============================================================================
