CONSTANT MaxIter = 4
CONSTANT Bound = 700
SPECIFICATION Spec
INVARIANT TypeOK
INVARIANT UntouchedStays
INVARIANT PlainSGD
INVARIANT Export
CHECK_DEADLOCK FALSE
