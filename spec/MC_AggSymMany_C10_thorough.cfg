CONSTANT Mode = "rows"
CONSTANT ManyM = {26, 27, 31, 33, 40}
CONSTANT Seeds = {1, 2, 3}
CONSTANT MaxSteps = 3
CONSTANT PadCounts = {}
SPECIFICATION Spec
INVARIANT TypeOK
INVARIANT Consistent
INVARIANT DistInvariant
INVARIANT OffsetInvariant
INVARIANT LawMany
INVARIANT PadLaw
CHECK_DEADLOCK FALSE
