CONSTANT MaxLeaves = 3
CONSTANT MaxOps = 3
CONSTANT MaxTensors = 2
CONSTANT ChunkSizes = {0, 1, 2}
CONSTANT MaxRows = 5
CONSTANT MaxTasks = 3
CONSTANT SampleMod = 1
CONSTANT SamplePick = 0
CONSTANT PreModes = {"none", "all"}
SPECIFICATION Spec
INVARIANT TypeOK
INVARIANT Deposits
INVARIANT StackIsTrue
INVARIANT TwinAutograd
INVARIANT Export
CHECK_DEADLOCK FALSE
