------------------------- MODULE TraceBackwardImpl -------------------------
(***************************************************************************)
(* Binds the IMPLEMENTATION-SHAPED layer of Backward.tla to the code.      *)
(* The harness records, for a call of backward(), the tensor dictionary    *)
(* that leaves each stage of the pipeline (Init, Diagonalize, Jac,         *)
(* Aggregate) and the final .grad; this module steps through the actions   *)
(* DoInit, DoDiagonalize, JacSweep*, JacDone, DoAggregate, AccumulateKey*, *)
(* Finish with the logged dictionaries bound; the hidden iteration orders  *)
(* (ordJ, ordA, order of accumulation) stay existential.                   *)
(* A stage that no action of the implementation layer explains is printed  *)
(* as the last STAGE line missing for that episode: the harness reports    *)
(* DRIFT (never VIOLATION - only the property layer can raise that).       *)
(* Dictionaries are logged as sequences of <<key, value>> pairs.           *)
(***************************************************************************)
EXTENDS Backward, IOUtils, TLCExt

Episodes == JsonDeserialize(IOEnv.TRACE_FILE)
NEp == Len(Episodes)
VARIABLES ep, stage
tvars == <<P, phase, call, grad, d, ordJ, rows, sweeps, pending, ep, stage>>
E == Episodes[ep]
SeqToSet(s) == {s[i] : i \in DOMAIN s}

\* logged dictionary (sequence of [k, v] records) -> function
DictOf(lst) == [k \in {lst[i].k : i \in DOMAIN lst} |-> (CHOOSE i \in DOMAIN lst : lst[i].k = k) ]
MapOf(lst)  == [k \in {lst[i].k : i \in DOMAIN lst} |-> lst[CHOOSE i \in DOMAIN lst : lst[i].k = k].v]

Mark(s) == PrintT(<<"STAGE", ToJson([ep |-> E.ep, stage |-> s])>>)

TInit == Init /\ ep = 1 /\ stage = "load"

Load == /\ ep <= NEp /\ stage = "load"
        /\ P' = E.prog
        /\ call' = [tensors |-> E.tensors, inputs |-> SeqToSet(E.inputs), k |-> E.k, w |-> E.w,
                    pre |-> {}, m |-> Len(E.w)]
        /\ grad' = [l \in {i \in 1..Len(E.prog) : E.prog[i].op = "leaf"} |-> E.grad0[l]]
        /\ d' = EmptyDict /\ ordJ' = <<>> /\ rows' = <<>> /\ sweeps' = <<>> /\ pending' = {}
        /\ phase' = "init" /\ stage' = "run" /\ UNCHANGED ep

\* every implementation-layer action, with the logged dictionary bound at the stage boundaries
TDoInit == DoInit /\ d'.map = MapOf(E.after_init) /\ Mark("Init") /\ UNCHANGED <<ep, stage>>
TDoDiag == DoDiagonalize /\ d'.map = MapOf(E.after_diag) /\ Mark("Diagonalize") /\ UNCHANGED <<ep, stage>>
TSweep  == JacSweep /\ UNCHANGED <<ep, stage>>
TJacDone == JacDone /\ d'.map = MapOf(E.after_jac) /\ sweeps = E.sweeps /\ Mark("Jac") /\ UNCHANGED <<ep, stage>>
TDoAgg  == DoAggregate /\ d'.map = MapOf(E.after_agg) /\ Mark("Aggregate") /\ UNCHANGED <<ep, stage>>
TAcc    == AccumulateKey /\ UNCHANGED <<ep, stage>>
TFinish == /\ Finish
           /\ \A l \in Leaves(P) : grad[l] = E.grad1[l]
           /\ Mark("Accumulate")
           /\ UNCHANGED <<ep, stage>>

NextEpisode == /\ ep <= NEp /\ stage = "run"
               /\ ep' = ep + 1 /\ stage' = "load"
               /\ P' = <<>> /\ phase' = "build" /\ call' = NoCall /\ grad' = <<>> /\ d' = EmptyDict
               /\ ordJ' = <<>> /\ rows' = <<>> /\ sweeps' = <<>> /\ pending' = {}

TDone == /\ ep = NEp + 1 /\ stage = "load"
         /\ PrintT(<<"SUMMARY", ToJson([episodes |-> NEp])>>)
         /\ stage' = "end"
         /\ UNCHANGED <<P, phase, call, grad, d, ordJ, rows, sweeps, pending, ep>>

TNext == Load \/ (stage = "run" /\ (TDoInit \/ TDoDiag \/ TSweep \/ TJacDone \/ TDoAgg \/ TAcc \/ TFinish))
         \/ NextEpisode \/ TDone
TraceSpec == TInit /\ [][TNext]_tvars
=============================================================================
