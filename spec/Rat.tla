-------------------------------- MODULE Rat --------------------------------
(***************************************************************************)
(* Exact rational arithmetic on TLC's 32-bit integers.                     *)
(* A rational is a pair <<num, den>> with den > 0 and gcd(|num|, den) = 1  *)
(* (normalised after every operation, so equality of rationals is equality *)
(* of tuples).  TLC aborts loudly on 32-bit overflow, so an overflow can    *)
(* never pass silently; instance families are chosen to stay below it.     *)
(* JSON form: [num, den].                                                  *)
(***************************************************************************)
EXTENDS Integers, Sequences

Abs(x) == IF x < 0 THEN -x ELSE x
Sgn(x) == IF x < 0 THEN -1 ELSE IF x = 0 THEN 0 ELSE 1

RECURSIVE Gcd(_, _)
Gcd(a, b) == IF b = 0 THEN a ELSE Gcd(b, a % b)        \* a, b >= 0

Norm(n, d) ==      \* d # 0
    LET s == IF d < 0 THEN -1 ELSE 1
        g == Gcd(Abs(n), Abs(d))
    IN  IF n = 0 THEN <<0, 1>> ELSE <<(s * n) \div g, (s * d) \div g>>

R(n)       == <<n, 1>>
Frac(n, d) == Norm(n, d)
Num(q)     == q[1]
Den(q)     == q[2]
RZero      == <<0, 1>>
ROne       == <<1, 1>>

RAdd(p, q) == Norm(p[1] * q[2] + q[1] * p[2], p[2] * q[2])
RNeg(p)    == <<-p[1], p[2]>>
RSub(p, q) == RAdd(p, RNeg(q))
RMul(p, q) == Norm(p[1] * q[1], p[2] * q[2])
RInv(p)    == Norm(p[2], p[1])                         \* p # 0
RDiv(p, q) == RMul(p, RInv(q))                         \* q # 0
RSign(p)   == Sgn(p[1])
RLt(p, q)  == p[1] * q[2] < q[1] * p[2]
RLe(p, q)  == p[1] * q[2] <= q[1] * p[2]
RGt(p, q)  == RLt(q, p)
RGe(p, q)  == RLe(q, p)
RIsZero(p) == p[1] = 0
RMax(p, q) == IF RLt(p, q) THEN q ELSE p
RMin(p, q) == IF RLt(p, q) THEN p ELSE q
RAbs(p)    == <<Abs(p[1]), p[2]>>
IsRat(q)   == q \in Seq(Int) /\ Len(q) = 2 /\ q[2] > 0 /\ Gcd(Abs(q[1]), q[2]) = 1

\* vectors / matrices of rationals (sequences / sequences of rows)
RECURSIVE RSumSeq(_)
RSumSeq(s)       == IF s = <<>> THEN RZero ELSE RAdd(Head(s), RSumSeq(Tail(s)))
RVec(v)          == [i \in 1..Len(v) |-> R(v[i])]                    \* integer vector -> rational
RMat(M)          == [i \in 1..Len(M) |-> RVec(M[i])]
RVAdd(u, v)      == [i \in 1..Len(u) |-> RAdd(u[i], v[i])]
RVSub(u, v)      == [i \in 1..Len(u) |-> RSub(u[i], v[i])]
RVScale(c, u)    == [i \in 1..Len(u) |-> RMul(c, u[i])]
RDot(u, v)       == RSumSeq([i \in 1..Len(u) |-> RMul(u[i], v[i])])
RMatVec(M, v)    == [i \in 1..Len(M) |-> RDot(M[i], v)]
RVecMat(w, M, c) == [j \in 1..c |-> RSumSeq([i \in 1..Len(M) |-> RMul(w[i], M[i][j])])]   \* w^T M
RZeros(n)        == [i \in 1..n |-> RZero]
RUnit(n, j)      == [i \in 1..n |-> IF i = j THEN ROne ELSE RZero]

\* integer Gramian of an integer matrix J (rows J[i]):  G = J J^T
IDot(u, v) == LET F[i \in 0..Len(u)] == IF i = 0 THEN 0 ELSE F[i - 1] + u[i] * v[i] IN F[Len(u)]
Gram(J)    == [i \in 1..Len(J) |-> [j \in 1..Len(J) |-> IDot(J[i], J[j])]]

\* determinant of a rational square matrix (size <= 4) by Laplace expansion along the first row
Minor(M, i, j) == LET n == Len(M) IN
                  [a \in 1..(n - 1) |-> [b \in 1..(n - 1) |->
                      M[IF a < i THEN a ELSE a + 1][IF b < j THEN b ELSE b + 1]]]
RECURSIVE RDet(_)
RDet(M) == IF Len(M) = 0 THEN ROne
           ELSE IF Len(M) = 1 THEN M[1][1]
           ELSE RSumSeq([j \in 1..Len(M) |->
                          RMul(IF j % 2 = 1 THEN M[1][j] ELSE RNeg(M[1][j]), RDet(Minor(M, 1, j)))])

\* Cramer: the solution x of A x = b for a non-singular rational square matrix A
ReplaceCol(A, j, b) == [r \in 1..Len(A) |-> [c \in 1..Len(A) |-> IF c = j THEN b[r] ELSE A[r][c]]]
RSolve(A, b) == LET dt == RDet(A) IN [j \in 1..Len(A) |-> RDiv(RDet(ReplaceCol(A, j, b)), dt)]

\* leading principal minors (Sylvester): positive definiteness of a symmetric rational matrix
Leading(M, n) == [a \in 1..n |-> [b \in 1..n |-> M[a][b]]]
RPosDef(M)    == \A n \in 1..Len(M) : RSign(RDet(Leading(M, n))) > 0
=============================================================================
