SPECIFICATION TraceSpec
INVARIANT TraceConsumed
CHECK_DEADLOCK FALSE
