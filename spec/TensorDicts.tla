----------------------------- MODULE TensorDicts -----------------------------
(***************************************************************************)
(* The five typed tensor dictionaries of torchjd.autojac._transform (plus  *)
(* the untyped base class), as pure operators (no variables).              *)
(*                                                                         *)
(* A tensor shape is a sequence of naturals (<<>> = 0-d).  A dictionary is *)
(* abstracted to the SHAPES of its values: a function key -> shape, where  *)
(* every key has itself a shape given by the operator argument KS(_).      *)
(*                                                                         *)
(* Two layers (DESIGN.md 6):                                               *)
(*   property layer        Valid(T, KS, d)  - the per-type shape           *)
(*                         constraints as the documentation states them;   *)
(*                         Join(s, t) - the most specific common type;     *)
(*                         MutationOutcome - every mutation is rejected;   *)
(*   implementation layer  CreateImpl(T, KS, d) - the checks of            *)
(*                         TensorDict.__init__ in the order the code runs  *)
(*                         them, with the exception class they raise;      *)
(*                         LcaImpl - _least_common_ancestor (MRO scan).    *)
(* MC_TensorDicts checks that the two layers coincide on every dictionary  *)
(* of the bounded universe.                                                *)
(***************************************************************************)
EXTENDS Integers, Sequences, FiniteSets

TDTypes == {"Empty", "Gradients", "Jacobians", "GradientVectors", "JacobianMatrices", "TensorDict"}
FiveTypes == TDTypes \ {"TensorDict"}

RECURSIVE Numel(_)
Numel(sh) == IF sh = <<>> THEN 1 ELSE Head(sh) * Numel(Tail(sh))

SeqRange(s) == {s[i] : i \in DOMAIN s}

\* the universe of keys used by all C14 models, with fixed shapes: a 1-d tensor, a 0-d tensor and a
\* 2-d tensor with a size-1 dimension (a and c have the same number of elements, b a different one)
Keys == {"a", "b", "c"}
KeyShape(k) == CASE k = "a" -> <<2>> [] k = "b" -> <<>> [] OTHER -> <<1, 2>>

\* ------------------------------------------------------------------ the type lattice
\* Empty is a subclass of the four middle types, everything is a TensorDict.
Leq(s, t) == s = t \/ s = "Empty" \/ t = "TensorDict"
CommonTypes(s, t) == {u \in TDTypes : Leq(s, u) /\ Leq(t, u)}
\* property layer: the most specific type common to s and t
Join(s, t) == CHOOSE u \in CommonTypes(s, t) : \A v \in CommonTypes(s, t) : Leq(u, v)

\* implementation layer: first.mro()[:-1] scanned for the first class `second` subclasses
\* (`dict` is in the list too, behind TensorDict, and can never be reached)
Mro(t) == CASE t = "Empty"      -> <<"Empty", "Gradients", "Jacobians", "GradientVectors",
                                     "JacobianMatrices", "TensorDict", "dict">>
            [] t = "TensorDict" -> <<"TensorDict", "dict">>
            [] OTHER            -> <<t, "TensorDict", "dict">>
IsSubclass(s, c) == c \in SeqRange(Mro(s))
LcaImpl(first, second) ==
    LET mro  == Mro(first)
        hits == {i \in DOMAIN mro : IsSubclass(second, mro[i])}
    IN  IF hits = {} THEN "TensorDict"
        ELSE mro[CHOOSE i \in hits : \A j \in hits : i <= j]

\* folding a sequence of types the way _union does (starting from EmptyTensorDict)
RECURSIVE FoldTypes(_, _, _)
FoldTypes(mode, acc, ts) ==
    IF ts = <<>> THEN acc
    ELSE FoldTypes(mode, IF mode = "impl" THEN LcaImpl(acc, Head(ts)) ELSE Join(acc, Head(ts)), Tail(ts))
UnionType(mode, ts) == FoldTypes(mode, "Empty", ts)

\* ------------------------------------------------------------------ shape constraints (property layer)
ValidPair(T, ks, vs) ==
    CASE T = "Gradients"        -> vs = ks
      [] T = "Jacobians"        -> Len(vs) >= 1 /\ Tail(vs) = ks
      [] T = "GradientVectors"  -> Len(vs) = 1 /\ vs[1] = Numel(ks)
      [] T = "JacobianMatrices" -> Len(vs) = 2 /\ vs[2] = Numel(ks)
      [] T = "Empty"            -> FALSE
      [] OTHER                  -> TRUE

SameFirstDim(d) == \A k1, k2 \in DOMAIN d :
                      /\ Len(d[k1]) >= 1 /\ Len(d[k2]) >= 1
                      /\ d[k1][1] = d[k2][1]

Valid(T, KS(_), d) ==
    /\ \A k \in DOMAIN d : ValidPair(T, KS(k), d[k])
    /\ T \in {"Jacobians", "JacobianMatrices"} => SameFirstDim(d)

\* ------------------------------------------------------------------ TensorDict.__init__ (implementation layer)
\* returns "ok" or the class of the exception raised; checks in the order of the code:
\* EmptyTensorDict.__init__ ; _check_dict ; _check_all_pairs
CreateImpl(T, KS(_), d) ==
    IF T = "Empty" THEN (IF DOMAIN d # {} THEN "ValueError" ELSE "ok")
    ELSE IF T \in {"Jacobians", "JacobianMatrices"} /\ \E k \in DOMAIN d : Len(d[k]) = 0
         THEN "IndexError"                                     \* value.shape[0] of a 0-d tensor
    ELSE IF T \in {"Jacobians", "JacobianMatrices"} /\ Cardinality({d[k][1] : k \in DOMAIN d}) > 1
         THEN "ValueError"
    ELSE IF \E k \in DOMAIN d :
              CASE T = "Gradients"        -> d[k] # KS(k)
                [] T = "Jacobians"        -> Tail(d[k]) # KS(k)
                [] T = "GradientVectors"  -> Len(d[k]) # 1 \/ d[k][1] # Numel(KS(k))
                [] T = "JacobianMatrices" -> Len(d[k]) # 2 \/ d[k][2] # Numel(KS(k))
                [] OTHER                  -> FALSE
         THEN "ValueError"
    ELSE "ok"

\* ------------------------------------------------------------------ immutability
\* the mutations the property names; each is rejected and leaves the dictionary as it was
Mutations == {"setitem", "delitem", "update", "pop", "clear"}
\* property-layer transition of an attempted mutation on dictionary d: [outcome, after]
Mutate(op, d) == [outcome |-> "rejected", after |-> d]
=============================================================================
