CONSTANT MaxM = 6
CONSTANT NCols = 3
CONSTANT HSeeds = {1, 2}
CONSTANT NPat = 8
CONSTANT Kinds = {"tm", "krum"}
CONSTANT TSeeds = {5001, 5002, 5003}
CONSTANT ManyM = {26, 33, 40, 48}
CONSTANT ManySteps = 3
CONSTANT HistM = {}
CONSTANT HistLen = 0
CONSTANT HistPats = {}
SPECIFICATION Spec
INVARIANT TypeOK
INVARIANT RejectIsTerminal
INVARIANT TMImplIsProp
INVARIANT TMRobust
INVARIANT KrumChecks
INVARIANT KrumImplIsProp
INVARIANT OffsetInvariant
INVARIANT Export
CHECK_DEADLOCK FALSE
