CONSTANT MaxM = 6
CONSTANT NCols = 3
CONSTANT HSeeds = {1, 2}
CONSTANT NPat = 8
CONSTANT Kinds = {"tm", "krum"}
SPECIFICATION Spec
INVARIANT TypeOK
INVARIANT RejectIsTerminal
INVARIANT TMImplIsProp
INVARIANT TMRobust
INVARIANT KrumChecks
INVARIANT KrumImplIsProp
INVARIANT Export
CHECK_DEADLOCK FALSE
