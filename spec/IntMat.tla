------------------------------- MODULE IntMat -------------------------------
(* Exact integer vectors (sequences) and matrices (sequences of rows).      *)
(* A matrix with zero rows is <<>>; its column count is then taken from the *)
(* context.                                                                  *)
EXTENDS Integers, Sequences, FiniteSets

RECURSIVE SumSeq(_)
SumSeq(s) == IF s = <<>> THEN 0 ELSE Head(s) + SumSeq(Tail(s))

Zeros(n)        == [i \in 1..n |-> 0]
Ones(n)         == [i \in 1..n |-> 1]
Unit(n, j)      == [i \in 1..n |-> IF i = j THEN 1 ELSE 0]
VAdd(u, v)      == [i \in 1..Len(u) |-> u[i] + v[i]]
VSub(u, v)      == [i \in 1..Len(u) |-> u[i] - v[i]]
VScale(c, u)    == [i \in 1..Len(u) |-> c * u[i]]
VMul(u, v)      == [i \in 1..Len(u) |-> u[i] * v[i]]
Dot(u, v)       == SumSeq([i \in 1..Len(u) |-> u[i] * v[i]])
Slice(u, a, n)  == [i \in 1..n |-> u[a + i - 1]]          \* n entries starting at position a

ZeroMat(r, c)   == [i \in 1..r |-> Zeros(c)]
Identity(n)     == [i \in 1..n |-> Unit(n, i)]
NRows(M)        == Len(M)
Col(M, j)       == [i \in 1..Len(M) |-> M[i][j]]
Transpose(M, c) == [j \in 1..c |-> Col(M, j)]              \* c = number of columns of M
MatVec(M, v)    == [i \in 1..Len(M) |-> Dot(M[i], v)]     \* M v
VecMat(w, M, c) == [j \in 1..c |-> SumSeq([i \in 1..Len(M) |-> w[i] * M[i][j]])]   \* w^T M
MatMul(A, B, c) == [i \in 1..Len(A) |-> VecMat(A[i], B, c)]     \* A B, c = columns of B
MAdd(A, B)      == [i \in 1..Len(A) |-> VAdd(A[i], B[i])]
MScale(k, A)    == [i \in 1..Len(A) |-> VScale(k, A[i])]
RowScale(d, A)  == [i \in 1..Len(A) |-> VScale(d[i], A[i])]     \* diag(d) A
HCat(A, B)      == [i \in 1..Len(A) |-> A[i] \o B[i]]           \* [A B]
VCat(A, B)      == A \o B
ColSlice(M, a, n) == [i \in 1..Len(M) |-> Slice(M[i], a, n)]

\* prefix sums: Offsets(<<2,3,1>>) = <<0,2,5>>
RECURSIVE Offsets(_)
Offsets(sizes) == IF sizes = <<>> THEN <<>>
                  ELSE <<0>> \o [i \in 1..(Len(sizes) - 1) |-> sizes[1] + Offsets(Tail(sizes))[i]]

\* all permutations of a finite set, as sequences
RECURSIVE PermSeqs(_)
PermSeqs(S) == IF S = {} THEN {<<>>}
               ELSE UNION {{<<x>> \o p : p \in PermSeqs(S \ {x})} : x \in S}

Range(s) == {s[i] : i \in DOMAIN s}
=============================================================================
