--------------------------- MODULE TraceBackward ---------------------------
(***************************************************************************)
(* Trace validation of recorded backward() calls against Backward.tla.     *)
(* One episode = program + call + observations at the boundary:            *)
(*   grad0  - .grad of every node before the call (<<>> = None)            *)
(*   matrix - the matrix handed to the aggregator                          *)
(*   grad1  - .grad of every node after the call                           *)
(* Events:  Load ; Agg (matrix must be TrueJac under SOME order of the     *)
(* inputs - hidden choice left existential) ; Ret (= the property-layer    *)
(* action PropCall with the logged .grad values bound).                    *)
(***************************************************************************)
EXTENDS Backward, IOUtils, TLCExt

Episodes == JsonDeserialize(IOEnv.TRACE_FILE)
NEp == Len(Episodes)

VARIABLES ep, stage, nAcc, nRej
tvars == <<P, phase, call, grad, d, ordJ, rows, sweeps, pending, ep, stage, nAcc, nRej>>

E == Episodes[ep]

SeqToSet(s) == {s[i] : i \in DOMAIN s}

TInit == /\ Init /\ ep = 1 /\ stage = "load" /\ nAcc = 0 /\ nRej = 0

Load == /\ ep <= NEp /\ stage = "load"
        /\ P' = E.prog
        /\ call' = [tensors |-> E.tensors, inputs |-> SeqToSet(E.inputs), k |-> E.k, w |-> E.w,
                    pre |-> {l \in SeqToSet(E.inputs) : E.grad0[l] # <<>>}, m |-> Len(E.w)]
        /\ grad' = [l \in {i \in 1..Len(E.prog) : E.prog[i].op = "leaf"} |-> E.grad0[l]]
        /\ phase' = "init" /\ stage' = "agg"
        /\ UNCHANGED <<d, ordJ, rows, sweeps, pending, ep, nAcc, nRej>>

NextEp(ok) == /\ ep' = ep + 1 /\ stage' = "load"
              /\ nAcc' = nAcc + (IF ok THEN 1 ELSE 0) /\ nRej' = nRej + (IF ok THEN 0 ELSE 1)
              /\ phase' = "build"

Reject(clause) == /\ PrintT(<<"REJECT", ToJson([ep |-> E.ep, clause |-> clause])>>)
                  /\ NextEp(FALSE)
                  /\ UNCHANGED <<P, call, grad, d, ordJ, rows, sweeps, pending>>

\* the pre-existing gradients of the episode need not be PreGrad(..): Expected is re-stated with
\* the logged grad0
TExpected(l) == IF l \in call.inputs THEN Plus(E.grad0[l], Update(l)) ELSE E.grad0[l]

MatrixOK == \E o \in PermSeqs(call.inputs) : E.matrix = TrueJac(P, call.tensors, o)

TAgg == /\ ep <= NEp /\ stage = "agg" /\ MatrixOK
        /\ stage' = "ret"
        /\ UNCHANGED <<P, phase, call, grad, d, ordJ, rows, sweeps, pending, ep, nAcc, nRej>>
TAggReject == /\ ep <= NEp /\ stage = "agg" /\ ~MatrixOK
              /\ Reject("matrix_handed_to_aggregator_is_not_the_true_jacobian")

RetOK == \A l \in Leaves(P) : E.grad1[l] = TExpected(l)
FirstBad == CHOOSE l \in Leaves(P) : E.grad1[l] # TExpected(l)

TRet == /\ ep <= NEp /\ stage = "ret" /\ RetOK
        /\ grad' = [l \in Leaves(P) |-> E.grad1[l]]
        /\ NextEp(TRUE)
        /\ UNCHANGED <<P, call, d, ordJ, rows, sweeps, pending>>
TRetReject == /\ ep <= NEp /\ stage = "ret" /\ ~RetOK
              /\ PrintT(<<"DETAIL", ToJson([ep |-> E.ep, leaf |-> FirstBad, expected |-> TExpected(FirstBad),
                                             got |-> E.grad1[FirstBad]])>>)
              /\ Reject(IF FirstBad \in call.inputs THEN "deposit_is_not_own_slice_of_aggregated_true_jacobian"
                        ELSE "grad_of_non_requested_leaf_changed")

TDone == /\ ep = NEp + 1 /\ stage = "load"
         /\ PrintT(<<"SUMMARY", ToJson([episodes |-> NEp, accepted |-> nAcc, rejected |-> nRej])>>)
         /\ stage' = "end"
         /\ UNCHANGED <<P, phase, call, grad, d, ordJ, rows, sweeps, pending, ep, nAcc, nRej>>

TNext == Load \/ TAgg \/ TAggReject \/ TRet \/ TRetReject \/ TDone
TraceSpec == TInit /\ [][TNext]_tvars
TraceConsumed == (stage = "end") => (nAcc + nRej = NEp)
=============================================================================
