CONSTANT RowCounts = {3, 4, 5}
CONSTANT NGen = 8
CONSTANT MaxSteps = 4
SPECIFICATION Spec
INVARIANT TypeOK
INVARIANT Consistent
INVARIANT SubsetLaw
INVARIANT LawC10
INVARIANT Export
CHECK_DEADLOCK FALSE
