CONSTANT Mode = "trace"
CONSTANT MaxSteps = 64
CONSTANT MaxZero = 3
CONSTANT RowCounts = {1}
CONSTANT PadCounts = {}
CONSTANT NGen = 0
SPECIFICATION TraceSpec
INVARIANT TraceConsistent
INVARIANT TraceConsumed
CHECK_DEADLOCK FALSE
