----------------------------- MODULE AggSymMany -----------------------------
(***************************************************************************)
(* MANY-ROW instances with a LARGE COMMON COMPONENT for the metamorphic     *)
(* laws C08 (column permutations, zero columns, orthogonal Q) and C10 (row  *)
(* permutations): more objectives / workers than any blocked or            *)
(* matrix-multiplication based distance kernel treats like a small matrix   *)
(* (m in ManyM, 27 .. 40 rows), rows = common offset + small spread.         *)
(*                                                                         *)
(* Numbers.  The matrix is  J = (2^x O + S) / den :  S the m x n SPREAD     *)
(* (integers -3..3 in the base instance), O a ROW VECTOR of small integer   *)
(* multipliers (the same offset 2^x O_c in every row), 2^x one of the       *)
(* exponents of OffsetCfgs and NEVER multiplied out (TLC has 32-bit         *)
(* integers; 2^17 O_c + S_rc is exact in float32, 2^39 O_c + S_rc in         *)
(* float64), den in {1, 2}.  Everything Krum looks at is a function of the  *)
(* DIFFERENCES of rows, in which the offset cancels exactly (DiffDist); the *)
(* expansion |x|^2 + |y|^2 - 2<x,y> is the same number in exact arithmetic  *)
(* (OffsetInvariant, checked on a materialised small offset).  Hence the    *)
(* scores, the selection and the ambiguity flag are those of the spread,    *)
(* decided exactly with the integer square-root brackets of SymAgg plus     *)
(* the rounding margin of a float32 score (Margin, as in Robust.tla).       *)
(* TrimmedMean sorts every column (the offset shifts a column as a whole),  *)
(* Mean is linear: value = offset part O/den + value on the spread.          *)
(*                                                                         *)
(* ACTIONS (generators; all words of length <= MaxSteps):                    *)
(*   rows:  Rot (cyclic shift), Rev (reversal), Riffle (perfect shuffle) -  *)
(*          they generate permutations that move EVERY row; m! is out of    *)
(*          reach for m >= 27                                                *)
(*   cols:  SwapAdj(a), NegCol(a), Hadamard(1..4)/2, AppendZero, and        *)
(*          PadZero(k, layout) (k zero columns appended / prepended /       *)
(*          interleaved, materialised by the replay)                         *)
(* INVARIANTS: Consistent, DistInvariant (distance matrix = permuted base   *)
(* distance matrix), OffsetInvariant, LawMany (scores, selection, ambiguity *)
(* and the values of Krum / TrimmedMean / Mean transform as C08 / C10 say), *)
(* Export (scenario with the expected selection and values).                *)
(***************************************************************************)
EXTENDS SymAgg, Json

CONSTANTS Mode,       \* "rows" | "cols"
          ManyM,      \* row counts (each > 25)
          Seeds,      \* seeds of the spread matrices
          MaxSteps,   \* length of the generator words
          PadCounts   \* zero-column counts offered to PadZero (cols)

NC0 == 4                                   \* columns of the base instances
MaxD == 36 * 8                             \* largest squared distance of two spread rows (n <= 8, |entries| <= 3 ... 6)

VARIABLES base,     \* [id, m, n, S, O]
          bk,       \* Krum data of the base instance (computed once): [D, sc]
          rp, Q, den,
          S, O,     \* transformed spread (m x n) and offset multipliers (n), numerators over den
          pad,      \* [cnt, lay]: zero columns of the presentation (not materialised)
          steps
vars == <<base, bk, rp, Q, den, S, O, pad, steps>>

M  == base.m
N0 == base.n
N  == Len(O)
NoPad == [cnt |-> 0, lay |-> "none", wk |-> 0]

-----------------------------------------------------------------------------
(* instance family                                                         *)
SpreadE(s, r, c) == (((s * 7919 + r * 1009 + c * 131 + r * c * 17 + s * r * 31 + s * c * 57 + r * r * 53
                       + c * c * r * 29) % 1031) % 7) - 3
OffMul(s, c)     == (IF (s + c) % 2 = 0 THEN 1 ELSE 0 - 1) * (((s + 2 * c) % 3) + 1)       \* +-1, +-2, +-3
MkMany(s, m)     == [id |-> 1000 * m + s, m |-> m, n |-> NC0,
                     S |-> [r \in 1..m |-> [c \in 1..NC0 |-> SpreadE(s, r, c)]],
                     O |-> [c \in 1..NC0 |-> OffMul(s, c)]]
Instances == {MkMany(s, m) : s \in Seeds, m \in ManyM}

\* the offsets on which every scenario is replayed: exponent x of 2^x O, and the dtypes in which every entry
\* (2^x O_c + S_rc) / den, every sum of <= 40 of them and every difference of two of them is exact
OffsetCfgs == << [on |-> FALSE, exp |-> 0,  dtypes |-> <<"float32", "float64">>],
                 [on |-> TRUE,  exp |-> 17, dtypes |-> <<"float32", "float64">>],
                 [on |-> TRUE,  exp |-> 39, dtypes |-> <<"float64">>] >>

-----------------------------------------------------------------------------
(* distances, scores with brackets, selection with the float margin         *)

DiffDist(X) == TLCEval([i \in 1..Len(X) |-> TLCEval([j \in 1..Len(X) |->
                  LET v == VSub(X[i], X[j]) IN IDot(v, v)])])

LoT == [v \in 0..MaxD |-> SymLo(v)]        \* constant tables: 256 sqrt(v) bracketed by integers
HiT == [v \in 0..MaxD |-> SymHi(v)]

\* per row the non-self squared distances in increasing order and the prefix sums of their brackets:
\* the score of row i for n_byzantine = f is the prefix sum of length m - f - 2
ScoreData(D) ==
    LET m   == Len(D)
    IN  TLCEval([i \in 1..m |-> SortSeq([q \in 1..(m - 1) |-> D[i][IF q < i THEN q ELSE q + 1]], LAMBDA a, b : a < b)])
ScoresOf(sd, m, f) == [lo |-> TLCEval([i \in 1..m |-> SumSeq([q \in 1..(m - f - 2) |-> LoT[sd[i][q]]])]),
                       hi |-> TLCEval([i \in 1..m |-> SumSeq([q \in 1..(m - f - 2) |-> HiT[sd[i][q]]])])]

\* score i is DEFINITELY below score j, also when both are computed in floating point (float32: a distance over n
\* columns has relative error <= (n/2 + 3) u, the sum of nc of them (nc - 1) u more, u = 2^-24; g = nc + n + 3 and
\* a computed score is within g 2^-23 of the exact one - twice the bound; Robust.tla, Margin)
Margin(g, x) == (g * x + 8388607) \div 8388608
Below(sc, g, i, j) == sc.hi[i] + Margin(g, sc.hi[i] + sc.hi[j]) < sc.lo[j]
\* number of rows that are NOT definitely above row i (independent of n_selected)
NotAbove(sc, g) == LET m == Len(sc.lo)
                   IN  TLCEval([i \in 1..m |-> Cardinality({j \in (1..m) \ {i} : ~Below(sc, g, i, j)})])
SelectK(sc, g, nb, k) ==
    LET m  == Len(sc.lo)
        S0 == {i \in 1..m : nb[i] <= k - 1}
        ok == Cardinality(S0) = k /\ \A i \in S0, j \in (1..m) \ S0 : Below(sc, g, i, j)
    IN  [amb |-> ~ok, sel |-> IF ok THEN S0 ELSE {}]

FSet(m)  == {0, 2, m \div 4, m \div 2, m - 3}
KSet(m)  == {1, 2, 3, 5}
KCfgs(m) == FSet(m) \X KSet(m)
GOfN(m, f, n) == (m - f - 2) + n + 3
GOf(m, f) == GOfN(m, f, NC0)                \* zero columns and exact zeros add no rounding
\* scores and selections for every configuration (f, k) of the family, from the prefix sums of a distance matrix
KrumAll(sd, m) == TLCEval([f \in FSet(m) |->
                     LET sc == ScoresOf(sd, m, f)
                         nb == NotAbove(sc, GOf(m, f))
                     IN  [sc |-> sc, sel |-> TLCEval([k \in KSet(m) |-> SelectK(sc, GOf(m, f), nb, k)])]])
BSet(m)  == {1, m \div 4, (m - 1) \div 2}
\* TrimmedMean(b) for every b of the family: every column sorted once (value ties do not change the value)
ManyTM(X, d, n) ==
    LET m   == Len(X)
        col == TLCEval([j \in 1..n |-> SortSeq(Col(X, j), LAMBDA a, b : a < b)])
    IN  TLCEval([b \in BSet(m) |-> [j \in 1..n |-> Frac(SumSeq([k \in 1..(m - 2 * b) |-> col[j][b + k]]), (m - 2 * b) * d)]])

-----------------------------------------------------------------------------
Init == /\ base \in Instances
        /\ bk = LET D == DiffDist(base.S) IN [D |-> D, kr |-> KrumAll(ScoreData(D), base.m),
                                                  tm |-> ManyTM(base.S, 1, base.n), mean |-> SymMean(base.S, 1, base.n)]
        /\ rp = SymIdPerm(base.m) /\ Q = Identity(base.n) /\ den = 1
        /\ S = base.S /\ O = base.O /\ pad = NoPad /\ steps = 0

Tick == steps < MaxSteps /\ pad = NoPad /\ steps' = steps + 1
RowsOn == Mode = "rows"
ColsOn == Mode = "cols"

RowPerm(p) == /\ RowsOn /\ Tick
              /\ rp' = SymPerm(rp, p) /\ S' = SymPerm(S, p)
              /\ UNCHANGED <<base, bk, Q, den, O, pad>>
RotP     == [i \in 1..M |-> (i % M) + 1]
RevP     == [i \in 1..M |-> M + 1 - i]
Half     == (M + 1) \div 2
RiffleP  == [i \in 1..M |-> IF i % 2 = 1 THEN (i + 1) \div 2 ELSE Half + (i \div 2)]     \* 1, h+1, 2, h+2, ...
DoRot    == RowsOn /\ RowPerm(RotP)
DoRev    == RowsOn /\ RowPerm(RevP)
DoRiffle == RowsOn /\ RowPerm(RiffleP)

ColSwapM(A, a, b) == [i \in 1..Len(A) |-> SymSwap(A[i], a, b)]
ColNegM(A, a)     == [i \in 1..Len(A) |-> [j \in 1..Len(A[i]) |-> IF j = a THEN 0 - A[i][j] ELSE A[i][j]]]
H4 == << <<1, 1, 1, 1>>, <<1, -1, 1, -1>>, <<1, 1, -1, -1>>, <<1, -1, -1, 1>> >>
ColHadM(A) == [i \in 1..Len(A) |-> [j \in 1..Len(A[i]) |->
                 IF j <= 4 THEN SumSeq([a \in 1..4 |-> A[i][a] * H4[a][j]]) ELSE 2 * A[i][j]]]
ColMap(F(_)) == /\ Q' = F(Q) /\ S' = F(S) /\ O' = F(<<O>>)[1]
SwapAdj(a) == /\ ColsOn /\ Tick /\ a \in 1..(N - 1)
              /\ LET F(A) == ColSwapM(A, a, a + 1) IN ColMap(F)
              /\ UNCHANGED <<base, bk, rp, den, pad>>
NegCol(a)  == /\ ColsOn /\ Tick /\ a \in 1..N
              /\ LET F(A) == ColNegM(A, a) IN ColMap(F)
              /\ UNCHANGED <<base, bk, rp, den, pad>>
Hadamard   == /\ ColsOn /\ Tick /\ den = 1 /\ N >= 4
              /\ LET F(A) == ColHadM(A) IN ColMap(F)
              /\ den' = 2
              /\ UNCHANGED <<base, bk, rp, pad>>
AppendZero == /\ ColsOn /\ Tick /\ N = N0
              /\ LET F(A) == [i \in 1..Len(A) |-> Append(A[i], 0)] IN ColMap(F)
              /\ UNCHANGED <<base, bk, rp, den, pad>>
PadLays == {"append", "interleave", "prepend"}
PadZero(k, lay) == /\ ColsOn /\ Tick /\ k >= 1 /\ lay \in PadLays
                   /\ pad' = [cnt |-> k, lay |-> lay, wk |-> 0]
                   /\ UNCHANGED <<base, bk, rp, Q, den, S, O>>
ColHash  == base.id + 3 * steps + SumSeq([i \in 1..N0 |-> SumSeq([j \in 1..N |-> (2 * i + 3 * j) * Q[i][j] * Q[i][j]])])
DoSwapAdj == \E a \in 1..(N - 1) : SwapAdj(a)
DoNegCol  == ColsOn /\ NegCol((ColHash % N) + 1)               \* one column per state (rotating with the state)
DoPadZero == ColsOn /\ \E k \in PadCounts : PadZero(k, <<"append", "interleave", "prepend">>[((ColHash + k) % 3) + 1])

Next == DoRot \/ DoRev \/ DoRiffle \/ DoSwapAdj \/ DoNegCol \/ Hadamard \/ AppendZero \/ DoPadZero
Spec == Init /\ [][Next]_vars

-----------------------------------------------------------------------------
IdN0 == [i \in 1..N0 |-> [j \in 1..N0 |-> IF i = j THEN den * den ELSE 0]]
TypeOK == /\ SymIsPerm(rp, M) /\ den \in {1, 2} /\ steps \in 0..MaxSteps
          /\ Len(S) = M /\ \A i \in 1..M : Len(S[i]) = N
          /\ \A m \in ManyM : m > 25
Consistent == /\ S = MatMul(SymPerm(base.S, rp), Q, N)
              /\ O = VecMat(base.O, Q, N)
              /\ Gram(Q) = IdN0

DNow == LET D == DiffDist(S) IN [i \in 1..M |-> [j \in 1..M |-> D[i][j] \div (den * den)]]
DistInvariant == LET D == DiffDist(S)
                 IN  \A i, j \in 1..M : D[i][j] = den * den * bk.D[rp[i]][rp[j]] /\ bk.D[rp[i]][rp[j]] <= MaxD

\* the common offset cancels in every difference of two rows, and the expansion through the Gramian is the same
\* integer: materialised with the small factor 5 in place of 2^x
OffsetInvariant ==
    LET X == [i \in 1..M |-> [j \in 1..N |-> 5 * O[j] + S[i][j]]]
    IN  /\ DiffDist(X) = DiffDist(S)
        /\ SymSqDist(Gram(X)) = DiffDist(S)

RQ == [i \in 1..N0 |-> [j \in 1..N |-> Frac(Q[i][j], den)]]
TimesQ(x) == RVecMat(x, RQ, N)
QIsColPerm == den = 1 /\ \A i \in 1..N0 : \A j \in 1..N : Q[i][j] \in {0, 1}
Sp0 == SymPerm(base.S, rp)                   \* row-permuted base spread (columns of the base)
S0Q == MatMul(base.S, Q, N)                  \* column-transformed spread, rows in base order

\* everything that is computed from the transformed matrix, once per state
NowData == [kr |-> KrumAll(ScoreData(DNow), M), tm |-> IF QIsColPerm THEN ManyTM(S, den, N) ELSE <<>>,
            mean |-> SymMean(S, den, N)]
LawOn(nd) ==
    /\ \A f \in FSet(M) :
          LET s0 == bk.kr[f].sc
              s1 == nd.kr[f].sc
          IN  /\ s1 = [lo |-> SymPerm(s0.lo, rp), hi |-> SymPerm(s0.hi, rp)]
              /\ \A k \in KSet(M) :
                    LET k0 == bk.kr[f].sel[k]
                        k1 == nd.kr[f].sel[k]
                    IN  /\ k1.amb = k0.amb
                        /\ ~k0.amb => /\ k1.sel = {i \in 1..M : rp[i] \in k0.sel}
                                      /\ SymKrumValue(k1.sel, k, S, den, N) = SymKrumValue(k0.sel, k, S0Q, den, N)
                                      /\ SymKrumValue(k1.sel, k, S, den, N) = TimesQ(SymKrumValue(k1.sel, k, Sp0, 1, N0))
    /\ nd.mean = TimesQ(bk.mean)
    /\ QIsColPerm => \A b \in BSet(M) : nd.tm[b] = TimesQ(bk.tm[b])

-----------------------------------------------------------------------------
(* zero columns of the presentation (positions as in AggSymmetry!PPos)     *)
PPos(j, nn, k, lay) == IF lay = "interleave" THEN j + ((j - 1) * k) \div nn
                       ELSE IF lay = "prepend" THEN j + k ELSE j
PadPosSeq == [q \in 1..(N + 1) |-> PPos(IF q <= N THEN q ELSE N, N, pad.cnt, pad.lay)]
PadLaw == \A q \in 1..N : /\ PadPosSeq[q] \in 1..(N + pad.cnt)
                           /\ (q > 1 => PadPosSeq[q - 1] < PadPosSeq[q])

-----------------------------------------------------------------------------
ExpKrum(kr) ==
    LET cfgs == SymSeqOf({fk[1] * 10 + fk[2] : fk \in KCfgs(M)})
    IN  [q \in 1..Len(cfgs) |->
           LET f == cfgs[q] \div 10
               k == cfgs[q] % 10
               r == kr[f].sel[k]
           IN  [f |-> f, k |-> k, amb |-> r.amb, sel |-> SymSeqOf(r.sel),
                val |-> IF r.amb THEN <<>> ELSE SymKrumValue(r.sel, k, S, den, N)]]
ExpTM(tm) == LET bs == SymSeqOf(BSet(M))
             IN  [q \in 1..Len(bs) |-> [b |-> bs[q], val |-> IF QIsColPerm THEN tm[bs[q]] ELSE <<>>]]

Scenario(nd) ==
    [id |-> base.id, mode |-> Mode, m |-> M, n0 |-> N0, n |-> N, steps |-> steps,
     S0 |-> base.S, O0 |-> base.O, rp |-> rp, Q |-> Q, den |-> den, S |-> S, O |-> O,
     pad |-> pad, padpos |-> PadPosSeq, offs |-> OffsetCfgs, colperm |-> QIsColPerm,
     krum |-> ExpKrum(nd.kr), tm |-> ExpTM(nd.tm), mean |-> nd.mean]
\* the law and the export share the data of the state (one evaluation per state)
LawMany == LET nd == NowData IN LawOn(nd) /\ PrintT(<<"SCN", ToJson(Scenario(nd))>>)
=============================================================================
