------------------------------ MODULE Programs ------------------------------
(***************************************************************************)
(* The bounded universe of autograd programs explored exhaustively by TLC: *)
(* leaves first (drawn from LeafMenu, in non-decreasing menu order, so     *)
(* that permuted copies of one program are not explored twice), then op    *)
(* nodes (any well-formed extension over the nodes built so far).          *)
(***************************************************************************)
EXTENDS Autograd

Lf(sz, v, r) == [op |-> "leaf", size |-> sz, val |-> v, rg |-> r]

LeafMenu == <<
    Lf(1, <<2>>, TRUE),
    Lf(2, <<1, -2>>, TRUE),
    Lf(2, <<3, 2>>, TRUE),
    Lf(4, <<1, 2, -1, 3>>, TRUE),
    Lf(2, <<-1, 2>>, FALSE),
    Lf(1, <<-3>>, FALSE) >>

\* constant integer matrices by input size (asymmetric on purpose)
LinMenu(n) ==
    CASE n = 1 -> { <<<<2>>>>, <<<<1>>, <<-1>>>> }
      [] n = 2 -> { <<<<1, -1>>>>, <<<<1, 2>>, <<0, -1>>>>, <<<<2, 0>>, <<1, 1>>, <<0, -3>>>> }
      [] n = 3 -> { <<<<1, -1, 2>>>>, <<<<1, 0, 1>>, <<0, 2, -1>>>> }
      [] n = 4 -> { <<<<1, 0, 2, -1>>>>, <<<<1, 0, -1, 0>>, <<0, 2, 0, 1>>>> }
      [] OTHER -> { <<[i \in 1..n |-> IF i % 2 = 1 THEN 1 ELSE -1]>> }
ScaleMenu == {-2, 3}

MaxSize == 6       \* largest flat size of an intermediate tensor

LeafIndexOf(nd) == CHOOSE i \in 1..Len(LeafMenu) : LeafMenu[i] = nd

\* leaves that may be appended to a program consisting of leaves only
LeafExtensions(P) ==
    LET lo == IF P = <<>> THEN 1 ELSE LeafIndexOf(P[Len(P)])
    IN  {LeafMenu[i] : i \in lo..Len(LeafMenu)}

\* op nodes that may be appended
OpExtensions(P) ==
    LET n  == Len(P)
        sz == Sizes(P)
    IN  UNION { ( {[op |-> "lin", a |-> a, mat |-> M] : M \in LinMenu(sz[a])}
                  \cup {[op |-> "scale", a |-> a, c |-> c] : c \in ScaleMenu}
                  \cup {[op |-> "detach", a |-> a]} ) : a \in 1..n }
        \cup { [op |-> o, a |-> a, b |-> b] : o \in {"add", "mul"}, a \in 1..n, b \in 1..n }
        \cup { [op |-> "cat", a |-> a, b |-> b] : a \in 1..n, b \in 1..n }

OkExtension(P, nd) ==
    LET sz == Sizes(P) IN
    CASE nd.op \in {"add", "mul"} -> /\ nd.a <= nd.b          \* commutative: canonical order
                                     /\ (sz[nd.a] = sz[nd.b] \/ sz[nd.a] = 1 \/ sz[nd.b] = 1)
      [] nd.op = "cat"            -> sz[nd.a] + sz[nd.b] <= MaxSize
      [] nd.op = "detach"         -> P[nd.a].op # "detach"
      [] OTHER                    -> TRUE

NumLeaves(P) == Cardinality(Leaves(P))
NumOps(P)    == Len(P) - NumLeaves(P)
OnlyLeaves(P) == NumOps(P) = 0

\* nodes that can be differentiated: non-leaf and requiring grad
Differentiable(P) == {i \in 1..Len(P) : P[i].op # "leaf" /\ RG(P)[i]}
RGLeaves(P)       == {i \in Leaves(P) : P[i].rg}

\* every node is used by a later node or is differentiable output candidate: prune dead programs
Used(P, i) == \E j \in (i + 1)..Len(P) : i \in Range(Args(P[j]))
=============================================================================
