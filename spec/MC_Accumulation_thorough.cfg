CONSTANT MaxLen = 4
SPECIFICATION Spec
INVARIANT Distinct
INVARIANT NoneIffNoStore
INVARIANT RepeatAccumulates
INVARIANT ExportInv
INVARIANT ExportStatic
PROPERTY ValuesUntouched
PROPERTY CallDiscipline
CHECK_DEADLOCK FALSE
