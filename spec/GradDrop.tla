------------------------------ MODULE GradDrop ------------------------------
(***************************************************************************)
(* GradDrop (lines 10-15 of Algorithm 1 of "Just Pick a Sign") on exact    *)
(* integer matrices with rational leak vectors.                            *)
(*                                                                         *)
(* Hidden choice: one uniform number U_c per column.  What matters of it   *)
(* is only the SIGN CHOICE  pos (f(P_c) > U_c)  |  neg (f(P_c) < U_c),     *)
(* P_c = 1/2 (1 + Sum_i J_ic / Sum_i |J_ic|) the positive sign purity; an  *)
(* all-zero column has no purity (0/0) and keeps nothing ("none").         *)
(*                                                                         *)
(* PROPERTY LAYER (C18, GradDrop clause): every coordinate of the output   *)
(* is the sum of either the positive or the negative entries of its        *)
(* column plus the leaked share leak_i * J_ic of the other entries         *)
(* (CoordPos / CoordNeg); which of the two is reachable is decided by      *)
(* f(P_c) against the range [0,1) of U_c.                                  *)
(* IMPLEMENTATION-SHAPED LAYER: the row loop of GradDrop.forward,          *)
(* vector += (leak_i + (1 - leak_i) * M_i) * J_i, one step per row, with   *)
(* the mask M_i computed from the sign choice.                             *)
(* TLC checks Impl = Property for every matrix, leak vector, f and choice, *)
(* and exports every terminal state as a scenario.                         *)
(* CALL HISTORIES: Recall starts a further call on the same object; it     *)
(* leads back to an initial state, i.e. the object carries nothing from    *)
(* one call to the next but its configuration, and LeakImmutable says the  *)
(* configuration (leak, f) is never changed by a call.  So the expected    *)
(* coordinates of a call are those of its (J, leak, f, choice) alone,      *)
(* whatever was aggregated before - in particular whatever the dtype of    *)
(* the earlier matrices was.  DtypeHistories lists the dtype sequences the *)
(* replay takes ONE object through (the leak being given in float64), and  *)
(* AllowUnits the derived allowance of a coordinate per dtype.  Leak mode  *)
(* "nd" adds leaks that are not dyadic (1/3, 2/7, 7/10): exact rationals   *)
(* here, not representable in any binary float format.                     *)
(***************************************************************************)
EXTENDS Integers, Sequences, FiniteSets, TLC, Json, IOUtils, Rat, IntMat

CONSTANTS Shapes,          \* family: set of codes 100 m + 10 n + e: all m x n matrices with entries -e..e
          LeakMode,        \* "full": leak in {0,1/4,1/2,1}^m   "ends": {0,1/4,1}^m   "nd": {0,1/3,2/7,7/10,1}^m
          FKinds,          \* subset of {"id", "sq", "half"}: f(P) = P | P^2 | (1+P)/2  (all increasing)
          SampleMod, SamplePick

MatSet(mm, nn, ee) == [1..mm -> [1..nn -> (0 - ee)..ee]]
Family     == UNION {MatSet(sh \div 100, (sh \div 10) % 10, sh % 10) : sh \in Shapes}
LeakVals   == IF LeakMode = "full" THEN {<<0, 1>>, <<1, 4>>, <<1, 2>>, <<1, 1>>}
              ELSE IF LeakMode = "nd" THEN {<<0, 1>>, <<1, 3>>, <<2, 7>>, <<7, 10>>, <<1, 1>>}
              ELSE {<<0, 1>>, <<1, 4>>, <<1, 1>>}
Dyadic(q)  == q[2] \in {1, 2, 4, 8, 16}
Choices    == {"pos", "neg", "none"}

-----------------------------------------------------------------------------
(* Purity and reachable sign choices                                       *)

ColSum(JJ, c)    == SumSeq([r \in 1..Len(JJ) |-> JJ[r][c]])
ColAbsSum(JJ, c) == SumSeq([r \in 1..Len(JJ) |-> Abs(JJ[r][c])])
ZeroCol(JJ, c)   == ColAbsSum(JJ, c) = 0
Purity(JJ, c)    == RMul(Frac(1, 2), RAdd(ROne, Frac(ColSum(JJ, c), ColAbsSum(JJ, c))))   \* non-zero column
ApplyF(fk, p)    == IF fk = "id" THEN p
                    ELSE IF fk = "sq" THEN RMul(p, p)
                    ELSE RMul(Frac(1, 2), RAdd(ROne, p))
FP(JJ, fk, c)    == ApplyF(fk, Purity(JJ, c))

\* U_c ranges over [0, 1):  pos needs some U < fP, neg needs some U > fP
Reachable(JJ, fk, c) ==
    IF ZeroCol(JJ, c) THEN {"none"}
    ELSE (IF RSign(FP(JJ, fk, c)) > 0 THEN {"pos"} ELSE {})
         \cup (IF RLt(FP(JJ, fk, c), ROne) THEN {"neg"} ELSE {})

\* the sign choice implied by a draw known to lie in [lo, hi) (rationals); several if undecided
ChoicesFromInterval(JJ, fk, c, lo, hi) ==
    IF ZeroCol(JJ, c) THEN {"none"}
    ELSE LET fp == FP(JJ, fk, c)
         IN  IF RLe(hi, fp) THEN {"pos"}                \* U < hi <= fP
             ELSE IF RLt(fp, lo) THEN {"neg"}           \* fP < lo <= U
             ELSE {"pos", "neg", "none"}                \* fP inside the interval: undecided

-----------------------------------------------------------------------------
(* Property layer                                                          *)

Kept(x, ch)  == (ch = "pos" /\ x > 0) \/ (ch = "neg" /\ x < 0)
\* entries of the chosen sign in full, the others with their leaked share
Coord(JJ, lk, c, ch) ==
    RSumSeq([r \in 1..Len(JJ) |-> IF Kept(JJ[r][c], ch) THEN R(JJ[r][c])
                                   ELSE RMul(lk[r], R(JJ[r][c]))])
CoordCandidates(JJ, lk, fk, c) == {Coord(JJ, lk, c, ch) : ch \in Reachable(JJ, fk, c)}
\* what the statement alone promises (without the purity rule)
CoordPair(JJ, lk, c) == {Coord(JJ, lk, c, "pos"), Coord(JJ, lk, c, "neg")}

-----------------------------------------------------------------------------
(* Implementation-shaped layer                                             *)

VARIABLES J, leak, fkind, choice, i, vec, phase
vars == <<J, leak, fkind, choice, i, vec, phase>>

m == Len(J)
NC == Len(J[1])

Init == /\ J \in Family
        /\ leak \in [1..Len(J) -> LeakVals]
        /\ fkind \in FKinds
        /\ choice = <<>> /\ i = 1 /\ vec = RZeros(Len(J[1])) /\ phase = "draw"

\* U = torch.rand(P.shape): the hidden choice, one per column
Draw == /\ phase = "draw"
        /\ choice' \in {ch \in [1..NC -> Choices] : \A c \in 1..NC : ch[c] \in Reachable(J, fkind, c)}
        /\ phase' = "rows"
        /\ UNCHANGED <<J, leak, fkind, i, vec>>

\* M_i = (fP > U) * (J_i > 0) + (fP < U) * (J_i < 0);  vector += (leak_i + (1 - leak_i) * M_i) * J_i
Mask(r, c) == IF Kept(J[r][c], choice[c]) THEN ROne ELSE RZero
Row == /\ phase = "rows" /\ i <= m
       /\ vec' = [c \in 1..NC |->
                    RAdd(vec[c], RMul(RAdd(leak[i], RMul(RSub(ROne, leak[i]), Mask(i, c))), R(J[i][c])))]
       /\ i' = i + 1
       /\ UNCHANGED <<J, leak, fkind, choice, phase>>

Finish == /\ phase = "rows" /\ i = m + 1
          /\ phase' = "done"
          /\ UNCHANGED <<J, leak, fkind, choice, i, vec>>

\* a further call on the SAME object with the same argument: nothing but the configuration survives a call
Recall == /\ phase = "done"
          /\ phase' = "draw" /\ choice' = <<>> /\ i' = 1 /\ vec' = RZeros(NC)
          /\ UNCHANGED <<J, leak, fkind>>

Next == Draw \/ Row \/ Finish \/ Recall
Spec == Init /\ [][Next]_vars
FairSpec == Spec /\ WF_vars(Next)

-----------------------------------------------------------------------------
(* What TLC checks                                                         *)

Finished == phase = "done"

TypeOK == /\ i \in 1..(m + 1) /\ Len(vec) = NC /\ phase \in {"draw", "rows", "done"}
          /\ \A c \in 1..NC : IsRat(vec[c])

\* C18: each coordinate = kept-sign entries + leaked share of the others, for the sign drawn
CoordIsDefinition == Finished => \A c \in 1..NC : vec[c] = Coord(J, leak, c, choice[c])

\* ... hence a member of the pair the statement names (zero columns give 0, which is in the pair too)
CoordInPair == Finished => \A c \in 1..NC : vec[c] \in CoordPair(J, leak, c)

\* partial sums: after k rows the vector is the definition restricted to the first k rows
PrefixRefines ==
    (phase = "rows") => \A c \in 1..NC :
        vec[c] = RSumSeq([r \in 1..(i - 1) |-> IF Kept(J[r][c], choice[c]) THEN R(J[r][c])
                                                ELSE RMul(leak[r], R(J[r][c]))])

\* no leak: plain sum of the positive or of the negative entries;  full leak: the column sum
NoLeakIsSignSum == (Finished /\ \A r \in 1..m : leak[r] = RZero) =>
    \A c \in 1..NC : vec[c] = R(SumSeq([r \in 1..m |-> IF Kept(J[r][c], choice[c]) THEN J[r][c] ELSE 0]))
FullLeakIsSum   == (Finished /\ \A r \in 1..m : leak[r] = ROne) =>
    \A c \in 1..NC : vec[c] = R(ColSum(J, c))

\* a column whose non-zero entries all have one sign can only keep that sign when f = identity
PureColumn == (Finished /\ fkind = "id") =>
    \A c \in 1..NC : (~ZeroCol(J, c) /\ \A r \in 1..m : J[r][c] >= 0) => vec[c] = R(ColSum(J, c))

Terminates == <>Finished

\* a call never changes the configuration of the object (action property)
LeakImmutable == [][leak' = leak /\ fkind' = fkind]_vars
\* ... and after Recall the object is where a fresh one starts: the next call is Init's
RecallIsFresh == (phase = "draw") => (choice = <<>> /\ i = 1 /\ vec = RZeros(NC))

\* dtype sequences of the matrices one object is called on in the replay (leak given in float64)
DtypeHistories == << <<"float32", "float64">>, <<"float64", "float32">>, <<"bfloat16", "float32", "float64">>,
                     <<"float16", "float64">> >>
\* Allowance of a coordinate in units of eps(dtype) * Sum_r |J_rc|: per row the rounding of the leak to the
\* dtype it is used in, of 1 - leak, of their sum and of the product with J_rc (4), plus one rounding per
\* accumulation (m) - a first-order bound, doubled.
AllowUnits == 2 * (4 + m) 

-----------------------------------------------------------------------------
(* Scenario export                                                         *)

ScnHash == LET F[x \in 0..m] == IF x = 0 THEN 0
                                ELSE (F[x - 1] * 7 + SumSeq(VMul(J[x], [c \in 1..NC |-> c + x])) + leak[x][1] * 3
                                      + leak[x][2] + 1000) % 9973
           IN  F[m] + (IF fkind = "id" THEN 0 ELSE IF fkind = "sq" THEN 1 ELSE 2)
                    + SumSeq([c \in 1..NC |-> IF choice[c] = "pos" THEN c ELSE 0])
Scenario == [J |-> J, leak |-> leak, f |-> fkind, choice |-> choice, out |-> vec,
             dyadic |-> \A r \in 1..m : Dyadic(leak[r]), hist |-> DtypeHistories, units |-> AllowUnits,
             absum |-> [c \in 1..NC |-> ColAbsSum(J, c)],
             fp |-> [c \in 1..NC |-> IF ZeroCol(J, c) THEN <<0, 1>> ELSE FP(J, fkind, c)],
             cand |-> [c \in 1..NC |-> CoordCandidates(J, leak, fkind, c)]]
Export   == (Finished /\ (ScnHash % SampleMod) = SamplePick) => PrintT(<<"SCN", ToJson(Scenario)>>)
=============================================================================
