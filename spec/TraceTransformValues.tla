------------------------ MODULE TraceTransformValues ------------------------
(***************************************************************************)
(* Trace validation for C15: applications of the real Grad / Jac /         *)
(* Diagonalize / Stack / Aggregate transforms to random integer            *)
(* dictionaries (random programs, shapes, insertion orders, chunk sizes)   *)
(* are judged with the operators of TransformValues.tla: the logged result *)
(* must EQUAL the value the specification computes from the logged input,  *)
(* the element type of every result value must be the one the inputs       *)
(* determine, and in the float64 precision episodes (input v + 2^-29 K)    *)
(* the 2^-29 part of the result must equal the specified result on K.      *)
(* HISTORY episodes (kind = "hist"): ONE real transform object (obj = jac,  *)
(* grad, aggjac = Aggregate o Jac, diag, stack of Selects, agg) was applied *)
(* to several inputs in a row (batches of different row counts, any chunk   *)
(* size); every recorded application must be the transform's function of    *)
(* ITS OWN input alone - the value TransformValues.tla specifies for a       *)
(* freshly constructed equal transform; the REJECT clause names the first   *)
(* application that is not.                                                 *)
(* One step per episode; REJECT lines name the failing clause; SUMMARY at  *)
(* the end (verdicts are total).                                           *)
(***************************************************************************)
EXTENDS TransformValues, IOUtils, TLCExt

Episodes == JsonDeserialize(IOEnv.TRACE_FILE)
NEp == Len(Episodes)

VARIABLES ep, nAcc, nRej
tvars == <<P, phase, call, scn, hist, ep, nAcc, nRej>>

E == Episodes[ep]

\* Every episode logs dt (element type of keys and input values) and rdt (element type of every value of
\* the result).  A PRECISION episode (prec = 1, float64) was run on v + 2^-29 K: it logs the integer
\* input v and the integer pattern K (fields ...K), and the two integer parts of every float64 value of
\* the result (result, resultK); by linearity both parts must be the specified result on v resp. K.
DtypeClause == IF \A i \in DOMAIN E.rdt : E.rdt[i] = OutDtype(E.kind, E.dt) THEN "none" ELSE "result_element_type"

JacClauseFor(kind, m, ct, result) ==
    LET J   == [o \in Range(E.outs) |-> ct[CHOOSE i \in DOMAIN E.outs : E.outs[i] = o]]
        exp == JacT(E.prog, E.ins, J, m)
        bad == {i \in DOMAIN E.ins : result[i] # exp[E.ins[i]]}
    IN  IF ~WellFormed(E.prog) THEN "malformed_program_in_log"
        ELSE IF bad = {} THEN "none"
        ELSE IF kind = "grad" THEN "grad_is_not_the_vector_jacobian_product"
        ELSE IF \E i \in DOMAIN E.ins : Len(result[i]) # m THEN "jac_row_count_is_not_the_row_count_of_its_batch_of_cotangents"
        ELSE "jac_row_is_not_the_vector_jacobian_product_of_its_cotangent_row"
JacClauseOn(ct, result) == JacClauseFor(E.kind, E.m, ct, result)
\* Aggregate(weights w, key_order = ins) o Jac: every input receives its slice of w^T [J_1 .. J_n]
AggJacClauseFor(m, ct, w, result) ==
    LET J   == [o \in Range(E.outs) |-> ct[CHOOSE i \in DOMAIN E.outs : E.outs[i] = o]]
        exp == AggT(E.ins, Sizes(E.prog), JacT(E.prog, E.ins, J, m), w)
    IN  IF ~WellFormed(E.prog) THEN "malformed_program_in_log"
        ELSE IF Len(w) # m THEN "aggregator_received_a_matrix_of_another_row_count"
        ELSE IF \A i \in DOMAIN E.ins : result[i] = exp[E.ins[i]] THEN "none" ELSE "aggregate_of_jac_slice"

DiagClauseOn(input, result) ==
    LET g   == [k \in DOMAIN E.sizes |-> input[k]]
        exp == DiagT(E.order, E.sizes, g)
    IN  IF \A k \in DOMAIN E.sizes : result[k] = exp[k] THEN "none" ELSE "diagonalize_value"

MemberOf(es) == [k \in {es[i].k : i \in DOMAIN es} |-> es[CHOOSE i \in DOMAIN es : es[i].k = k].v]
StackClauseOn(members, result) ==
    LET mem == [i \in DOMAIN members |-> MemberOf(members[i])]
        exp == StackT(mem, E.sizes)
        got == [k \in {result[i].k : i \in DOMAIN result} |->
                  result[CHOOSE i \in DOMAIN result : result[i].k = k].rows]
    IN  IF DOMAIN got # DOMAIN exp THEN "stack_keys_are_not_the_union"
        ELSE IF \A k \in DOMAIN exp : got[k] = exp[k] THEN "none" ELSE "stack_value"

AggClauseFor(w, input, result) ==
    LET J   == [k \in DOMAIN E.sizes |-> input[k]]
        exp == AggT(E.order, E.sizes, J, w)
    IN  IF \A k \in DOMAIN E.sizes : result[k] = exp[k] THEN "none" ELSE "aggregate_slice"
AggClauseOn(input, result) == AggClauseFor(E.w, input, result)
\* Stack over members Select(ks[i]) of the input dictionary
StackSelClauseOn(input, result) ==
    LET g   == [k \in DOMAIN E.sizes |-> input[k]]
        mem == [i \in DOMAIN E.ks |-> SelectT(g, Range(E.ks[i]))]
        exp == StackT(mem, E.sizes)
        got == [k \in {result[i].k : i \in DOMAIN result} |->
                  result[CHOOSE i \in DOMAIN result : result[i].k = k].rows]
    IN  IF DOMAIN got # DOMAIN exp THEN "stack_keys_are_not_the_union"
        ELSE IF \A k \in DOMAIN exp : got[k] = exp[k] THEN "none" ELSE "stack_value"

\* ------------------------------------------------------------------ histories of one object
AppValue(a) == CASE E.obj \in {"jac", "grad"} -> JacClauseFor(E.obj, a.m, a.ct, a.result)
                 [] E.obj = "aggjac" -> AggJacClauseFor(a.m, a.ct, a.w, a.result)
                 [] E.obj = "diag"   -> DiagClauseOn(a.input, a.result)
                 [] E.obj = "stack"  -> StackSelClauseOn(a.input, a.result)
                 [] OTHER            -> AggClauseFor(a.w, a.input, a.result)
AppClause(a) == LET c == AppValue(a) IN
                IF c # "none" THEN c
                ELSE IF \A i \in DOMAIN a.rdt : a.rdt[i] = OutDtype(E.obj, E.dt) THEN "none" ELSE "result_element_type"
HistClause ==
    LET bad == {n \in DOMAIN E.apps : AppClause(E.apps[n]) # "none"} IN
    IF bad = {} THEN "none"
    ELSE LET n == CHOOSE x \in bad : \A y \in bad : x <= y
             c == AppClause(E.apps[n])
         IN  IF c = "malformed_program_in_log" THEN c
             ELSE "application_" \o ToString(n) \o "_of_one_object_is_not_the_function_of_its_own_input:" \o c

ValueClause == CASE E.kind \in {"jac", "grad"} -> JacClauseOn(E.ct, E.result)
                 [] E.kind = "diag"  -> DiagClauseOn(E.input, E.result)
                 [] E.kind = "stack" -> StackClauseOn(E.members, E.result)
                 [] OTHER            -> AggClauseOn(E.input, E.result)
PrecClause == CASE E.kind \in {"jac", "grad"} -> JacClauseOn(E.ctK, E.resultK)
                [] E.kind = "diag"  -> DiagClauseOn(E.inputK, E.resultK)
                [] E.kind = "stack" -> StackClauseOn(E.membersK, E.resultK)
                [] OTHER            -> AggClauseOn(E.inputK, E.resultK)

Clause == IF E.kind = "hist" THEN HistClause
          ELSE IF ValueClause # "none" THEN ValueClause
          ELSE IF DtypeClause # "none" THEN DtypeClause
          ELSE IF E.prec = 1 /\ PrecClause # "none" THEN "precision_" \o PrecClause
          ELSE "none"

TInit0 == /\ P = <<>> /\ phase = "trace" /\ call = NoCall /\ scn = [kind |-> "none"] /\ hist = <<>>
          /\ ep = 1 /\ nAcc = 0 /\ nRej = 0

TStep == /\ ep <= NEp
         /\ LET c == Clause IN
              /\ (c # "none" => PrintT(<<"REJECT", ToJson([ep |-> E.ep, clause |-> c])>>))
              /\ nAcc' = nAcc + (IF c = "none" THEN 1 ELSE 0)
              /\ nRej' = nRej + (IF c = "none" THEN 0 ELSE 1)
         /\ ep' = ep + 1
         /\ UNCHANGED <<P, phase, call, scn, hist>>

TDone == /\ ep = NEp + 1
         /\ PrintT(<<"SUMMARY", ToJson([episodes |-> NEp, accepted |-> nAcc, rejected |-> nRej])>>)
         /\ ep' = NEp + 2
         /\ UNCHANGED <<P, phase, call, scn, hist, nAcc, nRej>>

TNext == TStep \/ TDone
TraceSpec == TInit0 /\ [][TNext]_tvars
TraceConsumed == (ep = NEp + 2) => (nAcc + nRej = NEp)
=============================================================================
