------------------------ MODULE TraceTransformValues ------------------------
(***************************************************************************)
(* Trace validation for C15: applications of the real Grad / Jac /         *)
(* Diagonalize / Stack / Aggregate transforms to random integer            *)
(* dictionaries (random programs, shapes, insertion orders, chunk sizes)   *)
(* are judged with the operators of TransformValues.tla: the logged result *)
(* must EQUAL the value the specification computes from the logged input.  *)
(* One step per episode; REJECT lines name the failing clause; SUMMARY at  *)
(* the end (verdicts are total).                                           *)
(***************************************************************************)
EXTENDS TransformValues, IOUtils, TLCExt

Episodes == JsonDeserialize(IOEnv.TRACE_FILE)
NEp == Len(Episodes)

VARIABLES ep, nAcc, nRej
tvars == <<P, phase, call, scn, ep, nAcc, nRej>>

E == Episodes[ep]

JacClause ==
    LET J   == [o \in Range(E.outs) |-> E.ct[CHOOSE i \in DOMAIN E.outs : E.outs[i] = o]]
        exp == JacT(E.prog, E.ins, J, E.m)
        bad == {i \in DOMAIN E.ins : E.result[i] # exp[E.ins[i]]}
    IN  IF ~WellFormed(E.prog) THEN "malformed_program_in_log"
        ELSE IF bad = {} THEN "none"
        ELSE IF E.kind = "grad" THEN "grad_is_not_the_vector_jacobian_product"
        ELSE "jac_row_is_not_the_vector_jacobian_product_of_its_cotangent_row"

DiagClause ==
    LET g   == [k \in DOMAIN E.sizes |-> E.input[k]]
        exp == DiagT(E.order, E.sizes, g)
    IN  IF \A k \in DOMAIN E.sizes : E.result[k] = exp[k] THEN "none" ELSE "diagonalize_value"

MemberOf(es) == [k \in {es[i].k : i \in DOMAIN es} |-> es[CHOOSE i \in DOMAIN es : es[i].k = k].v]
StackClause ==
    LET mem == [i \in DOMAIN E.members |-> MemberOf(E.members[i])]
        exp == StackT(mem, E.sizes)
        got == [k \in {E.result[i].k : i \in DOMAIN E.result} |->
                  E.result[CHOOSE i \in DOMAIN E.result : E.result[i].k = k].rows]
    IN  IF DOMAIN got # DOMAIN exp THEN "stack_keys_are_not_the_union"
        ELSE IF \A k \in DOMAIN exp : got[k] = exp[k] THEN "none" ELSE "stack_value"

AggClause ==
    LET J   == [k \in DOMAIN E.sizes |-> E.input[k]]
        exp == AggT(E.order, E.sizes, J, E.w)
    IN  IF \A k \in DOMAIN E.sizes : E.result[k] = exp[k] THEN "none" ELSE "aggregate_slice"

Clause == CASE E.kind \in {"jac", "grad"} -> JacClause
            [] E.kind = "diag"  -> DiagClause
            [] E.kind = "stack" -> StackClause
            [] OTHER            -> AggClause

TInit0 == /\ P = <<>> /\ phase = "trace" /\ call = NoCall /\ scn = [kind |-> "none"]
          /\ ep = 1 /\ nAcc = 0 /\ nRej = 0

TStep == /\ ep <= NEp
         /\ LET c == Clause IN
              /\ (c # "none" => PrintT(<<"REJECT", ToJson([ep |-> E.ep, clause |-> c])>>))
              /\ nAcc' = nAcc + (IF c = "none" THEN 1 ELSE 0)
              /\ nRej' = nRej + (IF c = "none" THEN 0 ELSE 1)
         /\ ep' = ep + 1
         /\ UNCHANGED <<P, phase, call, scn>>

TDone == /\ ep = NEp + 1
         /\ PrintT(<<"SUMMARY", ToJson([episodes |-> NEp, accepted |-> nAcc, rejected |-> nRej])>>)
         /\ ep' = NEp + 2
         /\ UNCHANGED <<P, phase, call, scn, nAcc, nRej>>

TNext == TStep \/ TDone
TraceSpec == TInit0 /\ [][TNext]_tvars
TraceConsumed == (ep = NEp + 2) => (nAcc + nRej = NEp)
=============================================================================
