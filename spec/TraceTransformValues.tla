------------------------ MODULE TraceTransformValues ------------------------
(***************************************************************************)
(* Trace validation for C15: applications of the real Grad / Jac /         *)
(* Diagonalize / Stack / Aggregate transforms to random integer            *)
(* dictionaries (random programs, shapes, insertion orders, chunk sizes)   *)
(* are judged with the operators of TransformValues.tla: the logged result *)
(* must EQUAL the value the specification computes from the logged input,  *)
(* the element type of every result value must be the one the inputs       *)
(* determine, and in the float64 precision episodes (input v + 2^-29 K)    *)
(* the 2^-29 part of the result must equal the specified result on K.      *)
(* One step per episode; REJECT lines name the failing clause; SUMMARY at  *)
(* the end (verdicts are total).                                           *)
(***************************************************************************)
EXTENDS TransformValues, IOUtils, TLCExt

Episodes == JsonDeserialize(IOEnv.TRACE_FILE)
NEp == Len(Episodes)

VARIABLES ep, nAcc, nRej
tvars == <<P, phase, call, scn, ep, nAcc, nRej>>

E == Episodes[ep]

\* Every episode logs dt (element type of keys and input values) and rdt (element type of every value of
\* the result).  A PRECISION episode (prec = 1, float64) was run on v + 2^-29 K: it logs the integer
\* input v and the integer pattern K (fields ...K), and the two integer parts of every float64 value of
\* the result (result, resultK); by linearity both parts must be the specified result on v resp. K.
DtypeClause == IF \A i \in DOMAIN E.rdt : E.rdt[i] = OutDtype(E.kind, E.dt) THEN "none" ELSE "result_element_type"

JacClauseOn(ct, result) ==
    LET J   == [o \in Range(E.outs) |-> ct[CHOOSE i \in DOMAIN E.outs : E.outs[i] = o]]
        exp == JacT(E.prog, E.ins, J, E.m)
        bad == {i \in DOMAIN E.ins : result[i] # exp[E.ins[i]]}
    IN  IF ~WellFormed(E.prog) THEN "malformed_program_in_log"
        ELSE IF bad = {} THEN "none"
        ELSE IF E.kind = "grad" THEN "grad_is_not_the_vector_jacobian_product"
        ELSE "jac_row_is_not_the_vector_jacobian_product_of_its_cotangent_row"

DiagClauseOn(input, result) ==
    LET g   == [k \in DOMAIN E.sizes |-> input[k]]
        exp == DiagT(E.order, E.sizes, g)
    IN  IF \A k \in DOMAIN E.sizes : result[k] = exp[k] THEN "none" ELSE "diagonalize_value"

MemberOf(es) == [k \in {es[i].k : i \in DOMAIN es} |-> es[CHOOSE i \in DOMAIN es : es[i].k = k].v]
StackClauseOn(members, result) ==
    LET mem == [i \in DOMAIN members |-> MemberOf(members[i])]
        exp == StackT(mem, E.sizes)
        got == [k \in {result[i].k : i \in DOMAIN result} |->
                  result[CHOOSE i \in DOMAIN result : result[i].k = k].rows]
    IN  IF DOMAIN got # DOMAIN exp THEN "stack_keys_are_not_the_union"
        ELSE IF \A k \in DOMAIN exp : got[k] = exp[k] THEN "none" ELSE "stack_value"

AggClauseOn(input, result) ==
    LET J   == [k \in DOMAIN E.sizes |-> input[k]]
        exp == AggT(E.order, E.sizes, J, E.w)
    IN  IF \A k \in DOMAIN E.sizes : result[k] = exp[k] THEN "none" ELSE "aggregate_slice"

ValueClause == CASE E.kind \in {"jac", "grad"} -> JacClauseOn(E.ct, E.result)
                 [] E.kind = "diag"  -> DiagClauseOn(E.input, E.result)
                 [] E.kind = "stack" -> StackClauseOn(E.members, E.result)
                 [] OTHER            -> AggClauseOn(E.input, E.result)
PrecClause == CASE E.kind \in {"jac", "grad"} -> JacClauseOn(E.ctK, E.resultK)
                [] E.kind = "diag"  -> DiagClauseOn(E.inputK, E.resultK)
                [] E.kind = "stack" -> StackClauseOn(E.membersK, E.resultK)
                [] OTHER            -> AggClauseOn(E.inputK, E.resultK)

Clause == IF ValueClause # "none" THEN ValueClause
          ELSE IF DtypeClause # "none" THEN DtypeClause
          ELSE IF E.prec = 1 /\ PrecClause # "none" THEN "precision_" \o PrecClause
          ELSE "none"

TInit0 == /\ P = <<>> /\ phase = "trace" /\ call = NoCall /\ scn = [kind |-> "none"]
          /\ ep = 1 /\ nAcc = 0 /\ nRej = 0

TStep == /\ ep <= NEp
         /\ LET c == Clause IN
              /\ (c # "none" => PrintT(<<"REJECT", ToJson([ep |-> E.ep, clause |-> c])>>))
              /\ nAcc' = nAcc + (IF c = "none" THEN 1 ELSE 0)
              /\ nRej' = nRej + (IF c = "none" THEN 0 ELSE 1)
         /\ ep' = ep + 1
         /\ UNCHANGED <<P, phase, call, scn>>

TDone == /\ ep = NEp + 1
         /\ PrintT(<<"SUMMARY", ToJson([episodes |-> NEp, accepted |-> nAcc, rejected |-> nRej])>>)
         /\ ep' = NEp + 2
         /\ UNCHANGED <<P, phase, call, scn, nAcc, nRej>>

TNext == TStep \/ TDone
TraceSpec == TInit0 /\ [][TNext]_tvars
TraceConsumed == (ep = NEp + 2) => (nAcc + nRej = NEp)
=============================================================================
