----------------------------- MODULE CAGradSym -----------------------------
(***************************************************************************)
(* CAGrad (Algorithm 1 of "Conflict-Averse Gradient Descent") - the part   *)
(* of its published definition that is decidable in exact arithmetic.      *)
(*                                                                         *)
(* CAGrad(c) returns  g0 + c |g0| g_w / |g_w|,  g0 the mean row and g_w    *)
(* the convex combination minimising  <g_w, g0> + c |g0| |g_w|.  The       *)
(* optimum itself is irrational / the output of an interior-point solver   *)
(* (DESIGN 8), so this module does NOT compute it.  It enumerates the      *)
(* instances and decides EXACTLY, on the integer Gramian:                  *)
(*   mean, mean2  the mean row g0 and |g0|^2                               *)
(*   d2           the squared distance of the convex hull of the rows to   *)
(*                the origin (active-set enumeration over the faces of the *)
(*                simplex, Cramer)                                         *)
(*   stationary   d2 = 0: some convex combination of the rows vanishes     *)
(*                (Pareto-stationarity) - only there may CAGrad return 0   *)
(*   symmetric    all rows have the same inner product with g0 (equal row  *)
(*                sums of G): then <g_w, g0> is constant on the simplex,   *)
(*                the optimum is the minimum-norm point, which is g0       *)
(*                itself (SymmetricLemma), and CAGrad(c) = (1 + c) g0      *)
(*   rho2         d2 / trace(G) <= |g_w|^2 / sigma_max^2 for every g_w of  *)
(*                the hull: conditioning bound from which the harness      *)
(*                derives the allowance of the radius predicate            *)
(* The predicates themselves (|A - g0| = c |g0|, A = g0 for c = 0,         *)
(* A = (1+c) g0 on symmetric instances, A = 0 only if stationary) are      *)
(* evaluated by the harness on the real output: predicate level.           *)
(*                                                                         *)
(* BADLY SCALED family (last section): J = D_r J0 D_c with rows / columns  *)
(* scaled by powers of eps = 2^-P carried symbolically (EpsScale.tla: all  *)
(* quantities are polynomials in eps, decisions by the sign rule, valid    *)
(* for every P >= needP).  The same facts - mean, |g0|^2, d2, trace,       *)
(* stationary, symmetric - are decided exactly although the singular       *)
(* values of J are 2^P .. 4^P apart; on unscaled instances the symbolic    *)
(* analysis must coincide with the integer one above (BSUnscaledAgrees).   *)
(***************************************************************************)
EXTENDS Integers, Sequences, FiniteSets, TLC, Json, IOUtils, Rat, IntMat, EpsScale

CONSTANTS Shapes,            \* family: set of codes 100 m + 10 n + e (all m x n matrices, entries -e..e)
          UseFile,           \* TRUE: the instances are the matrices listed in IOEnv.MATRIX_FILE
          BSPick             \* badly scaled family: a matrix J0 is kept iff (BSHash(entries) + BSPick) % mod = 0

MatSet(mm, nn, ee) == [1..mm -> [1..nn -> (0 - ee)..ee]]
FileMats   == LET s == JsonDeserialize(IOEnv.MATRIX_FILE) IN {s[x] : x \in DOMAIN s}
Family     == IF UseFile THEN FileMats
              ELSE UNION {MatSet(sh \div 100, (sh \div 10) % 10, sh % 10) : sh \in Shapes}
CValues    == {<<0, 1>>, <<1, 2>>, <<1, 1>>, <<2, 1>>}          \* the c of CAGrad(c), rationals

-----------------------------------------------------------------------------
Rows(GG)      == 1..Len(GG)
SeqOfSet(S)   == LET F[T \in SUBSET S] == IF T = {} THEN <<>>
                                          ELSE LET x == CHOOSE y \in T : \A z \in T : y <= z
                                               IN  <<x>> \o F[T \ {x}]
                 IN  F[S]
MeanRow(JJ)   == [c \in 1..Len(JJ[1]) |-> Frac(SumSeq([r \in 1..Len(JJ) |-> JJ[r][c]]), Len(JJ))]
TotalSum(GG)  == SumSeq([x \in 1..Len(GG) |-> SumSeq(GG[x])])
Mean2(GG)     == Frac(TotalSum(GG), Len(GG) * Len(GG))          \* |g0|^2 = 1^T G 1 / m^2
TraceOf(GG)   == SumSeq([x \in 1..Len(GG) |-> GG[x][x]])
EqualRowSums(GG) == \A x, y \in Rows(GG) : SumSeq(GG[x]) = SumSeq(GG[y])

\* integer determinant (Laplace expansion along the first row)
RECURSIVE IDet(_)
IDet(M) == IF Len(M) = 0 THEN 1
           ELSE IF Len(M) = 1 THEN M[1][1]
           ELSE SumSeq([y \in 1..Len(M) |-> (IF y % 2 = 1 THEN 1 ELSE 0 - 1) * M[1][y] * IDet(Minor(M, 1, y))])

\* minimiser of w^T G w over the affine hull of the rows idx[1..s]:  G_S lam + nu 1 = 0, 1.lam = 1
\* (bordered integer system, Cramer); defined when the bordered matrix is non-singular, i.e. the
\* rows are affinely independent.  The minimum value lam.G_S.lam equals -nu.
Bordered(GG, idx) ==
    LET s == Len(idx) IN
    [a \in 1..(s + 1) |-> [b \in 1..(s + 1) |->
        IF a <= s /\ b <= s THEN GG[idx[a]][idx[b]]
        ELSE IF a = s + 1 /\ b = s + 1 THEN 0 ELSE 1]]
UnitRhs(s) == [a \in 1..(s + 1) |-> IF a = s + 1 THEN 1 ELSE 0]
\* one record per face: is its affine optimum defined and inside the face, and its value
FaceRec(GG, T) ==
    LET idx == SeqOfSet(T)
        s   == Len(idx)
        B   == Bordered(GG, idx)
        dt  == IDet(B)
    IN  IF dt = 0 THEN [ok |-> FALSE, val |-> RZero]
        ELSE IF \A a \in 1..s : Sgn(IDet(ReplaceCol(B, a, UnitRhs(s)))) * Sgn(dt) >= 0     \* lam_a >= 0
             THEN [ok |-> TRUE, val |-> Frac(0 - IDet(ReplaceCol(B, s + 1, UnitRhs(s))), dt)]
             ELSE [ok |-> FALSE, val |-> RZero]
\* values of the feasible face optima; the minimum over the hull is the least of them
FaceValues(GG) == {r.val : r \in {q \in {FaceRec(GG, T) : T \in (SUBSET Rows(GG)) \ {{}}} : q.ok}}
MinNormSq(GG) == CHOOSE v \in FaceValues(GG) : \A u \in FaceValues(GG) : RLe(v, u)
Stationary(GG) == RIsZero(MinNormSq(GG))

-----------------------------------------------------------------------------
VARIABLES J, info, phase
vars == <<J, info, phase>>

\* ---- badly scaled family: shapes [m, n, e, mod] (overridden in the cfg of the badly scaled run), listed instances
BSShapes         == {}
BSShapesQuick    == {[m |-> 2, n |-> 2, e |-> 2, mod |-> 8], [m |-> 2, n |-> 3, e |-> 1, mod |-> 32],
                     [m |-> 3, n |-> 2, e |-> 2, mod |-> 384], [m |-> 3, n |-> 3, e |-> 1, mod |-> 384]}
BSShapesThorough == {[m |-> 2, n |-> 2, e |-> 2, mod |-> 1], [m |-> 2, n |-> 3, e |-> 1, mod |-> 2],
                     [m |-> 3, n |-> 2, e |-> 2, mod |-> 48], [m |-> 3, n |-> 3, e |-> 1, mod |-> 48]}
BSFile           == FALSE
BSFileOn         == TRUE
BSFileInsts      == IF BSFile THEN LET s == JsonDeserialize(IOEnv.BS_FILE) IN {s[x] : x \in DOMAIN s} ELSE {}
BSHash(es)       == LET F[i \in 0..Len(es)] == IF i = 0 THEN 7 ELSE (F[i - 1] * 31 + es[i] + 3) % 10007 IN F[Len(es)]

Init == \/ J \in Family /\ info = <<>> /\ phase = "new"
        \/ \E sh \in BSShapes : J = <<>> /\ info = sh /\ phase = "bsbuild"            \* J: the entries chosen so far
        \/ \E x \in BSFileInsts : J = x /\ info = <<>> /\ phase = "bsfile"

Classify == /\ phase = "new"
            /\ LET G == Gram(J)
                   d == MinNormSq(G) IN
               info' = [J |-> J, mean |-> MeanRow(J), mean2 |-> Mean2(G), d2 |-> d,
                        trace |-> TraceOf(G), stationary |-> RIsZero(d),
                        symmetric |-> EqualRowSums(G),
                        rho2 |-> IF TraceOf(G) = 0 THEN RZero ELSE RDiv(d, R(TraceOf(G))),
                        cs |-> CValues]
            /\ phase' = "done"
            /\ UNCHANGED J
BSExtend == /\ phase = "bsbuild" /\ Len(J) < info.m * info.n
            /\ \E x \in (0 - info.e)..info.e : J' = Append(J, x)
            /\ UNCHANGED <<info, phase>>
\* every scaling of a kept matrix (scaled rows / columns last, one row and one column unscaled), the unscaled one
\* included (BSUnscaledAgrees; not exported)
BSSolve == /\ phase = "bsbuild" /\ Len(J) = info.m * info.n
           /\ (BSHash(J) + BSPick) % info.mod = 0
           /\ \E r \in EsStep(info.m), g \in EsStep(info.n) :
                 info' = EsAnalyse([J0 |-> [i \in 1..info.m |-> [j \in 1..info.n |-> J[(i - 1) * info.n + j]]],
                                    rho |-> r, gam |-> g])
           /\ phase' = "bsdone" /\ UNCHANGED J
BSSolveFile == /\ phase = "bsfile" /\ info' = EsAnalyse(J) /\ phase' = "bsdone" /\ UNCHANGED J
Next == Classify \/ BSExtend \/ BSSolve \/ BSSolveFile
Spec == Init /\ [][Next]_vars

-----------------------------------------------------------------------------
(* What TLC checks about the exact analysis                                *)
GG == Gram(J)
Done == phase = "done"

\* the hull's distance to the origin is at most that of every vertex and of the mean, and >= 0
MinNormSound == Done => /\ RSign(info.d2) >= 0
                        /\ RLe(info.d2, info.mean2)
                        /\ \A x \in Rows(GG) : RLe(info.d2, R(GG[x][x]))
\* a zero row, or two opposite rows, make the instance stationary
ObviousStationary == (Done /\ (\E x \in Rows(GG) : GG[x][x] = 0
                               \/ \E y \in Rows(GG) : GG[x][x] > 0 /\ GG[x][y] < 0
                                                       /\ GG[x][y] * GG[x][y] = GG[x][x] * GG[y][y]))
                     => info.stationary
\* rows in an open half space (some row has positive inner product with all) are not stationary
HalfSpaceNotStationary == (Done /\ \E x \in Rows(GG) : \A y \in Rows(GG) : GG[x][y] > 0)
                          => ~info.stationary
\* two rows: the closed form of the segment
TwoRowsMinNorm == (Done /\ Len(J) = 2) =>
    LET dn == GG[1][1] + GG[2][2] - 2 * GG[1][2]
        w1 == IF dn = 0 THEN Frac(1, 2) ELSE RMax(RZero, RMin(ROne, Frac(GG[2][2] - GG[1][2], dn)))
        w2 == RSub(ROne, w1)
    IN  info.d2 = RAdd(RAdd(RMul(RMul(w1, w1), R(GG[1][1])), RMul(RMul(R(2), RMul(w1, w2)), R(GG[1][2]))),
                       RMul(RMul(w2, w2), R(GG[2][2])))
\* symmetric instances: the mean IS the minimum-norm point of the hull
SymmetricLemma == (Done /\ info.symmetric) => info.d2 = info.mean2

Export == Done => PrintT(<<"SCN", ToJson(info)>>)

-----------------------------------------------------------------------------
(* Badly scaled family: what TLC checks about the symbolic analysis (sign   *)
(* rule of EpsScale: comparisons hold for every small enough eps; equalities *)
(* are identities of polynomials)                                           *)
BSDone     == phase = "bsdone"
BSM        == info.m
BSG        == EsGram([J0 |-> info.J0, rho |-> info.rho, gam |-> info.gam])
BSUnscaled == (\A i \in 1..info.m : info.rho[i] = 0) /\ (\A j \in 1..info.n : info.gam[j] = 0)
\* d2 = d2num / d2den:  0 <= d2 <= |g0|^2 = total / m^2  and  d2 <= |row|^2
BSMinNormSound ==
    BSDone => /\ PSign(info.d2den) > 0 /\ PSign(info.d2num) >= 0
              /\ PSign(PSub(PMul(info.total, info.d2den), PScale(BSM * BSM, info.d2num))) >= 0
              /\ \A x \in 1..BSM : PSign(PSub(PMul(BSG[x][x], info.d2den), info.d2num)) >= 0
              /\ info.stationary = (info.d2num = <<>>)
BSObviousStationary ==
    BSDone => /\ ((\E x \in 1..BSM : BSG[x][x] = <<>>) => info.stationary)
              /\ ((\E x, y \in 1..BSM : info.rho[x] = info.rho[y] /\ BSG[x][x] # <<>>
                                          /\ \A j \in 1..info.n : info.J0[x][j] = 0 - info.J0[y][j]) => info.stationary)
BSHalfSpaceNotStationary ==
    (BSDone /\ \E x \in 1..BSM : \A y \in 1..BSM : PSign(BSG[x][y]) > 0) => ~info.stationary
\* two rows: the closed form of the segment, as an identity of polynomials
BSTwoRowsMinNorm ==
    (BSDone /\ BSM = 2) =>
        LET dn == PSub(PAdd(BSG[1][1], BSG[2][2]), PScale(2, BSG[1][2]))
            dt == PSub(PMul(BSG[1][1], BSG[2][2]), PMul(BSG[1][2], BSG[1][2]))
        IN  IF PSign(PSub(BSG[1][2], BSG[1][1])) >= 0          \* <r1, r2> >= |r1|^2: the vertex r1
            THEN info.d2num = PMul(BSG[1][1], info.d2den)
            ELSE IF PSign(PSub(BSG[1][2], BSG[2][2])) >= 0
            THEN info.d2num = PMul(BSG[2][2], info.d2den)
            ELSE PMul(info.d2num, dn) = PMul(dt, info.d2den)
\* symmetric instances (equal row sums of G, identically in eps): the mean IS the minimum-norm point
BSSymmetricLemma ==
    (BSDone /\ info.symmetric) => PScale(BSM * BSM, info.d2num) = PMul(info.total, info.d2den)
\* REFINEMENT: without scaling the analysis is the integer one of this module
BSUnscaledAgrees ==
    (BSDone /\ BSUnscaled /\ info.tr # <<>>) =>
        LET G == Gram(info.J0) IN
        /\ info.needP = 1 /\ Len(info.d2den) = 1 /\ Len(info.d2num) <= 1
        /\ Frac(PCoef(info.d2num, 0), info.d2den[1]) = MinNormSq(G)
        /\ info.stationary = Stationary(G) /\ info.symmetric = EqualRowSums(G)
        /\ info.tr = <<TraceOf(G)>> /\ Frac(PCoef(info.total, 0), BSM * BSM) = Mean2(G)

BSExport == (BSDone /\ ~BSUnscaled) => PrintT(<<"BSCN", ToJson(info @@ [cs |-> CValues])>>)
=============================================================================
