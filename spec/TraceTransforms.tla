--------------------------- MODULE TraceTransforms ---------------------------
(***************************************************************************)
(* Trace validation for C14: episodes recorded from the real classes are   *)
(* judged with the operators of Transforms.tla / TensorDicts.tla.          *)
(*                                                                         *)
(* kind = "term": a random term was built (or refused) by the real         *)
(*   constructors, its required_keys / output_keys were read, and it was   *)
(*   applied to dictionaries (kind E/G/J over the logged key set); logged: *)
(*   outcome, exception class, type and content of the result, and the     *)
(*   presentation (list / tuple / set / dict view / iterator / generator)  *)
(*   of every key collection handed to a constructor: the verdict does not *)
(*   depend on it.                                                         *)
(* kind = "dict": a dictionary of some class was created (or refused) and  *)
(*   mutations were attempted; logged: acceptance, and per mutation        *)
(*   whether it was rejected and left the content unchanged.               *)
(* One step per episode; a rejected episode prints REJECT with the failing *)
(* clause and the run goes on (verdicts are total); SUMMARY at the end.    *)
(***************************************************************************)
EXTENDS Transforms, TLC, Json, IOUtils, TLCExt

Episodes == JsonDeserialize(IOEnv.TRACE_FILE)
NEp == Len(Episodes)

VARIABLES ep, nAcc, nRej
tvars == <<ep, nAcc, nRej>>

E == Episodes[ep]

RECURSIVE TermOf(_)
TermOf(j) == CASE j.op = "init"   -> TInit(Range(j.K))
               [] j.op = "acc"    -> TAcc(Range(j.K))
               [] j.op = "select" -> TSelect(Range(j.K), Range(j.R))
               [] j.op = "diag"   -> TDiag(j.ks)
               [] j.op = "comp"   -> TComp(TermOf(j.outer), TermOf(j.inner))
               [] OTHER           -> [op |-> j.op, ts |-> [i \in DOMAIN j.ts |-> TermOf(j.ts[i])]]

\* logged content (sequence of [k, sh, v]) as a function key -> [sh, v]
MapOf(es) == [k \in {es[i].k : i \in DOMAIN es} |->
                LET i == CHOOSE i \in DOMAIN es : es[i].k = k IN [sh |-> es[i].sh, v |-> es[i].v]]

\* ------------------------------------------------------------------ term episodes
AppClause(T, a) ==
    LET r == Apply("prop", T, InputDict(a.kind, Range(a.keys)))
    IN  CASE r.st = "keyerror" -> IF a.st = "ok" THEN "key_mismatch_accepted"
                                  ELSE IF a.exc # "ValueError" THEN "key_mismatch_wrong_exception" ELSE "none"
          [] r.st = "raise"    -> IF a.st = "ok" THEN "ill_typed_dictionary_created" ELSE "none"
          [] r.st = "unspec"   -> IF a.st = "ok" /\ DOMAIN MapOf(a.m) # Out(T) THEN "output_keys_of_result" ELSE "none"
          [] OTHER             -> IF a.st # "ok" THEN "well_typed_application_raised"
                                  ELSE IF DOMAIN MapOf(a.m) # Out(T) THEN "output_keys_of_result"
                                  ELSE IF a.type # r.d.type THEN "result_type"
                                  ELSE IF a.nonint \/ MapOf(a.m) # r.d.m THEN "result_values"
                                  ELSE "none"

\* the logged presentations (form of every key collection / member list handed to a constructor) must
\* be forms the specification admits for that argument; the verdict itself never looks at them
PresOk == \A i \in DOMAIN E.pres :
             \E j \in DOMAIN FormTable : /\ FormTable[j].op = E.pres[i][1] /\ FormTable[j].arg = E.pres[i][2]
                                         /\ E.pres[i][3] \in FormTable[j].forms

TermClause ==
    LET T == TermOf(E.term) IN
    IF ~PresOk THEN "malformed_presentation_in_log"
    ELSE IF E.built # Constructible(T)
    THEN (IF E.built THEN "ill_formed_term_was_built" ELSE "well_formed_term_refused")
    ELSE IF ~E.built THEN "none"
    ELSE IF Range(E.req) # Req(T) THEN "required_keys"
    ELSE IF Range(E.out) # Out(T) THEN "output_keys"
    ELSE LET cs  == [i \in DOMAIN E.apps |-> AppClause(T, E.apps[i])]
             bad == {i \in DOMAIN cs : cs[i] # "none"}
         IN  IF bad = {} THEN "none" ELSE cs[CHOOSE i \in bad : \A j \in bad : i <= j]

\* ------------------------------------------------------------------ dictionary episodes
DictClause ==
    LET d == [k \in {E.entries[i].k : i \in DOMAIN E.entries} |->
                E.entries[CHOOSE i \in DOMAIN E.entries : E.entries[i].k = k].sh]
        ok == Valid(E.type, KeyShape, d)
    IN  IF E.created /\ ~ok THEN "ill_typed_dictionary_created"
        ELSE IF ~E.created /\ ok THEN "valid_dictionary_refused"
        ELSE LET bad == {i \in DOMAIN E.muts :
                           LET mu == Mutate(E.muts[i].op, d)
                           IN  ~(E.muts[i].rejected = (mu.outcome = "rejected") /\ E.muts[i].unchanged = (mu.after = d))}
             IN  IF bad = {} THEN "none" ELSE "mutation_" \o E.muts[CHOOSE i \in bad : \A j \in bad : i <= j].op

Clause == IF E.kind = "term" THEN TermClause ELSE DictClause

TInit0 == ep = 1 /\ nAcc = 0 /\ nRej = 0

TStep == /\ ep <= NEp
         /\ LET c == Clause IN
              /\ (c # "none" => PrintT(<<"REJECT", ToJson([ep |-> E.ep, clause |-> c])>>))
              /\ nAcc' = nAcc + (IF c = "none" THEN 1 ELSE 0)
              /\ nRej' = nRej + (IF c = "none" THEN 0 ELSE 1)
         /\ ep' = ep + 1

TDone == /\ ep = NEp + 1
         /\ PrintT(<<"SUMMARY", ToJson([episodes |-> NEp, accepted |-> nAcc, rejected |-> nRej])>>)
         /\ ep' = NEp + 2
         /\ UNCHANGED <<nAcc, nRej>>

TNext == TStep \/ TDone
TraceSpec == TInit0 /\ [][TNext]_tvars
TraceConsumed == (ep = NEp + 2) => (nAcc + nRej = NEp)
=============================================================================
