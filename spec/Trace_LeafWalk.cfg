CONSTANT MaxN = 1
CONSTANT MaxLeaves = 1
CONSTANT MaxFeats = 1
CONSTANT MaxLosses = 1
CONSTANT SampleMod = 1
CONSTANT SamplePick = 0
SPECIFICATION TraceSpec
INVARIANT TraceConsumed
CHECK_DEADLOCK FALSE
INVARIANT TraceWalkCorrect
