CONSTANT MaxN = 1
CONSTANT MaxLeaves = 1
CONSTANT MaxFeats = 1
CONSTANT MaxLosses = 1
CONSTANT LeafDTs = {"f64", "f32", "c128", "c64"}
CONSTANT ConstDTs = {"f64", "c64"}
CONSTANT SampleMod = 1
CONSTANT SamplePick = 0
SPECIFICATION TraceSpec
INVARIANT TraceConsumed
CHECK_DEADLOCK FALSE
INVARIANT TraceWalkCorrect
