CONSTANT Level = 1
SPECIFICATION Spec
INVARIANT AlignedOK
INVARIANT Export
CHECK_DEADLOCK FALSE
