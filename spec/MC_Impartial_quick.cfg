CONSTANT Level = 1
SPECIFICATION Spec
INVARIANT AlignedOK
INVARIANT WideOK
INVARIANT Export
CHECK_DEADLOCK FALSE
