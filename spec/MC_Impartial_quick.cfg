CONSTANT Level = 1
SPECIFICATION Spec
INVARIANT PythDefining
INVARIANT AlignedOK
INVARIANT Export
CHECK_DEADLOCK FALSE
