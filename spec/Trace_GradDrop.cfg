CONSTANT Shapes = {111}
CONSTANT LeakMode = "full"
CONSTANT FKinds = {"id"}
CONSTANT SampleMod = 1
CONSTANT SamplePick = 0
SPECIFICATION TraceSpec
INVARIANT TraceConsumed
CHECK_DEADLOCK FALSE
