CONSTANT Mode = "rows"
CONSTANT ManyM = {27, 40}
CONSTANT Seeds = {1, 2}
CONSTANT MaxSteps = 2
CONSTANT PadCounts = {}
SPECIFICATION Spec
INVARIANT TypeOK
INVARIANT Consistent
INVARIANT DistInvariant
INVARIANT OffsetInvariant
INVARIANT LawMany
INVARIANT PadLaw
CHECK_DEADLOCK FALSE
