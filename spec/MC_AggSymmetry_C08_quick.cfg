CONSTANT Mode = "cols"
CONSTANT MaxSteps = 2
CONSTANT MaxZero = 1
CONSTANT RowCounts = {2, 3, 4}
CONSTANT PadCounts = {8191, 16384}
CONSTANT NGen = 3
SPECIFICATION Spec
INVARIANT TypeOK
INVARIANT Consistent
INVARIANT GramInvariant
INVARIANT LawC08
INVARIANT PadLaw
INVARIANT WideLaw
INVARIANT HistLaw
INVARIANT Export
CHECK_DEADLOCK FALSE
