----------------------------- MODULE AggContract -----------------------------
(***************************************************************************)
(* C11 - contract of an aggregator OBJECT of torchjd.aggregation.          *)
(*                                                                         *)
(* An aggregator instance is constructed once (Init picks the kind =       *)
(* class + parameters), may see the global RNG re-seeded (Seed) and is     *)
(* called on inputs described by INPUT CLASSES (Call).  A class fixes      *)
(* everything property C11 talks about: number of dimensions, shape,       *)
(* content (finite / nan / +inf / -inf at some position; the finite        *)
(* integer base matrix comes from the catalogue below), dtype and the      *)
(* power-of-two scale exponent e (the tensor is 2^e * base, exact).        *)
(*                                                                         *)
(* Two layers (DESIGN.md 6):                                               *)
(*   Contract(kind, c)     what the statement of C11 demands               *)
(*                         ("ValueError" | "vector" | "unspecified");      *)
(*   ImplOutcome(kind, c)  what today's code does, check by check          *)
(*                         (bases.py, constant.py, graddrop.py, krum.py,   *)
(*                          trimmed_mean.py, config.py), and which draws   *)
(*                         it requests from the global RNG.                *)
(* TLC checks, over every kind, every class and every history of at most   *)
(* MaxCalls calls: the implementation layer conforms to the contract, the  *)
(* input is never written, and the MEMO property - the abstract result of  *)
(* a call is a function of (kind, class, seed, stream position) only.      *)
(* A pure aggregator has no other state: the model has none.               *)
(* In particular the constant parameter vector of a kind (weights,         *)
(* pref_vector, leak: ParamVec below, entries that no binary floating      *)
(* point format represents) is part of the KIND, not of the state: a       *)
(* history may present matrices of BOTH dtypes to one instance (mixed      *)
(* histories, Cross below) and the value of every call is still a function *)
(* of (kind, class, seed, stream position) - whatever an implementation    *)
(* derives from the parameter for one dtype must not be seen by a call in  *)
(* the other.                                                              *)
(* The RNG is an abstract stream: (seed, sequence of draw requests since   *)
(* the seed was set).                                                      *)
(*                                                                         *)
(* HISTORY SHAPES.  "All call histories of other matrices before the call" *)
(* is not only a matter of WHICH matrices were seen but also of HOW they   *)
(* were presented and of WHO else ran in the process.  A history is one of *)
(*   hist : every call gets a newly built tensor (pres = "new");           *)
(*   hbuf : every call gets THE SAME tensor object, rewritten in place     *)
(*          between the calls (pres = "buf"; via = copy_ / mul_ by a power *)
(*          of two / negation of a row / zero_ / nothing): a jacobian      *)
(*          buffer that a training loop refills;                           *)
(*   htmp : every call gets a short-lived temporary S[idx] of one shape    *)
(*          (several widths up to 3 x 4100, tiles of the 3 x 5 bases) that *)
(*          is released before the next one is built - the allocator hands *)
(*          the same block out again (measured by the harness);            *)
(*   hext : every call gets a new tensor object wrapping the same external *)
(*          memory (torch.from_numpy of an array refilled by numpy): same  *)
(*          address, version counter 0, other content - deterministically; *)
(*   hoth : calls of OTHER aggregator instances (the same class with the   *)
(*          same / other parameters - reg_eps, norm_eps, c, preference     *)
(*          vector, leak, weights - and other classes with non-default     *)
(*          parameters) on matrices of the same and of other shapes and    *)
(*          dtypes precede the call (op = "other").                        *)
(* None of this is state of the model: the value of a call is a function   *)
(* of (kind, class, seed, stream position) - Memo is the single statement  *)
(* - and the harness compares every call of every history shape with       *)
(* history-free repeats: fresh instances on newly built tensors in a       *)
(* process in which NO aggregator has run before (one new process per      *)
(* reference), so that state shared by the instances of a process cannot   *)
(* reach the reference.                                                    *)
(*                                                                         *)
(* Every terminal history is exported (SCN lines) with the expected        *)
(* outcome of every call and is executed on real aggregator instances by   *)
(* harness/checks/c11.py; TraceAggContract.tla validates histories         *)
(* recorded from the real code with the same operators.                    *)
(***************************************************************************)
EXTENDS Integers, Sequences, FiniteSets, TLC, Json

CONSTANTS MaxCalls,     \* longest call history
          HistLevel,    \* 1: small history alphabet (quick tier), 2: full history alphabet
          NSeeds        \* number of seed values usable by Seed (1 or 2)

-----------------------------------------------------------------------------
(* Aggregator kinds: class + constructor parameters                        *)
(*   a : length of weights / pref_vector / leak (0 = not given),           *)
(*       trim_number for TrimmedMean, n_byzantine for Krum                 *)
(*   b : n_selected for Krum                                               *)
(*   pdt : dtype of the tensor-valued parameter ("any" if there is none).  *)
(*       Single calls present inputs of that dtype only; HISTORIES also    *)
(*       present inputs of the other dtype (Cross): the statement is       *)
(*       silent about what such a call returns (today: UPGrad, DualProj,   *)
(*       GradDrop answer in the dtype of the input, Constant, AlignedMTL   *)
(*       and ConFIG raise a RuntimeError), but not about its being         *)
(*       independent of earlier calls and leaving no trace for later ones  *)

(*   alt : 0 = the parameters of the binding's default column, 1 = EVERY    *)
(*       constructor parameter takes its alternate value (AltScalars: reg_eps, *)
(*       norm_eps, c, epsilon, max_iters; ParamEntry(.., 1) for the vectors):  *)
(*       such kinds only occur in "hoth" histories, as the instance under      *)
(*       observation and as the other instances running before it              *)

(*   alt = 2 / 3 : NON-DEFAULT (norm_eps, reg_eps) with norm_eps # reg_eps, in both orders (EpsScalars:    *)
(*       powers of two, so that the model decides sigma_max(2^e J0) against norm_eps exactly from the     *)
(*       integer bracket maxdiag(G0) <= sigma_max(J0)^2 <= tr(G0)).  The two thresholds of the            *)
(*       normalised-Gramian helper are different numbers for these kinds: single calls over scale         *)
(*       exponents that carry sigma_max across reg_eps while it stays on one side of norm_eps, and        *)
(*       across norm_eps, with homogeneity demanded between scales on the SAME side of norm_eps           *)

Kd(name, agg, a, b, pdt)  == [name |-> name, agg |-> agg, a |-> a, b |-> b, pdt |-> pdt, alt |-> 0]
KdA(name, agg, a, b, pdt) == [name |-> name, agg |-> agg, a |-> a, b |-> b, pdt |-> pdt, alt |-> 1]

KdE(name, agg, alt)       == [name |-> name, agg |-> agg, a |-> 0, b |-> 0, pdt |-> "any", alt |-> alt]

\* exponents of the power-of-two thresholds: alt = 2: norm_eps = 2^-27 (7.5e-9) < reg_eps = 2^-10 (9.8e-4);
\* alt = 3: norm_eps = 2^-7 (7.8e-3) > reg_eps = 2^-13 (1.2e-4).  CAGrad has no reg_eps (c = 1/4 as for alt = 1)
EpsScalars == [a \in {2, 3} |-> IF a = 2 THEN [norm_eps_exp |-> -27, reg_eps_exp |-> -10, cagrad_c |-> <<1, 4>>]
                                        ELSE [norm_eps_exp |-> -7,  reg_eps_exp |-> -13, cagrad_c |-> <<1, 4>>]]
EpsKinds == { KdE("UPGradE2", "UPGrad", 2),     KdE("UPGradE3", "UPGrad", 3),
              KdE("DualProjE2", "DualProj", 2), KdE("DualProjE3", "DualProj", 3),
              KdE("CAGradE2", "CAGrad", 2) }
IsEps(kind)     == kind.alt \in {2, 3}
NormEpsExp(kind) == EpsScalars[kind.alt].norm_eps_exp
RegEpsExp(kind)  == EpsScalars[kind.alt].reg_eps_exp

AltKinds == {
    KdA("UPGradA", "UPGrad", 0, 0, "any"),        KdA("DualProjA", "DualProj", 0, 0, "any"),
    KdA("CAGradA", "CAGrad", 0, 0, "any"),        KdA("MGDAA", "MGDA", 0, 0, "any"),
    KdA("UPGradQ3d", "UPGrad", 3, 0, "f64"),      KdA("DualProjQ3d", "DualProj", 3, 0, "f64"),
    KdA("AlignedMTLQ3d", "AlignedMTL", 3, 0, "f64"), KdA("ConFIGQ3d", "ConFIG", 3, 0, "f64"),
    KdA("GradDropM3d", "GradDrop", 3, 0, "f64"),  KdA("ConstantQ3d", "Constant", 3, 0, "f64") }
\* scalar constructor parameters of the alt = 1 kinds (exact rationals; defaults: reg_eps = norm_eps =
\* 1e-4, CAGrad c = 1/2, MGDA epsilon = 1e-3, max_iters = 100).  2^-10 * s(3x5/gen) lies between the
\* two norm_eps values, 1/4 >> 1e-4: an instance that picks up the other's value answers differently
AltScalars == [reg_eps |-> <<1, 4>>, norm_eps |-> <<1, 100>>, cagrad_c |-> <<1, 4>>,
               mgda_epsilon |-> <<1, 10>>, mgda_max_iters |-> 3]

BaseKinds == {
    Kd("Mean", "Mean", 0, 0, "any"),              Kd("Sum", "Sum", 0, 0, "any"),
    Kd("MGDA", "MGDA", 0, 0, "any"),              Kd("PCGrad", "PCGrad", 0, 0, "any"),
    Kd("CAGrad", "CAGrad", 0, 0, "any"),          Kd("IMTLG", "IMTLG", 0, 0, "any"),
    Kd("UPGrad", "UPGrad", 0, 0, "any"),          Kd("DualProj", "DualProj", 0, 0, "any"),
    Kd("AlignedMTL", "AlignedMTL", 0, 0, "any"),  Kd("ConFIG", "ConFIG", 0, 0, "any"),
    Kd("GradDrop", "GradDrop", 0, 0, "any"),      Kd("Random", "Random", 0, 0, "any"),
    Kd("Constant3d", "Constant", 3, 0, "f64"),    Kd("Constant3s", "Constant", 3, 0, "f32"),
    Kd("Constant5d", "Constant", 5, 0, "f64"),    Kd("Constant1s", "Constant", 1, 0, "f32"),
    Kd("UPGradP3d", "UPGrad", 3, 0, "f64"),       Kd("UPGradP4s", "UPGrad", 4, 0, "f32"),
    Kd("DualProjP3s", "DualProj", 3, 0, "f32"),   Kd("DualProjP5d", "DualProj", 5, 0, "f64"),
    Kd("DualProjP3d", "DualProj", 3, 0, "f64"),
    Kd("AlignedMTLP3d", "AlignedMTL", 3, 0, "f64"), Kd("AlignedMTLP5s", "AlignedMTL", 5, 0, "f32"),
    Kd("ConFIGP3d", "ConFIG", 3, 0, "f64"),       Kd("ConFIGP5s", "ConFIG", 5, 0, "f32"),
    Kd("GradDropL3d", "GradDrop", 3, 0, "f64"),   Kd("GradDropL4s", "GradDrop", 4, 0, "f32"),
    Kd("TM0", "TrimmedMean", 0, 0, "any"),        Kd("TM1", "TrimmedMean", 1, 0, "any"),
    Kd("TM2", "TrimmedMean", 2, 0, "any"),
    Kd("Krum0_1", "Krum", 0, 1, "any"),           Kd("Krum1_2", "Krum", 1, 2, "any"),
    Kd("Krum0_5", "Krum", 0, 5, "any") }
HistKinds == BaseKinds \cup AltKinds          \* kinds that occur in histories (as the instance / as another one)
Kinds == HistKinds \cup EpsKinds             \* EpsKinds: single calls only

Randomised(kind)   == kind.agg \in {"PCGrad", "GradDrop", "Random"}
\* the classes the rejection clause of C11 names: "the weighted aggregators, GradDrop and
\* TrimmedMean".  ConFIG is not a _WeightedAggregator and validates nothing (DESIGN.md 9).
Validating(kind)   == kind.agg # "ConFIG"
NormEpsKinds       == {"UPGrad", "DualProj", "CAGrad"}      \* homogeneous only while s >= norm_eps

\* The constant parameter vector of a kind with a > 0 (weights of Constant, leak of GradDrop,
\* pref_vector of the others): exact rationals <<num, den>>, entry i of a vector of any length.
\* The tensor handed to the constructor is the vector rounded to the kind's pdt.  No entry is
\* representable in a binary format (ParamNotDyadic), so that the float64 parameter differs from its
\* own round trip through float32 in EVERY entry: a representation of the parameter derived for one
\* input dtype is distinguishable from the parameter itself.
ParamAggs == {"Constant", "UPGrad", "DualProj", "AlignedMTL", "ConFIG", "GradDrop"}
ParamEntry(agg, i, alt) ==
    IF alt = 0
    THEN CASE agg = "Constant" -> <<(IF i % 2 = 1 THEN 1 ELSE -1) * (i + 1), 7>>    \* 2/7, -3/7, 4/7, -5/7, 6/7
           [] agg = "GradDrop" -> <<i, 7>>                                         \* leak in (0, 1)
           [] OTHER            -> <<3 * i - 2, 11>>                                \* 1/11, 4/11, 7/11, 10/11, 13/11
    ELSE CASE agg = "Constant" -> <<(IF i % 2 = 1 THEN -1 ELSE 1) * (i + 2), 13>>   \* -3/13, 4/13, -5/13, ...
           [] agg = "GradDrop" -> <<6 - i, 13>>                                    \* 5/13, 4/13, 3/13, ...
           [] OTHER            -> <<12 - 2 * i, 13>>                               \* 10/13, 8/13, 6/13, 4/13, 2/13
ParamVec(kind) == IF kind.agg \in ParamAggs /\ kind.a > 0 /\ kind.pdt # "any"
                  THEN [i \in 1..kind.a |-> ParamEntry(kind.agg, i, kind.alt)] ELSE <<>>
MaxParamLen == 5
\* odd denominator that does not divide the numerator: in lowest terms the denominator is odd and > 1
ParamNotDyadic == \A agg \in ParamAggs : \A i \in 1..MaxParamLen : \A alt \in {0, 1} :
                     LET q == ParamEntry(agg, i, alt) IN
                     /\ q[2] > 1 /\ q[2] % 2 = 1
                     /\ (IF q[1] < 0 THEN -q[1] ELSE q[1]) % q[2] # 0
                     /\ (agg = "GradDrop" => (0 < q[1] /\ q[1] < q[2]))
                     /\ (alt = 1 => ParamEntry(agg, i, 0)[1] * q[2] # q[1] * ParamEntry(agg, i, 0)[2])
ASSUME ParamNotDyadic
HasParam(kind) == ParamVec(kind) # <<>>

\* documented row-count requirement
RowOK(kind, m) ==
    CASE kind.agg = "Constant" -> m = kind.a
      [] kind.agg \in {"UPGrad", "DualProj", "AlignedMTL", "ConFIG", "GradDrop"} -> (kind.a = 0 \/ m = kind.a)
      [] kind.agg = "TrimmedMean" -> m >= 2 * kind.a + 1
      [] kind.agg = "Krum" -> (m >= kind.a + 3 /\ m >= kind.b)
      [] OTHER -> m >= 1

-----------------------------------------------------------------------------
(* Catalogue of integer base matrices (one per shape and variant)          *)

Shapes == {<<1, 1>>, <<1, 3>>, <<2, 1>>, <<3, 2>>, <<4, 3>>, <<3, 5>>, <<5, 5>>}

Gen(sh) ==
    CASE sh = <<1, 1>> -> << <<2>> >>
      [] sh = <<1, 3>> -> << <<1, -2, 2>> >>
      [] sh = <<2, 1>> -> << <<2>>, <<-1>> >>
      [] sh = <<3, 2>> -> << <<1, -2>>, <<2, 1>>, <<-1, 1>> >>
      [] sh = <<4, 3>> -> << <<1, -2, 0>>, <<2, 1, -1>>, <<-1, 1, 2>>, <<0, -1, -2>> >>
      [] sh = <<3, 5>> -> << <<1, -2, 0, 2, 1>>, <<2, 1, -1, 0, -2>>, <<-1, 1, 2, 1, 0>> >>
      [] sh = <<5, 5>> -> << <<1, -2, 0, 2, 1>>, <<2, 1, -1, 0, -2>>, <<-1, 1, 2, 1, 0>>,
                             <<0, 2, -1, 1, 2>>, <<1, 0, 2, -2, 1>> >>

\* "dup": second row duplicates the first, last row zero (m >= 3): rank deficient, zero row
Dup(sh) == LET J == Gen(sh)  m == sh[1]  n == sh[2] IN
           [i \in 1..m |-> IF i = 2 THEN J[1]
                           ELSE IF i = m /\ m >= 3 THEN [j \in 1..n |-> 0] ELSE J[i]]
ZeroM(sh) == [i \in 1..sh[1] |-> [j \in 1..sh[2] |-> 0]]
\* "neg": first row negated (what X[0].neg_() makes of "gen"); same singular values as "gen"
Neg(sh) == LET J == Gen(sh) IN [i \in 1..sh[1] |-> IF i = 1 THEN [j \in 1..sh[2] |-> -J[1][j]] ELSE J[i]]

Variants(sh) == IF sh[1] = 1 THEN {"gen", "zero"} ELSE {"gen", "dup", "zero"}      \* single calls
NegShapes    == {<<3, 5>>}
CatVariants(sh) == Variants(sh) \cup (IF sh \in NegShapes THEN {"neg"} ELSE {})     \* + histories
Base(sh, v)  == CASE v = "gen" -> Gen(sh) [] v = "dup" -> Dup(sh) [] v = "neg" -> Neg(sh) [] OTHER -> ZeroM(sh)

\* exact integer linear algebra on the Gramian: rank, trace, product of the non-zero eigenvalues
IDot(u, v) == LET F[i \in 0..Len(u)] == IF i = 0 THEN 0 ELSE F[i - 1] + u[i] * v[i] IN F[Len(u)]
Gram(J)    == [i \in 1..Len(J) |-> [j \in 1..Len(J) |-> IDot(J[i], J[j])]]
Minor(M, i, j) == LET n == Len(M) IN
                  [a \in 1..(n - 1) |-> [b \in 1..(n - 1) |->
                      M[IF a < i THEN a ELSE a + 1][IF b < j THEN b ELSE b + 1]]]
RECURSIVE IDet(_)
IDet(M) == IF Len(M) = 0 THEN 1
           ELSE IF Len(M) = 1 THEN M[1][1]
           ELSE LET F[j \in 0..Len(M)] ==
                      IF j = 0 THEN 0
                      ELSE F[j - 1] + (IF j % 2 = 1 THEN 1 ELSE -1) * M[1][j] * IDet(Minor(M, 1, j))
                IN  F[Len(M)]
RECURSIVE SetToSeq(_)
SetToSeq(S) == IF S = {} THEN <<>> ELSE LET x == CHOOSE y \in S : \A z \in S : y <= z
                                        IN  <<x>> \o SetToSeq(S \ {x})
SubGram(G, S) == LET idx == SetToSeq(S) IN [a \in 1..Len(idx) |-> [b \in 1..Len(idx) |-> G[idx[a]][idx[b]]]]
\* sum of the principal r x r minors = r-th elementary symmetric function of the eigenvalues
PrincipalSum(G, r) ==
    LET Ss == {S \in SUBSET (1..Len(G)) : Cardinality(S) = r}
        RECURSIVE Acc(_)
        Acc(T) == IF T = {} THEN 0 ELSE LET S == CHOOSE S \in T : TRUE IN IDet(SubGram(G, S)) + Acc(T \ {S})
    IN  Acc(Ss)
\* rank of a Gramian = largest r with a non-singular principal r x r submatrix (G is PSD)
RankG(G) == LET R == {r \in 0..Len(G) : r = 0 \/ PrincipalSum(G, r) # 0}
            IN  CHOOSE r \in R : \A q \in R : q <= r
TraceG(G) == LET F[i \in 0..Len(G)] == IF i = 0 THEN 0 ELSE F[i - 1] + G[i][i] IN F[Len(G)]
MaxDiag(G) == LET D == {G[i][i] : i \in 1..Len(G)} IN CHOOSE x \in D : \A y \in D : y <= x

\* Upper bounds (integers) on the squared condition numbers, restricted to the row space, of the
\* base matrix (Kap2 >= lambda_1/lambda_r of G) and of its unit-row matrix (KapU2).  They are
\* constants of the model; the harness re-derives them in float64 from the exported integer matrix
\* and the exact rank and stops with a machinery error if a bound does not hold.
Kap2(sh, v)  == IF v = "zero" THEN 1 ELSE IF sh[1] >= 4 \/ sh = <<3, 5>> THEN 5 ELSE 2
KapU2(sh, v) == IF v = "zero" THEN 1 ELSE IF sh[1] >= 4 THEN 5 ELSE 3

CatKeys == {<<sh, v>> : sh \in Shapes, v \in {"gen", "dup", "zero", "neg"}}
\* evaluated once by TLC (constant-level definition)
Catalogue == [k \in {q \in CatKeys : q[2] \in CatVariants(q[1])} |->
                LET J == Base(k[1], k[2])  G == Gram(J)  r == RankG(G) IN
                [J |-> J, rank |-> r, tr |-> TraceG(G), er |-> IF r = 0 THEN 1 ELSE PrincipalSum(G, r),
                 maxdiag |-> MaxDiag(G), kap2 |-> Kap2(k[1], k[2]), kapu2 |-> KapU2(k[1], k[2])]]

Min(a, b) == IF a < b THEN a ELSE b
CatalogueSane ==
    /\ \A sh \in Shapes : Catalogue[<<sh, "gen">>].rank = Min(sh[1], sh[2])     \* generic = full rank
    /\ \A sh \in Shapes : Catalogue[<<sh, "zero">>].rank = 0
    /\ \A sh \in Shapes : sh[1] >= 2 => Catalogue[<<sh, "dup">>].rank < Min(sh[1], sh[2]) \/ sh[2] = 1
    /\ \A k \in DOMAIN Catalogue : Catalogue[k].er >= 1
    /\ \A sh \in NegShapes : LET a == Catalogue[<<sh, "gen">>]  b == Catalogue[<<sh, "neg">>] IN
                               a.rank = b.rank /\ a.tr = b.tr /\ a.er = b.er /\ a.J # b.J
ASSUME CatalogueSane

-----------------------------------------------------------------------------
(* Input classes                                                           *)
(*   dims    : shape (<<>> = 0-d, <<3>> = 1-d, <<m, n>>, <<2, 2, 2>> = 3-d) *)
(*   var     : catalogue variant of the finite base ("na" if not 2-d)      *)
(*   content : "finite" | "nan" | "pinf" | "ninf"   (one entry replaced)   *)
(*   pos     : "first" | "last"  position of the non-finite entry          *)
(*   dtype   : "f32" | "f64"; histories also "bf16" | "f16" (LowPrec: the  *)
(*             statement's scale ranges name float32 and float64 only, so  *)
(*             what such a call returns is not demanded - today Mean, Sum, *)
(*             MGDA, PCGrad, IMTLG, GradDrop, Random, TrimmedMean answer   *)
(*             in the input's dtype, the others hit a torch kernel that    *)
(*             does not exist for the dtype - but it must do what a fresh  *)
(*             instance does and leave no trace for later calls)           *)
(*   e       : scale exponent, tensor = 2^e * base                         *)
(*   w       : the tensor is the base tiled w times side by side           *)
(*             (dims[2] * w columns; Gramian = w * Gramian of the base)    *)

Cl(dims, var, content, pos, dtype, e) ==
    [dims |-> dims, var |-> var, content |-> content, pos |-> pos, dtype |-> dtype, e |-> e, w |-> 1]
ClW(dims, var, dtype, w) ==
    [dims |-> dims, var |-> var, content |-> "finite", pos |-> "first", dtype |-> dtype, e |-> 0, w |-> w]
LowPrec(c) == c.dtype \in {"bf16", "f16"}

\* scales of the statement: 1e-12 .. 1e15 (float32), 1e-100 .. 1e100 (float64); the largest
\* entry of a base matrix is 2:  2^-39 = 1.8e-12, 2 * 2^48 = 5.6e14, 2^-332 = 1.1e-100,
\* 2 * 2^331 = 8.7e99
Exps(dt) == IF dt = "f32" THEN {-39, -26, -13, -10, 0, 10, 30, 48}
            ELSE {-332, -100, -39, -13, -10, 0, 48, 100, 331}
DTypes == {"f32", "f64"}
\* further exponents for the kinds with norm_eps # reg_eps (both dtypes): with the general ones they put
\* sigma_max(2^e J0) above both thresholds, between them (either order) and below both
EpsExps   == {-20, -16, -6}
EpsShapes == {<<2, 1>>, <<3, 2>>, <<4, 3>>, <<3, 5>>, <<5, 5>>}      \* m >= 2: rows can conflict

IsCatalogued(c) == /\ Len(c.dims) = 2 /\ <<c.dims, c.var>> \in DOMAIN Catalogue /\ c.w = 1
                   /\ c.dtype \in DTypes /\ c.e \in (Exps(c.dtype) \cup EpsExps)

SingleFinite == UNION {{Cl(sh, v, "finite", "first", dt, e) : v \in Variants(sh), e \in Exps(dt)} :
                          sh \in Shapes, dt \in DTypes}
SingleEps    == UNION {{Cl(sh, v, "finite", "first", dt, e) : v \in {"gen", "dup"}, e \in (Exps(dt) \cup EpsExps)} :
                          sh \in EpsShapes, dt \in DTypes}
SingleNon2d  == {Cl(d, "na", "finite", "first", dt, 0) : d \in {<<>>, <<3>>, <<2, 2, 2>>}, dt \in DTypes}
SingleBad    == {Cl(sh, "gen", ct, p, dt, 0) : sh \in {<<1, 1>>, <<4, 3>>, <<3, 5>>, <<5, 5>>},
                    ct \in {"nan", "pinf", "ninf"}, p \in {"first", "last"}, dt \in DTypes}
SingleAlphabet == SingleFinite \cup SingleNon2d \cup SingleBad

\* history alphabet: the same values in another dtype, the same shape with other content, the same
\* content at another scale, other shapes, and rejected inputs in between
\* + an all-zero matrix (and "dup" has a zero row) before regular ones, a low-precision matrix
HistSmall == { Cl(<<3, 5>>, "zero", "finite", "first", "f64", 0),
               Cl(<<3, 5>>, "gen", "finite", "first", "bf16", 0),
               Cl(<<3, 5>>, "gen", "finite", "first", "f64", 0),
               Cl(<<3, 5>>, "gen", "finite", "first", "f32", 0),
               Cl(<<3, 5>>, "dup", "finite", "first", "f64", 0),
               Cl(<<3, 5>>, "gen", "finite", "first", "f64", 48),
               Cl(<<5, 5>>, "gen", "finite", "first", "f64", 0),
               Cl(<<3>>, "na", "finite", "first", "f64", 0),
               Cl(<<3, 5>>, "gen", "nan", "last", "f64", 0) }
HistFull  == HistSmall \cup
             { Cl(<<4, 3>>, "gen", "finite", "first", "f32", 0),
               Cl(<<5, 5>>, "dup", "finite", "first", "f32", 10),
               Cl(<<3, 2>>, "gen", "finite", "first", "f64", 0),
               Cl(<<3, 5>>, "gen", "finite", "first", "f16", 0),
               Cl(<<4, 3>>, "zero", "finite", "first", "f32", 0) }
HistAlphabet == IF HistLevel = 1 THEN HistSmall ELSE HistFull

\* hbuf: contents of ONE tensor object (all of one shape and dtype - SameSlot below - so that each can be
\* written over the previous one in place): other rows, a negated row, a power-of-two multiple, zeros,
\* a nan in between
Buf64 == { Cl(<<3, 5>>, "gen", "finite", "first", "f64", 0),  Cl(<<3, 5>>, "dup", "finite", "first", "f64", 0),
           Cl(<<3, 5>>, "neg", "finite", "first", "f64", 0),  Cl(<<3, 5>>, "zero", "finite", "first", "f64", 0),
           Cl(<<3, 5>>, "gen", "finite", "first", "f64", 48), Cl(<<3, 5>>, "gen", "nan", "last", "f64", 0) }
Buf32 == { Cl(<<3, 5>>, "gen", "finite", "first", "f32", 0),  Cl(<<3, 5>>, "dup", "finite", "first", "f32", 0),
           Cl(<<3, 5>>, "neg", "finite", "first", "f32", 0),  Cl(<<3, 5>>, "gen", "finite", "first", "f32", -10) }
Buf55 == { Cl(<<5, 5>>, "gen", "finite", "first", "f64", 0),  Cl(<<5, 5>>, "dup", "finite", "first", "f64", 0),
           Cl(<<5, 5>>, "zero", "finite", "first", "f64", 0) }
BufAlphabet == IF HistLevel = 1 THEN Buf64 ELSE Buf64 \cup Buf32 \cup Buf55
\* how the harness turns content b of the buffer into content c, in place
ViaOf(b, c) ==
    IF b = c THEN "same"                                                    \* untouched: the same object again
    ELSE IF c.var = "zero" THEN "zero_"
    ELSE IF b.content = "finite" /\ c.content = "finite" /\ b.var = c.var /\ b.e # c.e THEN "mul_"
    ELSE IF b.content = "finite" /\ c.content = "finite" /\ b.e = c.e /\ {b.var, c.var} = {"gen", "neg"} THEN "neg_row"
    ELSE "copy_"

\* htmp: temporaries of one shape; widths 65, 320, 4100 (16385 in the thorough tier)
TmpWidths == IF HistLevel = 1 THEN {13, 64, 820} ELSE {13, 64, 820, 3277}
TmpVars   == IF HistLevel = 1 THEN {"gen", "neg"} ELSE {"gen", "neg", "dup"}
TmpAlphabet == {ClW(<<3, 5>>, v, "f64", w) : v \in TmpVars, w \in TmpWidths}
               \cup {ClW(<<3, 5>>, v, "f32", 820) : v \in TmpVars}
\* hext: re-wrapped external memory; the address is the same by construction, any width will do
ExtAlphabet == {ClW(<<3, 5>>, v, "f64", w) : v \in {"gen", "neg", "dup"}, w \in {1, 64}}
               \cup (IF HistLevel = 1 THEN {} ELSE {ClW(<<3, 5>>, v, "f32", 1) : v \in {"gen", "neg", "dup"}})

\* hoth: what the other instances see, and what the instance under observation sees afterwards
\* (2^-10 * 3x5/gen: largest singular value between the default and the alternate norm_eps)
OthClasses  == { Cl(<<3, 5>>, "gen", "finite", "first", "f64", 0), Cl(<<3, 5>>, "dup", "finite", "first", "f64", 0),
                 Cl(<<3, 5>>, "gen", "finite", "first", "f32", 0) }
               \cup (IF HistLevel = 1 THEN {} ELSE {Cl(<<5, 5>>, "gen", "finite", "first", "f64", 0)})
OthMain     == { Cl(<<3, 5>>, "gen", "finite", "first", "f64", 0), Cl(<<3, 5>>, "gen", "finite", "first", "f64", -10) }
               \cup (IF HistLevel = 1 THEN {} ELSE {Cl(<<3, 5>>, "gen", "finite", "first", "f32", 0),
                                                    Cl(<<5, 5>>, "gen", "finite", "first", "f64", 0)})
\* classes whose source files share helper modules (anchors of C11: _gramian_utils / _dual_cone_utils,
\* _pref_vector_utils / constant.py, the RNG users, the row selectors, the plain combinations)
Families == { {"UPGrad", "DualProj", "CAGrad"}, {"UPGrad", "DualProj", "AlignedMTL", "ConFIG", "Constant"},
              {"PCGrad", "GradDrop", "Random"}, {"Krum", "TrimmedMean"}, {"Mean", "Sum", "MGDA", "IMTLG"} }
\* the other instances: every kind of the same class (the same parameters included: a twin), and the
\* kinds with alternate parameters - of the same family in the quick tier, all of them in the thorough one
OtherTab == [kd \in HistKinds |-> {k \in HistKinds : k.agg = kd.agg}
                  \cup {k \in AltKinds : HistLevel >= 2 \/ \E F \in Families : kd.agg \in F /\ k.agg \in F}]
OtherKinds(kind) == OtherTab[kind]

\* single calls: a kind with a tensor parameter is used with inputs of the parameter's dtype;
\* histories: with both dtypes (every history alphabet holds the same matrix in float32 and in
\* float64, so that float32 -> float64 and float64 -> float32 orders both occur on one instance)
DtypeOK(kind, c) == kind.pdt = "any" \/ kind.pdt = c.dtype
Cross(kind, c)   == ~DtypeOK(kind, c)
\* measured on the unchanged tree: these answer in the dtype of the INPUT when the parameter vector has
\* the other float dtype (UPGrad / DualProj re-type the projected weights, GradDrop the leak per call), so
\* "maps every finite matrix ... to a finite vector in the dtype of the input" is demanded of them there too
CrossSupported == {"UPGrad", "DualProj", "GradDrop"}
\* single calls: the parameter's dtype; for the kinds that support the other one also the finite matrices
\* at scale exponent 0 in it
SingleOK(kind, c) == DtypeOK(kind, c) \/ (kind.agg \in CrossSupported /\ Len(c.dims) = 2 /\ c.content = "finite" /\ c.e = 0)
SingleTab == [k \in BaseKinds \cup EpsKinds |->
                 IF IsEps(k) THEN SingleEps ELSE {c \in SingleAlphabet : SingleOK(k, c)}]       \* evaluated once
Alphabet(kind, mode) ==
    CASE mode = "single" -> SingleTab[kind]
      [] mode = "hist" -> HistAlphabet
      [] mode = "hbuf" -> BufAlphabet
      [] mode = "htmp" -> TmpAlphabet
      [] mode = "hext" -> ExtAlphabet
      [] OTHER -> OthMain

-----------------------------------------------------------------------------
(* Property layer: the contract table of C11                               *)

Contract(kind, c) ==
    IF Len(c.dims) # 2 THEN (IF Validating(kind) THEN "ValueError" ELSE "unspecified")
    ELSE IF c.content # "finite" THEN (IF Validating(kind) THEN "ValueError" ELSE "unspecified")
    ELSE IF ~RowOK(kind, c.dims[1]) THEN "ValueError"
    ELSE IF LowPrec(c) THEN "unspecified"         \* outcome not demanded; independence of history is
    ELSE IF Cross(kind, c) /\ kind.agg \notin CrossSupported THEN "unspecified"
    ELSE "vector"       \* finite vector, one entry per column, dtype of the input

\* a finite matrix meeting the row requirement; presented in the other dtype than the parameter's
Admissible(kind, c)      == Len(c.dims) = 2 /\ c.content = "finite" /\ RowOK(kind, c.dims[1])
CrossAdmissible(kind, c) == Cross(kind, c) /\ Admissible(kind, c)
Open(kind, c)  == LowPrec(c) \/ (Cross(kind, c) /\ kind.agg \notin CrossSupported)   \* outcome left open

ExpectN(c)     == c.dims[2] * c.w    \* only used when Contract = "vector"
ExpectDtype(c) == c.dtype

-----------------------------------------------------------------------------
(* Implementation-shaped layer: order of the checks of today's code        *)

LowPrecAggs == {"Mean", "Sum", "MGDA", "PCGrad", "IMTLG", "GradDrop", "Random", "TrimmedMean"}   \* measured (CPU)
ImplWeighted(kind, c) ==        \* _WeightedAggregator.forward, then the weighting's own check
    IF Len(c.dims) # 2 THEN "VE_matrix"
    ELSE IF c.content # "finite" THEN "VE_finite"
    ELSE IF ~RowOK(kind, c.dims[1]) THEN "VE_rows"
    ELSE IF Cross(kind, c) /\ kind.agg \in {"Constant", "AlignedMTL"} THEN "Err_other"   \* J.T @ weights
    ELSE IF LowPrec(c) /\ kind.agg \notin LowPrecAggs THEN "Err_other"                   \* no svd / eigh / cdist kernel
    ELSE "vector"                   \* UPGrad / DualProj re-type the preference vector per call
ImplRowsFirst(kind, c) ==       \* GradDrop, TrimmedMean: matrix, rows, finite
    IF Len(c.dims) # 2 THEN "VE_matrix"
    ELSE IF ~RowOK(kind, c.dims[1]) THEN "VE_rows"
    ELSE IF c.content # "finite" THEN "VE_finite"
    ELSE "vector"
ImplConFIG(kind, c) ==          \* only the preference vector's row check, on shape[0]
    IF kind.a > 0 /\ Len(c.dims) = 0 THEN "Err_other"
    ELSE IF kind.a > 0 /\ c.dims[1] # kind.a THEN "VE_rows"
    ELSE IF Len(c.dims) # 2 THEN "Err_other"
    ELSE IF Cross(kind, c) \/ LowPrec(c) THEN "Err_other"
    ELSE IF c.content # "finite" THEN "vector_nonfinite"
    ELSE "vector"
ImplOutcome(kind, c) ==
    CASE kind.agg = "ConFIG" -> ImplConFIG(kind, c)
      [] kind.agg \in {"GradDrop", "TrimmedMean"} -> ImplRowsFirst(kind, c)
      [] OTHER -> ImplWeighted(kind, c)

IsValueError(o) == o \in {"VE_matrix", "VE_finite", "VE_rows"}
Conforms(contract, impl) ==
    CASE contract = "ValueError" -> IsValueError(impl)
      [] contract = "vector" -> impl = "vector"
      [] OTHER -> TRUE

\* draws requested from the global RNG by a successful call (pcgrad.py: one randperm(m) per row;
\* graddrop.py: one rand(n); random.py: one randn(m)); a rejected call draws nothing
Draws(kind, c) ==
    IF ImplOutcome(kind, c) # "vector" THEN <<>>
    ELSE CASE kind.agg = "PCGrad"   -> [i \in 1..c.dims[1] |-> <<"randperm", c.dims[1], "i64">>]
           [] kind.agg = "GradDrop" -> << <<"rand", c.dims[2] * c.w, c.dtype>> >>
           [] kind.agg = "Random"   -> << <<"randn", c.dims[1], c.dtype>> >>
           [] OTHER -> <<>>

-----------------------------------------------------------------------------
(* Positive homogeneity: is A(2^e J0) = 2^e A(J0) demanded for this class, and with which        *)
(* amplification factor K (allowance = 64 * eps(dtype) * K * |weights| * column sums, see c11.py) *)

\* 2^e * s0 >= norm_eps = 1e-4 is certain for e >= -13 (s0^2 >= largest diagonal entry >= 1,
\* 2^-13 = 1.22e-4); it certainly fails when 4^e * tr(G0) < 2^-28 < 1e-8
Pow2(k) == LET F[i \in 0..k] == IF i = 0 THEN 1 ELSE 2 * F[i - 1] IN F[k]
NormEpsSide(c) ==
    LET info == Catalogue[<<c.dims, c.var>>] IN
    IF info.rank = 0 THEN "below"
    ELSE IF c.e >= -13 THEN "above"
    ELSE IF (-28 - 2 * c.e) >= 30 \/ info.tr < Pow2(-28 - 2 * c.e) THEN "below"
    ELSE "straddle"

\* Kinds with power-of-two thresholds (IsEps): sigma_max(2^e J0) >= 2^p  <=>  sigma_max(J0)^2 >= 4^(p - e), and
\* maxdiag(G0) <= sigma_max(J0)^2 <= tr(G0) (integers).  A factor 2 is kept on either side of the threshold so
\* that the rounding of the code's own SVD cannot change the side (no ties: exact exclusion, counted).
\* d = p - e; 4^d <= 1/4 for d <= -1 while sigma_max(J0)^2 >= 1; tr(G0) < 2^28 < 4^15 / 2
ThresholdSide(info, d) ==
    IF info.rank = 0 THEN "below"
    ELSE IF d <= -1 THEN "above"
    ELSE IF d >= 15 THEN "below"
    ELSE IF info.maxdiag >= 2 * Pow2(2 * d) THEN "above"
    ELSE IF 2 * info.tr <= Pow2(2 * d) THEN "below"
    ELSE "straddle"
ASSUME \A k \in DOMAIN Catalogue : Catalogue[k].tr < Pow2(28) /\ (Catalogue[k].rank > 0 => Catalogue[k].maxdiag >= 1)
\* side of norm_eps / of reg_eps (the latter only tells which region of the configuration space a class probes)
NormEpsSideK(kind, c) == IF IsEps(kind) THEN ThresholdSide(Catalogue[<<c.dims, c.var>>], NormEpsExp(kind) - c.e)
                         ELSE NormEpsSide(c)
RegEpsSideK(kind, c)  == IF IsEps(kind) THEN ThresholdSide(Catalogue[<<c.dims, c.var>>], RegEpsExp(kind) - c.e)
                         ELSE "na"

\* rank decisions of pinv / eigh based aggregators are only clear-cut when no singular value that
\* is exactly zero has to be told from rounding noise
RankClear(kind, c) ==
    LET info == Catalogue[<<c.dims, c.var>>]  m == c.dims[1]  n == c.dims[2] IN
    CASE kind.agg = "IMTLG"      -> info.rank = m \/ info.rank = 0
      [] kind.agg = "ConFIG"     -> info.rank = Min(m, n) \/ info.rank = 0
      [] kind.agg = "AlignedMTL" -> info.rank = m \/ info.rank = 0 \/ c.dtype = "f64"
      [] OTHER -> TRUE

\* "demand"       : A(2^e J0) 2^-e = A(J0), both sides >= norm_eps (reference e = 0: always above, HomWellDefined);
\* "demand_below" : UPGrad / DualProj / CAGrad with sigma_max < norm_eps: "below it they average by design" - the
\*                  weights do not depend on the matrix there, so the identity holds between any two such scales
\*                  (reference: the largest exponent of the group that is below); never across norm_eps
HomDemand(kind, c) ==          \* c catalogued, finite, contract "vector"
    IF kind.agg \in NormEpsKinds /\ NormEpsSideK(kind, c) = "below" THEN "demand_below"
    ELSE IF kind.agg \in NormEpsKinds /\ NormEpsSideK(kind, c) # "above" THEN "not_above_norm_eps"
    ELSE IF ~RankClear(kind, c) THEN "rank_ambiguous"
    ELSE "demand"

HomK(kind, c) ==
    LET info == Catalogue[<<c.dims, c.var>>] IN
    CASE kind.agg \in NormEpsKinds /\ NormEpsSideK(kind, c) = "below" -> 1     \* constant weights: exact
      [] kind.agg \in {"UPGrad", "DualProj"} /\ IsEps(kind) -> Pow2(-RegEpsExp(kind)) + 1     \* (1 + reg_eps)/reg_eps
      [] kind.agg \in {"UPGrad", "DualProj"} -> 10001         \* cond(G/s^2 + reg_eps I) <= (1 + 1e-4)/1e-4
      [] kind.agg = "CAGrad"     -> 0                          \* conic solver: predicate level, see c11.py
      [] kind.agg = "IMTLG"      -> info.kap2
      [] kind.agg = "AlignedMTL" -> info.kap2
      [] kind.agg = "ConFIG"     -> info.kapu2
      [] OTHER -> 1                                            \* exact under power-of-two scaling

\* The region the kinds with norm_eps # reg_eps are there for is not empty: for every such kind and dtype there
\* are two classes of one base on the same side of norm_eps - so that the identity is demanded between them -
\* and on DIFFERENT sides of reg_eps (above norm_eps when norm_eps < reg_eps, below it when norm_eps > reg_eps)
EpsRegionCovered ==
    \A k \in EpsKinds : \A dt \in DTypes : \E c1, c2 \in SingleEps :
        /\ c1.dtype = dt /\ c2.dtype = dt /\ c1.dims = <<3, 5>> /\ c2.dims = <<3, 5>> /\ c1.var = "gen" /\ c2.var = "gen"
        /\ NormEpsSideK(k, c1) = NormEpsSideK(k, c2)
        /\ NormEpsSideK(k, c1) = (IF NormEpsExp(k) < RegEpsExp(k) THEN "above" ELSE "below")
        /\ RegEpsSideK(k, c1) = "above" /\ RegEpsSideK(k, c2) = "below"
ASSUME EpsRegionCovered

-----------------------------------------------------------------------------
(* State machine of one aggregator object (and of the process it lives in) *)

VARIABLES kind,         \* the constructed aggregator (the instance under observation)
          mode,         \* "single" (one call over the full alphabet) | history shape "hist" | "hbuf" |
                        \* "htmp" | "hext" | "hoth" (see the head of the module)
          rng,          \* [seed, stream, calls]: abstract global RNG (draw requests and number of
                        \* calls of any instance since the seed was set)
          steps,        \* history: sequence of [op, s, ok, c, pres, via, rngRaw, rngBefore, expect, impl]
          ncalls,       \* number of "call" and "other" steps
          inputsIntact  \* no call ever wrote to an input tensor

vars == <<kind, mode, rng, steps, ncalls, inputsIntact>>

Modes   == {"single", "hist", "hbuf", "htmp", "hext", "hoth"}
Seeds   == IF NSeeds = 1 THEN {"s0"} ELSE {"s0", "s1"}
NoClass == Cl(<<>>, "na", "finite", "first", "f64", 0)
\* hist: MaxCalls calls over the core classes, 2 calls once an all-zero or low-precision matrix is involved;
\* hoth: one other instance, then the call; rewritten buffer / temporaries / re-wrapped memory: 2 calls in
\* the quick tier, MaxCalls in the thorough one
HistExtra(c) == LowPrec(c) \/ c.var = "zero"
Limit   == CASE mode = "single" -> 1
             [] mode = "hist" -> (IF \E i \in DOMAIN steps : steps[i].op = "call" /\ HistExtra(steps[i].c)
                                 THEN 2 ELSE MaxCalls)
             [] mode = "hoth" -> 2
             [] OTHER -> (IF HistLevel = 1 THEN 2 ELSE MaxCalls)

\* the quick tier explores histories for one representative of every aggregator class and parameter
\* style (single calls: all kinds)
QuickHistKinds == {"Mean", "Sum", "MGDA", "PCGrad", "CAGrad", "IMTLG", "UPGrad", "DualProj", "AlignedMTL",
                   "ConFIG", "GradDrop", "Random", "Constant3d", "UPGradP3d", "ConFIGP3d", "GradDropL3d",
                   "DualProjP3d", "AlignedMTLP3d",      \* every parameter-vector class, float64 parameter
                   "Constant3s", "DualProjP3s",         \* float32 parameter, float64 calls in between
                   "TM1", "Krum0_1"}
Init == /\ kind \in Kinds
        /\ mode \in Modes
        /\ (mode # "hoth" => kind.alt # 1)
        /\ (IsEps(kind) => mode = "single")       \* norm_eps # reg_eps: homogeneity across both thresholds
        /\ (mode # "single" => (HistLevel >= 2 \/ kind.name \in QuickHistKinds \/ kind.alt = 1))
        /\ rng = [seed |-> "s0", stream |-> <<>>, calls |-> 0]     \* the harness seeds before constructing
        /\ steps = <<>> /\ ncalls = 0 /\ inputsIntact = TRUE

\* abstract value of a call: a function of (kind, class, seed, stream position) and nothing else
RngKey(k, r) == IF Randomised(k) THEN r ELSE [seed |-> "det", stream |-> <<>>, calls |-> 0]
\* the property itself only promises reproducibility right after a seed ("equal seeds give equal
\* results": no call of any instance since the seed) and independence of earlier calls for
\* deterministic aggregators; at later stream positions the implementation layer's draw accounting
\* (Draws; "a rejected call draws nothing") is used, and a mismatch there is only DRIFT
MemoLevel(k, r) == IF ~Randomised(k) \/ r.calls = 0 THEN "property" ELSE "impl"

CallStep(k, r, c, pres, via) ==
    [op |-> "call", s |-> "-", ok |-> k, c |-> c, pres |-> pres, via |-> via, rngRaw |-> r,
     rngBefore |-> RngKey(k, r), expect |-> Contract(k, c), impl |-> ImplOutcome(k, c)]
RngAfterCall(k, r, c) == [seed |-> r.seed, stream |-> r.stream \o Draws(k, c), calls |-> r.calls + 1]

CallIdx       == {i \in DOMAIN steps : steps[i].op = "call"}
LastCallClass == steps[CHOOSE i \in CallIdx : \A q \in CallIdx : q <= i].c
\* hbuf / htmp / hext: every call of a history has the shape, width and dtype of the first one (one
\* buffer; temporaries of one size; one block of external memory)
Slot(c)     == <<c.dims, c.w, c.dtype>>
SameSlot(c) == \A i \in CallIdx : Slot(steps[i].c) = Slot(c)

CallGen(c, pres, via) ==
    /\ ncalls < Limit
    /\ steps' = Append(steps, CallStep(kind, rng, c, pres, via))
    /\ rng' = RngAfterCall(kind, rng, c)
    /\ ncalls' = ncalls + 1
    /\ UNCHANGED <<kind, mode, inputsIntact>>       \* in particular: the input is not written

Call(c) == /\ (mode = "hist" /\ HistExtra(c) => ncalls < 2)        \* not as the third call after two core ones
           /\ CASE mode \in {"single", "hist", "hoth"} -> CallGen(c, "new", "-")
                [] mode = "hbuf" -> SameSlot(c) /\ CallGen(c, "buf", IF CallIdx = {} THEN "alloc" ELSE ViaOf(LastCallClass, c))
                [] mode = "htmp" -> SameSlot(c) /\ CallGen(c, "tmp", "-")
                [] OTHER         -> SameSlot(c) /\ CallGen(c, "ext", IF CallIdx = {} THEN "alloc" ELSE "numpy")

\* another instance (constructed for the occasion) aggregates a matrix; the history ends with a call of
\* the instance under observation
Other(k, c) == /\ mode = "hoth" /\ ncalls < Limit - 1
               /\ steps' = Append(steps, [op |-> "other", s |-> "-", ok |-> k, c |-> c, pres |-> "new", via |-> "-",
                                          rngRaw |-> rng, rngBefore |-> RngKey(k, rng),
                                          expect |-> Contract(k, c), impl |-> ImplOutcome(k, c)])
               /\ rng' = RngAfterCall(k, rng, c)
               /\ ncalls' = ncalls + 1
               /\ UNCHANGED <<kind, mode, inputsIntact>>

Seed(s) == /\ mode # "single" /\ Randomised(kind) /\ ncalls < Limit
           /\ ((HistLevel >= 2 /\ mode = "hist") \/ ncalls = Limit - 1)   \* else: re-seed only before the last call
           /\ (IF steps = <<>> THEN TRUE ELSE steps[Len(steps)].op # "seed")   \* no two seeds in a row
           /\ steps' = Append(steps, [op |-> "seed", s |-> s, ok |-> kind, c |-> NoClass, pres |-> "-", via |-> "-",
                                      rngRaw |-> rng, rngBefore |-> RngKey(kind, rng), expect |-> "-", impl |-> "-"])
           /\ rng' = [seed |-> s, stream |-> <<>>, calls |-> 0]
           /\ UNCHANGED <<kind, mode, ncalls, inputsIntact>>

CallAny  == \E c \in Alphabet(kind, mode) : Call(c)
SeedAny  == \E s \in Seeds : Seed(s)
OtherAny == mode = "hoth" /\ \E k \in OtherKinds(kind), c \in OthClasses : Other(k, c)
Next == CallAny \/ SeedAny \/ OtherAny
Spec == Init /\ [][Next]_vars

-----------------------------------------------------------------------------
(* Properties checked by TLC                                               *)

TypeOK == /\ kind \in Kinds /\ mode \in Modes /\ ncalls \in 0..MaxCalls
          /\ rng.seed \in Seeds /\ inputsIntact \in BOOLEAN

IsCall(i) == steps[i].op = "call"

\* totality: the contract decides every (kind, class); a vector is demanded exactly for finite
\* matrices meeting the row requirement in float32 / float64 (for a kind with a parameter vector of the
\* other dtype: where today's code supports the combination)
ContractTotal == \A i \in DOMAIN steps : IsCall(i) =>
                    /\ steps[i].expect \in {"ValueError", "vector", "unspecified"}
                    /\ (steps[i].expect = "vector") <=>
                         (Admissible(kind, steps[i].c) /\ ~Open(kind, steps[i].c))
                    /\ (steps[i].expect = "unspecified" => (~Validating(kind) \/ Open(kind, steps[i].c)))
                    \* the rejection clause does not depend on the dtype of the matrix or of the parameter
                    /\ (Validating(kind) /\ steps[i].expect = "unspecified") =>
                          (Admissible(kind, steps[i].c) /\ Open(kind, steps[i].c))
                    /\ (Admissible(kind, steps[i].c) /\ Open(kind, steps[i].c)) => steps[i].expect = "unspecified"
                    /\ (CrossAdmissible(kind, steps[i].c) /\ kind.agg \in CrossSupported /\ ~LowPrec(steps[i].c))
                          => steps[i].expect = "vector"

\* today's order of checks conforms to the contract
ImplConforms == \A i \in DOMAIN steps : IsCall(i) => Conforms(steps[i].expect, steps[i].impl)

InputNeverWritten == inputsIntact
NoWrite == [][inputsIntact' = inputsIntact]_vars

\* MEMO - the single statement of "its result does not depend on earlier calls, equal seeds give equal
\* results": same kind, class, seed and stream position => same abstract value (and the same demand on
\* it), whatever happened before - which matrices were seen, in which dtype, through which tensor
\* objects (new / the same one rewritten in place / temporaries / re-wrapped memory), and whichever
\* other instances ran in the process; a deterministic aggregator ignores the RNG altogether.
\* The harness realises the right-hand side by history-free repeats in pristine processes.
Val(i) == <<kind.name, steps[i].c, steps[i].rngBefore>>
Memo == \A i, j \in DOMAIN steps :
           (IsCall(i) /\ IsCall(j) /\ steps[i].c = steps[j].c /\ steps[i].rngBefore = steps[j].rngBefore)
           => (Val(i) = Val(j) /\ steps[i].expect = steps[j].expect /\ steps[i].impl = steps[j].impl)
\* mixed-dtype histories: the dtype of the calls in between is not part of the value either (the
\* parameter vector belongs to the kind); OtherDtypeBefore(i) is exported so that the harness can
\* tell which memo comparisons were made across dtypes
OtherDtypeBefore(i) == \E j \in 1..(i - 1) : IsCall(j) /\ steps[j].c.dtype # steps[i].c.dtype
                                              /\ Admissible(kind, steps[j].c)
MemoAcrossDtypes == \A i, j \in DOMAIN steps :
           (IsCall(i) /\ IsCall(j) /\ steps[i].c = steps[j].c
            /\ steps[i].rngBefore = steps[j].rngBefore /\ OtherDtypeBefore(i) # OtherDtypeBefore(j))
           => (Val(i) = Val(j) /\ steps[i].expect = steps[j].expect /\ steps[i].impl = steps[j].impl)
\* what the exported flags of a call mean (the harness counts its comparisons by them)
RewrittenBefore(i) == steps[i].pres = "buf" /\ steps[i].via \notin {"alloc", "same"}
OtherBefore(i)     == \E j \in 1..(i - 1) : steps[j].op = "other"
OtherParamsBefore(i) == \E j \in 1..(i - 1) : steps[j].op = "other" /\ steps[j].ok.agg = kind.agg /\ steps[j].ok # kind
ZeroRowBefore(i)   == \E j \in 1..(i - 1) : IsCall(j) /\ Admissible(kind, steps[j].c) /\ steps[j].c.var \in {"dup", "zero"}
DeterministicIgnoresRng == ~Randomised(kind) => \A i \in DOMAIN steps : IsCall(i) => steps[i].rngBefore.seed = "det"
\* a rejected call (of any instance) does not advance the stream; a seed resets it
StreamAccounting == \A i \in DOMAIN steps :
    /\ (steps[i].op = "seed" /\ i < Len(steps)) =>
          steps[i + 1].rngRaw = [seed |-> steps[i].s, stream |-> <<>>, calls |-> 0]
    /\ (steps[i].op # "seed" /\ i < Len(steps) /\ steps[i].impl # "vector") =>
          /\ steps[i + 1].rngRaw.stream = steps[i].rngRaw.stream
          /\ steps[i + 1].rngRaw.seed = steps[i].rngRaw.seed

\* the property-level memo comparison (fresh instance right after the same seed) is only ever
\* demanded for a call that directly follows a seeding (or the construction), at stream position 0
PropertyMemoMeansFreshSeed == \A i \in DOMAIN steps :
    (IsCall(i) /\ Randomised(kind) /\ MemoLevel(kind, steps[i].rngBefore) = "property") =>
        /\ steps[i].rngBefore.stream = <<>>
        /\ (i = 1 \/ steps[i - 1].op = "seed")

\* the history shapes are what the harness takes them for
HistoryShapes ==
    /\ \A i \in DOMAIN steps : IsCall(i) =>
          /\ steps[i].pres = (CASE mode = "hbuf" -> "buf" [] mode = "htmp" -> "tmp" [] mode = "hext" -> "ext" [] OTHER -> "new")
          /\ (mode \in {"hbuf", "htmp", "hext"} => \A j \in DOMAIN steps : IsCall(j) => Slot(steps[j].c) = Slot(steps[i].c))
          /\ (steps[i].via = "mul_" => \E j \in 1..(i - 1) : IsCall(j) /\ steps[j].c.var = steps[i].c.var
                                                               /\ steps[j].c.e # steps[i].c.e)
          /\ (steps[i].via = "same" => \E j \in 1..(i - 1) : IsCall(j) /\ steps[j].c = steps[i].c)
          /\ (steps[i].pres # "buf" => steps[i].via \in {"-", "alloc", "numpy"})
          /\ (steps[i].c.w # 1 => mode \in {"htmp", "hext"})
          /\ (LowPrec(steps[i].c) => mode = "hist")
    /\ \A i \in DOMAIN steps : steps[i].op = "other" =>
          /\ mode = "hoth" /\ steps[i].ok \in OtherKinds(kind) /\ (i < Len(steps) \/ ncalls < Limit)
    /\ (mode # "hoth" => kind.alt # 1) /\ (IsEps(kind) => mode = "single")
    /\ (ncalls >= Limit /\ mode = "hoth" => steps[Len(steps)].op = "call")

\* homogeneity is only ever demanded where the model can decide the side conditions
HomWellDefined == \A i \in DOMAIN steps :
    (mode = "single" /\ IsCall(i) /\ steps[i].expect = "vector" /\ IsCatalogued(steps[i].c)) =>
        /\ HomDemand(kind, steps[i].c) \in {"demand", "demand_below", "not_above_norm_eps", "rank_ambiguous"}
        /\ (steps[i].c.e = 0 /\ steps[i].c.var # "zero" => NormEpsSideK(kind, steps[i].c) = "above")
        /\ (HomDemand(kind, steps[i].c) = "demand_below" => kind.agg \in NormEpsKinds /\ HomK(kind, steps[i].c) = 1)
        /\ HomK(kind, steps[i].c) >= 0
        /\ kind.alt # 1

-----------------------------------------------------------------------------
(* Scenario export (specification -> code)                                 *)

StepOut(i) ==
    LET st == steps[i] IN
    IF st.op = "seed" THEN [op |-> "seed", s |-> st.s]
    ELSE IF st.op = "other" THEN [op |-> "other", k |-> st.ok, param |-> ParamVec(st.ok), c |-> st.c, impl |-> st.impl]
    ELSE LET c == st.c  cat == IsCatalogued(c) /\ st.expect = "vector" IN
         [op |-> "call", c |-> c, expect |-> st.expect, impl |-> st.impl,
          pres |-> st.pres, via |-> st.via,
          n |-> IF st.expect = "vector" THEN ExpectN(c) ELSE -1,
          rng |-> st.rngBefore, memo |-> MemoLevel(kind, st.rngBefore),
          cross |-> CrossAdmissible(kind, c), xdt |-> OtherDtypeBefore(i),
          rewritten |-> RewrittenBefore(i), oth |-> OtherBefore(i), othpar |-> OtherParamsBefore(i),
          zerobefore |-> ZeroRowBefore(i),
          hom |-> IF mode = "single" /\ cat THEN HomDemand(kind, c) ELSE "na",
          homK |-> IF mode = "single" /\ cat THEN HomK(kind, c) ELSE 0,
          regside |-> IF mode = "single" /\ cat THEN RegEpsSideK(kind, c) ELSE "na"]

Scenario == [mode |-> mode, kind |-> kind, param |-> ParamVec(kind), steps |-> [i \in 1..Len(steps) |-> StepOut(i)]]
Export == (ncalls >= Limit) => PrintT(<<"SCN", ToJson(Scenario)>>)

\* the catalogue is exported once (evaluated when TLC checks the assumptions)
RECURSIVE CatSeq(_)
CatSeq(Ks) == IF Ks = {} THEN <<>>
              ELSE LET k == CHOOSE q \in Ks : TRUE IN
                   <<[dims |-> k[1], var |-> k[2], info |-> Catalogue[k]]>> \o CatSeq(Ks \ {k})
ASSUME PrintT(<<"CAT", ToJson(CatSeq(DOMAIN Catalogue))>>)
\* so is the parameter table (the C -> S driver constructs kinds of its own with it)
ASSUME PrintT(<<"PAR", ToJson([agg \in ParamAggs |-> [i \in 1..MaxParamLen |-> ParamEntry(agg, i, 0)]])>>)
ASSUME PrintT(<<"PARALT", ToJson([agg \in ParamAggs |-> [i \in 1..MaxParamLen |-> ParamEntry(agg, i, 1)]])>>)
ASSUME PrintT(<<"ALT", ToJson(AltScalars)>>)
ASSUME PrintT(<<"EPSK", ToJson(EpsScalars)>>)
=============================================================================
