CONSTANT MaxLeaves = 1
CONSTANT MaxOps = 1
CONSTANT MaxTensors = 2
CONSTANT ChunkSizes = {0, 1}
CONSTANT MaxRows = 5
CONSTANT MaxTasks = 2
CONSTANT SampleMod = 8
CONSTANT SamplePick = 0
CONSTANT PreModes = {"none", "all"}
SPECIFICATION Spec
INVARIANT TypeOK
INVARIANT Deposits
INVARIANT StackIsTrue
INVARIANT TwinAutograd
INVARIANT Export
CHECK_DEADLOCK FALSE
