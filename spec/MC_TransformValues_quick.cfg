CONSTANT MaxLeaves = 2
CONSTANT MaxOps = 2
CONSTANT MaxOuts = 2
CONSTANT MaxIns = 2
CONSTANT MaxRows = 3
CONSTANT Thin = TRUE
CONSTANT LeafIdx = {1, 2, 4, 5}
CONSTANT SampleMod = 5
CONSTANT SamplePick = 0
CONSTANT ValMod = 4
CONSTANT ValPick = 0
CONSTANT MaxApps = 3
CONSTANT HistMod = 16
CONSTANT HistPick = 0
SPECIFICATION Spec
INVARIANT GradIsVJP
INVARIANT Linear
INVARIANT Unreachable
INVARIANT Chains
INVARIANT DiagIsDiagonal
INVARIANT StackRows
INVARIANT AggIsWJ
INVARIANT ValuesLinear
INVARIANT ObjectIsFunction
INVARIANT HistChains
INVARIANT HistBatchesDiffer
INVARIANT HistIndependent
INVARIANT HistInputsDiffer
INVARIANT ExportCall
INVARIANT ExportVal
INVARIANT ExportHist
INVARIANT ExportHistVal
INVARIANT ExportMenu
CHECK_DEADLOCK FALSE
