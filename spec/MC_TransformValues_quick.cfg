CONSTANT MaxLeaves = 2
CONSTANT MaxOps = 2
CONSTANT MaxOuts = 2
CONSTANT MaxIns = 2
CONSTANT MaxRows = 3
CONSTANT Thin = TRUE
CONSTANT LeafIdx = {1, 2, 4, 5}
CONSTANT SampleMod = 5
CONSTANT SamplePick = 0
CONSTANT ValMod = 4
CONSTANT ValPick = 0
SPECIFICATION Spec
INVARIANT GradIsVJP
INVARIANT Linear
INVARIANT Unreachable
INVARIANT Chains
INVARIANT DiagIsDiagonal
INVARIANT StackRows
INVARIANT AggIsWJ
INVARIANT ValuesLinear
INVARIANT ExportCall
INVARIANT ExportVal
INVARIANT ExportMenu
CHECK_DEADLOCK FALSE
