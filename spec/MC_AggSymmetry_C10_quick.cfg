CONSTANT Mode = "rows"
CONSTANT MaxSteps = 3
CONSTANT MaxZero = 0
CONSTANT RowCounts = {2, 3, 4}
CONSTANT PadCounts = {}
CONSTANT NGen = 8
SPECIFICATION Spec
INVARIANT TypeOK
INVARIANT Consistent
INVARIANT GramInvariant
INVARIANT LawC10
INVARIANT WidenLaw
INVARIANT NearMaxLaw
INVARIANT Export
CHECK_DEADLOCK FALSE
