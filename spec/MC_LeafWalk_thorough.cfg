CONSTANT MaxN = 5
CONSTANT MaxLeaves = 2
CONSTANT MaxFeats = 2
CONSTANT MaxLosses = 2
CONSTANT LeafDTs = {"f64", "f32", "c128", "c64"}
CONSTANT ConstDTs = {"f64", "c64"}
CONSTANT SampleMod = 1
CONSTANT SamplePick = 0
SPECIFICATION Spec
INVARIANT TypeOK
INVARIANT WalkCorrect
INVARIANT DefaultsAreTheLeavesThatMatter
INVARIANT OnlyLeavesRequiringGrad
INVARIANT BoundedWork
CHECK_DEADLOCK FALSE
