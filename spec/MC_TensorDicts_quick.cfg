CONSTANT MaxKeys = 2
CONSTANT MaxNd = 3
CONSTANT Dims = {1, 2, 3}
CONSTANT MaxMut = 2
CONSTANT SampleMod = 1
CONSTANT SamplePick = 0
SPECIFICATION Spec
INVARIANT CreateAgrees
INVARIANT Immutable
INVARIANT LcaAgrees
INVARIANT JoinLaws
INVARIANT Export
INVARIANT ExportLca
CHECK_DEADLOCK FALSE
