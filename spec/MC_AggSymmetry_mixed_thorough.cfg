CONSTANT Mode = "mixed"
CONSTANT MaxSteps = 2
CONSTANT MaxZero = 1
CONSTANT RowCounts = {3, 4}
CONSTANT PadCounts = {}
CONSTANT NGen = 3
SPECIFICATION Spec
INVARIANT TypeOK
INVARIANT Consistent
INVARIANT GramInvariant
INVARIANT LawC08
INVARIANT LawC09
INVARIANT LawC10
INVARIANT ClassInvariant
INVARIANT Export
CHECK_DEADLOCK FALSE
