CONSTANT Level = 2
SPECIFICATION Spec
INVARIANT AlignedOK
INVARIANT Export
CHECK_DEADLOCK FALSE
