CONSTANT Level = 2
SPECIFICATION Spec
INVARIANT PythDefining
INVARIANT AlignedOK
INVARIANT Export
CHECK_DEADLOCK FALSE
