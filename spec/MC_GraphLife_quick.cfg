CONSTANT MaxCalls = 3
CONSTANT Ks = {0, 1, 2}
CONSTANT SkelIds = {1, 2, 3, 4, 5, 6, 7, 8, 9, 10, 11, 12}
CONSTANT AllPatterns = TRUE
CONSTANT FreeSets = {{}, {1}, {2, 3}}
CONSTANT TrackHist = FALSE
CONSTANT SampleMod = 1
CONSTANT SamplePick = 0
SPECIFICATION Spec
INVARIANT TypeOK
INVARIANT FailsIffTwinFails
INVARIANT NoSelfInflictedFailure
INVARIANT FreedAsTorch
INVARIANT RetainKeepsEverything
INVARIANT ParamOnlyBranchesFreed
INVARIANT OnlyLastSweepFrees
CHECK_DEADLOCK FALSE
