CONSTANT Mode = "scale"
CONSTANT MaxSteps = 3
CONSTANT MaxZero = 0
CONSTANT RowCounts = {2, 3, 4}
CONSTANT PadCounts = {}
CONSTANT NGen = 3
SPECIFICATION Spec
INVARIANT TypeOK
INVARIANT Consistent
INVARIANT GramInvariant
INVARIANT LawC09
INVARIANT RowBracket
INVARIANT Export
CHECK_DEADLOCK FALSE
