CONSTANT Family <- BSFamNone
CONSTANT BSFam <- BSFamThorough
CONSTANT BSFile <- BSFileOn
CONSTANT FWK = 0
CONSTANT SampleMod = 1
CONSTANT SamplePick = 0
SPECIFICATION Spec
INVARIANT BSMinNormOK
INVARIANT BSBracketSound
INVARIANT BSStationaryObvious
INVARIANT BSRefinesMinNorm
INVARIANT BSExport
CHECK_DEADLOCK FALSE
