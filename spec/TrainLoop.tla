----------------------------- MODULE TrainLoop -----------------------------
(***************************************************************************)
(* Extension beyond the listed properties (DESIGN.md 11): Jacobian descent *)
(* as it is used in the documentation examples - a loop                    *)
(*     forward ; backward(...) or mtl_backward(...) ; optimizer.step() ;   *)
(*     optimizer.zero_grad()                                               *)
(* in which the VALUES of the parameters change between calls and a new    *)
(* graph is built at every iteration.  With integer parameters, Constant   *)
(* weights and SGD(lr = 1) every quantity stays an integer, so the whole   *)
(* trajectory of the parameters is computed exactly by the specification   *)
(* (forward-mode Jacobians of Autograd.tla on the program with the current *)
(* values) and compared with the real training loop by equality.           *)
(* Hidden choices explored by TLC: which call is made at each iteration,   *)
(* whether zero_grad is skipped (gradient accumulation over iterations),   *)
(* and zero_grad(set_to_none = True / False).                              *)
(***************************************************************************)
EXTENDS FixedProg, TLC, Json

CONSTANTS MaxIter, Bound

VARIABLES pv,      \* current values of the parameters (leaf id -> vector)
          grad,    \* leaf id -> None or vector
          it,      \* iterations done
          trace    \* the trajectory, for export

vars == <<pv, grad, it, trace>>
Params == {A, Bb, T1, T2}

\* the program with the current parameter values
Cur == [n \in 1..Len(P0) |-> IF n \in Params THEN [P0[n] EXCEPT !.val = pv[n]] ELSE P0[n]]

BUpd(P, tensors, w, l) == VecMat(w, TrueJacBlock(P, tensors, l), P[l].size)
CutP(P, feats) == [n \in 1..Len(P) |-> IF n \in Range(feats)
                     THEN [op |-> "leaf", size |-> Sizes(P)[n], val |-> Vals(P)[n], rg |-> TRUE] ELSE P[n]]
RowB(P, feats, loss, s) ==
    LET RECURSIVE Acc(_)
        Acc(fs) == IF fs = <<>> THEN Zeros(P[s].size)
                   ELSE VAdd(VecMat(TrueJac(CutP(P, feats), <<loss>>, <<Head(fs)>>)[1],
                                    TrueJac(P, <<Head(fs)>>, <<s>>), P[s].size), Acc(Tail(fs)))
    IN  Acc(feats)

\* the two kinds of iteration of the documentation: backward on two outputs, mtl on two losses
Modes == {"backward", "mtl"}
Update(mode, l) ==
    IF mode = "backward"
    THEN IF l \in {A, Bb, T1} THEN BUpd(Cur, <<Y, L1>>, <<1, -1, 1>>, l) ELSE Zeros(P0[l].size)
    ELSE IF l \in {A, Bb} THEN VecMat(<<1, -1>>, <<RowB(Cur, <<F>>, L1, l), RowB(Cur, <<F>>, L2, l)>>, P0[l].size)
         ELSE IF l = T1 THEN TrueJac(Cur, <<L1>>, <<T1>>)[1]
         ELSE TrueJac(Cur, <<L2>>, <<T2>>)[1]
Touched(mode) == IF mode = "backward" THEN {A, Bb, T1} ELSE Params

Init == /\ pv = [l \in Params |-> P0[l].val]
        /\ grad = [l \in Params |-> None]
        /\ it = 0 /\ trace = <<>>

Small(v) == \A i \in DOMAIN v : v[i] <= Bound /\ -v[i] <= Bound

\* one iteration: deposit, step on the parameters that have a .grad, then zero (or not)
Iterate(mode, zero) ==
    /\ it < MaxIter
    /\ LET g1 == [l \in Params |-> IF l \in Touched(mode) THEN Plus(grad[l], Update(mode, l)) ELSE grad[l]]
           p1 == [l \in Params |-> IF g1[l] = None THEN pv[l] ELSE VSub(pv[l], g1[l])]
           g2 == [l \in Params |-> CASE zero = "keep" -> g1[l]
                                     [] zero = "none" -> None
                                     [] zero = "zero" -> IF g1[l] = None THEN None ELSE Zeros(Len(g1[l]))]
       IN /\ \A l \in Params : Small(p1[l]) /\ (g1[l] # None => Small(g1[l]))
          /\ pv' = p1 /\ grad' = g2
          /\ trace' = Append(trace, [mode |-> mode, zero |-> zero, params |-> p1, grads |-> g1])
    /\ it' = it + 1

Next == \E mode \in Modes, zero \in {"keep", "none", "zero"} : Iterate(mode, zero)
Spec == Init /\ [][Next]_vars

\* sanity properties of the model itself
TypeOK == it \in 0..MaxIter /\ \A l \in Params : Len(pv[l]) = P0[l].size
\* a parameter never touched by any call keeps its value (t2 under "backward"-only trajectories)
UntouchedStays == (\A i \in DOMAIN trace : trace[i].mode = "backward") => pv[T2] = P0[T2].val
\* with zero_grad every iteration, a step is exactly "minus the single-call update"
PlainSGD == \A i \in DOMAIN trace :
               (i = 1 \/ trace[i - 1].zero # "keep") =>
                  \A l \in Touched(trace[i].mode) :
                     trace[i].params[l] = VSub((IF i = 1 THEN [x \in Params |-> P0[x].val] ELSE trace[i - 1].params)[l],
                                               trace[i].grads[l])

Export == (it >= 1) => PrintT(<<"TRAJ", ToJson([trace |-> trace])>>)
ASSUME PrintT(<<"STATIC", ToJson([prog |-> P0])>>)
=============================================================================
