--------------------------- MODULE TraceRejection ---------------------------
(***************************************************************************)
(* Trace validation for C20 on RANDOM programs: each episode is a call     *)
(* with one injected fault, logged as [fn, fault, outcome, grad0, grad1]   *)
(* (per-leaf .grad before/after, [] = None; plus memory-identity flags).   *)
(* The property-layer predicate of Rejection.tla is evaluated on the       *)
(* logged state:  outcome = "raised"  =>  grad1 = grad0 (values, memory).  *)
(***************************************************************************)
EXTENDS Integers, Sequences, TLC, Json, IOUtils, TLCExt

Episodes == JsonDeserialize(IOEnv.TRACE_FILE)
NEp == Len(Episodes)
VARIABLES ep, outcome, grad, nAcc, nRej
tvars == <<ep, outcome, grad, nAcc, nRej>>
E == Episodes[ep]

TInit == ep = 1 /\ outcome = "idle" /\ grad = <<>> /\ nAcc = 0 /\ nRej = 0

CallEv == /\ ep <= NEp /\ outcome = "idle"
          /\ grad' = E.grad0 /\ outcome' = "running"
          /\ UNCHANGED <<ep, nAcc, nRej>>

NothingChanged(o, g0, g1, samemem) == (o = "raised") => (g1 = g0 /\ samemem)

Ret == /\ ep <= NEp /\ outcome = "running"
       /\ LET ok == NothingChanged(E.outcome, grad, E.grad1, E.samemem) IN
          /\ (~ok => PrintT(<<"REJECT", ToJson([ep |-> E.ep,
                     clause |-> IF E.grad1 # grad THEN "grad_modified_before_the_call_was_rejected"
                                ELSE "grad_memory_replaced_before_the_call_was_rejected"])>>))
          /\ nAcc' = nAcc + (IF ok THEN 1 ELSE 0) /\ nRej' = nRej + (IF ok THEN 0 ELSE 1)
       /\ grad' = E.grad1 /\ outcome' = "idle" /\ ep' = ep + 1

TDone == /\ ep = NEp + 1 /\ outcome = "idle"
         /\ PrintT(<<"SUMMARY", ToJson([episodes |-> NEp, accepted |-> nAcc, rejected |-> nRej])>>)
         /\ outcome' = "end" /\ UNCHANGED <<ep, grad, nAcc, nRej>>
TNext == CallEv \/ Ret \/ TDone
TraceSpec == TInit /\ [][TNext]_tvars
TraceConsumed == (outcome = "end") => (nAcc + nRej = NEp)
=============================================================================
