CONSTANT Ms = {1}
CONSTANT N = 1
CONSTANT E = 1
CONSTANT UseFile = TRUE
CONSTANT K = 1
CONSTANT EpsNum = 0
CONSTANT EpsDen = 1
CONSTANT DenCap = 10000
SPECIFICATION TraceSpec
INVARIANT TraceConsumed
CHECK_DEADLOCK FALSE
