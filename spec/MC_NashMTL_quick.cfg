CONSTANT MaxLen = 5
CONSTANT MaxK = 4
CONSTANT Syms = {"A", "B", "C"}
SPECIFICATION Spec
INVARIANT TypeOK
INVARIANT CallsNeverFail
INVARIANT ResetIsFresh
INVARIANT OutputsAsFresh
INVARIANT ScheduleOK
INVARIANT StepIsSince
INVARIANT Export
PROPERTY ResetRestoresInit
PROPERTY ReuseKeepsWeights
CHECK_DEADLOCK FALSE
