CONSTANT MaxLen = 5
CONSTANT MaxK = 4
CONSTANT Syms = {"A", "B", "C"}
CONSTANT NIters = {1, 2, 20}
SPECIFICATION Spec
INVARIANT TypeOK
INVARIANT CallsNeverFail
INVARIANT ResetIsFresh
INVARIANT OutputsAsFresh
INVARIANT ScheduleOK
INVARIANT ClipIffEnabled
INVARIANT PeriodWeights
INVARIANT StepIsSince
INVARIANT Export
PROPERTY ResetRestoresInit
PROPERTY ReuseKeepsWeights
CHECK_DEADLOCK FALSE
