------------------------------ MODULE Backward ------------------------------
(***************************************************************************)
(* torchjd.autojac.backward as a transition system.                        *)
(*                                                                         *)
(* Behaviour = build a program (Programs.tla) ; choose a call ; run the    *)
(* pipeline  Accumulate << Aggregate << Jac << Diagonalize << Init  stage  *)
(* by stage (implementation-shaped layer, one action per Transform and one *)
(* per differentiation sweep / per accumulated key) ; done.                *)
(*                                                                         *)
(* Property layer (C01): when the call returns, every requested input l    *)
(* has   grad[l] = grad0[l] (+) reshape( Agg(TrueJac(tensors, inputs))     *)
(* [columns of l] ), with TrueJac defined by FORWARD mode in Autograd.tla,  *)
(* and nothing else changed.  Hidden choices of the implementation layer:  *)
(* the iteration order of set(inputs) as seen by Jac (ordJ) and by         *)
(* Aggregate (ordA) - independent permutations - , the order in which      *)
(* Accumulate visits the keys, and the chunk plan.  TLC checks             *)
(* Impl => Property for all of them (invariant Deposits).                  *)
(* C05 (linear aggregators = torch.autograd): invariant TwinAutograd.      *)
(***************************************************************************)
EXTENDS Programs, TLC, Json

CONSTANTS MaxLeaves, MaxOps, MaxTensors, ChunkSizes, MaxRows,
          SampleMod, SamplePick,    \* scenario export: 1 out of SampleMod (by a content hash)
          PreModes                  \* call modes, subset of {"none", "all", "leafout"}: pre-existing .grad on no / every
                                    \* requested input; "leafout": leaves admitted in `tensors`

VARIABLES P,        \* the program
          phase,    \* "build" | "init" | "diag" | "jac" | "agg" | "acc" | "done"
          call,     \* [tensors, inputs, k, w, pre]
          grad,     \* leaf id -> <<>> (None) or integer vector
          d,        \* current tensor dictionary: [type, map]
          ordJ,     \* hidden: order of the input set used by Jac
          rows,     \* Jacobian rows computed so far (w.r.t. ordJ layout)
          sweeps,   \* sizes of the sweeps done so far
          pending   \* keys still to be accumulated

vars == <<P, phase, call, grad, d, ordJ, rows, sweeps, pending>>

None  == <<>>
NoCall == [tensors |-> <<>>, inputs |-> {}, k |-> 0, w |-> <<>>, pre |-> {}, m |-> 0]
EmptyDict == [type |-> "Empty", map |-> <<>>]

Plus(g, u) == IF g = None THEN u ELSE VAdd(g, u)

\* ------------------------------------------------------------------ build phase
Init == /\ P = <<>> /\ phase = "build" /\ call = NoCall
        /\ grad = <<>> /\ d = EmptyDict /\ ordJ = <<>> /\ rows = <<>> /\ sweeps = <<>> /\ pending = {}

AddLeaf == /\ phase = "build" /\ OnlyLeaves(P) /\ NumLeaves(P) < MaxLeaves
           /\ \E nd \in LeafExtensions(P) : P' = Append(P, nd)
           /\ UNCHANGED <<phase, call, grad, d, ordJ, rows, sweeps, pending>>

AddOp == /\ phase = "build" /\ NumLeaves(P) >= 1 /\ NumOps(P) < MaxOps
         /\ \E nd \in OpExtensions(P) : OkExtension(P, nd) /\ P' = Append(P, nd)
         /\ UNCHANGED <<phase, call, grad, d, ordJ, rows, sweeps, pending>>

\* ------------------------------------------------------------------ the call
Weight(r) == r - 2                     \* -1, 0, 1, 2, ... : distinct, with a zero and a negative
PreGrad(sz) == [i \in 1..sz |-> 5 * i] \* content of a pre-existing .grad

\* `tensors` may hold any tensor that requires grad: non-leaf nodes, and leaves as well (the identity
\* computation: its Jacobian block w.r.t. itself is the identity, w.r.t. anything else zero)
\* Explored when "leafout" \in PreModes (a separate run: only calls with at least one leaf in `tensors`).
LeafOut    == "leafout" \in PreModes
Outputs(Q) == Differentiable(Q) \cup (IF LeafOut THEN RGLeaves(Q) ELSE {})
TensorSeqs == {s \in UNION {[1..n -> Outputs(P)] : n \in 1..MaxTensors} :
                  \A i, j \in DOMAIN s : i # j => s[i] # s[j]}

NRowsOf(ts) == SumSeq([i \in 1..Len(ts) |-> Sizes(P)[ts[i]]])

\* programs worth calling: the last node is one of the tensors (otherwise the same call was
\* already explored on the shorter program) and every leaf is used somewhere or is requested
ChooseCall ==
    /\ phase = "build" /\ NumOps(P) >= 1
    /\ \E ts \in TensorSeqs, ins \in (SUBSET RGLeaves(P)) \ {{}}, k \in ChunkSizes :
         /\ Len(P) \in Range(ts)
         /\ NRowsOf(ts) <= MaxRows
         /\ LeafOut => \E i \in DOMAIN ts : IsLeaf(P, ts[i])
         /\ \E pre \in ({{} : x \in PreModes \cap {"none"}} \cup {ins : x \in PreModes \cap {"all"}}) :
              /\ call' = [tensors |-> ts, inputs |-> ins, k |-> k,
                          w |-> [r \in 1..NRowsOf(ts) |-> Weight(r)], pre |-> pre,
                          m |-> NRowsOf(ts)]
              /\ grad' = [l \in Leaves(P) |-> IF l \in pre THEN PreGrad(P[l].size) ELSE None]
    /\ phase' = "init"
    /\ UNCHANGED <<P, d, ordJ, rows, sweeps, pending>>

\* ------------------------------------------------------------------ pipeline (implementation layer)
M       == call.m          \* number of Jacobian rows (backward: scalars of `tensors`; mtl: #losses)
Cap     == IF call.k = 0 THEN M ELSE call.k
NSweeps == (M + Cap - 1) \div Cap
RowOff  == OutOffsets(Sizes(P), call.tensors)      \* row offset of each tensor

\* Init: gradients of the tensors w.r.t. themselves = ones
DoInit == /\ phase = "init"
          /\ d' = [type |-> "Gradients",
                   map  |-> [t \in Range(call.tensors) |-> Ones(Sizes(P)[t])]]
          /\ phase' = "diag"
          /\ UNCHANGED <<P, call, grad, ordJ, rows, sweeps, pending>>

\* Diagonalize: key t gets the columns [begin_t, end_t) of diag(cat(flattened gradients)), one
\* row per scalar of all tensors in the order `tensors` was given
DoDiagonalize ==
    /\ phase = "diag"
    /\ LET flat == [r \in 1..M |->
                      LET i == CHOOSE i \in 1..Len(call.tensors) :
                                 RowOff[i] < r /\ r <= RowOff[i] + Sizes(P)[call.tensors[i]]
                      IN  d.map[call.tensors[i]][r - RowOff[i]]]
       IN d' = [type |-> "Jacobians",
                map  |-> [t \in Range(call.tensors) |->
                            LET i == CHOOSE i \in 1..Len(call.tensors) : call.tensors[i] = t
                            IN [r \in 1..M |-> [e \in 1..Sizes(P)[t] |->
                                   IF r = RowOff[i] + e THEN flat[r] ELSE 0]]]]
    /\ \E o \in PermSeqs(call.inputs) : ordJ' = o         \* hidden: iteration order of the set
    /\ phase' = "jac"
    /\ UNCHANGED <<P, call, grad, rows, sweeps, pending>>

\* one differentiation sweep: the next block of rows, each row = VJP of its cotangents
JacSweep ==
    /\ phase = "jac" /\ Len(sweeps) < NSweeps
    /\ LET i     == Len(sweeps)
           first == i * Cap + 1
           last  == IF i < NSweeps - 1 THEN (i + 1) * Cap ELSE M
           new   == [r \in 1..(last - first + 1) |->
                        VJP(P, [t \in Range(call.tensors) |-> d.map[t][first + r - 1]], ordJ)]
       IN  /\ rows' = rows \o new
           /\ sweeps' = Append(sweeps, last - first + 1)
    /\ UNCHANGED <<P, phase, call, grad, d, ordJ, pending>>

\* end of Jac: split the matrix per key following ordJ
JacDone ==
    /\ phase = "jac" /\ Len(sweeps) = NSweeps
    /\ LET sizes == [i \in 1..Len(ordJ) |-> P[ordJ[i]].size]
           off   == Offsets(sizes)
       IN d' = [type |-> "Jacobians",
                map  |-> [l \in call.inputs |->
                            LET i == CHOOSE i \in 1..Len(ordJ) : ordJ[i] = l
                            IN  ColSlice(rows, off[i] + 1, sizes[i])]]
    /\ phase' = "agg"
    /\ UNCHANGED <<P, call, grad, ordJ, rows, sweeps, pending>>

\* Aggregate: unite the per-key matrices in the (hidden) key order ordA, apply the aggregator
\* (Constant(w): w^T J), split the vector back per key, reshape
RECURSIVE Unite(_, _, _)
Unite(map, ord, m) == IF ord = <<>> THEN [r \in 1..m |-> <<>>]
                      ELSE HCat(map[Head(ord)], Unite(map, Tail(ord), m))
DoAggregate ==
    /\ phase = "agg"
    /\ \E ordA \in PermSeqs(call.inputs) :
         LET united == Unite(d.map, ordA, M)
             sizes  == [i \in 1..Len(ordA) |-> P[ordA[i]].size]
             off    == Offsets(sizes)
             total  == SumSeq(sizes)
             vec    == VecMat(call.w, united, total)
         IN d' = [type |-> "Gradients",
                  map  |-> [l \in call.inputs |->
                              LET i == CHOOSE i \in 1..Len(ordA) : ordA[i] = l
                              IN  Slice(vec, off[i] + 1, sizes[i])]]
    /\ phase' = "acc" /\ pending' = call.inputs
    /\ UNCHANGED <<P, call, grad, ordJ, rows, sweeps>>

\* Accumulate: one key at a time, in any order
AccumulateKey ==
    /\ phase = "acc" /\ pending # {}
    /\ \E l \in pending :
         /\ grad' = [grad EXCEPT ![l] = Plus(@, d.map[l])]
         /\ pending' = pending \ {l}
    /\ UNCHANGED <<P, phase, call, d, ordJ, rows, sweeps>>

Finish == /\ phase = "acc" /\ pending = {}
          /\ phase' = "done" /\ d' = EmptyDict
          /\ UNCHANGED <<P, call, grad, ordJ, rows, sweeps, pending>>

Next == AddLeaf \/ AddOp \/ ChooseCall \/ DoInit \/ DoDiagonalize \/ JacSweep \/ JacDone
        \/ DoAggregate \/ AccumulateKey \/ Finish
Spec == Init /\ [][Next]_vars

\* ------------------------------------------------------------------ property layer
Grad0(l)    == IF l \in call.pre THEN PreGrad(P[l].size) ELSE None
\* C01: the update of input l is its own slice of Agg(TrueJac) - by forward mode, per leaf,
\* independent of any ordering
Update(l)   == VecMat(call.w, TrueJacBlock(P, call.tensors, l), P[l].size)
Expected(l) == IF l \in call.inputs THEN Plus(Grad0(l), Update(l)) ELSE Grad0(l)

Deposits == phase = "done" => \A l \in Leaves(P) : grad[l] = Expected(l)

\* the property as ONE atomic action (what a caller may rely on); the implementation-layer
\* pipeline above refines it (invariant Deposits), and recorded calls are validated against it
\* (TraceBackward.tla)
PropCall == /\ phase = "init"
            /\ grad' = [l \in Leaves(P) |-> Expected(l)]
            /\ phase' = "done"
            /\ UNCHANGED <<P, call, d, ordJ, rows, sweeps, pending>>

\* C06 (single call): nothing but the requested .grad fields changes, at every step
OthersUntouched == phase \in {"init", "diag", "jac", "agg", "acc", "done"} =>
                      \A l \in Leaves(P) \ call.inputs : grad[l] = Grad0(l)

\* C05: with Constant(w), the same values as torch.autograd.backward(tensors, grad_tensors = w
\* split per tensor): one reverse sweep with cotangent w
WSplit == [t \in Range(call.tensors) |->
             LET i == CHOOSE i \in 1..Len(call.tensors) : call.tensors[i] = t
             IN  Slice(call.w, RowOff[i] + 1, Sizes(P)[t])]
TwinAutograd == phase = "done" =>
                  \A l \in call.inputs : Update(l) = VJPAll(P, WSplit)[l]

\* reverse mode and forward mode agree on every program (Autograd.tla self-consistency)
RevEqualsFwd == phase = "done" =>
                  LET ins == CHOOSE o \in PermSeqs(call.inputs) : TRUE
                  IN  RevJac(P, call.tensors, ins) = TrueJac(P, call.tensors, ins)

\* the Jacobian assembled by the sweeps is the true one in the ordJ layout (C07 value clause, C15)
JacIsTrue == phase = "agg" => rows = TrueJac(P, call.tensors, ordJ)

TypeOK == /\ phase \in {"build", "init", "diag", "jac", "agg", "acc", "done"}
          /\ WellFormed(P)

\* ------------------------------------------------------------------ scenario export
Scenario == [prog |-> P, tensors |-> call.tensors, inputs |-> call.inputs, k |-> call.k,
             w |-> call.w, pre |-> call.pre,
             pregrad |-> [l \in call.pre |-> PreGrad(P[l].size)],
             sizes |-> Sizes(P), vals |-> Vals(P),
             jac |-> [l \in call.inputs |-> TrueJacBlock(P, call.tensors, l)],
             update |-> [l \in call.inputs |-> Update(l)],
             expected |-> [l \in Leaves(P) |-> Expected(l)]]
\* exported when the call has been chosen (once per scenario, independent of hidden orders);
\* a deterministic content hash selects 1 scenario out of SampleMod
ScnHash == SumSeq(Vals(P)[Len(P)]) + 3 * Len(P) + 5 * Cardinality(call.inputs) + 7 * call.k
           + 11 * Len(call.tensors) + 17 * Cardinality(call.pre)
           + 13 * SumSeq([i \in 1..Len(P) |-> IF P[i].op = "leaf" THEN P[i].size + i
                                               ELSE i * P[i].a + (IF P[i].op \in Binary THEN 3 * P[i].b ELSE 1)])
           + 19 * SumSeq([i \in 1..Len(call.tensors) |-> call.tensors[i]])     \* symmetric in the order of `tensors`:
                                                                                  \* both orders of a pair are exported together
           + 23 * SumSeq([i \in 1..Len(P) |-> IF i \in call.inputs THEN i * i ELSE 0])
Export == (phase = "init" /\ (ScnHash % SampleMod) = SamplePick)
             => PrintT(<<"SCN", ToJson(Scenario)>>)

\* bound for simulation / exhaustive runs
Constraint == Len(P) <= MaxLeaves + MaxOps
=============================================================================
