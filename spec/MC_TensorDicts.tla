--------------------------- MODULE MC_TensorDicts ---------------------------
(***************************************************************************)
(* Bounded model of the life of ONE tensor dictionary: an attempt to       *)
(* create it (any of the six classes, any subset of at most MaxKeys keys,  *)
(* any value shapes with at most MaxNd dimensions of sizes Dims) followed  *)
(* by attempted mutations.  Checked: the code-shaped constructor accepts   *)
(* exactly the dictionaries the documented constraints allow               *)
(* (CreateAgrees), a created dictionary never changes (Immutable), the MRO *)
(* scan computes the most specific common type (LcaAgrees).  Every         *)
(* creation is exported with its verdict for replay on the real classes.   *)
(***************************************************************************)
EXTENDS TensorDicts, TLC, Json

CONSTANTS MaxKeys, MaxNd, Dims, MaxMut, SampleMod, SamplePick

VARIABLES phase,    \* "new" | "created" | "refused"
          T, d,     \* class and value shapes of the attempted creation
          d0,       \* the dictionary as created
          muts      \* sequence of mutations attempted so far
vars == <<phase, T, d, d0, muts>>

RECURSIVE ShapesOf(_)
ShapesOf(n) == IF n = 0 THEN {<<>>} ELSE {<<x>> \o s : x \in Dims, s \in ShapesOf(n - 1)}
ShapeMenu == UNION {ShapesOf(n) : n \in 0..MaxNd}

Init == phase = "new" /\ T = "TensorDict" /\ d = <<>> /\ d0 = <<>> /\ muts = <<>>

Create == /\ phase = "new"
          /\ \E tt \in TDTypes, K \in {S \in SUBSET Keys : Cardinality(S) <= MaxKeys} :
               \E dd \in [K -> ShapeMenu] :
                  /\ T' = tt /\ d' = dd /\ d0' = dd
                  /\ phase' = IF Valid(tt, KeyShape, dd) THEN "created" ELSE "refused"
          /\ muts' = <<>>

Attempt == /\ phase = "created" /\ Len(muts) < MaxMut
           /\ \E op \in Mutations :
                /\ d' = Mutate(op, d).after
                /\ muts' = Append(muts, op)
           /\ UNCHANGED <<phase, T, d0>>

Next == Create \/ Attempt
Spec == Init /\ [][Next]_vars

CreateAgrees == phase # "new" => ((CreateImpl(T, KeyShape, d) = "ok") <=> (phase = "created"))
Immutable    == phase = "created" => d = d0
LcaAgrees    == \A s, t \in TDTypes : LcaImpl(s, t) = Join(s, t)
JoinLaws     == \A s, t, u \in TDTypes : /\ Join(s, t) = Join(t, s)
                                         /\ Join(Join(s, t), u) = Join(s, Join(t, u))
                                         /\ Join("Empty", s) = s /\ Join(s, s) = s

RECURSIVE ShapeHash(_)
ShapeHash(sh) == IF sh = <<>> THEN 1 ELSE (Head(sh) + 7 * ShapeHash(Tail(sh))) % 1009
DictHash == LET F[S \in SUBSET Keys] ==
                  IF S = {} THEN 0
                  ELSE LET k == CHOOSE x \in S : TRUE
                       IN (IF k \in DOMAIN d THEN ShapeHash(d[k]) * (IF k = "a" THEN 3 ELSE IF k = "b" THEN 5 ELSE 11) ELSE 0)
                          + F[S \ {k}]
            IN F[Keys] + Len(T)

Export == (phase # "new" /\ muts = <<>> /\ (DictHash % SampleMod) = SamplePick) =>
             PrintT(<<"TD", ToJson([type |-> T, keys |-> DOMAIN d, shapes |-> d,
                                     valid |-> (phase = "created"),
                                     impl |-> CreateImpl(T, KeyShape, d)])>>)
ExportLca == phase = "new" =>
             PrintT(<<"LCA", ToJson({[first |-> s, second |-> t, join |-> Join(s, t)] : s \in TDTypes, t \in TDTypes})>>)
=============================================================================
