CONSTANT MaxLen = 100000
CONSTANT MaxK = 64
CONSTANT Syms = {"A"}
SPECIFICATION TraceSpec
INVARIANT TraceConsumed
INVARIANT TResetIsFresh
CHECK_DEADLOCK FALSE
