CONSTANT MaxLen = 100000
CONSTANT MaxK = 64
CONSTANT Syms = {"A"}
CONSTANT NIters = {1, 2, 20}
SPECIFICATION TraceSpec
INVARIANT TraceConsumed
INVARIANT TResetIsFresh
CHECK_DEADLOCK FALSE
