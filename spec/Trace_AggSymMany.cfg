CONSTANT Mode = "trace"
CONSTANT ManyM = {}
CONSTANT Seeds = {}
CONSTANT MaxSteps = 0
CONSTANT PadCounts = {}
SPECIFICATION TraceSpec
INVARIANT TraceConsumed
CHECK_DEADLOCK FALSE
