CONSTANT Shapes = {122, 222, 321}
CONSTANT UseFile = FALSE
CONSTANT BSPick = 0
SPECIFICATION Spec
INVARIANT MinNormSound
INVARIANT ObviousStationary
INVARIANT HalfSpaceNotStationary
INVARIANT TwoRowsMinNorm
INVARIANT SymmetricLemma
INVARIANT Export
CHECK_DEADLOCK FALSE
