CONSTANT Shapes = {122, 222, 321}
CONSTANT UseFile = FALSE
SPECIFICATION Spec
INVARIANT MinNormSound
INVARIANT ObviousStationary
INVARIANT HalfSpaceNotStationary
INVARIANT TwoRowsMinNorm
INVARIANT SymmetricLemma
INVARIANT Export
CHECK_DEADLOCK FALSE
