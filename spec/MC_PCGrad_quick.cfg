CONSTANT Ms = {1, 2, 3}
CONSTANT N = 2
CONSTANT E = 1
CONSTANT UseFile = FALSE
CONSTANT SampleMod = 1
CONSTANT SamplePick = 0
SPECIFICATION FairSpec
INVARIANT TypeOK
INVARIANT StepRefines
INVARIANT ResultIsDefinition
INVARIANT NoConflictIsSum
INVARIANT WeightsAtLeastOne
INVARIANT TwoRowsClosedForm
INVARIANT Export
PROPERTY Termination
CHECK_DEADLOCK FALSE
