---------------------------- MODULE Accumulation ----------------------------
(***************************************************************************)
(* C06 - gradients accumulate; nothing but the requested .grad fields is   *)
(* touched.  Histories of backward / mtl_backward calls (retained graph)   *)
(* interleaved with the user's own manipulations of .grad (in-place zero,  *)
(* set to None, in-place edit, replacement) on the fixed program of        *)
(* FixedProg.tla.                                                          *)
(*                                                                         *)
(* State: grad[l] (None = <<>> or integer vector), store[l] (abstract      *)
(* identity of the memory behind .grad, 0 = none; fresh identities come    *)
(* from a counter), val (values of all tensors), hist.                     *)
(* A call adds its update (forward-mode definition) to every requested     *)
(* leaf: IN PLACE when a .grad exists (store unchanged), into FRESH memory *)
(* when it does not; everything else is unchanged.                         *)
(***************************************************************************)
EXTENDS FixedProg, TLC, Json

CONSTANTS MaxLen       \* length of the histories explored

VARIABLES grad, store, nextId, val, hist, pre0
vars == <<grad, store, nextId, val, hist, pre0>>

Calls == <<
  [fn |-> "backward", tensors |-> <<F>>, inputs |-> {A, Bb}, w |-> <<2, -1>>],
  [fn |-> "backward", tensors |-> <<Y, L1>>, inputs |-> {A, T1}, w |-> <<1, -2, 3>>],
  [fn |-> "backward", tensors |-> <<L2>>, inputs |-> {A, C}, w |-> <<2>>],
  [fn |-> "mtl", losses |-> <<L1, L2>>, feats |-> <<F>>, tparams |-> <<{T1}, {T2}>>, shared |-> {A, Bb}, w |-> <<1, -2>>],
  [fn |-> "mtl", losses |-> <<L1, L2>>, feats |-> <<F>>, tparams |-> <<{T1}, {T1, T2}>>, shared |-> {A}, w |-> <<3, 1>>],
  [fn |-> "mtl", losses |-> <<L3, L2>>, feats |-> <<F>>, tparams |-> <<{T1, U1, U2}, {T2}>>, shared |-> {A, Bb}, w |-> <<-1, 2>>],
  [fn |-> "backward", tensors |-> <<L3>>, inputs |-> {U1, U2, A}, w |-> <<3>>],
  \* a frozen trunk: no shared parameter at all, only the heads are updated
  [fn |-> "mtl", losses |-> <<L1, L2>>, feats |-> <<F>>, tparams |-> <<{T1}, {T2}>>, shared |-> {}, w |-> <<1, 1>>],
  \* parameters listed by a task whose loss does not depend on them (a branch switched off in this
  \* forward pass): C by task 1 only, T1 by task 2 only - their update is zero, a .grad is created all the same
  [fn |-> "mtl", losses |-> <<L1, L2>>, feats |-> <<F>>, tparams |-> <<{T2, C}, {T1}>>, shared |-> {A}, w |-> <<2, 1>>] >>
EditLeaves == {A, T1, C}

Requested(c) == IF c.fn = "backward" THEN c.inputs
                ELSE c.shared \cup UNION {c.tparams[i] : i \in 1..Len(c.tparams)}
UpdateOf(c, l) == IF c.fn = "backward" THEN BwdUpdate(c.tensors, c.w, l)
                  ELSE IF l \in c.shared THEN MtlSharedUpdate(c.feats, c.losses, c.w, l)
                  ELSE MtlTaskUpdate(c.losses, c.tparams, l)

\* constant-level table (evaluated once by TLC): update of every requested leaf for every call
UpdTable == [i \in DOMAIN Calls |-> [l \in GradLeaves |->
               IF l \in Requested(Calls[i]) THEN UpdateOf(Calls[i], l) ELSE None]]

PreContent(l) == [i \in 1..P0[l].size |-> 10 * l + i]

Init == /\ \E pre \in {{}, GradLeaves, {A, T2, U1}} :
              /\ grad  = [l \in GradLeaves |-> IF l \in pre THEN PreContent(l) ELSE None]
              /\ store = [l \in GradLeaves |-> IF l \in pre THEN l ELSE 0]      \* ids < 20 = initial
              /\ pre0 = pre
        /\ nextId = 20
        /\ val = Vals(P0)
        /\ hist = <<>>

\* fresh identities for the leaves of S that have no .grad yet (one per leaf, in leaf order)
FreshFor(S) == LET need == {l \in S : grad[l] = None}
                   rank(l) == Cardinality({x \in need : x < l})
               IN  [l \in need |-> nextId + rank(l)]

Call(i) ==
    LET c == Calls[i]  R == Requested(c)  fr == FreshFor(R) IN
    /\ Len(hist) < MaxLen
    /\ grad'  = [l \in GradLeaves |-> IF l \in R THEN Plus(grad[l], UpdTable[i][l]) ELSE grad[l]]
    /\ store' = [l \in GradLeaves |-> IF l \in DOMAIN fr THEN fr[l] ELSE store[l]]
    /\ nextId' = nextId + Cardinality(DOMAIN fr)
    /\ hist' = Append(hist, [act |-> "call", i |-> i])
    /\ UNCHANGED <<val, pre0>>

ZeroGrad(l) == /\ Len(hist) < MaxLen /\ grad[l] # None
               /\ grad' = [grad EXCEPT ![l] = Zeros(Len(@))]
               /\ hist' = Append(hist, [act |-> "zero", i |-> l])
               /\ UNCHANGED <<store, nextId, val, pre0>>
SetNone(l)  == /\ Len(hist) < MaxLen /\ grad[l] # None
               /\ grad' = [grad EXCEPT ![l] = None] /\ store' = [store EXCEPT ![l] = 0]
               /\ hist' = Append(hist, [act |-> "none", i |-> l])
               /\ UNCHANGED <<nextId, val, pre0>>
EditGrad(l) == /\ Len(hist) < MaxLen /\ grad[l] # None
               /\ grad' = [grad EXCEPT ![l] = VAdd(@, Ones(Len(@)))]
               /\ hist' = Append(hist, [act |-> "edit", i |-> l])
               /\ UNCHANGED <<store, nextId, val, pre0>>
ReplaceGrad(l) == /\ Len(hist) < MaxLen
                  /\ grad' = [grad EXCEPT ![l] = [j \in 1..P0[l].size |-> 7]]
                  /\ store' = [store EXCEPT ![l] = nextId] /\ nextId' = nextId + 1
                  /\ hist' = Append(hist, [act |-> "replace", i |-> l])
                  /\ UNCHANGED <<val, pre0>>

IsCall == \E i \in DOMAIN Calls : Call(i)
Next == IsCall \/ \E l \in EditLeaves : ZeroGrad(l) \/ SetNone(l) \/ EditGrad(l) \/ ReplaceGrad(l)
Spec == Init /\ [][Next]_vars

\* ------------------------------------------------------------------ properties
\* values of all tensors never change
ValuesUntouched == [][val' = val]_vars

\* a call touches only the requested leaves, adds in place, creates fresh memory otherwise
CallDiscipline ==
    [][\A i \in DOMAIN Calls : Call(i) =>
          \A l \in GradLeaves :
             /\ (l \notin Requested(Calls[i])) => (grad'[l] = grad[l] /\ store'[l] = store[l])
             /\ (l \in Requested(Calls[i]) /\ grad[l] # None) => store'[l] = store[l]
             /\ (l \in Requested(Calls[i]) /\ grad[l] = None) =>
                   (store'[l] >= nextId /\ \A x \in GradLeaves \ {l} : store'[x] # store'[l])]_vars

\* live memories are pairwise distinct: a fresh .grad shares memory with no other tensor
Distinct == \A x, y \in GradLeaves : (x # y /\ store[x] # 0) => store[x] # store[y]
NoneIffNoStore == \A l \in GradLeaves : (grad[l] = None) <=> (store[l] = 0)

\* k identical calls starting from no gradient accumulate k times the single-call update
AllSame == \A j \in DOMAIN hist : hist[j].act = "call" /\ hist[j].i = hist[1].i
RepeatAccumulates ==
    (hist # <<>> /\ AllSame) =>
        \A l \in Requested(Calls[hist[1].i]) :
            \/ l \in pre0                        \* started from a pre-existing .grad
            \/ grad[l] = VScale(Len(hist), UpdTable[hist[1].i][l])

\* ------------------------------------------------------------------ export: one line per full history
\* (expected projected state after the history; the harness replays prefixes step by step using
\*  the per-prefix lines, so every history of every length <= MaxLen is exported)
Export == PrintT(<<"HIST", ToJson([hist |-> hist, grad |-> grad, store |-> store, pre |-> pre0])>>)
ExportInv == Export
ExportStatic == (hist = <<>> /\ pre0 = {}) =>
                   PrintT(<<"STATIC", ToJson([precontent |-> [l \in GradLeaves |-> PreContent(l)],
                                              calls |-> Calls, prog |-> P0, updates |-> UpdTable])>>)
=============================================================================
