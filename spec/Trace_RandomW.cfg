SPECIFICATION Spec
INVARIANT Consumed
CHECK_DEADLOCK FALSE
