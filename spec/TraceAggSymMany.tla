--------------------------- MODULE TraceAggSymMany ---------------------------
(***************************************************************************)
(* Trace validation for AggSymMany (C08, C10), code -> specification.       *)
(* An episode is one random many-row instance (spread S0, offset            *)
(* multipliers O0, offset exponent and dtype chosen by the driver), one     *)
(* random transformation (row permutation rp; column map cp: column j of    *)
(* the transformed matrix is column cp[j] of the base, 0 = an all-zero       *)
(* column), one configuration (f, k) of Krum, and what the real Krum did on *)
(* both matrices: the SUPPORT of its weights (sel0, sel1) and whether the   *)
(* returned vectors were the means of those rows within the derived         *)
(* allowance (ok0, ok1, evaluated by the harness).  Clauses, in this order: *)
(*   raises                 an aggregator raised on a matrix of the family   *)
(*   transformed_instance   the logged transformation keeps the distance    *)
(*                          matrix (DistInvariant on the logged data)        *)
(*   base_selection         sel0 is the model's selection (where decided)   *)
(*   transformed_selection  sel1 is its image under the row permutation     *)
(*   value                  ok0 /\ ok1                                      *)
(* Verdicts are total; SUMMARY at the end.                                   *)
(***************************************************************************)
EXTENDS AggSymMany, IOUtils, TLCExt

Episodes == JsonDeserialize(IOEnv.TRACE_FILE)
NEp == Len(Episodes)

VARIABLES ep, nAcc, nRej, ended
tvars == <<base, bk, rp, Q, den, S, O, pad, steps, ep, nAcc, nRej, ended>>
E == Episodes[ep]

TInit == /\ base = [id |-> 0, m |-> 1, n |-> 1, S |-> <<<<0>>>>, O |-> <<0>>] /\ bk = <<>> /\ rp = <<1>> /\ Q = <<<<1>>>>
         /\ den = 1 /\ S = <<<<0>>>> /\ O = <<0>> /\ pad = NoPad /\ steps = 0
         /\ ep = 1 /\ nAcc = 0 /\ nRej = 0 /\ ended = FALSE

S1 == [i \in 1..E.m |-> [j \in 1..Len(E.cp) |-> IF E.cp[j] = 0 THEN 0 ELSE E.S0[E.rp[i]][E.cp[j]]]]
Failing ==
    LET D  == DiffDist(E.S0)
        D1 == DiffDist(S1)
        sc == ScoresOf(ScoreData(D), E.m, E.f)
        g  == GOfN(E.m, E.f, E.n)
        r  == SelectK(sc, g, NotAbove(sc, g), E.k)
    IN  IF E.raised THEN "raises"
        ELSE IF ~(/\ SymIsPerm(E.rp, E.m) /\ E.m > 25 /\ E.f + 3 <= E.m /\ E.k <= E.m
             /\ \A c \in 1..E.n : Cardinality({j \in 1..Len(E.cp) : E.cp[j] = c}) = 1
             /\ \A i, j \in 1..E.m : D1[i][j] = D[E.rp[i]][E.rp[j]] /\ D[i][j] <= MaxD)
        THEN "transformed_instance"
        ELSE IF ~r.amb /\ E.sel0 # SymSeqOf(r.sel) THEN "base_selection"
        ELSE IF ~r.amb /\ E.sel1 # SymSeqOf({i \in 1..E.m : E.rp[i] \in r.sel}) THEN "transformed_selection"
        ELSE IF ~r.amb /\ ~(E.ok0 /\ E.ok1) THEN "value"
        ELSE IF r.amb THEN "ambiguous" ELSE "none"

TStep == /\ ep <= NEp
         /\ LET f == Failing IN
              /\ (f \notin {"none", "ambiguous"} => PrintT(<<"REJECT", ToJson([ep |-> E.ep, clause |-> f])>>))
              /\ (f = "ambiguous" => PrintT(<<"AMBIGUOUS", ToJson([ep |-> E.ep])>>))
              /\ nAcc' = nAcc + (IF f \in {"none", "ambiguous"} THEN 1 ELSE 0)
              /\ nRej' = nRej + (IF f \in {"none", "ambiguous"} THEN 0 ELSE 1)
         /\ ep' = ep + 1
         /\ UNCHANGED <<base, bk, rp, Q, den, S, O, pad, steps, ended>>
TDone == /\ ep = NEp + 1 /\ ~ended
         /\ PrintT(<<"SUMMARY", ToJson([episodes |-> NEp, accepted |-> nAcc, rejected |-> nRej])>>)
         /\ ended' = TRUE
         /\ UNCHANGED <<base, bk, rp, Q, den, S, O, pad, steps, ep, nAcc, nRej>>
TraceSpec == TInit /\ [][TStep \/ TDone]_tvars
TraceConsumed == ended => nAcc + nRej = NEp
=============================================================================
