--------------------------- MODULE TraceLeafWalk ---------------------------
(***************************************************************************)
(* Trace validation for C12.  One episode = one DEFAULTED call of          *)
(* torchjd.backward / torchjd.mtl_backward on a real torch graph:          *)
(*   next, acc  - the autograd graph as extracted from the real tensors    *)
(*                (node ids 1..n, 0 = None edge, acc = AccumulateGrad ids) *)
(*   jobs       - the (roots, excluded) pairs the statement of C12 implies *)
(*                for the omitted arguments                                *)
(*   accdt      - element type of the leaf of every AccumulateGrad node    *)
(*                (aligned with acc); the call must be inside the universe *)
(*                LeafWalk!InUniverse: the leaves aggregated together      *)
(*                (first set) have one element type, else MACHINERY        *)
(*   twin       - the same sets computed by the harness' own reference     *)
(*                traversal of the real graph (machinery cross-check)      *)
(*   obs        - what the defaulted call did: status ok | rejected |      *)
(*                failed, `got` = AccumulateGrad ids whose leaf received a *)
(*                .grad, `same` = all .grad equal those of the explicit    *)
(*                call with the twin sets on an identical fresh graph      *)
(* The episode's sets are computed by stepping the PlusCal actions Jobs /  *)
(* Loop of LeafWalk (the initial deque order is pinned to one choice: the  *)
(* result does not depend on it - invariant WalkCorrect of the model       *)
(* check).  Verdicts are total: accepted | REJECT(clause) | MACHINERY.     *)
(* Episodes flagged `ambig` (a loss uses a sibling output of a feature's   *)
(* multi-output op) can only produce DRIFT.                                *)
(***************************************************************************)
EXTENDS LeafWalk, IOUtils, TLCExt

Episodes == JsonDeserialize(IOEnv.TRACE_FILE)
NEp == Len(Episodes)

VARIABLES ep, stage, nAcc, nRej, nMach, nDrift
tvars == <<pc, P, G, alljobs, jobs, results, excluded, result, queue, node, dequeued,
           ep, stage, nAcc, nRej, nMach, nDrift>>
cursor == <<ep, stage, nAcc, nRej, nMach, nDrift>>

E == Episodes[ep]

TInit == /\ Init /\ ep = 1 /\ stage = "load" /\ nAcc = 0 /\ nRej = 0 /\ nMach = 0 /\ nDrift = 0

EJobs == [j \in 1..Len(E.jobs) |-> [roots |-> Range(E.jobs[j].roots), excl |-> Range(E.jobs[j].excl)]]

Load == /\ ep <= NEp /\ stage = "load"
        /\ G' = [next |-> E.next, acc |-> Range(E.acc)]
        /\ alljobs' = EJobs /\ jobs' = EJobs
        /\ results' = <<>> /\ pc' = "Jobs"
        /\ stage' = "walk"
        /\ UNCHANGED <<P, excluded, result, queue, node, dequeued, ep, nAcc, nRej, nMach, nDrift>>

Sorted(q) == \A i \in 1..(Len(q) - 1) : q[i] < q[i + 1]

\* the implementation-layer actions of LeafWalk, unchanged
TWalk == /\ stage = "walk" /\ pc # "Done"
         /\ \/ (Jobs /\ Sorted(queue'))
            \/ Loop
         /\ UNCHANGED cursor

\* ---- verdict (property layer): what the defaulted call must have done
SharedSet == results[1]
TaskSets  == [i \in 1..(Len(results) - 1) |-> results[i + 1]]
TOverlap  == E.fn = "mtl" /\ \E i \in 1..Len(TaskSets) : TaskSets[i] \cap SharedSet # {}
AllSets   == UNION {results[j] : j \in 1..Len(results)}

TwinAgrees == /\ Len(E.twin) = Len(results)
              /\ \A j \in 1..Len(results) : Range(E.twin[j]) = results[j]

\* universe: the parameters aggregated together (inputs / shared_params) have one element type
DtOf(n) == E.accdt[CHOOSE k \in 1..Len(E.acc) : E.acc[k] = n]
TInUniverse == /\ Len(E.accdt) = Len(E.acc)
               /\ \A k \in 1..Len(E.acc) : E.accdt[k] \in LeafDTs
               /\ (TOverlap \/ \A a, b \in SharedSet : DtOf(a) = DtOf(b))

Clause == IF TOverlap THEN (IF E.obs.status = "rejected" THEN "none"
                            ELSE "overlapping_default_sets_not_rejected")
          ELSE IF E.obs.status # "ok" THEN "defaulted_call_raised"
          ELSE IF Range(E.obs.got) # AllSets THEN "defaulted_call_did_not_use_exactly_the_leaves_that_matter"
          ELSE IF ~E.obs.same THEN "defaulted_call_differs_from_explicit_call"
          ELSE "none"

NextEp == /\ ep' = ep + 1 /\ stage' = "load"
          /\ UNCHANGED <<pc, P, G, alljobs, jobs, results, excluded, result, queue, node, dequeued>>

TVerdict ==
    /\ stage = "walk" /\ pc = "Done"
    /\ IF ~TwinAgrees \/ ~TInUniverse
       THEN /\ PrintT(<<"MACHINERY", ToJson([ep |-> E.ep, spec |-> results, twin |-> E.twin,
                                              universe |-> TInUniverse])>>)
            /\ nMach' = nMach + 1 /\ UNCHANGED <<nAcc, nRej, nDrift>>
       ELSE IF Clause = "none"
       THEN nAcc' = nAcc + 1 /\ UNCHANGED <<nRej, nMach, nDrift>>
       ELSE IF E.ambig
       THEN /\ PrintT(<<"DRIFT", ToJson([ep |-> E.ep, clause |-> Clause])>>)
            /\ nAcc' = nAcc + 1 /\ nDrift' = nDrift + 1 /\ UNCHANGED <<nRej, nMach>>
       ELSE /\ PrintT(<<"REJECT", ToJson([ep |-> E.ep, clause |-> Clause, sets |-> results,
                                           overlap |-> TOverlap])>>)
            /\ nRej' = nRej + 1 /\ UNCHANGED <<nAcc, nMach, nDrift>>
    /\ NextEp

TDone == /\ ep = NEp + 1 /\ stage = "load"
         /\ PrintT(<<"SUMMARY", ToJson([episodes |-> NEp, accepted |-> nAcc, rejected |-> nRej,
                                         machinery |-> nMach, drift |-> nDrift])>>)
         /\ stage' = "end"
         /\ UNCHANGED <<pc, P, G, alljobs, jobs, results, excluded, result, queue, node, dequeued,
                        ep, nAcc, nRej, nMach, nDrift>>

TNext == Load \/ TWalk \/ TVerdict \/ TDone
TraceSpec == TInit /\ [][TNext]_tvars
TraceConsumed == (stage = "end") => (nAcc + nRej + nMach = NEp)
\* the walk of every logged call satisfies the model-checked invariant as well
TraceWalkCorrect == (stage = "walk") => WalkCorrect
=============================================================================
