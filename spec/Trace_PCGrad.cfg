CONSTANT Ms = {1}
CONSTANT N = 1
CONSTANT E = 1
CONSTANT UseFile = FALSE
CONSTANT SampleMod = 1
CONSTANT SamplePick = 0
CONSTANT DenCap = 10000
SPECIFICATION TraceSpec
INVARIANT TraceStepRefines
INVARIANT TraceConsumed
CHECK_DEADLOCK FALSE
