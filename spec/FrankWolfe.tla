----------------------------- MODULE FrankWolfe -----------------------------
(***************************************************************************)
(* MGDA's Frank-Wolfe solver (Algorithm 2 of Sener & Koltun) in exact      *)
(* rational arithmetic on the integer Gramian G = J J^T.                   *)
(*                                                                         *)
(* Representation: the iterate is alpha = num / den, an integer vector     *)
(* over ONE common positive denominator (reduced by the gcd after every    *)
(* step).  Then G alpha = (G num)/den and alpha.G alpha = Q/den^2 with     *)
(* integers G num and Q, every comparison of the algorithm is a comparison *)
(* of integers, and TLC's 32-bit arithmetic reaches two iterations on      *)
(* entries -2..2 and three on two rows (an overflow aborts TLC loudly).    *)
(*                                                                         *)
(* IMPLEMENTATION-SHAPED LAYER: the PlusCal algorithm mirrors              *)
(* _MGDAWeighting._frank_wolfe_solver, one step per iteration:             *)
(*   t = argmin (G alpha)         (ties: nondeterministic, counted)        *)
(*   a = alpha.G e_t, b = alpha.G alpha, c = e_t.G e_t                     *)
(*   gamma = 1 if c <= a, 0 if b <= a, (b-a)/(b+c-2a) otherwise            *)
(*   alpha = (1-gamma) alpha + gamma e_t;  stop if gamma < epsilon         *)
(* PROPERTY LAYER (C18, MGDA clause): alpha stays on the simplex           *)
(* (OnSimplex), |J^T alpha|^2 never increases (Monotone), is never larger  *)
(* than that of the mean (NotLongerThanMean), and for two rows one step    *)
(* reaches the closed-form minimum-norm point of the segment               *)
(* (TwoRowsClosedForm).  LineSearchExact states that the three-way case    *)
(* analysis is the exact minimiser of the quadratic on [alpha, e_t].       *)
(* Every terminal state is exported as a scenario for MGDA(epsilon,        *)
(* max_iters = K); the harness replays it on 2^e J for e in ScaleExps      *)
(* (ScaleFree: the iterates do not depend on the scale).                   *)
(***************************************************************************)
EXTENDS Integers, Sequences, FiniteSets, TLC, Json, IOUtils, Rat, IntMat

CONSTANTS Ms, N, E,          \* family: m in Ms rows, N columns, entries -E..E
          UseFile,           \* TRUE: the family is the list of matrices in IOEnv.MATRIX_FILE
          K,                 \* max_iters
          EpsNum, EpsDen     \* epsilon = EpsNum / EpsDen   (0/1: never stop early)

Ent        == (0 - E)..E
MatSet(mm) == [1..mm -> [1..N -> Ent]]
FileMats   == LET s == JsonDeserialize(IOEnv.MATRIX_FILE) IN {s[x] : x \in DOMAIN s}
Family     == IF UseFile THEN FileMats ELSE UNION {MatSet(mm) : mm \in Ms}
ScaleExps  == {0 - 20, 0, 20}          \* the harness replays every scenario on 2^e J

-----------------------------------------------------------------------------
(* Overflow-careful comparison / sum of fractions: common factors of the   *)
(* denominators are divided out BEFORE multiplying.                        *)

CLe(p, q)  == LET g == Gcd(p[2], q[2]) IN p[1] * (q[2] \div g) <= q[1] * (p[2] \div g)
CAdd(p, q) == LET g == Gcd(p[2], q[2])
              IN  Norm(p[1] * (q[2] \div g) + q[1] * (p[2] \div g), (p[2] \div g) * q[2])
CSub(p, q) == CAdd(p, RNeg(q))
CMul(p, q) == LET g1 == Gcd(Abs(p[1]), q[2])
                  g2 == Gcd(Abs(q[1]), p[2])
              IN  IF p[1] = 0 \/ q[1] = 0 THEN RZero
                  ELSE <<(p[1] \div g1) * (q[1] \div g2), (p[2] \div g2) * (q[2] \div g1)>>
RECURSIVE CSumSeq(_)
CSumSeq(s) == IF s = <<>> THEN RZero ELSE CAdd(Head(s), CSumSeq(Tail(s)))

-----------------------------------------------------------------------------
(* Operators shared by the algorithm, the invariants and the trace spec.   *)
(* An iterate is a record [num |-> integer vector, den |-> positive int].  *)

Uniform(mm)    == [num |-> Ones(mm), den |-> mm]
AsRat(al)      == [x \in 1..Len(al.num) |-> Frac(al.num[x], al.den)]
GNum(GG, al)   == MatVec(GG, al.num)                             \* den * (gramian @ alpha)
QNum(GG, al)   == Dot(al.num, MatVec(GG, al.num))                \* den^2 * alpha.G.alpha
NormSq(GG, al) == Frac(QNum(GG, al), al.den * al.den)            \* |J^T alpha|^2
MinOf(v)       == LET F[x \in 1..Len(v)] == IF x = 1 THEN v[1] ELSE IF v[x] < F[x - 1] THEN v[x] ELSE F[x - 1]
                  IN  F[Len(v)]
ArgMins(GG, al) == LET gn == GNum(GG, al)  mn == MinOf(gn) IN {x \in 1..Len(gn) : gn[x] = mn}

\* a = A/den, b = Q/den^2, c = G[t][t]
Branch(GG, al, tt) ==
    LET A == GNum(GG, al)[tt]  Q == QNum(GG, al)  c == GG[tt][tt]  D == al.den
    IN  IF c * D <= A THEN "vertex"                 \* c <= a
        ELSE IF Q <= A * D THEN "stay"              \* b <= a
        ELSE "interior"
\* gamma as a reduced fraction <<p, q>>
Gamma(GG, al, tt) ==
    LET A == GNum(GG, al)[tt]  Q == QNum(GG, al)  c == GG[tt][tt]  D == al.den
        br == Branch(GG, al, tt)
    IN  IF br = "vertex" THEN ROne
        ELSE IF br = "stay" THEN RZero
        ELSE Frac(Q - A * D, Q + c * D * D - 2 * A * D)          \* (b - a) / (b + c - 2a)
GcdSeq(v, g0)  == LET F[x \in 0..Len(v)] == IF x = 0 THEN g0 ELSE Gcd(F[x - 1], Abs(v[x])) IN F[Len(v)]
\* (1 - gamma) alpha + gamma e_t   with gamma = p/q:  ((q-p) num + p den e_t) / (q den)
Mix(al, tt, gm) ==
    LET p == gm[1]  q == gm[2]
        nn == [x \in 1..Len(al.num) |-> (q - p) * al.num[x] + (IF x = tt THEN p * al.den ELSE 0)]
        dd == q * al.den
        g  == GcdSeq(nn, dd)
    IN  [num |-> [x \in 1..Len(nn) |-> nn[x] \div g], den |-> dd \div g]
StepTo(GG, al, tt) == Mix(al, tt, Gamma(GG, al, tt))

\* 32-bit guard for instances that do not come from an exhaustive family (UseFile): a further step
\* is modelled only if its largest intermediate, about 4 max|G| den^3, fits; the exported scenario
\* then says how many iterations were modelled (`iters`) and the harness replays exactly that many.
MaxAbsG(GG)      == LET F[x \in 0..Len(GG)] == IF x = 0 THEN 1
                                               ELSE LET r == MinOf([y \in 1..Len(GG) |-> 0 - Abs(GG[x][y])])
                                                    IN  IF 0 - r > F[x - 1] THEN 0 - r ELSE F[x - 1]
                    IN  F[Len(GG)]
CanStep(GG, al)  == ~UseFile \/ (al.den <= 800 /\ al.den * al.den * al.den < 1000000000 \div (4 * MaxAbsG(GG)))
NormSafe(GG, al) == ~UseFile \/ (al.den <= 8000 /\ al.den * al.den < 1000000000 \div (16 * MaxAbsG(GG)))
StopsAfter(gm)     == gm[1] * EpsDen < EpsNum * gm[2]            \* gamma < epsilon

\* sign of the derivative of  g |-> |J^T((1-g) alpha + g e_t)|^2  at g = p/q
\* ( (1-g)(a-b) + g(c-a), multiplied by the positive number q den^2 )
DerivSign(GG, al, tt, gm) ==
    LET A == GNum(GG, al)[tt]  Q == QNum(GG, al)  c == GG[tt][tt]  D == al.den
    IN  Sgn((gm[2] - gm[1]) * (A * D - Q) + gm[1] * (c * D * D - A * D))

\* closed-form minimum-norm point of the segment between two rows (weights)
TwoRowWeights(GG) ==
    LET dn == GG[1][1] + GG[2][2] - 2 * GG[1][2]
        w1 == IF dn = 0 THEN Frac(1, 2)
              ELSE RMax(RZero, RMin(ROne, Frac(GG[2][2] - GG[1][2], dn)))
    IN  <<w1, RSub(ROne, w1)>>
\* |J^T d|^2 for a rational weight vector d
RNormSq(GG, d) == CSumSeq([x \in 1..Len(d) |->
                     CMul(d[x], CSumSeq([y \in 1..Len(d) |-> CMul(R(GG[x][y]), d[y])]))])

\* all results of at most kk further iterations from al (ties branch): used by the trace spec;
\* [al, left]: left > 0 iff the integers did not allow to model the remaining iterations
RECURSIVE FinalsL(_, _, _)
FinalsL(GG, al, kk) ==
    IF kk = 0 THEN {[al |-> al, left |-> 0]}
    ELSE IF ~CanStep(GG, al) THEN {[al |-> al, left |-> kk]}
    ELSE UNION { IF StopsAfter(Gamma(GG, al, tt)) THEN {[al |-> StepTo(GG, al, tt), left |-> 0]}
                 ELSE FinalsL(GG, StepTo(GG, al, tt), kk - 1) : tt \in ArgMins(GG, al) }
Finals(GG, al, kk) == {r.al : r \in FinalsL(GG, al, kk)}
Complete(JJ, kk)   == \A r \in FinalsL(Gram(JJ), Uniform(Len(JJ)), kk) : r.left = 0
\* weights @ matrix, as a rational vector
Combine(al, JJ)      == [c \in 1..Len(JJ[1]) |-> Frac(SumSeq([r \in 1..Len(JJ) |-> al.num[r] * JJ[r][c]]), al.den)]
FinalVectors(JJ, kk) == {Combine(al, JJ) : al \in Finals(Gram(JJ), Uniform(Len(JJ)), kk)}

-----------------------------------------------------------------------------
(* --algorithm FrankWolfe {
  variables J \in Family,
            G = Gram(J),
            m = Len(J),
            alpha = Uniform(m),
            k = 0,
            t = 0,
            gamma = RZero,
            branch = "none",
            ties = 0,                 \* history: iterations at which argmin was ambiguous
            path = <<>>,              \* history: the vertices chosen
            stopped = FALSE;
  {
    Iter: while (k < K /\ ~stopped /\ CanStep(G, alpha)) {
        with (tt \in ArgMins(G, alpha)) {            \* torch.argmin(gramian @ alpha)
            t := tt;
            ties := ties + (IF Cardinality(ArgMins(G, alpha)) > 1 THEN 1 ELSE 0);
            path := Append(path, tt);
            branch := Branch(G, alpha, tt);
            gamma := Gamma(G, alpha, tt);
            alpha := Mix(alpha, tt, gamma);
        };
        stopped := StopsAfter(gamma);                \* if gamma < self.epsilon: break
        k := k + 1;
    };
  }
} *)
\* BEGIN TRANSLATION
VARIABLES pc, J, G, m, alpha, k, t, gamma, branch, ties, path, stopped

vars == << pc, J, G, m, alpha, k, t, gamma, branch, ties, path, stopped >>

Init == (* Global variables *)
        /\ J \in Family
        /\ G = Gram(J)
        /\ m = Len(J)
        /\ alpha = Uniform(m)
        /\ k = 0
        /\ t = 0
        /\ gamma = RZero
        /\ branch = "none"
        /\ ties = 0
        /\ path = <<>>
        /\ stopped = FALSE
        /\ pc = "Iter"

Iter == /\ pc = "Iter"
        /\ IF k < K /\ ~stopped /\ CanStep(G, alpha)
              THEN /\ \E tt \in ArgMins(G, alpha):
                        /\ t' = tt
                        /\ ties' = ties + (IF Cardinality(ArgMins(G, alpha)) > 1 THEN 1 ELSE 0)
                        /\ path' = Append(path, tt)
                        /\ branch' = Branch(G, alpha, tt)
                        /\ gamma' = Gamma(G, alpha, tt)
                        /\ alpha' = Mix(alpha, tt, gamma')
                   /\ stopped' = StopsAfter(gamma')
                   /\ k' = k + 1
                   /\ pc' = "Iter"
              ELSE /\ pc' = "Done"
                   /\ UNCHANGED << alpha, k, t, gamma, branch, ties, path, 
                                   stopped >>
        /\ UNCHANGED << J, G, m >>

(* Allow infinite stuttering to prevent deadlock on termination. *)
Terminating == pc = "Done" /\ UNCHANGED vars

Next == Iter
           \/ Terminating

Spec == Init /\ [][Next]_vars

Termination == <>(pc = "Done")

\* END TRANSLATION

FairSpec == Spec /\ WF_vars(Next)
Finished == pc = "Done"
Vector   == Combine(alpha, J)

-----------------------------------------------------------------------------
(* What TLC checks                                                         *)

TypeOK == /\ m = Len(J) /\ k \in 0..K /\ Len(alpha.num) = m /\ alpha.den > 0
          /\ GcdSeq(alpha.num, alpha.den) = 1
          /\ branch \in {"none", "vertex", "stay", "interior"}

\* C18: a convex combination of the rows
OnSimplex == /\ \A x \in 1..m : alpha.num[x] >= 0
             /\ SumSeq(alpha.num) = alpha.den

\* C18 mechanism: |J^T alpha| never increases along the iteration
Monotone == [][(NormSafe(G, alpha) /\ NormSafe(G', alpha') /\ (UseFile => alpha.den * alpha'.den <= 3000))
                 => CLe(NormSq(G', alpha'), NormSq(G, alpha))]_vars

\* C18: never longer than the mean of the rows
NotLongerThanMean == NormSafe(G, alpha) => CLe(NormSq(G, alpha), NormSq(G, Uniform(m)))

\* the gamma of the three-way case analysis is the exact line search on [alpha, e_t]:
\* checked on the state BEFORE each step, for every admissible t
LineSearchExact ==
    (pc = "Iter" /\ k < K /\ k < 2 /\ ~stopped /\ CanStep(G, alpha) /\ (UseFile => k = 0)) =>   \* (an algebraic identity: two levels suffice)
        \A tt \in ArgMins(G, alpha) :
            LET gm == Gamma(G, alpha, tt)  d == DerivSign(G, alpha, tt, gm)
            IN  /\ 0 <= gm[1] /\ gm[1] <= gm[2]
                /\ \/ d = 0
                   \/ (gm = RZero /\ d >= 0)
                   \/ (gm = ROne /\ d <= 0)

\* C18: two rows - after one step alpha is the minimum-norm point of the segment (as a vector:
\* the weights are not unique when the two rows coincide)
TwoRowsClosedForm ==
    (m = 2 /\ k >= 1 /\ NormSafe(G, alpha)) =>
        LET aw == AsRat(alpha)  cw == TwoRowWeights(G)
        IN  RIsZero(RNormSq(G, <<CSub(aw[1], cw[1]), CSub(aw[2], cw[2])>>))

\* nothing depends on the scale of the matrix (replay on 2^e J is legitimate)
ScaleFree ==
    (k < K /\ k < 2 /\ ~UseFile) =>
    LET G4 == [x \in 1..m |-> [y \in 1..m |-> 4 * G[x][y]]]
    IN  /\ ArgMins(G4, alpha) = ArgMins(G, alpha)
        /\ \A tt \in ArgMins(G, alpha) : Gamma(G4, alpha, tt) = Gamma(G, alpha, tt)

\* the step-wise algorithm and the recursive definition used for traces agree
FinalsAgree == Finished => [al |-> alpha, left |-> IF stopped THEN 0 ELSE K - k] \in FinalsL(G, Uniform(m), K)

Terminates == <>Finished

-----------------------------------------------------------------------------
(* Scenario export                                                         *)

MaxDenV(v)  == LET F[x \in 0..Len(v)] == IF x = 0 THEN 1 ELSE IF v[x][2] > F[x - 1] THEN v[x][2] ELSE F[x - 1]
               IN  F[Len(v)]
Scenario == [J |-> J, K |-> K, eps |-> <<EpsNum, EpsDen>>, alpha |-> AsRat(alpha), vec |-> Vector,
             ties |-> ties, path |-> path, iters |-> k, stopped |-> stopped, last |-> branch,
             den |-> MaxDenV(Vector),
             mean2 |-> NormSq(G, Uniform(m)),
             closed |-> IF m = 2 THEN RVecMat(TwoRowWeights(G), RMat(J), Len(J[1])) ELSE <<>>,
             exps |-> ScaleExps]
Export   == Finished => PrintT(<<"SCN", ToJson(Scenario)>>)
=============================================================================
