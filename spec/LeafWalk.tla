------------------------------ MODULE LeafWalk ------------------------------
(***************************************************************************)
(* C12 - default parameter discovery of torchjd.autojac.                   *)
(*                                                                         *)
(* Three layers, kept apart (DESIGN.md 6):                                 *)
(*                                                                         *)
(*  PROPERTY layer (tensor level, what the statement says).  A program is  *)
(*  a sequence of tensors [k, a, b]; TDeps(P, T, Stop) = the leaves        *)
(*  requiring grad from which the tensors T were (differentiably) computed *)
(*  without passing through a tensor of Stop.  backward() without `inputs` *)
(*  must use TDeps(tensors, {}); mtl_backward() without shared_params must *)
(*  use TDeps(features, {}), without tasks_params TDeps({loss_i},features) *)
(*  for every i, and must reject the call iff these default sets overlap.  *)
(*                                                                         *)
(*  GRAPH layer.  GraphOf(P) is the autograd graph torch builds for P      *)
(*  (grad_fn nodes, next_functions with 0 = None for operands that do not  *)
(*  require grad, AccumulateGrad nodes, ONE node for all outputs of a      *)
(*  multi-output op); Reach(G, roots, X) /\ G.acc = the AccumulateGrad     *)
(*  nodes reachable from roots \ X along paths avoiding X.                 *)
(*                                                                         *)
(*  IMPLEMENTATION layer (PlusCal).  _get_descendant_accumulate_grads      *)
(*  transcribed statement by statement, one step per popleft; the          *)
(*  iteration order of deque(roots - excluded) is a hidden choice.         *)
(*                                                                         *)
(* TLC builds every program with <= MaxN tensors; for every call on it it  *)
(* checks graph layer = property layer (DefaultsAreTheLeavesThatMatter)    *)
(* and it runs the walk for every (roots, excluded) pair any of these      *)
(* calls hands to the helper: walk = graph layer (WalkCorrect).  Graph and *)
(* property layer differ only when a loss uses a sibling output of the     *)
(* multi-output op that produced a feature (the statement is ambiguous     *)
(* there: such scenarios are flagged `ambig`, counted, give no verdict).   *)
(*                                                                         *)
(* DTYPES.  "Leaf tensor requiring grad" is a statement about              *)
(* requires_grad, not about the element type: float32, float64, complex64  *)
(* and complex128 tensors can all require grad.  Every program is therefore *)
(* explored with every assignment of an element type to its user tensors   *)
(* (DTAssignments); graph, walk and default sets do not depend on it       *)
(* (they are computed before the assignment is chosen), the exported       *)
(* scenario carries it, the replay realises it.  The only thing the type   *)
(* decides is whether a call is inside the universe at all: the parameters *)
(* whose Jacobians are aggregated TOGETHER (inputs of backward, shared     *)
(* parameters of mtl_backward) form one matrix and must have one element   *)
(* type (torch refuses a .grad of another type) - InUniverse.  Task        *)
(* parameters, constants and unreachable leaves are unconstrained.         *)
(***************************************************************************)
EXTENDS Integers, Sequences, FiniteSets, TLC, Json

CONSTANTS MaxN,        \* tensors per program (leaves included)
          MaxLeaves,   \* leaves per program
          MaxFeats,    \* features per mtl_backward call
          MaxLosses,   \* losses per mtl_backward call
          LeafDTs,     \* element types of the user tensors that require grad
          ConstDTs,    \* element types of the user tensors that do not
          SampleMod, SamplePick   \* scenario export: 1 out of SampleMod by content hash

Range(s) == {s[i] : i \in DOMAIN s}

RECURSIVE PermSeqs(_)
PermSeqs(S) == IF S = {} THEN {<<>>}
               ELSE UNION {{<<x>> \o p : p \in PermSeqs(S \ {x})} : x \in S}

RECURSIVE SumSeq(_)
SumSeq(s) == IF s = <<>> THEN 0 ELSE Head(s) + SumSeq(Tail(s))

-----------------------------------------------------------------------------
(* Tensor programs.  Tensor i may only refer to tensors < i.               *)
(*   leaf   user tensor, requires_grad = True                              *)
(*   const  user tensor, requires_grad = False                             *)
(*   un     unary op on a             bin   binary op on a, b (a = b ok)   *)
(*   det    a.detach()                                                     *)
(*   mo1    first output of a multi-output op applied to a                 *)
(*   mo2    second output of the SAME op application as the mo1 tensor a   *)

Nd(k, a, b) == [k |-> k, a |-> a, b |-> b]
LeafKinds == {"leaf", "const"}

RECURSIVE RGUpTo(_, _)
RGUpTo(P, n) ==
    IF n = 0 THEN <<>>
    ELSE LET prev == RGUpTo(P, n - 1)
             nd   == P[n]
             r    == CASE nd.k = "leaf"  -> TRUE
                       [] nd.k = "const" -> FALSE
                       [] nd.k = "det"   -> FALSE
                       [] nd.k = "bin"   -> prev[nd.a] \/ prev[nd.b]
                       [] OTHER          -> prev[nd.a]           \* un, mo1, mo2
         IN  Append(prev, r)
RG(P) == RGUpTo(P, Len(P))                  \* requires_grad of every tensor

\* tensors a call may differentiate / use as features: non-leaf and requiring grad
Diff(P) == {i \in 1..Len(P) : P[i].k \notin LeafKinds /\ RG(P)[i]}

\* ---- property layer: differentiable dependence between tensors
TArgs(P, i) == CASE P[i].k = "un"  -> {P[i].a}
                 [] P[i].k = "bin" -> {P[i].a, P[i].b}
                 [] P[i].k = "mo1" -> {P[i].a}
                 [] P[i].k = "mo2" -> {P[P[i].a].a}
                 [] OTHER          -> {}          \* leaves; detach cuts the dependence

TDeps(P, T, Stop) ==
    LET rg == RG(P)
        RECURSIVE R(_, _)
        R(front, seen) ==
            IF front = {} THEN seen
            ELSE LET nxt == {c \in UNION {TArgs(P, n) : n \in front} :
                                rg[c] /\ c \notin Stop /\ c \notin seen}
                 IN  R(nxt, seen \cup nxt)
        start == T \ Stop
    IN  {l \in R(start, start) : P[l].k = "leaf"}

\* ---- graph layer: the autograd graph of a program
\* GN[i] = id of the grad_fn (or AccumulateGrad) node of tensor i, 0 = none
GN(P) == LET rg == RG(P) IN
         [i \in 1..Len(P) |->
            CASE P[i].k = "leaf"  -> i
              [] P[i].k = "const" -> 0
              [] P[i].k = "det"   -> 0
              [] P[i].k = "mo2"   -> IF rg[i] THEN P[i].a ELSE 0      \* same node as its mo1
              [] OTHER            -> IF rg[i] THEN i ELSE 0]

EmptyGraph == [next |-> <<>>, acc |-> {}]
GraphOf(P) ==
    LET gn == GN(P) IN
    [next |-> [i \in 1..Len(P) |->
                 IF gn[i] # i THEN <<>>
                 ELSE CASE P[i].k = "un"  -> <<gn[P[i].a]>>
                        [] P[i].k = "mo1" -> <<gn[P[i].a], gn[P[i].a]>>      \* stack([a, c*a]).unbind()
                        [] P[i].k = "bin" -> <<gn[P[i].a], gn[P[i].b]>>
                        [] OTHER          -> <<>>],
     acc  |-> {i \in 1..Len(P) : P[i].k = "leaf"}]


\* nodes reachable from roots \ X along paths that avoid X (0 = None edge)
Reach(G, roots, X) ==
    LET RECURSIVE R(_, _)
        R(front, seen) ==
            IF front = {} THEN seen
            ELSE LET nxt == {c \in UNION {Range(G.next[n]) : n \in front} :
                                c # 0 /\ c \notin X /\ c \notin seen}
                 IN  R(nxt, seen \cup nxt)
        start == roots \ X
    IN  R(start, start)
ReachAcc(G, roots, X) == Reach(G, roots, X) \cap G.acc

\* ---- the universe explored by TLC: leaves first (leaf before const), then ops
Extensions(P) ==
    LET n  == Len(P)
        rg == RG(P)
        onlyLeaves == \A i \in 1..n : P[i].k \in LeafKinds
        leafExt == IF ~onlyLeaves \/ n >= MaxLeaves THEN {}
                   ELSE IF n > 0 /\ P[n].k = "const" THEN {Nd("const", 0, 0)}
                   ELSE {Nd("leaf", 0, 0), Nd("const", 0, 0)}
        R  == {i \in 1..n : rg[i]}
        usedMo == {P[j].a : j \in {j \in 1..n : P[j].k = "mo2"}}
        opExt == {Nd("un", a, 0) : a \in R} \cup {Nd("det", a, 0) : a \in R}
                 \cup {Nd("mo1", a, 0) : a \in R}
                 \cup {Nd("mo2", a, 0) : a \in {i \in R : P[i].k = "mo1" /\ i \notin usedMo}}
                 \cup {Nd("bin", a, b) : a \in 1..n, b \in 1..n}
    IN  leafExt \cup {nd \in opExt : nd.k = "bin" => (nd.a <= nd.b /\ (rg[nd.a] \/ rg[nd.b]))}

InjSeqs(S, maxLen) == {s \in UNION {[1..n -> S] : n \in 1..maxLen} :
                          \A i, j \in DOMAIN s : i # j => s[i] # s[j]}

\* the last tensor of the program takes part in the call (otherwise the same call was already
\* explored on the shorter program)
Calls(P) ==
    LET D == Diff(P)
        n == Len(P)
    IN  {[fn |-> "backward", tensors |-> T, feats |-> {}, losses |-> <<>>] :
            T \in {T \in SUBSET D : n \in T}}
        \cup
        {c \in {[fn |-> "mtl", tensors |-> {}, feats |-> F, losses |-> L] :
                   F \in {F \in SUBSET D : F # {} /\ Cardinality(F) <= MaxFeats},
                   L \in InjSeqs(D, MaxLosses)} :
            n \in c.feats \cup Range(c.losses)}

\* the invocations of _get_descendant_accumulate_grads a defaulted call performs, in order:
\*   backward:      (roots = grad_fn of the tensors, excluded = {})
\*   mtl_backward:  (features, {}) then, per loss, ({loss}, grad_fn of the features)
\* (gn = GN(P), passed in so that it is computed once per program)
NodesOf(gn, T) == {gn[t] : t \in T} \ {0}
JobsOfG(gn, c) ==
    IF c.fn = "backward" THEN << [roots |-> NodesOf(gn, c.tensors), excl |-> {}] >>
    ELSE << [roots |-> NodesOf(gn, c.feats), excl |-> {}] >>
         \o [i \in 1..Len(c.losses) |-> [roots |-> NodesOf(gn, {c.losses[i]}), excl |-> NodesOf(gn, c.feats)]]
JobsOf(P, c) == JobsOfG(GN(P), c)

\* for child, _ in node.next_functions:
\*     if child is not None and child not in excluded_nodes: append(child); excluded_nodes.add(child)
RECURSIVE Scan(_, _, _)
Scan(ch, q, x) ==
    IF ch = <<>> THEN [q |-> q, x |-> x]
    ELSE LET c == Head(ch) IN
         IF c # 0 /\ c \notin x THEN Scan(Tail(ch), Append(q, c), x \cup {c})
         ELSE Scan(Tail(ch), q, x)

\* every (roots, excluded) pair that some call on P hands to the helper
ProgramJobs(P) == LET gn == GN(P) IN UNION {Range(JobsOfG(gn, c)) : c \in Calls(P)}

(* --algorithm LeafWalk {
  variables
    P = <<>>,             \* the tensor program (build phase)
    G = EmptyGraph,       \* the autograd graph that is walked
    alljobs = <<>>,       \* the invocations [roots, excl] of the helper to perform
    jobs = <<>>,          \* those still pending
    results = <<>>,       \* results of the completed ones, in order
    excluded = {}, result = {}, queue = <<>>, node = 0,
    dequeued = <<>>;      \* nodes of the current invocation in popleft order (observation only)
  {
  Build:
    while (alljobs = <<>>) {
      either { await Len(P) < MaxN;
               with (nd \in Extensions(P)) { P := Append(P, nd) } }
      or     { with (j \in ProgramJobs(P)) { G := GraphOf(P); alljobs := <<j>>; jobs := <<j>> } }
    };
  Jobs:
    while (jobs # <<>>) {
      \* excluded_nodes = set(excluded_nodes); result = set()
      \* nodes_to_traverse = deque(roots - excluded_nodes)       (set order: hidden choice)
      excluded := Head(jobs).excl;
      result := {};
      dequeued := <<>>;
      with (q \in PermSeqs(Head(jobs).roots \ Head(jobs).excl)) { queue := q };
    Loop:
      while (queue # <<>>) {
        node := Head(queue);                                    \* popleft
        dequeued := Append(dequeued, node);
        if (node \in G.acc) { result := result \cup {node} };   \* AccumulateGrad
        with (st = Scan(G.next[node], Tail(queue), excluded)) {
          queue := st.q;
          excluded := st.x
        }
      };
      results := Append(results, result);
      jobs := Tail(jobs)
    }
  }
} *)
\* BEGIN TRANSLATION
VARIABLES pc, P, G, alljobs, jobs, results, excluded, result, queue, node, 
          dequeued

vars == << pc, P, G, alljobs, jobs, results, excluded, result, queue, node, 
           dequeued >>

Init == (* Global variables *)
        /\ P = <<>>
        /\ G = EmptyGraph
        /\ alljobs = <<>>
        /\ jobs = <<>>
        /\ results = <<>>
        /\ excluded = {}
        /\ result = {}
        /\ queue = <<>>
        /\ node = 0
        /\ dequeued = <<>>
        /\ pc = "Build"

Build == /\ pc = "Build"
         /\ IF alljobs = <<>>
               THEN /\ \/ /\ Len(P) < MaxN
                          /\ \E nd \in Extensions(P):
                               P' = Append(P, nd)
                          /\ UNCHANGED <<G, alljobs, jobs>>
                       \/ /\ \E j \in ProgramJobs(P):
                               /\ G' = GraphOf(P)
                               /\ alljobs' = <<j>>
                               /\ jobs' = <<j>>
                          /\ P' = P
                    /\ pc' = "Build"
               ELSE /\ pc' = "Jobs"
                    /\ UNCHANGED << P, G, alljobs, jobs >>
         /\ UNCHANGED << results, excluded, result, queue, node, dequeued >>

Jobs == /\ pc = "Jobs"
        /\ IF jobs # <<>>
              THEN /\ excluded' = Head(jobs).excl
                   /\ result' = {}
                   /\ dequeued' = <<>>
                   /\ \E q \in PermSeqs(Head(jobs).roots \ Head(jobs).excl):
                        queue' = q
                   /\ pc' = "Loop"
              ELSE /\ pc' = "Done"
                   /\ UNCHANGED << excluded, result, queue, dequeued >>
        /\ UNCHANGED << P, G, alljobs, jobs, results, node >>

Loop == /\ pc = "Loop"
        /\ IF queue # <<>>
              THEN /\ node' = Head(queue)
                   /\ dequeued' = Append(dequeued, node')
                   /\ IF node' \in G.acc
                         THEN /\ result' = (result \cup {node'})
                         ELSE /\ TRUE
                              /\ UNCHANGED result
                   /\ LET st == Scan(G.next[node'], Tail(queue), excluded) IN
                        /\ queue' = st.q
                        /\ excluded' = st.x
                   /\ pc' = "Loop"
                   /\ UNCHANGED << jobs, results >>
              ELSE /\ results' = Append(results, result)
                   /\ jobs' = Tail(jobs)
                   /\ pc' = "Jobs"
                   /\ UNCHANGED << excluded, result, queue, node, dequeued >>
        /\ UNCHANGED << P, G, alljobs >>

(* Allow infinite stuttering to prevent deadlock on termination. *)
Terminating == pc = "Done" /\ UNCHANGED vars

Next == Build \/ Jobs \/ Loop
           \/ Terminating

Spec == Init /\ [][Next]_vars

Termination == <>(pc = "Done")

\* END TRANSLATION

-----------------------------------------------------------------------------
(* implementation = graph layer                                            *)

Started == alljobs # <<>>
Ended   == pc = "Done"

\* the walk returns exactly the AccumulateGrad nodes reachable from roots \ excluded along paths
\* avoiding excluded, whatever the initial order of the deque
WalkCorrect == Ended => /\ Len(results) = Len(alljobs)
                        /\ \A j \in 1..Len(alljobs) :
                              results[j] = ReachAcc(G, alljobs[j].roots, alljobs[j].excl)

\* only AccumulateGrad nodes are ever returned
OnlyLeavesRequiringGrad == \A j \in 1..Len(results) : results[j] \subseteq G.acc

\* implementation-layer observations: every node is dequeued at most once, except that a root which
\* is a descendant of another root may be dequeued twice (roots are not marked as seen); hence the
\* walk does at most |nodes| + |roots| iterations
Occ(s, x) == Cardinality({i \in DOMAIN s : s[i] = x})
BoundedWork == pc = "Loop" =>
                   \A x \in Range(dequeued) :
                      Occ(dequeued, x) <= (IF x \in Head(jobs).roots THEN 2 ELSE 1)

\* once started, every invocation of the helper terminates (checked under weak fairness)
FairSpec   == Spec /\ WF_vars(Next)
WalkEnds   == Started ~> Ended

TypeOK == /\ Len(P) <= MaxN
          /\ pc \in {"Build", "Jobs", "Loop", "Done"}
          /\ result \subseteq G.acc

-----------------------------------------------------------------------------
(* graph layer = property layer, for every call c on the program P          *)

TensorSet(c, j) == IF c.fn = "backward" THEN TDeps(P, c.tensors, {})
                   ELSE IF j = 1 THEN TDeps(P, c.feats, {})
                   ELSE TDeps(P, {c.losses[j - 1]}, c.feats)

\* everything the statement says about call c, computed once: graph-level sets gs (what the
\* helper returns, by WalkCorrect), tensor-level sets ts (what the statement names)
Facts(gn, GG, c) ==
    LET jb == JobsOfG(gn, c)
        gs == [j \in 1..Len(jb) |-> ReachAcc(GG, jb[j].roots, jb[j].excl)]
        ts == [j \in 1..Len(jb) |-> TensorSet(c, j)]
    IN  [gs |-> gs, ts |-> ts,
         ambig   |-> c.fn = "mtl" /\ gs # ts,
         overlap |-> c.fn = "mtl" /\ \E i \in 2..Len(gs) : gs[i] \cap gs[1] # {},
         \* a non-feature tensor shares its grad_fn with a feature (sibling output of a multi-output op)
         sibling |-> \E u \in 1..Len(P) : u \notin c.feats /\ gn[u] # 0 /\ gn[u] \in NodesOf(gn, c.feats)]

\* ---- element types of the user tensors (leaves come first in a program: the domain is 1..nl)
UserIdx(Q) == {i \in 1..Len(Q) : Q[i].k \in LeafKinds}
DTAssignments(Q) == {d \in [UserIdx(Q) -> LeafDTs \cup ConstDTs] :
                        \A i \in UserIdx(Q) : d[i] \in (IF Q[i].k = "leaf" THEN LeafDTs ELSE ConstDTs)}
\* the parameters aggregated together have one element type (f.gs[1] = inputs / shared_params);
\* a call whose default sets overlap is rejected before anything is differentiated
InUniverse(f, d) == f.overlap \/ \A i, j \in f.gs[1] : d[i] = d[j]
DTCode(dt) == CASE dt = "f64" -> 0 [] dt = "f32" -> 1 [] dt = "c128" -> 2 [] OTHER -> 3
DTHash(d) == 43 * SumSeq([i \in 1..Len(P) |-> IF i \in DOMAIN d THEN (2 * i + 1) * DTCode(d[i]) ELSE 0])

Scenario(c, f, d) ==
                  [prog |-> P, fn |-> c.fn, tensors |-> c.tensors, feats |-> c.feats, losses |-> c.losses,
                   dt |-> [i \in 1..Len(P) |-> IF i \in DOMAIN d THEN d[i] ELSE "-"],
                   inputs |-> IF c.fn = "backward" THEN f.gs[1] ELSE {},
                   shared |-> IF c.fn = "mtl" THEN f.gs[1] ELSE {},
                   tasks  |-> IF c.fn = "mtl" THEN [i \in 1..Len(c.losses) |-> f.gs[i + 1]] ELSE <<>>,
                   overlap |-> f.overlap, ambig |-> f.ambig]

KindCode(k) == CASE k = "leaf" -> 1 [] k = "const" -> 2 [] k = "un" -> 3 [] k = "bin" -> 5
                 [] k = "det" -> 7 [] k = "mo1" -> 11 [] OTHER -> 13
ProgHash == SumSeq([i \in 1..Len(P) |-> i * KindCode(P[i].k) + (i + 2) * P[i].a + (2 * i + 1) * P[i].b])
ScnHash(c) == 31 * SumSeq([i \in 1..Len(P) |-> IF i \in c.tensors THEN i * i ELSE 0])
              + 37 * SumSeq([i \in 1..Len(P) |-> IF i \in c.feats THEN i * i + 1 ELSE 0])
              + 41 * SumSeq([i \in 1..Len(c.losses) |-> (i + 1) * c.losses[i]])

\* one state per program: the build state (the walks branch off from it)
AtProgram == pc = "Build" /\ alljobs = <<>>

\* C12 on the model: the default sets are the leaves that matter - the set a defaulted call uses
\* for `inputs` / `shared_params` always, the per-task sets unless the program is ambiguous (a loss
\* uses a sibling output of a feature's multi-output op); a default set for tensors that require
\* grad is never empty - whatever the element types of the user tensors (the sets are fixed before
\* the assignment d is drawn; complex leaves are leaves).  Every (program, call, element-type
\* assignment inside the universe) is exported from here, once.
DefaultsAreTheLeavesThatMatter ==
    AtProgram =>
        LET gn == GN(P)
            GG == GraphOf(P)
            ph == ProgHash
            DA == DTAssignments(P)
        IN  \A c \in Calls(P) :
               LET f == Facts(gn, GG, c)
                   h == ph + ScnHash(c)
               IN
               /\ f.gs[1] = f.ts[1]
               /\ f.gs[1] # {}
               /\ (~f.ambig => f.gs = f.ts)
               /\ (f.ambig => f.sibling)
               /\ \E d \in DA : InUniverse(f, d)
               /\ \A d \in DA :
                     (InUniverse(f, d) /\ ((h + DTHash(d)) % SampleMod) = SamplePick)
                         => PrintT(<<"SCN", ToJson(Scenario(c, f, d))>>)
=============================================================================
