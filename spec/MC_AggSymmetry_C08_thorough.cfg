CONSTANT Mode = "cols"
CONSTANT MaxSteps = 3
CONSTANT MaxZero = 2
CONSTANT RowCounts = {2, 3, 4}
CONSTANT PadCounts = {4097, 16384}
CONSTANT NGen = 6
SPECIFICATION Spec
INVARIANT TypeOK
INVARIANT Consistent
INVARIANT GramInvariant
INVARIANT LawC08
INVARIANT PadLaw
INVARIANT WideLaw
INVARIANT HistLaw
INVARIANT ClassInvariant
INVARIANT Export
CHECK_DEADLOCK FALSE
