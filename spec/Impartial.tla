------------------------------ MODULE Impartial ------------------------------
(***************************************************************************)
(* C17 - the impartial aggregators IMTL-G, ConFIG and Aligned-MTL, with    *)
(* their defining equalities evaluated EXACTLY (integers / rationals) on   *)
(* instance families where everything is rational:                        *)
(*                                                                         *)
(*  "pyth"     rows with integer norms d_i (Pythagorean rows), Gramian G   *)
(*             invertible.  With a = adj(G) d (integers):                  *)
(*               IMTL-G   w = a / sum(a),  A = w^T J                        *)
(*             and with a' = adj(G) (D u), P = sum d_i u_i,                *)
(*             Q = sum a'_i d_i u_i:                                       *)
(*               ConFIG(u) A = (P / Q) a'^T J                              *)
(*  "aligned"  J = S Q, S symmetric integer positive definite with an      *)
(*             INTEGER smallest eigenvalue sigma (decided exactly:         *)
(*             det(S - sigma I) = 0 and S - sigma I positive semidefinite  *)
(*             by principal minors), Q with orthonormal rows (signed       *)
(*             partial permutations, Hadamard/2).  Then Gram(J) = S^2,     *)
(*             the balance transformation is B = sigma S^-1, B J = sigma Q *)
(*             and Aligned-MTL(u) = sigma u^T Q.                           *)
(*  "zero"     all-zero matrices of every shape: the zero vector.          *)
(*  "wide"     VERY WIDE presentations of the two exact families: every    *)
(*             column of a base instance J repeated r = 4^k times and the  *)
(*             whole scaled by 2^-k (k = 8, 9: n = 2^17 .. 2^20 columns).  *)
(*             Widening by 4 and halving keeps the Gramian, hence norms,   *)
(*             weights, sigma_min and the condition number, and every one  *)
(*             of the three aggregators commutes with it:                  *)
(*               Agg(Widen(J)) = Widen(Agg(J))      (WidenStep, checked    *)
(*             by TLC for one and two steps with the operators of the base *)
(*             families; the general k follows by induction).  The base    *)
(*             instances are one S per spectrum (characteristic polynomial)*)
(*             of the "aligned" candidates, each with every Q, and the     *)
(*             "pyth" instances over the first rows of every list.  The    *)
(*             model also decides whether all n-term reductions over the   *)
(*             columns (Gramian, row norms) are EXACT in float32 whatever  *)
(*             the summation order (all partial sums are integers < 2^24   *)
(*             in units of the smallest product); in float64 they always   *)
(*             are.  So the allowance of the narrow instance applies.      *)
(*                                                                         *)
(*  "hist"     CALL HISTORIES of one aggregator object.  An aggregator is a *)
(*             function of its argument: the statement's two clauses are   *)
(*             about the same configured object, used on all-zero matrices *)
(*             and on regular ones in whatever order, and any finite       *)
(*             matrix (e.g. one with a single all-zero row, outside the    *)
(*             regular clause, hence unjudged) may come in between.  A     *)
(*             history is a word over {reg, zero, zrow}: "reg" = the next  *)
(*             instance of the exact families with the given shape,        *)
(*             "zero" = the all-zero matrix of that shape, "zrow" = the    *)
(*             previous regular matrix with one row replaced by zeros.     *)
(*             HistExpected: what is demanded at step k depends on step k  *)
(*             alone (exact value of that instance | zero vector | nothing *)
(*             ), never on the prefix.  The harness runs the words through *)
(*             ONE object per aggregator configuration and ONE tensor      *)
(*             buffer per shape, refilled in place between the calls.      *)
(*                                                                         *)
(* TLC checks on every instance that the exported value satisfies the      *)
(* defining equalities of the statement (weights sum to one and equal      *)
(* projections; cosines proportional to the preference vector and          *)
(* positive; re-balanced rows orthogonal of length sigma_min), decides     *)
(* the admissibility (full row rank, bounded condition number) exactly and *)
(* exports instance + expected value; harness/checks/c17.py runs the real  *)
(* aggregators on 2^e J.  AdmitGram / the Allowed* operators are re-used   *)
(* by TraceImpartial.tla for random integer matrices (predicate level).    *)
(***************************************************************************)
EXTENDS Integers, Sequences, FiniteSets, TLC, Json

CONSTANTS Level        \* 1 = quick (prefixes of the row lists), 2 = thorough

-----------------------------------------------------------------------------
(* exact integer / rational helpers                                        *)

Abs(x) == IF x < 0 THEN -x ELSE x
RECURSIVE Gcd(_, _)
Gcd(a, b) == IF b = 0 THEN a ELSE Gcd(b, a % b)
Q2(n, d) == LET s == IF d < 0 THEN -1 ELSE 1  g == Gcd(Abs(n), Abs(d))       \* normalised rational
            IN  IF n = 0 THEN <<0, 1>> ELSE <<(s * n) \div g, (s * d) \div g>>

ISum(s)    == LET F[i \in 0..Len(s)] == IF i = 0 THEN 0 ELSE F[i - 1] + s[i] IN F[Len(s)]
IDot(u, v) == ISum([i \in 1..Len(u) |-> u[i] * v[i]])
Gram(J)    == [i \in 1..Len(J) |-> [j \in 1..Len(J) |-> IDot(J[i], J[j])]]
MatVec(M, v) == [i \in 1..Len(M) |-> IDot(M[i], v)]
VecMat(w, M, n) == [j \in 1..n |-> ISum([i \in 1..Len(M) |-> w[i] * M[i][j]])]     \* w^T M
MatMat(A, B, n) == [i \in 1..Len(A) |-> VecMat(A[i], B, n)]
Minor(M, i, j) == LET n == Len(M) IN
                  [a \in 1..(n - 1) |-> [b \in 1..(n - 1) |->
                      M[IF a < i THEN a ELSE a + 1][IF b < j THEN b ELSE b + 1]]]
RECURSIVE IDet(_)
IDet(M) == IF Len(M) = 0 THEN 1
           ELSE IF Len(M) = 1 THEN M[1][1]
           ELSE ISum([j \in 1..Len(M) |-> (IF j % 2 = 1 THEN 1 ELSE -1) * M[1][j] * IDet(Minor(M, 1, j))])
Adj(M) == [i \in 1..Len(M) |-> [j \in 1..Len(M) |->
              (IF (i + j) % 2 = 0 THEN 1 ELSE -1) * IDet(Minor(M, j, i))]]
TraceM(M) == ISum([i \in 1..Len(M) |-> M[i][i]])
Pow(b, k) == LET F[i \in 0..k] == IF i = 0 THEN 1 ELSE b * F[i - 1] IN F[k]
ISqrt(x)  == CHOOSE d \in 0..x : d * d <= x /\ (d + 1) * (d + 1) > x
RECURSIVE SetToSeq(_)
SetToSeq(S) == IF S = {} THEN <<>> ELSE LET x == CHOOSE y \in S : \A z \in S : y <= z
                                        IN  <<x>> \o SetToSeq(S \ {x})
RECURSIVE SetToSeqAny(_)
SetToSeqAny(S) == IF S = {} THEN <<>> ELSE LET x == CHOOSE y \in S : TRUE IN <<x>> \o SetToSeqAny(S \ {x})
SubM(G, S) == LET idx == SetToSeq(S) IN [a \in 1..Len(idx) |-> [b \in 1..Len(idx) |-> G[idx[a]][idx[b]]]]
PSD(M) == \A S \in (SUBSET (1..Len(M))) \ {{}} : IDet(SubM(M, S)) >= 0       \* all principal minors
CeilDiv(a, b) == (a + b - 1) \div b

-----------------------------------------------------------------------------
(* Admissibility: full row rank and bounded condition number, decided exactly.               *)
(* For a positive definite m x m Gramian G: lambda_min >= det / lambda_max^(m-1) >= det / tr^(m-1), *)
(* hence cond(G) <= tr^m / det =: CondBound(G).  Instances with CondBound > KMax are outside  *)
(* ("bounded condition number" of the quantifier; cond(J) <= 32).                             *)

KMax == 1024
CondBound(G) == CeilDiv(Pow(TraceM(G), Len(G)), IDet(G))          \* only for det > 0
AdmitGram(G) == IDet(G) > 0 /\ Pow(TraceM(G), Len(G)) <= KMax * IDet(G)

\* the same for the unit-row matrix U = D^-1 J: C = U U^T has trace m and det C = det G / prod |g_i|^2
ProdDiag(G)   == LET F[i \in 0..Len(G)] == IF i = 0 THEN 1 ELSE F[i - 1] * G[i][i] IN F[Len(G)]
CondBoundU(G) == CeilDiv(Pow(Len(G), Len(G)) * ProdDiag(G), IDet(G))
AdmitUnit(G)  == IDet(G) > 0 /\ Pow(Len(G), Len(G)) * ProdDiag(G) <= KMax * IDet(G)

\* allowance, in units of eps * (natural scale of the quantity), for the float evaluation of the
\* defining equalities by the harness: 64 * cond bound
AllowedUnits(G)  == 64 * CondBound(G)
AllowedUnitsU(G) == 64 * CondBoundU(G)

-----------------------------------------------------------------------------
(* Family "pyth": rows with integer norms                                  *)

R2 == << <<3, 4>>, <<4, -3>>, <<0, 2>>, <<1, 0>>, <<-4, 3>>, <<5, 0>>, <<-3, -4>> >>
R3 == << <<1, 2, 2>>, <<-2, 1, 2>>, <<0, 3, 4>>, <<1, 0, 0>>, <<2, -2, -1>>, <<3, -6, 2>>, <<6, 2, -3>>,
         <<4, 0, -3>>, <<0, -2, 0>>, <<2, 3, 6>>, <<2, -2, 1>>, <<6, -2, 3>>, <<-3, 4, 0>>, <<-3, 6, -2>>,
         <<2, -1, 2>>, <<-1, -2, 2>>, <<0, 4, 3>>, <<0, 0, 3>> >>
R4 == << <<1, 1, 1, 1>>, <<2, 4, -1, 2>>, <<3, -3, 3, 3>>, <<1, 2, 2, 4>>, <<1, -1, 1, -1>>, <<0, 1, 2, 2>>,
         <<-2, 1, 4, -2>>, <<2, 0, 0, 0>>, <<4, -2, 2, 1>>, <<1, 1, -1, 1>>, <<0, 0, 3, -4>>, <<2, 2, 2, 2>> >>
R5 == << <<1, 1, 1, 2, 3>>, <<2, 1, -1, 1, 3>>, <<-1, 3, 1, 2, 1>>, <<1, 0, 2, 2, 4>>, <<3, -1, -1, -1, 2>> >>

RowList(n) == CASE n = 2 -> R2 [] n = 3 -> R3 [] n = 4 -> R4 [] OTHER -> R5
Avail(n)   == IF Level >= 2 THEN Len(RowList(n))
              ELSE CASE n = 2 -> 7 [] n = 3 -> 9 [] n = 4 -> 7 [] OTHER -> 5
NormOf(r)  == ISqrt(IDot(r, r))
AllPyth    == \A n \in 2..5 : \A i \in 1..Len(RowList(n)) :
                 LET r == RowList(n)[i] IN NormOf(r) * NormOf(r) = IDot(r, r) /\ NormOf(r) >= 1 /\ NormOf(r) <= 7
ASSUME AllPyth

PythJ(ch) == LET idx == SetToSeq(ch[2]) IN [i \in 1..Len(idx) |-> RowList(ch[1])[idx[i]]]

\* preference vectors: positive ones and one-hot ones
Prefs(m) == {[i \in 1..m |-> 1], [i \in 1..m |-> i], [i \in 1..m |-> <<3, 1, 2>>[i]]}
            \cup {[i \in 1..m |-> IF i = k THEN 1 ELSE 0] : k \in 1..m}

\* everything that depends on J only, computed once per instance
Core(J) == LET G == Gram(J) IN
           [G |-> G, d |-> [i \in 1..Len(J) |-> NormOf(J[i])], adj |-> Adj(G), det |-> IDet(G)]

IMTLG(J, n, co) ==
    LET a == MatVec(co.adj, co.d)  S == ISum(a)
    IN  [defined |-> S # 0,                                  \* sum(G^-1 d) = 0: no normalised solution
         vsum_negative |-> (S < 0),                          \* det > 0, so sign(sum v) = sign(S)
         a |-> a, S |-> S,
         w |-> IF S = 0 THEN <<>> ELSE [i \in 1..Len(J) |-> Q2(a[i], S)],
         A |-> IF S = 0 THEN <<>> ELSE LET aJ == VecMat(a, J, n) IN [j \in 1..n |-> Q2(aJ[j], S)],
         w1 |-> IF S = 0 THEN <<0, 1>> ELSE Q2(ISum([i \in 1..Len(J) |-> Abs(a[i])]), Abs(S))]   \* |w|_1

ConFIG(J, n, u, co) ==
    LET du == [i \in 1..Len(J) |-> co.d[i] * u[i]]
        a == MatVec(co.adj, du)  P == ISum(du)  Q == IDot(a, du)  aJ == VecMat(a, J, n)
    IN  [u |-> u, a |-> a, P |-> P, Q |-> Q, A |-> [j \in 1..n |-> Q2(P * aJ[j], Q)]]

\* the defining equalities of the statement, exactly, on the exported records
IMTLGDefining(J, co, r) ==
    LET Ga == MatVec(co.G, r.a)              \* G w = Ga / S: projections (G w)_i / d_i
    IN  r.defined =>
          /\ ISum(r.a) = r.S                                              \* weights a / S sum to one
          /\ \A i \in 1..Len(J) : Ga[i] * co.d[1] = Ga[1] * co.d[i]            \* equal projections
          /\ \A i \in 1..Len(J) : Ga[i] = co.det * co.d[i]                     \* (a = adj(G) d)
ConFIGDefining(J, co, r) ==
    LET N == MatVec(co.G, r.a)               \* g_i . A = (P / Q) N_i
    IN  /\ \A i \in 1..Len(J) : N[i] = co.det * co.d[i] * r.u[i]   \* cosines (P det / Q) u_i / |A|: proportional to u
        /\ r.Q > 0 /\ r.P > 0                                      \* positive whenever u_i > 0; A is not zero
        \* |A|^2 = (P/Q)^2 a^T G a = (P/Q)^2 det Q  and  sum_i g_i . A = (P/Q) det P, hence
        \* |A| = sum_i g_i . A / |A|  (length = sum of the projections)
        /\ ISum(N) = co.det * r.P

-----------------------------------------------------------------------------
(* Family "aligned": J = S Q                                               *)

SymCands(m) ==
    IF m = 1 THEN {<< <<s>> >> : s \in 1..4}
    ELSE IF m = 2 THEN {<< <<a, b>>, <<b, c>> >> : a \in 1..(IF Level >= 2 THEN 5 ELSE 4),
                                                     c \in 1..(IF Level >= 2 THEN 5 ELSE 4), b \in -2..2}
    ELSE {<< <<a, b, c>>, <<b, d, e>>, <<c, e, f>> >> :
             a \in (IF Level >= 2 THEN 1 ELSE 2)..(IF Level >= 2 THEN 4 ELSE 3),
             d \in (IF Level >= 2 THEN 1 ELSE 2)..(IF Level >= 2 THEN 4 ELSE 3),
             f \in (IF Level >= 2 THEN 1 ELSE 2)..(IF Level >= 2 THEN 4 ELSE 3), b \in -1..1, c \in -1..1, e \in -1..1}
Shift(S, s) == [i \in 1..Len(S) |-> [j \in 1..Len(S) |-> IF i = j THEN S[i][j] - s ELSE S[i][j]]]
\* the integer smallest eigenvalue of S, if there is one (0 = none)
IntLamMin(S) == LET C == {s \in 1..TraceM(S) : IDet(Shift(S, s)) = 0 /\ PSD(Shift(S, s))}
                IN  IF C = {} THEN 0 ELSE CHOOSE s \in C : TRUE
H4 == << <<1, 1, 1, 1>>, <<1, -1, 1, -1>>, <<1, 1, -1, -1>>, <<1, -1, -1, 1>> >>
\* Q = num / den with orthonormal rows
QChoices(m) == { [n |-> m, den |-> 1, num |-> [i \in 1..m |-> [j \in 1..m |-> IF i = j THEN 1 ELSE 0]]],
                 [n |-> m + 1, den |-> 1,
                  num |-> [i \in 1..m |-> [j \in 1..(m + 1) |-> IF j = (i % (m + 1)) + 1
                                                                THEN (IF i % 2 = 0 THEN 1 ELSE -1) ELSE 0]]],
                 [n |-> 4, den |-> 2, num |-> [i \in 1..m |-> H4[i]]] }

Aligned(S, q, sg, u, uden) ==     \* preference vector u / uden, sg = IntLamMin(S)
    LET m == Len(S) IN
    [Jnum |-> MatMat(S, q.num, q.n), Jden |-> q.den, sigma |-> sg,
     u |-> u, uden |-> uden,
     R |-> [i \in 1..m |-> [j \in 1..q.n |-> Q2(sg * q.num[i][j], q.den)]],                \* B J = sigma Q
     A |-> [j \in 1..q.n |-> Q2(sg * VecMat(u, q.num, q.n)[j], q.den * uden)],
     kb |-> CeilDiv(TraceM(S) * TraceM(S), sg * sg)]

AlignedDefining(S, q, sg) ==
    LET m == Len(S)  Jn == MatMat(S, q.num, q.n)
        QQt == Gram(q.num)
    IN  /\ \A i, j \in 1..m : QQt[i][j] = (IF i = j THEN q.den * q.den ELSE 0)      \* orthonormal rows
        /\ Gram(Jn) = [i \in 1..m |-> [j \in 1..m |-> q.den * q.den * MatMat(S, S, m)[i][j]]]   \* J J^T = S^2
        /\ MatMat(Adj(S), Jn, q.n) = [i \in 1..m |-> [j \in 1..q.n |-> IDet(S) * q.num[i][j]]]  \* S^-1 J = Q
        \* hence B J = sigma S^-1 J = sigma Q and (B J)(B J)^T = sigma^2 I: mutually orthogonal
        \* re-balanced rows, all as long as the smallest singular value of J (= sigma)
        /\ sg >= 1 /\ IDet(Shift(S, sg)) = 0 /\ PSD(Shift(S, sg))

-----------------------------------------------------------------------------
(* Family "wide": column-repeated presentations of exact instances          *)

WideK == IF Level >= 2 THEN {8, 9} ELSE {9}
Widen(J, r) == [i \in 1..Len(J) |-> [c \in 1..(r * Len(J[i])) |-> J[i][((c - 1) \div r) + 1]]]
WidenVec(v, r) == [c \in 1..(r * Len(v)) |-> v[((c - 1) \div r) + 1]]
HalfQ(x) == Q2(x[1], 2 * x[2])                                  \* x / 2 for a rational x
WidenQ(q) == [n |-> 4 * q.n, den |-> 2 * q.den, num |-> Widen(q.num, 4)]      \* still orthonormal rows

\* one step (4 copies of every column, halved) on an "aligned" instance: the widened Q still has
\* orthonormal rows, S and sigma are unchanged, so AlignedDefining holds for it, and the exact value
\* and the re-balanced rows are the widened halved ones
AlignedWidenStep(S, q, sg) ==
    LET qw == WidenQ(q) IN
    /\ AlignedDefining(S, qw, sg)
    /\ \A p \in {<<[i \in 1..Len(S) |-> 1], Len(S)>>, <<[i \in 1..Len(S) |-> i], 1>>} :
          LET a == Aligned(S, q, sg, p[1], p[2])  aw == Aligned(S, qw, sg, p[1], p[2]) IN
          /\ aw.A = [c \in 1..qw.n |-> HalfQ(WidenVec(a.A, 4)[c])]
          /\ aw.R = [i \in 1..Len(S) |-> [c \in 1..qw.n |-> HalfQ(WidenVec(a.R[i], 4)[c])]]
          /\ aw.sigma = a.sigma /\ aw.kb = a.kb
\* one step on a "pyth" instance (un-halved: Widen(J, 4) has integer norms 2 d): Gramian 4 G,
\* same weights, widened value; ConFIG likewise
PythWidenStep(J) ==
    LET n == Len(J[1])  Jw == Widen(J, 4)  co == Core(J)  cw == Core(Jw) IN
    /\ cw.G = [i \in 1..Len(J) |-> [j \in 1..Len(J) |-> 4 * co.G[i][j]]]
    /\ cw.d = [i \in 1..Len(J) |-> 2 * co.d[i]]
    /\ co.det > 0 =>
        /\ LET a == IMTLG(J, n, co)  aw == IMTLG(Jw, 4 * n, cw) IN
              /\ aw.defined = a.defined /\ aw.w = a.w /\ aw.w1 = a.w1
              /\ a.defined => aw.A = WidenVec(a.A, 4)
              /\ IMTLGDefining(Jw, cw, aw)
        /\ \A u \in Prefs(Len(J)) :
              LET c == ConFIG(J, n, u, co)  cfw == ConFIG(Jw, 4 * n, u, cw) IN
              cfw.A = WidenVec(c.A, 4) /\ ConFIGDefining(Jw, cw, cfw)

\* exactness of the n-term reductions of the wide instance in a p-bit significand: the entries are
\* Jn[i][c] / (den 2^k) with den a power of two, every product is an integer in units of
\* 1 / (den^2 4^k), and every partial sum of any sub-collection of the 4^k x n products of rows i, j
\* is an integer of magnitude <= 4^k AbsGram[i][j]: exactly representable iff that is <= 2^p.
AbsGramMax(Jn) == LET m == Len(Jn)
                      v == {ISum([c \in 1..Len(Jn[1]) |-> Abs(Jn[i][c] * Jn[j][c])]) : i \in 1..m, j \in 1..m}
                  IN  CHOOSE x \in v : \A y \in v : y <= x
Exact32(Jn, k) == AbsGramMax(Jn) <= Pow(2, 24) \div Pow(4, k)
Exact64(Jn, k) == AbsGramMax(Jn) <= Pow(2, 30)                  \* 4^k 2^30 <= 2^53 for k <= 11

\* base instances: one S per characteristic polynomial (the spectrum is what the balance
\* transformation depends on), the one with the largest off-diagonal mass
CharPoly(S) == <<TraceM(S), ISum([i \in 1..Len(S) |-> IDet(Minor(S, i, i))]), IDet(S)>>
OffAbs(S)   == ISum([i \in 1..Len(S) |-> ISum([j \in 1..Len(S) |-> IF i < j THEN Abs(S[i][j]) ELSE 0])])
WideAdm(m)  == {S \in SymCands(m) : LET sg == IntLamMin(S) IN
                                     sg >= 1 /\ TraceM(S) * TraceM(S) <= KMax * sg * sg}
RepsOf(C)   == LET tab == {<<S, CharPoly(S), OffAbs(S)>> : S \in C}
                   cps == {t[2] : t \in tab}
               IN  {(CHOOSE t \in tab : t[2] = cp /\ \A x \in tab : x[2] = cp => x[3] <= t[3])[1] : cp \in cps}
WideReps2 == RepsOf(WideAdm(2))        \* constant-level, zero arity: evaluated once
WideReps3 == RepsOf(WideAdm(3))
WideReps(m) == IF m = 2 THEN WideReps2 ELSE WideReps3
WideAvail(n) == IF Level >= 2 THEN (IF n = 5 THEN 4 ELSE 5) ELSE (IF n = 5 THEN 3 ELSE 4)

-----------------------------------------------------------------------------
(* Family "hist": words of calls made on one aggregator object                                  *)

HistKinds == {"reg", "zero", "zrow"}
HistLen   == IF Level >= 2 THEN 4 ELSE 3
\* every word that ends with a judged regular call preceded by at least one call of another kind
HistWords == UNION {{w \in [1..l -> HistKinds] : w[l] = "reg" /\ \E i \in 1..(l - 1) : w[i] # "reg"} : l \in 2..HistLen}
\* what the statement demands of the call at position k of a word: a function of that call alone
HistExpected(w, k) == CASE w[k] = "reg"  -> "exact value of the instance (PythScenario / AlignedScenario)"
                        [] w[k] = "zero" -> "zero vector"
                        [] OTHER         -> "unjudged"
HistOK(w) == /\ HistExpected(w, Len(w)) # "unjudged"
             /\ \A k \in 1..Len(w) : \A v \in HistWords :        \* prefix independence
                   (k <= Len(v) /\ v[k] = w[k]) => HistExpected(v, k) = HistExpected(w, k)

-----------------------------------------------------------------------------
(* Enumeration as a state machine (one state per instance, so that the workers share the work) *)

VARIABLES fam, inst
vars == <<fam, inst>>

Init == fam \in {"pyth", "aligned", "zero", "wide", "hist"} /\ inst = <<"none">>

\* pyth: choose n, then the smallest row index, then the remaining rows
PickPyth ==
    /\ fam = "pyth"
    /\ \/ inst = <<"none">> /\ \E n \in 2..5 : inst' = <<"pyth_n", n>>
       \/ inst[1] = "pyth_n" /\ \E i \in 1..Avail(inst[2]) : inst' = <<"pyth_i", inst[2], i>>
       \/ inst[1] = "pyth_i" /\ \E T \in SUBSET ((inst[3] + 1)..Avail(inst[2])) :
              /\ Cardinality(T) <= 2 /\ Cardinality(T) + 1 <= inst[2]
              /\ inst' = <<"pyth", PythJ(<<inst[2], T \cup {inst[3]}>>)>>
    /\ UNCHANGED fam
\* aligned: choose m, then S (with its integer smallest eigenvalue), then Q
PickAligned ==
    /\ fam = "aligned"
    /\ \/ inst = <<"none">> /\ \E m \in 1..3 : inst' = <<"aligned_m", m>>
       \/ inst[1] = "aligned_m" /\ \E S \in SymCands(inst[2]) : inst' = <<"aligned_S", S, IntLamMin(S)>>
       \/ /\ inst[1] = "aligned_S" /\ inst[3] >= 1
          /\ TraceM(inst[2]) * TraceM(inst[2]) <= KMax * inst[3] * inst[3]
          /\ \E q \in QChoices(Len(inst[2])) : inst' = <<"aligned", inst[2], q, inst[3]>>
    /\ UNCHANGED fam
PickZero == /\ fam = "zero" /\ inst = <<"none">>
            /\ \E m \in 1..4, n \in 1..5 : inst' = <<"zero", m, n>>
            /\ UNCHANGED fam
\* wide: choose k, then a base instance of either exact family
PickWide ==
    /\ fam = "wide"
    /\ \/ inst = <<"none">> /\ \E k \in WideK : inst' = <<"wide_k", k>>
       \/ inst[1] = "wide_k" /\ \E m \in 2..3 : \E S \in WideReps(m) : \E q \in QChoices(m) :
              inst' = <<"wide_aligned", S, q, IntLamMin(S), inst[2]>>
       \/ inst[1] = "wide_k" /\ \E n \in 2..5 : \E T \in SUBSET (1..WideAvail(n)) :
              /\ Cardinality(T) >= 2 /\ Cardinality(T) <= 3 /\ Cardinality(T) <= n
              /\ inst' = <<"wide_pyth", PythJ(<<n, T>>), inst[2]>>
    /\ UNCHANGED fam
PickHist == /\ fam = "hist" /\ inst = <<"none">>
            /\ \E w \in HistWords : inst' = <<"hist", w>>
            /\ UNCHANGED fam
Next == PickPyth \/ PickAligned \/ PickZero \/ PickWide \/ PickHist
Spec == Init /\ [][Next]_vars

\* ---- export (the exported record is what the defining equalities are checked on)
PythScenario(J) ==
    LET co == Core(J)  G == co.G  m == Len(J)  n == Len(J[1])  ok == co.det > 0
    IN  [fam |-> "pyth", J |-> J, m |-> m, n |-> n, d |-> co.d,
         det |-> co.det, tr |-> TraceM(G),
         admit |-> AdmitGram(G), kb |-> IF ok THEN CondBound(G) ELSE 0,
         admitU |-> AdmitUnit(G), kbu |-> IF ok THEN CondBoundU(G) ELSE 0,
         imtlg |-> IF ok THEN IMTLG(J, n, co) ELSE [defined |-> FALSE],
         config |-> IF ok THEN SetToSeqAny({ConFIG(J, n, u, co) : u \in Prefs(m)}) ELSE <<>>]

\* ---- properties of the specification functions, checked on every instance
PythChecked(J, sc) ==
    LET co == Core(J) IN
    co.det > 0 => /\ IMTLGDefining(J, co, sc.imtlg)
                  /\ \A k \in 1..Len(sc.config) : ConFIGDefining(J, co, sc.config[k])
AlignedOK == inst[1] = "aligned" => AlignedDefining(inst[2], inst[3], inst[4])
\* the widening step on every base instance of the wide family (the step is generic in q, and WidenQ(q) is
\* again a q with orthonormal rows, so k steps follow by induction; thorough also takes the second step
\* explicitly for the aligned instances - for pyth a second step overflows TLC's 32-bit determinants)
WideOK == /\ inst[1] = "wide_aligned" =>
               /\ AlignedDefining(inst[2], inst[3], inst[4])
               /\ AlignedWidenStep(inst[2], inst[3], inst[4])
               /\ Level >= 2 => AlignedWidenStep(inst[2], WidenQ(inst[3]), inst[4])
               /\ Exact64(MatMat(inst[2], inst[3].num, inst[3].n), inst[5])
          /\ inst[1] = "wide_pyth" =>
               /\ PythWidenStep(inst[2])
               /\ Exact64(inst[2], inst[3])

AlignedPrefs(m) == {<<[i \in 1..m |-> 1], m>>, <<[i \in 1..m |-> i], 1>>}
                   \cup {<<[i \in 1..m |-> IF i = k THEN 1 ELSE 0], 1>> : k \in 1..m}
AlignedScenario(S, q, sg) ==
    [fam |-> "aligned", S |-> S, m |-> Len(S), n |-> q.n,
     cases |-> SetToSeqAny({Aligned(S, q, sg, p[1], p[2]) : p \in AlignedPrefs(Len(S))})]

Export ==
    CASE inst[1] = "pyth"    -> LET sc == PythScenario(inst[2]) IN
                                  PythChecked(inst[2], sc) /\ PrintT(<<"SCN", ToJson(sc)>>)
      [] inst[1] = "aligned" -> PrintT(<<"SCN", ToJson(AlignedScenario(inst[2], inst[3], inst[4]))>>)
      [] inst[1] = "zero"    -> PrintT(<<"SCN", ToJson([fam |-> "zero", m |-> inst[2], n |-> inst[3]])>>)
      [] inst[1] = "hist"    -> HistOK(inst[2]) /\
                                PrintT(<<"SCN", ToJson([fam |-> "hist", word |-> inst[2],
                                                        expect |-> [k \in 1..Len(inst[2]) |-> HistExpected(inst[2], k)]])>>)
      [] inst[1] = "wide_aligned" ->
            LET Jn == MatMat(inst[2], inst[3].num, inst[3].n)  k == inst[5] IN
            PrintT(<<"SCN", ToJson([fam |-> "wide", kind |-> "aligned", k |-> k, rep |-> Pow(4, k),
                                    m |-> Len(inst[2]), n |-> inst[3].n * Pow(4, k),
                                    absgram |-> AbsGramMax(Jn), exact32 |-> Exact32(Jn, k),
                                    base |-> AlignedScenario(inst[2], inst[3], inst[4])])>>)
      [] inst[1] = "wide_pyth" ->
            LET J == inst[2]  k == inst[3]  sc == PythScenario(J) IN
            PythChecked(J, sc) /\
            PrintT(<<"SCN", ToJson([fam |-> "wide", kind |-> "pyth", k |-> k, rep |-> Pow(4, k),
                                    m |-> Len(J), n |-> Len(J[1]) * Pow(4, k),
                                    absgram |-> AbsGramMax(J), exact32 |-> Exact32(J, k), base |-> sc])>>)
      [] OTHER -> TRUE
=============================================================================
