CONSTANT MaxCalls = 3
CONSTANT HistLevel = 1
CONSTANT NSeeds = 1
SPECIFICATION Spec
INVARIANT TypeOK
INVARIANT ContractTotal
INVARIANT ImplConforms
INVARIANT InputNeverWritten
INVARIANT Memo
INVARIANT MemoAcrossDtypes
INVARIANT DeterministicIgnoresRng
INVARIANT StreamAccounting
INVARIANT PropertyMemoMeansFreshSeed
INVARIANT HomWellDefined
INVARIANT HistoryShapes
INVARIANT Export
PROPERTY NoWrite
CHECK_DEADLOCK FALSE
