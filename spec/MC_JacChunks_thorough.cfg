CONSTANT LargeM = {33, 40, 48, 64, 65, 100, 128, 200}
CONSTANT MaxM = 24
SPECIFICATION FairImplSpec
INVARIANT TypeOK
INVARIANT CountAndSize
INVARIANT NoVmapWhenSequential
INVARIANT AssembledInOrder
INVARIANT OnlyLastMayFree
INVARIANT LastUsesCallerFlag
INVARIANT PlanIsWhatHappens
INVARIANT Export
PROPERTY PropSpec
PROPERTY Terminates
CHECK_DEADLOCK FALSE
