---------------------------- MODULE TraceRobust ----------------------------
(***************************************************************************)
(* Trace validation for Robust (C16): calls of the real TrimmedMean(b) /   *)
(* Krum(f, k) on random integer matrices J = JA + S * JB (some rows        *)
(* corrupted, at most b resp. f of them) are checked against the           *)
(* property-layer operators of Robust.tla.                                 *)
(*                                                                         *)
(* episode: [ep, kind, par, k, ja, jb, bad, exc, out, sel, wok, avgok]     *)
(*   bad    corrupted rows (<= par of them)                                *)
(*   exc    "none" or the exception type                                   *)
(*   out    TrimmedMean: the returned vector, each coordinate rationalised *)
(*          as <<num, den>> (<<0, 0>> = not a small rational / not finite) *)
(*   sel    Krum: rows with a non-zero weight                              *)
(*   wok    Krum: the non-zero weights are all 1/k, the others exactly 0   *)
(*   avgok  Krum: the returned vector is the plain average of the rows sel *)
(* One step per episode; a failing episode prints <<"REJECT", ...>> with   *)
(* the failing clause; <<"SUMMARY", ...>> ends the run.                    *)
(***************************************************************************)
EXTENDS Robust, IOUtils, TLCExt

Episodes == JsonDeserialize(IOEnv.TRACE_FILE)
NEp      == Len(Episodes)

VARIABLES ep, stage, nAcc, nRej, nAmb
tvars == <<kind, m, par, hs, status, corrupt, JA, JB, ep, stage, nAcc, nRej, nAmb>>

E == Episodes[ep]
SeqSet(s) == {s[i] : i \in DOMAIN s}

TInit == /\ kind = "tm" /\ m = 1 /\ par = 0 /\ hs = 0 /\ status = "ok" /\ corrupt = {}
         /\ JA = <<<<0>>>> /\ JB = <<<<0>>>>
         /\ ep = 1 /\ stage = "run" /\ nAcc = 0 /\ nRej = 0 /\ nAmb = 0

\* ---------------------------------------------------------------- TrimmedMean
TMClause ==
    LET mm  == Len(E.ja)
        adm == TMAdmissible(mm, E.par)
    IN  IF ~adm THEN (IF E.exc = "none" THEN "too_few_rows_not_rejected" ELSE "none")
        ELSE IF E.exc # "none" THEN "raised_although_enough_rows"
        ELSE LET want == PropTM(E.ja, E.jb, E.par)
                 obs  == [c \in DOMAIN E.out |-> [a |-> E.out[c], b |-> RZero]]
             IN  IF \E c \in DOMAIN want : want[c].b = RZero /\ E.out[c] # want[c].a
                      THEN "not_the_mean_after_removing_b_largest_and_b_smallest"
                 ELSE IF \E c \in DOMAIN want : want[c].b # RZero /\ E.out[c] # <<0, 0>>
                      THEN "not_the_mean_after_removing_b_largest_and_b_smallest"
                 ELSE IF Cardinality(SeqSet(E.bad)) <= E.par
                         /\ \A c \in DOMAIN E.out : E.out[c] # <<0, 0>>
                         /\ ~InHonestRange(obs, E.ja, SeqSet(E.bad))
                      THEN "outside_the_range_of_the_untouched_rows"
                 ELSE IF Cardinality(SeqSet(E.bad)) <= E.par /\ \E c \in DOMAIN E.out : E.out[c] = <<0, 0>>
                      THEN "outside_the_range_of_the_untouched_rows"
                 ELSE "none"

\* ---------------------------------------------------------------- Krum
KrumRel == BelowRel(KrumScores(E.ja, E.jb, E.par))
KrumClause ==
    LET mm  == Len(E.ja)
        adm == KrumAdmissible(mm, E.par, E.k)
    IN  IF ~adm THEN (IF E.exc = "none" THEN "too_few_rows_not_rejected" ELSE "none")
        ELSE IF E.exc # "none" THEN "raised_although_enough_rows"
        ELSE IF ~E.wok \/ Cardinality(SeqSet(E.sel)) # E.k \/ Len(E.sel) # E.k
             THEN "not_exactly_k_distinct_rows_with_weight_1_over_k"
        ELSE IF ~KrumAllowed(SeqSet(E.sel), KrumRel, 1..mm, E.k)
             THEN "selected_rows_do_not_have_the_smallest_scores"
        ELSE IF ~E.avgok THEN "output_is_not_the_plain_average_of_the_selected_rows"
        ELSE "none"
KrumAmbiguous ==
    LET mm == Len(E.ja) IN
    KrumAdmissible(mm, E.par, E.k) /\ Cardinality(MustIn(KrumRel, 1..mm, E.k)) # E.k

TStep == /\ ep <= NEp /\ stage = "run"
         /\ LET cl == IF E.kind = "tm" THEN TMClause ELSE KrumClause
                amb == E.kind = "krum" /\ KrumAmbiguous
            IN  /\ (cl # "none" => PrintT(<<"REJECT", ToJson([ep |-> E.ep, clause |-> cl])>>))
                /\ nAcc' = nAcc + (IF cl = "none" THEN 1 ELSE 0)
                /\ nRej' = nRej + (IF cl = "none" THEN 0 ELSE 1)
                /\ nAmb' = nAmb + (IF amb THEN 1 ELSE 0)
         /\ ep' = ep + 1
         /\ UNCHANGED <<kind, m, par, hs, status, corrupt, JA, JB, stage>>

TDone == /\ ep = NEp + 1 /\ stage = "run"
         /\ PrintT(<<"SUMMARY", ToJson([episodes |-> NEp, accepted |-> nAcc, rejected |-> nRej,
                                         ambiguous |-> nAmb])>>)
         /\ stage' = "end"
         /\ UNCHANGED <<kind, m, par, hs, status, corrupt, JA, JB, ep, nAcc, nRej, nAmb>>

TNext == TStep \/ TDone
TraceSpec == TInit /\ [][TNext]_tvars
TraceConsumed == (stage = "end") => (nAcc + nRej = NEp)
=============================================================================
