---------------------------- MODULE TraceRobust ----------------------------
(***************************************************************************)
(* Trace validation for Robust (C16): calls of the real TrimmedMean(b) /   *)
(* Krum(f, k) on random integer matrices J = JA + S * JB (some rows        *)
(* corrupted, at most b resp. f of them) are checked against the           *)
(* property-layer operators of Robust.tla.                                 *)
(*                                                                         *)
(* episode: [ep, h, pos, dtype, kind, par, ja, jb, oa, ob, bad, exc, out,   *)
(*           calls]                                                        *)
(*   h, pos HISTORIES: h = 0 - the call was made on a fresh object; h > 0 -  *)
(*          the pos-th call on the object(s) of history h (one TrimmedMean *)
(*          object, resp. one Krum object per n_selected of `calls`), the  *)
(*          episodes of a history being consecutive.  The clause of a call *)
(*          is computed from the matrix of THAT call only, whatever the    *)
(*          object was given before (Robust!HistPerCall): TMClause /       *)
(*          KrumClauseAt below look at E and at nothing else.  The spec    *)
(*          checks that the log is a history (consecutive positions, same  *)
(*          object parameters: MALFORMED otherwise) and counts the calls   *)
(*          whose exactly decided result differs from the previous call's  *)
(*          although the number of rows and the dtype are the same         *)
(*          (`changed`: the history shape in which a remembered selection  *)
(*          would show).                                                   *)
(*   ja, jb the SPREAD matrix; the aggregator was called on                *)
(*          (ja + oa) + S * (jb + ob): a common offset changes neither the  *)
(*          distances nor the scores (Robust!OffsetInvariant), so the      *)
(*          selection is validated on the spread matrix; this is how the   *)
(*          many-row episodes (m up to 40, large offset + small spread)    *)
(*          are checked exactly although offset + spread is never squared  *)
(*   bad    corrupted rows (<= par of them)                                *)
(*   exc    TrimmedMean: "none" or the exception type                      *)
(*   out    TrimmedMean: the returned vector, each coordinate rationalised *)
(*          as <<num, den>> (<<0, 0>> = not a small rational / not finite) *)
(*   calls  Krum: one record [k, exc, sel, wok, avgok] per n_selected      *)
(*          tried on this matrix (the scores do not depend on k)           *)
(*     sel    rows with a non-zero weight                                  *)
(*     wok    the non-zero weights are all 1/k, the others exactly 0       *)
(*     avgok  the returned vector is the plain average of the rows sel     *)
(* One step per episode; a failing call prints <<"REJECT", ...>> with the  *)
(* failing clause; <<"SUMMARY", ...>> ends the run.                        *)
(***************************************************************************)
EXTENDS Robust, IOUtils, TLCExt

Episodes == JsonDeserialize(IOEnv.TRACE_FILE)
NEp      == Len(Episodes)

VARIABLES ep, stage, nAcc, nRej, nAmb, nCalls,
          cur,     \* the relation "definitely smaller score" of the episode just validated
          nHist, nHCalls, nChg, nMal   \* histories, calls in histories, changed results, malformed links
tvars == <<kind, m, par, hs, status, corrupt, JA, JB, hist, ep, stage, nAcc, nRej, nAmb, nCalls, cur,
           nHist, nHCalls, nChg, nMal>>

E == Episodes[ep]
SeqSet(s) == {s[i] : i \in DOMAIN s}

TInit == /\ kind = "tm" /\ m = 1 /\ par = 0 /\ hs = 0 /\ status = "ok" /\ corrupt = {}
         /\ JA = <<<<0>>>> /\ JB = <<<<0>>>> /\ hist = <<>>
         /\ nHist = 0 /\ nHCalls = 0 /\ nChg = 0 /\ nMal = 0
         /\ ep = 1 /\ stage = "run" /\ nAcc = 0 /\ nRej = 0 /\ nAmb = 0 /\ nCalls = 0 /\ cur = {}

\* ---------------------------------------------------------------- TrimmedMean
\* (the trimmed mean of J + o is the trimmed mean of J, plus o: Robust!OffsetInvariant)
TMClause ==
    LET mm  == Len(E.ja)
        adm == TMAdmissible(mm, E.par)
    IN  IF ~adm THEN (IF E.exc = "none" THEN "too_few_rows_not_rejected" ELSE "none")
        ELSE IF E.exc # "none" THEN "raised_although_enough_rows"
        ELSE LET w0   == PropTM(E.ja, E.jb, E.par)
                 want == [c \in DOMAIN w0 |-> [a |-> RAdd(w0[c].a, R(E.oa)), b |-> RAdd(w0[c].b, R(E.ob))]]
                 obs  == [c \in DOMAIN E.out |-> [a |-> RSub(E.out[c], R(E.oa)), b |-> RZero]]
             IN  IF \E c \in DOMAIN want : want[c].b = RZero /\ E.out[c] # want[c].a
                      THEN "not_the_mean_after_removing_b_largest_and_b_smallest"
                 ELSE IF \E c \in DOMAIN want : want[c].b # RZero /\ E.out[c] # <<0, 0>>
                      THEN "not_the_mean_after_removing_b_largest_and_b_smallest"
                 ELSE IF Cardinality(SeqSet(E.bad)) <= E.par /\ E.ob = 0
                         /\ \A c \in DOMAIN E.out : E.out[c] # <<0, 0>>
                         /\ ~InHonestRange(obs, E.ja, SeqSet(E.bad))
                      THEN "outside_the_range_of_the_untouched_rows"
                 ELSE IF Cardinality(SeqSet(E.bad)) <= E.par /\ \E c \in DOMAIN E.out : E.out[c] = <<0, 0>>
                      THEN "outside_the_range_of_the_untouched_rows"
                 ELSE "none"

\* ---------------------------------------------------------------- Krum
\* the relation "definitely smaller score" of the SPREAD matrix (computed once per episode)
KrumRel == BelowRel(KrumScores(E.ja, E.jb, E.par))
KrumClauseAt(rel, c) ==
    LET mm  == Len(E.ja)
        adm == KrumAdmissible(mm, E.par, c.k)
    IN  IF ~adm THEN (IF c.exc = "none" THEN "too_few_rows_not_rejected" ELSE "none")
        ELSE IF c.exc # "none" THEN "raised_although_enough_rows"
        ELSE IF ~c.wok \/ Cardinality(SeqSet(c.sel)) # c.k \/ Len(c.sel) # c.k
             THEN "not_exactly_k_distinct_rows_with_weight_1_over_k"
        ELSE IF ~KrumAllowed(SeqSet(c.sel), rel, 1..mm, c.k)
             THEN "selected_rows_do_not_have_the_smallest_scores"
        ELSE IF ~c.avgok THEN "output_is_not_the_plain_average_of_the_selected_rows"
        ELSE "none"
KrumAmbiguousAt(rel, c) ==
    LET mm == Len(E.ja) IN
    KrumAdmissible(mm, E.par, c.k) /\ Cardinality(MustIn(rel, 1..mm, c.k)) # c.k

\* ---------------------------------------------------------------- histories
KsOf(e) == [x \in DOMAIN e.calls |-> e.calls[x].k]
\* episode e continues the history of the previous episode p: next position, same object(s)
LinkOK(e, p) == /\ p.h = e.h /\ p.pos + 1 = e.pos
                /\ p.kind = e.kind /\ p.par = e.par /\ KsOf(p) = KsOf(e)
Malformed == E.h # 0 /\ E.pos # 1 /\ (ep = 1 \/ ~LinkOK(E, Episodes[IF ep = 1 THEN 1 ELSE ep - 1]))
\* number of results of this episode that are exactly decided, as were the previous call's on the same
\* object, and differ from them, the number of rows and the dtype being the same
\* (relNow / relPrev: the relations of this and of the previous episode)
Changed(relNow, relPrev) ==
    IF E.h = 0 \/ E.pos = 1 \/ ep = 1 THEN 0
    ELSE LET P  == Episodes[ep - 1]
             mm == Len(E.ja)
         IN  IF ~LinkOK(E, P) \/ Len(P.ja) # mm \/ P.dtype # E.dtype THEN 0
             ELSE IF E.kind = "tm"
                  THEN (IF TMAdmissible(mm, E.par) /\ PropTM(E.ja, E.jb, E.par) # PropTM(P.ja, P.jb, P.par) THEN 1 ELSE 0)
                  ELSE IF mm < E.par + 3 THEN 0
                  ELSE Cardinality({x \in DOMAIN E.calls :
                          LET k == E.calls[x].k IN
                          /\ k <= mm
                          /\ Cardinality(MustIn(relNow, 1..mm, k)) = k
                          /\ Cardinality(MustIn(relPrev, 1..mm, k)) = k
                          /\ MustIn(relNow, 1..mm, k) # MustIn(relPrev, 1..mm, k)})

TStep == /\ ep <= NEp /\ stage = "run"
         \* computed once per episode and held in the next state (a LET would be re-evaluated per call)
         /\ cur' = IF E.kind = "krum" /\ Len(E.ja) >= E.par + 3 THEN KrumRel ELSE {}
         /\ LET isK == E.kind = "krum"
                rel == cur'
                cls == IF isK THEN [x \in DOMAIN E.calls |-> [k |-> E.calls[x].k, cl |-> KrumClauseAt(rel, E.calls[x])]]
                       ELSE << [k |-> 0, cl |-> TMClause] >>
                bad == {x \in DOMAIN cls : cls[x].cl # "none"}
                amb == IF isK THEN Cardinality({x \in DOMAIN E.calls : KrumAmbiguousAt(rel, E.calls[x])}) ELSE 0
            IN  /\ \A x \in bad : PrintT(<<"REJECT", ToJson([ep |-> E.ep, h |-> E.h, pos |-> E.pos, k |-> cls[x].k,
                                                                 clause |-> cls[x].cl])>>)
                /\ Malformed => PrintT(<<"MALFORMED", ToJson([ep |-> E.ep, h |-> E.h, pos |-> E.pos])>>)
                /\ nMal' = nMal + (IF Malformed THEN 1 ELSE 0)
                /\ nHist' = nHist + (IF E.h # 0 /\ E.pos = 1 THEN 1 ELSE 0)
                /\ nHCalls' = nHCalls + (IF E.h # 0 THEN Len(cls) ELSE 0)
                /\ nChg' = nChg + Changed(rel, cur)
                /\ nAcc' = nAcc + (IF bad = {} THEN 1 ELSE 0)
                /\ nRej' = nRej + (IF bad = {} THEN 0 ELSE 1)
                /\ nAmb' = nAmb + amb
                /\ nCalls' = nCalls + Len(cls)
         /\ ep' = ep + 1
         /\ UNCHANGED <<kind, m, par, hs, status, corrupt, JA, JB, hist, stage>>

TDone == /\ ep = NEp + 1 /\ stage = "run"
         /\ PrintT(<<"SUMMARY", ToJson([episodes |-> NEp, accepted |-> nAcc, rejected |-> nRej,
                                         ambiguous |-> nAmb, calls |-> nCalls, histories |-> nHist,
                                         histcalls |-> nHCalls, changed |-> nChg, malformed |-> nMal])>>)
         /\ stage' = "end"
         /\ UNCHANGED <<kind, m, par, hs, status, corrupt, JA, JB, hist, ep, nAcc, nRej, nAmb, nCalls, cur,
                        nHist, nHCalls, nChg, nMal>>

TNext == TStep \/ TDone
TraceSpec == TInit /\ [][TNext]_tvars
TraceConsumed == (stage = "end") => (nAcc + nRej = NEp)
=============================================================================
