CONSTANT MaxLen = 7
CONSTANT MaxK = 6
CONSTANT Syms = {"A", "B", "C"}
SPECIFICATION Spec
INVARIANT TypeOK
INVARIANT CallsNeverFail
INVARIANT ResetIsFresh
INVARIANT OutputsAsFresh
INVARIANT ScheduleOK
INVARIANT StepIsSince
PROPERTY ResetRestoresInit
PROPERTY ReuseKeepsWeights
CHECK_DEADLOCK FALSE
