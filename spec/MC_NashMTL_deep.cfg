CONSTANT MaxLen = 7
CONSTANT MaxK = 6
CONSTANT Syms = {"A", "B", "C"}
CONSTANT NIters = {1, 2, 20}
SPECIFICATION Spec
INVARIANT TypeOK
INVARIANT CallsNeverFail
INVARIANT ResetIsFresh
INVARIANT OutputsAsFresh
INVARIANT ScheduleOK
INVARIANT ClipIffEnabled
INVARIANT PeriodWeights
INVARIANT StepIsSince
PROPERTY ResetRestoresInit
PROPERTY ReuseKeepsWeights
CHECK_DEADLOCK FALSE
