-------------------------- MODULE TraceAggContract --------------------------
(***************************************************************************)
(* Trace validation for AggContract (code -> specification).               *)
(* An episode is the recorded life of ONE real aggregator instance: its    *)
(* kind and a sequence of steps, each either a re-seeding of the global    *)
(* RNG or a call with the class of the input and what was observed         *)
(* (outcome, cause of the ValueError, length / dtype / finiteness of the   *)
(* result, whether the input tensor changed, whether the result equals     *)
(* that of a fresh instance called right after the same seed - same        *)
(* exception class, or same dtype and bits; the fresh instance ran in a    *)
(* process of its own in which nothing else had run).  The inputs of an    *)
(* episode may mix dtypes on one instance, also for kinds with a parameter *)
(* vector; they are presented as new tensors, through ONE tensor object    *)
(* rewritten in place, as short-lived temporaries or as re-wrapped         *)
(* external memory (pres / via), and other instances (op = "other": any    *)
(* class, default or alternate parameters) aggregate in between.  None of  *)
(* this enters the judgement - that is the property.                       *)
(* Every call is judged by the contract table and the memo rule of         *)
(* AggContract, with the RNG stream tracked by the model (Draws).          *)
(* A rejected episode prints REJECT with the failing clause; validation    *)
(* goes on with the next episode.  A cause differing from the              *)
(* implementation layer's order of checks is only DRIFT.                   *)
(***************************************************************************)
EXTENDS AggContract, IOUtils, TLCExt

Episodes == JsonDeserialize(IOEnv.TRACE_FILE)
NEp      == Len(Episodes)

VARIABLES ep, pos, trng, nAcc, nRej, nDrift, nMemo, nMixed, nShape, stage
tvars == <<kind, mode, rng, steps, ncalls, inputsIntact, ep, pos, trng, nAcc, nRej, nDrift, nMemo, nMixed, nShape, stage>>
\* memo comparisons made (and passed) per history shape
ShapeKeys == {"rewritten_buffer", "temporary", "temporary_same_address", "rewrapped_memory", "after_other_instance",
              "after_other_parameters", "after_zero_row", "low_precision_before"}
ZeroShapes == [k \in ShapeKeys |-> 0]

E     == Episodes[ep]
TKind == E.kind

TInit == /\ kind = (CHOOSE k \in Kinds : k.name = "Mean") /\ mode = "hist"
         /\ rng = [seed |-> "s0", stream |-> <<>>, calls |-> 0] /\ steps = <<>> /\ ncalls = 0 /\ inputsIntact = TRUE
         /\ ep = 1 /\ pos = 1 /\ trng = [seed |-> "s0", stream |-> <<>>, calls |-> 0]
         /\ nAcc = 0 /\ nRej = 0 /\ nDrift = 0 /\ nMemo = 0 /\ nMixed = 0 /\ nShape = ZeroShapes /\ stage = "run"

Frozen == UNCHANGED <<kind, mode, rng, steps, ncalls, inputsIntact>>

\* the clause of C11 an observed call violates ("none" if it conforms)
Failing(k, r, c, o) ==
    LET want == Contract(k, c) IN
    IF o.mutated THEN "input_modified"
    ELSE IF want = "ValueError" THEN (IF o.outcome = "ValueError" THEN "none" ELSE "not_rejected_with_ValueError")
    \* outcome not demanded (ConFIG on what it does not validate; a matrix whose dtype differs from the
    \* parameter vector's): whatever the call does, a fresh instance does the same
    ELSE IF want = "unspecified" THEN (IF MemoLevel(k, r) = "property" /\ o.eqfresh = "no"
                                       THEN "depends_on_history_or_not_reproducible" ELSE "none")
    ELSE IF o.outcome # "vector" THEN "finite_admissible_matrix_not_mapped_to_a_vector"
    ELSE IF o.n # ExpectN(c) THEN "one_entry_per_column"
    ELSE IF o.dtype # ExpectDtype(c) THEN "dtype_of_the_input"
    ELSE IF ~o.finite THEN "result_not_finite"
    ELSE IF MemoLevel(k, r) = "property" /\ o.eqfresh = "no" THEN "depends_on_history_or_not_reproducible"
    ELSE "none"

TStep ==
    /\ stage = "run" /\ ep <= NEp /\ pos <= Len(E.steps)
    /\ LET st == E.steps[pos] IN
       IF st.op = "seed"
       THEN /\ trng' = [seed |-> st.s, stream |-> <<>>, calls |-> 0]
            /\ pos' = pos + 1
            /\ UNCHANGED <<ep, nAcc, nRej, nDrift, nMemo, nMixed, nShape>>
       ELSE IF st.op = "other"
       THEN \* another instance aggregates: the stream moves on by ITS draws (Other of AggContract)
            /\ trng' = RngAfterCall(st.k, trng, st.c)
            /\ pos' = pos + 1
            /\ UNCHANGED <<ep, nAcc, nRej, nDrift, nMemo, nMixed, nShape>>
       ELSE LET f == Failing(TKind, trng, st.c, st.obs)
                causeSeen == IF st.obs.outcome = "ValueError" THEN "VE_" \o st.obs.cause
                             ELSE st.obs.outcome
                implSays  == ImplOutcome(TKind, st.c)
                drift == f = "none" /\ st.obs.cause # "unknown"
                         /\ ~(implSays = causeSeen \/ (implSays = "vector_nonfinite" /\ causeSeen = "vector")
                              \/ (implSays = "Err_other" /\ causeSeen \notin {"vector", "VE_matrix",
                                                                             "VE_rows", "VE_finite"}))
            IN  IF f # "none"
                THEN /\ PrintT(<<"REJECT", ToJson([ep |-> E.ep, at |-> pos, clause |-> f,
                                                   want |-> Contract(TKind, st.c)])>>)
                     /\ ep' = ep + 1 /\ pos' = 1 /\ nRej' = nRej + 1
                     /\ trng' = [seed |-> "s0", stream |-> <<>>, calls |-> 0]
                     /\ UNCHANGED <<nAcc, nDrift, nMemo, nMixed, nShape>>
                ELSE /\ (drift => PrintT(<<"DRIFT", ToJson([ep |-> E.ep, at |-> pos, impl |-> implSays,
                                                             seen |-> causeSeen])>>))
                     /\ trng' = RngAfterCall(TKind, trng, st.c)
                     /\ pos' = pos + 1
                     /\ nDrift' = nDrift + (IF drift THEN 1 ELSE 0)
                     /\ nMemo' = nMemo + (IF MemoLevel(TKind, trng) = "property" /\ st.obs.eqfresh = "yes"
                                          THEN 1 ELSE 0)
                     /\ nMixed' = nMixed + (IF MemoLevel(TKind, trng) = "property" /\ st.obs.eqfresh = "yes"
                                              /\ HasParam(TKind) /\ st.c.dtype = TKind.pdt
                                              /\ \E q \in 1..(pos - 1) : E.steps[q].op = "call"
                                                    /\ CrossAdmissible(TKind, E.steps[q].c)
                                            THEN 1 ELSE 0)
                     /\ LET memoOK == MemoLevel(TKind, trng) = "property" /\ st.obs.eqfresh = "yes"
                                        /\ Contract(TKind, st.c) = "vector"
                            before(P(_)) == \E q \in 1..(pos - 1) : P(E.steps[q])
                            IsOth(x)  == x.op = "other"
                            IsOthP(x) == x.op = "other" /\ x.k.agg = TKind.agg /\ x.k # TKind
                            IsZero(x) == x.op = "call" /\ Admissible(TKind, x.c) /\ x.obs.outcome = "vector"
                                         /\ x.obs.zero_row
                            IsLow(x)  == x.op = "call" /\ LowPrec(x.c) /\ Admissible(TKind, x.c)
                            hit == {k \in ShapeKeys :
                                      CASE k = "rewritten_buffer" -> st.pres = "buf" /\ st.via \notin {"alloc", "same"}
                                        [] k = "temporary" -> st.pres = "tmp"
                                        [] k = "temporary_same_address" -> st.pres = "tmp" /\ st.obs.addr = "same"
                                        [] k = "rewrapped_memory" -> st.pres = "ext" /\ st.obs.addr = "same"
                                        [] k = "after_other_instance" -> before(IsOth)
                                        [] k = "after_other_parameters" -> before(IsOthP)
                                        [] k = "after_zero_row" -> before(IsZero)
                                        [] OTHER -> before(IsLow)}
                        IN  nShape' = [k \in ShapeKeys |-> nShape[k] + (IF memoOK /\ k \in hit THEN 1 ELSE 0)]
                     /\ UNCHANGED <<ep, nAcc, nRej>>
    /\ UNCHANGED stage
    /\ Frozen

TEndEpisode ==
    /\ stage = "run" /\ ep <= NEp /\ pos = Len(E.steps) + 1
    /\ ep' = ep + 1 /\ pos' = 1 /\ nAcc' = nAcc + 1
    /\ trng' = [seed |-> "s0", stream |-> <<>>, calls |-> 0]
    /\ UNCHANGED <<nRej, nDrift, nMemo, nMixed, nShape, stage>>
    /\ Frozen

TDone == /\ stage = "run" /\ ep = NEp + 1
         /\ PrintT(<<"SUMMARY", ToJson([episodes |-> NEp, accepted |-> nAcc, rejected |-> nRej,
                                         drift |-> nDrift, memo_checked |-> nMemo,
                                         memo_after_other_dtype |-> nMixed, shapes |-> nShape])>>)
         /\ stage' = "end"
         /\ UNCHANGED <<ep, pos, trng, nAcc, nRej, nDrift, nMemo, nMixed, nShape>>
         /\ Frozen

TNext == TStep \/ TEndEpisode \/ TDone
TraceSpec == TInit /\ [][TNext]_tvars

TraceConsumed == (stage = "end") => (nAcc + nRej = NEp)
=============================================================================
