SPECIFICATION Spec
INVARIANT NothingChanged
INVARIANT FaultyIsRejected
INVARIANT ValidIsAccepted
INVARIANT ChecksBeforeWrites
INVARIANT Export
CHECK_DEADLOCK FALSE
