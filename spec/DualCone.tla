------------------------------ MODULE DualCone ------------------------------
(***************************************************************************)
(* C03 / C04: UPGrad and DualProj as exact regularised dual-cone            *)
(* projections, MGDA's min-norm point, on small INTEGER matrices J.         *)
(*                                                                         *)
(*   Proj(A, u)  = the minimiser of v^T A v subject to v >= u, for a        *)
(*                 symmetric positive definite A, obtained from the KKT     *)
(*                 conditions by enumerating the active set S:              *)
(*                    v_S = u_S,  (A v)_F = 0  (F = complement, Cramer),    *)
(*                    v_F >= u_F, (A v)_S >= 0.                             *)
(*   code:  A = G / s^2 + reg_eps I  with G = J J^T, s^2 = lambda_max(G);   *)
(*          the minimiser is unchanged by a positive factor, so the         *)
(*          specification works on the INTEGER matrix  q G + p s^2 I        *)
(*          (reg_eps = p / q)  whenever s^2 is an integer (family F2).      *)
(*   DualProjW(A, u) = Proj(A, u)                                           *)
(*   UPGradW(A, u)   = SUM_i Proj(A, u_i e_i)                               *)
(*   s < norm_eps   =>  weights = u  (normalised Gramian zeroed)            *)
(*                                                                         *)
(* Family F1 (lambda_max irrational or default eps): the delta -> 0         *)
(* projection is exported instead; the harness compares the code's output   *)
(* with J^T v0 within the allowance  sqrt(reg_eps tr G) |v0|, derived here: *)
(*   let f(v) = |J^T v|^2 / s^2, C = {v >= u}, v_d = argmin_C f + d |v|^2,  *)
(*   v0 any minimiser of f on C.  Then f(v_d) + d|v_d|^2 <= f(v0) + d|v0|^2 *)
(*   and f(v0) <= f(v_d), hence f(v_d) - f(v0) <= d |v0|^2.  K = J^T C / s  *)
(*   is convex and x0 = J^T v0 / s its min-norm element, so for x = J^T v_d *)
(*   / s:  |x - x0|^2 <= |x|^2 - |x0|^2 = f(v_d) - f(v0) <= d |v0|^2, i.e.  *)
(*   |J^T v_d - J^T v0| <= sqrt(d) s |v0| <= sqrt(reg_eps tr G) |v0|        *)
(*   (s^2 <= tr G).  UPGrad: sum of the m bounds (triangle inequality).     *)
(*                                                                         *)
(* BADLY SCALED family (C04, section at the end): J = D_r J0 D_c with rows  *)
(* and columns scaled by powers of eps = 2^-P carried symbolically          *)
(* (EpsScale.tla); the model decides exactly, for all P >= needP at once,   *)
(* the bracket of sigma_max^2, the squared distance d2 of the hull of the   *)
(* rows to the origin (MGDA's min-norm value; d2 = 0 <=> Pareto-stationary) *)
(* and exports the instance; on unscaled instances the symbolic analysis    *)
(* must coincide with MinNorm's integer one (BSRefinesMinNorm).             *)
(*                                                                         *)
(* ROW-SCALED family (C03, section of that name): J = 2^e D_r J0 with the    *)
(* rows scaled by powers of eps = 2^-P (row norms up to 12 orders of         *)
(* magnitude apart), preference vectors with entries in {0, tiny, 1} (one-   *)
(* hot, sparse, tiny entries) and the regularisation tied to the TRACE:      *)
(* reg_eps s^2 = (p/q) tr G, so that the exact minimiser is a rational       *)
(* function of eps for EVERY matrix (no integer lambda_max needed); the KKT  *)
(* system is solved over Z[eps] with the sign rule of EpsScale.tla.          *)
(*                                                                         *)
(* MGDA CONFIGURATIONS (C04, section of that name): the ladder of iteration  *)
(* budgets (up to 60000) and the presentations of epsilon = 0 (int / float)  *)
(* with the bound 8 s^2 / (K + 2) of every budget.                           *)
(*                                                                         *)
(* PRESENTATIONS AND HISTORIES (C03, section of that name): the expected     *)
(* values belong to the VALUES (J, u); every scenario also exports the      *)
(* dtypes in which each preference vector can be given exactly (pres) and   *)
(* whether the instance is handed over in new tensor / aggregator objects   *)
(* or written in place into those of the previous instance (buf).           *)
(*                                                                         *)
(* State machine: a matrix of the family is built entry by entry (so that   *)
(* TLC's workers share the enumeration), then one Solve step computes the   *)
(* result record `res`; invariants are stated on `res`; Export prints the   *)
(* scenario with the expected results for the replay on the real code.      *)
(***************************************************************************)
EXTENDS MinNorm, EpsScale, TLC, Json, IOUtils

CONSTANTS Family,     \* set of records [m, n, e]: all m x n matrices with entries in -e..e
          FWK,        \* Frank-Wolfe depth checked in the model (0 = none)
          SampleMod, SamplePick   \* export only instances whose hash % SampleMod = SamplePick (1, 0 = all)

VARIABLES fam, ents, phase, res
vars == <<fam, ents, phase, res>>

\* named families, selected in the cfg files by  CONSTANT Family <- FamQuick  (2 233 matrices) or FamThorough (36 869)
FamTiny     == {[m |-> 2, n |-> 2, e |-> 1]}
FamQuick    == {[m |-> 1, n |-> 2, e |-> 2], [m |-> 2, n |-> 2, e |-> 2], [m |-> 2, n |-> 3, e |-> 1],
                [m |-> 3, n |-> 2, e |-> 1], [m |-> 3, n |-> 1, e |-> 2]}
\* every matrix with entries in {-1,0,1} up to 3 x 3 (C04's exhaustive family) + 2 x n, m x 1 over -2..2
FamThorough == {[m |-> 1, n |-> 1, e |-> 2], [m |-> 1, n |-> 2, e |-> 2], [m |-> 1, n |-> 3, e |-> 1],
                [m |-> 2, n |-> 1, e |-> 2], [m |-> 2, n |-> 2, e |-> 2], [m |-> 2, n |-> 3, e |-> 2],
                [m |-> 3, n |-> 1, e |-> 2], [m |-> 3, n |-> 2, e |-> 1], [m |-> 3, n |-> 3, e |-> 1]}

-----------------------------------------------------------------------------
(* The projection                                                           *)

\* Integer form (fast, no gcd): A is an INTEGER symmetric matrix, u = U / ud with integer U.
\*   A_FF v_F = - A_FS u_S   =>   v_F = Cramer numerators / (det A_FF * ud),   v_S = U_S det / (det ud)
\* so v = V / D with D = det(A_FF) * ud > 0 (A_FF is positive definite whenever it is non-singular).
RECURSIVE LcmSeq(_)
LcmSeq(s) == IF s = <<>> THEN 1 ELSE LET l == LcmSeq(Tail(s)) IN (Head(s) * l) \div Gcd(Head(s), l)
CommonDen(u) == LcmSeq([i \in DOMAIN u |-> u[i][2]])
Numers(u, ud) == [i \in DOMAIN u |-> u[i][1] * (ud \div u[i][2])]

Active(A, u, S) ==
    LET m    == Len(A)
        ud   == CommonDen(u)
        U    == TLCEval(Numers(u, ud))
        F    == (1..m) \ S
        f    == SortedSeq(F)
        k    == Len(f)
        AFF  == TLCEval([a \in 1..k |-> [b \in 1..k |-> A[f[a]][f[b]]]])
        US   == TLCEval([j \in 1..m |-> IF j \in S THEN U[j] ELSE 0])
        rhs  == TLCEval([a \in 1..k |-> 0 - IDot(A[f[a]], US)])
        dt   == IDet(AFF)                                   \* = 1 when F is empty
        V    == TLCEval([i \in 1..m |-> IF i \in S THEN U[i] * dt ELSE IDet(ReplaceCol(AFF, PosIn(F, i), rhs))])
    IN  IF dt <= 0 THEN [ok |-> FALSE, v |-> u]
        ELSE [ok |-> (\A i \in F : U[i] * dt <= V[i]) /\ (\A i \in S : IDot(A[i], V) >= 0),
              v  |-> TLCEval([i \in 1..m |-> Frac(V[i], dt * ud)])]

\* the set of KKT points found over all active sets (a singleton for positive definite A)
ProjSet(A, u) == {c.v : c \in {x \in {Active(A, u, S) : S \in SUBSET (1..Len(A))} : x.ok}}
Proj(A, u)    == CHOOSE v \in ProjSet(A, u) : TRUE

\* sums that go through the least common denominator (Rat's RAdd multiplies the denominators,
\* which overflows 32 bits when the summands share a large denominator)
RAddL(p, q) == LET g == Gcd(p[2], q[2]) IN Norm(p[1] * (q[2] \div g) + q[1] * (p[2] \div g), (p[2] \div g) * q[2])
RECURSIVE RSumL(_)
RSumL(s)    == IF s = <<>> THEN RZero ELSE RAddL(Head(s), RSumL(Tail(s)))
RVSum(vs, m)    == TLCEval([i \in 1..m |-> RSumL([r \in 1..Len(vs) |-> vs[r][i]])])
DualProjW(A, u) == Proj(A, u)
UPGradRows(A, u) == TLCEval([i \in 1..Len(A) |-> Proj(A, [j \in 1..Len(A) |-> IF j = i THEN u[i] ELSE RZero])])
UPGradW(A, u)   == RVSum(UPGradRows(A, u), Len(A))

\* q G + p t I  as an integer matrix  (proportional to G / t + (p/q) I for t > 0)
AReg(G, p, q, t) == TLCEval([i \in IdxSet(G) |-> [j \in IdxSet(G) |-> q * G[i][j] + (IF i = j THEN p * t ELSE 0)]])

Combine(w, J, n) == TLCEval([j \in 1..n |-> RSumL([i \in 1..Len(J) |-> RMul(w[i], R(J[i][j]))])])          \* J^T w
RNorm2(v)        == RDot(v, v)

-----------------------------------------------------------------------------
(* Parameters enumerated per instance                                       *)

PrefSeq(m) ==
    IF m = 1 THEN << <<ROne>>, <<R(2)>> >>
    ELSE IF m = 2 THEN << RUniform(2), <<ROne, R(2)>>, <<RZero, ROne>>, <<Frac(3, 4), Frac(1, 4)>> >>
    ELSE << RUniform(3), <<Frac(1, 2), Frac(1, 6), Frac(1, 3)>>, <<RZero, ROne, R(2)>>, <<ROne, RZero, RZero>> >>

\* generic regularisations delta = p/q applied to the un-normalised Gramian (model check only)
DeltaSeq == << <<1, 8>>, <<2, 1>> >>
\* reg_eps values of family F2 (dyadic; m = 3 stops at 1/4, see DESIGN 3.3: 32-bit overflow)
RegEpsSeq(m) == IF m <= 2 THEN << <<1, 2>>, <<1, 4>>, <<1, 8>>, <<1, 16>> >> ELSE << <<1, 2>>, <<1, 4>> >>

\* sign of (lam * 4^k - 1), i.e. of ((2^k s)^2 - 1), for k in -8..8 (index k + 9)
RECURSIVE Pow4(_)
Pow4(k) == IF k = 0 THEN 1 ELSE 4 * Pow4(k - 1)
ScaleCmp(lam) == [i \in 1..17 |-> LET k == i - 9 IN
                    IF k >= 0 THEN Sgn(lam * Pow4(k) - 1) ELSE Sgn(lam - Pow4(-k))]

-----------------------------------------------------------------------------
(* Presentations and histories of a call (C03)                              *)
(*                                                                         *)
(* C03 is a statement about the VALUES a call is given: the matrix J and    *)
(* the non-negative preference vector u.  The same values can be handed to  *)
(* the code in several ways, and the expected weights / output of every     *)
(* call below are those of the instance, whatever the presentation:         *)
(*  - the preference vector as a tensor of another dtype than the matrix    *)
(*    (a float32 or an integer tensor next to a float64 matrix, a float64   *)
(*    one next to a float32 matrix), admissible whenever that dtype holds u *)
(*    EXACTLY ("f64" also stands for the nearest double of a non-dyadic     *)
(*    rational, as everywhere in the float64 replay);                       *)
(*  - the matrix in a NEW tensor object, or written in place (copy_) into   *)
(*    the tensor object that held the previous instance of the session;     *)
(*    the aggregator a NEW object, or the object that already served the    *)
(*    previous instances with the same arguments.  A session is the         *)
(*    sequence of the scenarios of one shape in the order of their entries. *)

RECURSIVE IsPow2(_)
IsPow2(k) == k = 1 \/ (k > 1 /\ k % 2 = 0 /\ IsPow2(k \div 2))

PrefDtypes == <<"f64", "f32", "i64">>
Presentable(u, d) == CASE d = "i64" -> \A i \in DOMAIN u : u[i][2] = 1
                       [] d = "f32" -> \A i \in DOMAIN u : IsPow2(u[i][2]) /\ Abs(u[i][1]) < 16777216
                       [] OTHER     -> TRUE
PrefPres(u) == SelectSeq(PrefDtypes, LAMBDA d : Presentable(u, d))

BufModes == << [tensor |-> "fresh",  agg |-> "fresh"],  [tensor |-> "reused", agg |-> "reused"],
               [tensor |-> "reused", agg |-> "fresh"],  [tensor |-> "fresh",  agg |-> "reused"] >>
\* the mode of an instance is a function of its entries and of a salt (the harness passes its seed): over the four
\* salts every instance is presented in every mode
BufMode(h, salt) == BufModes[((h + salt) % 4) + 1]

-----------------------------------------------------------------------------
(* One instance                                                             *)

MatOf(f, es) == [i \in 1..f.m |-> [j \in 1..f.n |-> es[(i - 1) * f.n + j]]]

Conflict(G) == \E i, j \in IdxSet(G) : G[i][j] < 0

Hash(es) == LET F[i \in 0..Len(es)] == IF i = 0 THEN 7 ELSE (F[i - 1] * 31 + es[i] + 3) % 10007 IN F[Len(es)]

Compute(f, es) ==
    LET J    == TLCEval(MatOf(f, es))
        m    == f.m
        n    == f.n
        G    == TLCEval(Gram(J))
        tr   == ITrace(G)
        L    == LamFloor(G)
        isI  == LamIsInt(G)
        P    == PrefSeq(m)
        mc   == [pi \in 1..Len(P) |-> [di \in 1..Len(DeltaSeq) |->
                   ProjSet(AReg(G, DeltaSeq[di][1], DeltaSeq[di][2], 1), P[pi])]]
        hom  == LET A  == AReg(G, 1, 1, 1)
                    pe == TLCEval([i \in 1..m |-> Proj(A, RUnit(m, i))])
                IN  [pi \in 2..Len(P) |->
                       UPGradW(A, P[pi]) = RVSum([i \in 1..m |-> RVScale(P[pi][i], pe[i])], m)]
        f2   == IF isI /\ L > 0
                THEN [ei \in 1..Len(RegEpsSeq(m)) |-> [pi \in 1..Len(P) |->
                        LET A  == AReg(G, RegEpsSeq(m)[ei][1], RegEpsSeq(m)[ei][2], L)
                            wd == DualProjW(A, P[pi])
                            wu == UPGradW(A, P[pi])
                        IN  [wd |-> wd, wu |-> wu, od |-> Combine(wd, J, n), ou |-> Combine(wu, J, n)]]]
                ELSE <<>>
        \* delta -> 0: every KKT point of min v^T G v, v >= u with a non-singular free block
        z    == [pi \in 1..Len(P) |-> ProjSet(G, P[pi])]
        zr   == [pi \in 1..Len(P) |-> [i \in 1..m |->
                   ProjSet(G, [j \in 1..m |-> IF j = i THEN P[pi][i] ELSE RZero])]]
        Least(S) == CHOOSE v \in S : \A w \in S : RLe(RNorm2(v), RNorm2(w))
        f1   == [pi \in 1..Len(P) |->
                   LET v0   == Least(z[pi])
                       rows == TLCEval([i \in 1..m |-> Least(zr[pi][i])])
                   IN  [xd |-> Combine(v0, J, n), nd |-> RNorm2(v0),
                        xu |-> Combine(RVSum(rows, m), J, n), nu |-> [i \in 1..m |-> RNorm2(rows[i])]]]
    IN  [J |-> J, G |-> G, tr |-> tr, lamLo |-> L, lamInt |-> isI, conflict |-> Conflict(G),
         mc |-> mc, hom |-> hom, f2 |-> f2, z |-> z, zr |-> zr, f1 |-> f1,
         mnOK |-> MinNormWellDefined(G), mn2 |-> MinNormSq(G),
         fw |-> [K \in 1..FWK |-> FWReach(G, K)]]

\* Frank-Wolfe has not reached the min-norm point after the FWK modelled steps (for some tie-break): the instances on
\* which the large budgets of the ladder say something the small ones do not
FWOpen(r) == FWK > 0 /\ \E st \in r.fw[FWK] : GapNum(r.G, st, r.mn2) > 0

\* ---- badly scaled family: which shapes are enumerated (overridden in MC_DualCone_bs_*.cfg); a matrix J0 of
\* shape f is kept iff (Hash(entries) + SamplePick) % f.mod = 0, and then analysed with EVERY admissible scaling
BSFam         == {}
BSFamNone     == {}
BSFamQuick    == {[m |-> 2, n |-> 2, e |-> 2, mod |-> 4], [m |-> 2, n |-> 3, e |-> 1, mod |-> 16],
                  [m |-> 3, n |-> 2, e |-> 2, mod |-> 192], [m |-> 3, n |-> 3, e |-> 1, mod |-> 192]}
BSFamThorough == {[m |-> 2, n |-> 2, e |-> 2, mod |-> 1], [m |-> 2, n |-> 3, e |-> 1, mod |-> 1],
                  [m |-> 3, n |-> 2, e |-> 1, mod |-> 2], [m |-> 3, n |-> 2, e |-> 2, mod |-> 32],
                  [m |-> 3, n |-> 3, e |-> 1, mod |-> 32]}
\* instances listed by the harness (seeded random ones, any pattern of scaled rows / columns): IOEnv.BS_FILE
BSFile        == FALSE
BSFileOn      == TRUE
BSFileInsts   == IF BSFile THEN LET s == JsonDeserialize(IOEnv.BS_FILE) IN {s[x] : x \in DOMAIN s} ELSE {}

-----------------------------------------------------------------------------
(* MGDA configurations (C04)                                                *)
(*                                                                         *)
(* C04 states the rate |A(J)|^2 - minnorm^2 <= 8 s^2 / (max_iters + 2) of   *)
(* MGDA(epsilon = 0) for EVERY iteration budget.  The model checks it       *)
(* exactly for the budgets up to FWK (FWRate); the replay runs the ladder   *)
(* below - which continues to budgets large enough for the bound to fall    *)
(* below the sub-optimality a slowly (sub-linearly) converging instance     *)
(* still has after some hundred iterations - against the bound exported     *)
(* here (upper end of the exact bracket of s^2).  epsilon = 0 ("never stop  *)
(* early") is one configuration value with two presentations: the float 0.0 *)
(* and the integer 0; which one a scenario is replayed with is a function   *)
(* of its entries and of a salt (the harness passes its seed).              *)

MGDABudgets  == <<1, 2, 3, 10, 100, 1000, 5000, 20000, 60000>>
EpsZeroPres  == <<"float", "int">>
EpsZero(h, salt) == EpsZeroPres[((h + salt) % 2) + 1]
S2Hi(L, isI)     == IF isI THEN L ELSE L + 1                     \* s^2 <= S2Hi (exact bracket)
MGDARateBound(L, isI, K) == Frac(8 * S2Hi(L, isI), K + 2)

-----------------------------------------------------------------------------
(* ROW-SCALED family (C03)                                                  *)
(*                                                                         *)
(* C03 quantifies over every matrix with s >= norm_eps (row norms over 12   *)
(* orders of magnitude), every non-negative preference vector and every     *)
(* reg_eps > 0.  An instance is J = D_r J0: J0 a small integer matrix, row  *)
(* i scaled by eps^rho_i, eps = 2^-P carried symbolically (EpsScale.tla).   *)
(* The code minimises v^T (G / s^2 + reg_eps I) v over v >= u; the          *)
(* minimiser depends on reg_eps and s^2 only through delta = reg_eps s^2.   *)
(* s^2 is irrational in general, but reg_eps is a free configuration: the   *)
(* family ties it to the TRACE, delta = (p/q) tr G (i.e. reg_eps = (p/q)    *)
(* tr G / s^2, a number between p/q and m p/q), so that for EVERY matrix    *)
(* the minimiser is that of the polynomial matrix                           *)
(*        A = q G + p T I          (T = tr G; entries in Z[eps]).           *)
(* The active sets are enumerated as in Active above, with Cramer's rule    *)
(* over Z[eps]; every sign is decided by the sign rule, hence for all       *)
(* P >= needP at once.  The preference vectors have entries in {0, tiny, 1} *)
(* (tiny = eps or eps^2, see RSPrefs) with at least one 1 - one-hot,        *)
(* sparse, tiny entries on any subset of the rows, all ones - plus the      *)
(* default (uniform) one.  UPGrad: the                                      *)
(* projections of the unit vectors are exported; UPGradW(u) =               *)
(* SUM_i u_i Proj(e_i) by positive homogeneity (RSHomogeneous).             *)
(* On unscaled instances the polynomial solution must be the integer one of *)
(* Proj above (RSRefinesInteger).                                           *)

RSFam         == {}
RSFamNone     == {}
RSFamQuick    == {[m |-> 2, n |-> 2, e |-> 2, mod |-> 4], [m |-> 2, n |-> 3, e |-> 1, mod |-> 16],
                  [m |-> 3, n |-> 2, e |-> 1, mod |-> 16], [m |-> 3, n |-> 3, e |-> 1, mod |-> 512]}
RSFamThorough == {[m |-> 2, n |-> 2, e |-> 2, mod |-> 1], [m |-> 2, n |-> 3, e |-> 1, mod |-> 2],
                  [m |-> 3, n |-> 2, e |-> 1, mod |-> 2], [m |-> 3, n |-> 3, e |-> 1, mod |-> 64]}
RSFile        == FALSE
RSFileOn      == TRUE
RSFileInsts   == IF RSFile THEN LET s == JsonDeserialize(IOEnv.RS_FILE) IN {s[x] : x \in DOMAIN s} ELSE {}

\* preference vectors: entry codes 0 -> 0, 1 -> a TINY entry, 2 -> 1; all code vectors with at least one 1-entry, in
\* the order of their base-3 value; the first preference is the default one (all ones over the denominator m).
\* The tiny entry is eps^te with te in {1, 2} a function of the entries of J0 (half of the instances each): eps is
\* of the order of the slack the projection puts on a large row that conflicts with a small one, eps^2 far below it.
RECURSIVE RSPow3(_)
RSPow3(k)      == IF k = 0 THEN 1 ELSE 3 * RSPow3(k - 1)
RSEntry(c, te) == IF c = 0 THEN <<>> ELSE IF c = 1 THEN PMono(1, te) ELSE <<1>>
RSDigits(x, m) == [i \in 1..m |-> (x \div RSPow3(i - 1)) % 3]
RSCodes(m)     == SelectSeq([k \in 1..RSPow3(m) |-> RSDigits(k - 1, m)], LAMBDA c : \E i \in 1..m : c[i] = 2)
\* the dtypes a preference vector can be given in exactly: its entries are 0, 1 or a power of two >= 2^-80
RSPres(c)      == <<"f64", "f32">> \o (IF \E i \in DOMAIN c : c[i] = 1 THEN <<>> ELSE <<"i64">>)
RSPrefs(m, te) == <<[code |-> [i \in 1..m |-> 2], U |-> [i \in 1..m |-> <<1>>], ud |-> m, default |-> TRUE,
                     pres |-> <<"none">>]>> \o
                  [k \in 1..Len(RSCodes(m)) |-> [code |-> RSCodes(m)[k], U |-> [i \in 1..m |-> RSEntry(RSCodes(m)[k][i], te)],
                                                  ud |-> 1, default |-> FALSE, pres |-> RSPres(RSCodes(m)[k])]]
RSUnit(m, i)   == [j \in 1..m |-> IF j = i THEN <<1>> ELSE <<>>]
\* delta = (p/q) tr G   (m = 3 stops at 1/4: 32-bit coefficients)
RSRegSeq(m)    == IF m <= 2 THEN << <<1, 2>>, <<1, 16>> >> ELSE << <<1, 2>>, <<1, 4>> >>

\* KKT candidate of  min v^T A v, v >= U  for the active set S over Z[eps]:  v = V / D  (D > 0 by the sign rule)
RSActive(A, U, S) ==
    LET m   == Len(A)
        F   == (1..m) \ S
        f   == EsSorted(F)
        k   == Len(f)
        AFF == TLCEval([a \in 1..k |-> [b \in 1..k |-> A[f[a]][f[b]]]])
        rhs == TLCEval([a \in 1..k |-> PNeg(PSumSeq([j \in 1..m |-> IF j \in S THEN PMul(A[f[a]][j], U[j]) ELSE <<>>]))])
        dt  == TLCEval(PDet(AFF))                               \* <<1>> when F is empty
        V   == TLCEval([i \in 1..m |-> IF i \in S THEN PMul(U[i], dt) ELSE PDet(PReplaceCol(AFF, EsPos(F, i), rhs))])
        slF == TLCEval([i \in 1..m |-> PSub(V[i], PMul(U[i], dt))])                         \* D (v - u)_i
        slS == TLCEval([i \in 1..m |-> PSumSeq([j \in 1..m |-> PMul(A[i][j], V[j])])])      \* D (A v)_i
    IN  IF PSign(dt) <= 0 THEN [ok |-> FALSE, V |-> <<>>, D |-> <<>>, gd |-> 0]
        ELSE [ok |-> (\A i \in F : PSign(slF[i]) >= 0) /\ (\A i \in S : PSign(slS[i]) >= 0),
              V  |-> V, D |-> dt,
              gd |-> EpMax(PGuard(dt), EpMax(EpMaxSeq([i \in 1..m |-> IF i \in F THEN PGuard(slF[i]) ELSE 0]),
                                             EpMaxSeq([i \in 1..m |-> IF i \in S THEN PGuard(slS[i]) ELSE 0])))]

\* all KKT points over the active sets: how many certificates, whether they are the same rational functions, and the
\* certificate with the weakest requirement on P
RSSolve1(A, U) ==
    LET C == {c \in {RSActive(A, U, S) : S \in SUBSET (1..Len(A))} : c.ok}
    IN  [n    |-> Cardinality(C),
         same |-> \A x, y \in C : \A i \in 1..Len(A) : PMul(x.V[i], y.D) = PMul(y.V[i], x.D),
         sol  |-> IF C = {} THEN [V |-> <<>>, D |-> <<>>, gd |-> 0]
                  ELSE LET c == CHOOSE c \in C : \A x \in C : c.gd <= x.gd IN [V |-> c.V, D |-> c.D, gd |-> c.gd]]

RSMat(G, T, reg) == TLCEval([i \in 1..Len(G) |-> [j \in 1..Len(G) |->
                        PAdd(PScale(reg[2], G[i][j]), IF i = j THEN PScale(reg[1], T) ELSE <<>>)]])

RSAnalyse(inst) ==
    LET m     == Len(inst.J0)
        n     == Len(inst.J0[1])
        G     == TLCEval(EsGram([J0 |-> inst.J0, rho |-> inst.rho, gam |-> [j \in 1..n |-> 0]]))
        T     == EsTrace(G)
        k     == IF T = <<>> THEN 0 ELSE EsLamK(G)
        gl    == IF T = <<>> THEN 0 ELSE EsLamGuard(G, k)
        regs  == RSRegSeq(m)
        te    == 1 + (Hash([x \in 1..(m * n) |-> inst.J0[((x - 1) \div n) + 1][((x - 1) % n) + 1]]) % 2)
        prefs == RSPrefs(m, te)
        sol   == IF T = <<>> THEN <<>>
                 ELSE TLCEval([ri \in 1..Len(regs) |->
                        LET A == RSMat(G, T, regs[ri]) IN
                        [pe  |-> [i \in 1..m |-> RSSolve1(A, RSUnit(m, i))],
                         wd  |-> [pi \in 1..Len(prefs) |-> RSSolve1(A, prefs[pi].U)],
                         \* positive homogeneity, on the tiny multiple eps e_i of every unit vector
                         hom |-> [i \in 1..m |-> RSSolve1(A, [j \in 1..m |-> IF j = i THEN <<0, 1>> ELSE <<>>])]]])
        gsol  == IF sol = <<>> THEN 0
                 ELSE EpMaxSeq([ri \in 1..Len(regs) |->
                        EpMax(EpMaxSeq([i \in 1..m |-> sol[ri].pe[i].sol.gd]),
                              EpMaxSeq([pi \in 1..Len(prefs) |-> sol[ri].wd[pi].sol.gd]))])
    IN  [J0 |-> inst.J0, rho |-> inst.rho, m |-> m, n |-> n, G |-> G, tr |-> T, lamK |-> k, te |-> te,
         conflict |-> EsConflict(G), prefs |-> prefs, regs |-> regs, sol |-> sol,
         needP |-> NeedP(EpMax(gsol, EpMax(gl, PGuard(T))))]

Init == \/ fam \in Family /\ ents = <<>> /\ phase = "build" /\ res = <<>>
        \/ fam \in BSFam /\ ents = <<>> /\ phase = "bsbuild" /\ res = <<>>
        \/ \E x \in BSFileInsts :
              /\ fam = [m |-> Len(x.J0), n |-> Len(x.J0[1]), e |-> 0, mod |-> 1]
              /\ ents = [k \in 1..(Len(x.J0) * Len(x.J0[1])) |->
                           x.J0[((k - 1) \div Len(x.J0[1])) + 1][((k - 1) % Len(x.J0[1])) + 1]]
              /\ phase = "bsfile" /\ res = [rho |-> x.rho, gam |-> x.gam]
        \/ fam \in RSFam /\ ents = <<>> /\ phase = "rsbuild" /\ res = <<>>
        \/ \E x \in RSFileInsts :
              /\ fam = [m |-> Len(x.J0), n |-> Len(x.J0[1]), e |-> 0, mod |-> 1]
              /\ ents = [k \in 1..(Len(x.J0) * Len(x.J0[1])) |->
                           x.J0[((k - 1) \div Len(x.J0[1])) + 1][((k - 1) % Len(x.J0[1])) + 1]]
              /\ phase = "rsfile" /\ res = [rho |-> x.rho]

Extend == /\ phase = "build" /\ Len(ents) < fam.m * fam.n
          /\ \E x \in (0 - fam.e)..fam.e : ents' = Append(ents, x)
          /\ UNCHANGED <<fam, phase, res>>

Solve == /\ phase = "build" /\ Len(ents) = fam.m * fam.n
         /\ phase' = "done"
         /\ res' = Compute(fam, ents)
         /\ UNCHANGED <<fam, ents>>

BSExtend == /\ phase = "bsbuild" /\ Len(ents) < fam.m * fam.n
            /\ \E x \in (0 - fam.e)..fam.e : ents' = Append(ents, x)
            /\ UNCHANGED <<fam, phase, res>>

\* every scaling of a kept matrix: scaled rows / columns last, at least one row and one column unscaled; the
\* unscaled instance is analysed too (refinement check against MinNorm, not exported)
BSSolve == /\ phase = "bsbuild" /\ Len(ents) = fam.m * fam.n
           /\ (Hash(ents) + SamplePick) % fam.mod = 0
           /\ \E r \in EsStep(fam.m), g \in EsStep(fam.n) :
                 res' = EsAnalyse([J0 |-> MatOf(fam, ents), rho |-> r, gam |-> g])
           /\ phase' = "bsdone" /\ UNCHANGED <<fam, ents>>

BSSolveFile == /\ phase = "bsfile"
               /\ res' = EsAnalyse([J0 |-> MatOf(fam, ents), rho |-> res.rho, gam |-> res.gam])
               /\ phase' = "bsdone" /\ UNCHANGED <<fam, ents>>

RSExtend == /\ phase = "rsbuild" /\ Len(ents) < fam.m * fam.n
            /\ \E x \in (0 - fam.e)..fam.e : ents' = Append(ents, x)
            /\ UNCHANGED <<fam, phase, res>>

\* every row scaling of a kept matrix (scaled rows last, at least one row unscaled); the unscaled instance is
\* analysed too (refinement check against the integer projection, not exported)
RSSolve == /\ phase = "rsbuild" /\ Len(ents) = fam.m * fam.n
           /\ (Hash(ents) + SamplePick) % fam.mod = 0
           /\ \E r \in EsStep(fam.m) : res' = RSAnalyse([J0 |-> MatOf(fam, ents), rho |-> r])
           /\ phase' = "rsdone" /\ UNCHANGED <<fam, ents>>

RSSolveFile == /\ phase = "rsfile"
               /\ res' = RSAnalyse([J0 |-> MatOf(fam, ents), rho |-> res.rho])
               /\ phase' = "rsdone" /\ UNCHANGED <<fam, ents>>

Next == Extend \/ Solve \/ BSExtend \/ BSSolve \/ BSSolveFile \/ RSExtend \/ RSSolve \/ RSSolveFile
Spec == Init /\ [][Next]_vars

Done  == phase = "done"
M     == fam.m
Prefs == PrefSeq(fam.m)
PIdx  == 1..Len(Prefs)
DIdx  == 1..Len(DeltaSeq)

-----------------------------------------------------------------------------
(* Invariants (model check).  C03:                                          *)

\* existence and uniqueness of the KKT point for delta > 0
KKTExistsUnique == Done => \A pi \in PIdx, di \in DIdx : Cardinality(res.mc[pi][di]) = 1

\* no negative Gramian entry => the projection is the identity (output = J^T u, the plain mean)
NoConflictIsIdentity == (Done /\ ~res.conflict) => \A pi \in PIdx, di \in DIdx : res.mc[pi][di] = {Prefs[pi]}

\* J^T u already in the (regularised) dual cone => unchanged  (projection is idempotent on the cone)
InConeIsIdentity ==
    Done => \A pi \in PIdx, di \in DIdx :
              LET A == AReg(res.G, DeltaSeq[di][1], DeltaSeq[di][2], 1) IN
              (\A i \in 1..M : RSign(RMatVec(RMat(A), Prefs[pi])[i]) >= 0) => res.mc[pi][di] = {Prefs[pi]}

\* C04 for UPGrad / DualProj:  v >= u  and  (G v)_i >= - delta v_i   (recomputed from G, not from A)
Feasible ==
    Done => \A pi \in PIdx, di \in DIdx : \A v \in res.mc[pi][di] :
              LET Gv == RMatVec(RMat(res.G), v)
                  dl == Frac(DeltaSeq[di][1], DeltaSeq[di][2])
              IN  \A i \in 1..M : RLe(Prefs[pi][i], v[i]) /\ RLe(RNeg(RMul(dl, v[i])), Gv[i])

\* the minimiser really minimises: no KKT candidate of any active set with v >= u does better, and
\* moving to any vertex-like competitor u + e_i does not decrease the objective
Minimal ==
    Done => \A pi \in PIdx, di \in DIdx : \A v \in res.mc[pi][di] :
              LET A   == AReg(res.G, DeltaSeq[di][1], DeltaSeq[di][2], 1)
                  obj(x) == RDot(x, RMatVec(RMat(A), x))
              IN  /\ RLe(obj(v), obj(Prefs[pi]))
                  /\ \A i \in 1..M : RLe(obj(v), obj(RVAdd(Prefs[pi], RUnit(M, i))))

\* UPGrad's row-by-row projection of diag(u) = u_i times the projection of e_i (positive homogeneity)
UPGradHomogeneous == Done => \A pi \in DOMAIN res.hom : res.hom[pi]

\* on family F2 the exact weights satisfy v >= u and, without conflict, equal u
F2Sound == (Done /\ res.f2 # <<>>) =>
              \A ei \in DOMAIN res.f2, pi \in PIdx :
                 /\ \A i \in 1..M : RLe(Prefs[pi][i], res.f2[ei][pi].wd[i]) /\ RLe(Prefs[pi][i], res.f2[ei][pi].wu[i])
                 /\ (~res.conflict => res.f2[ei][pi].wd = Prefs[pi] /\ res.f2[ei][pi].wu = Prefs[pi])

\* delta -> 0: a KKT point with non-singular free block exists, and all of them give the same J^T v
LimitWellDefined ==
    Done => \A pi \in PIdx :
              /\ Cardinality({Combine(v, res.J, fam.n) : v \in res.z[pi]}) = 1
              /\ \A i \in 1..M : Cardinality({Combine(v, res.J, fam.n) : v \in res.zr[pi][i]}) = 1

\* the integer bracket of lambda_max:  max diagonal entry <= lambda_max <= trace
BracketSound == Done => /\ res.lamLo <= res.tr
                        /\ \A i \in 1..M : res.G[i][i] < res.lamLo + 1
                        /\ (res.lamInt => LamMaxGeR(res.G, R(res.lamLo)) /\ ~LamMaxGeR(res.G, Frac(2 * res.lamLo + 1, 2)))

\* presentations: the float64 one always exists, an admissible one holds u exactly, and every dtype / every
\* buffer mode occurs for every row count (non-vacuity of the replay's rotation)
PresentationsSound ==
    Done => /\ \A pi \in PIdx : /\ Head(PrefPres(Prefs[pi])) = "f64"
                                /\ \A k \in DOMAIN PrefPres(Prefs[pi]) : Presentable(Prefs[pi], PrefPres(Prefs[pi])[k])
            /\ \A k \in DOMAIN PrefDtypes : \E pi \in PIdx : \E j \in DOMAIN PrefPres(Prefs[pi]) :
                                                 PrefPres(Prefs[pi])[j] = PrefDtypes[k]
            /\ {BufMode(Hash(ents), salt) : salt \in 1..4} = {BufModes[k] : k \in 1..4}

(* C04, MGDA: *)
MinNormOK == Done => /\ res.mnOK
                     /\ RSign(res.mn2) >= 0
                     /\ RLe(res.mn2, RQuad(res.G, RUniform(M)))
                     /\ \A i \in 1..M : RLe(res.mn2, R(res.G[i][i]))
FWSimplex   == Done => \A K \in DOMAIN res.fw : \A st \in res.fw[K] : IsSimplexPoint(st)
\* never longer than the mean:  N^T G N / d^2 <= 1^T G 1 / m^2
FWMonotone  == Done => \A K \in DOMAIN res.fw : \A st \in res.fw[K] :
                          FWQuadNum(res.G, st) * M * M <= FWQuadNum(res.G, FWStart(M)) * st.d * st.d
FWAllowance == Done => \A K \in DOMAIN res.fw : \A st \in res.fw[K] : MGDAAllowanceOK(res.G, st, res.mn2, res.lamLo)
FWRate      == Done => \A K \in DOMAIN res.fw : \A st \in res.fw[K] : MGDARateOK(res.G, st, res.mn2, res.lamLo, K)
\* m = 2: one step of exact line search from the mean reaches the min-norm point
FWTwoRowsExact == (Done /\ M = 2 /\ 1 \in DOMAIN res.fw) =>
                     \A st \in res.fw[1] : GapNum(res.G, st, res.mn2) = 0

\* the ladder of budgets is increasing, contains every depth the model checks exactly, the exported bounds decrease
\* and dominate the sub-optimality of every modelled iterate; both presentations of epsilon = 0 occur
MGDAConfigSound ==
    Done => /\ \A k \in 1..(Len(MGDABudgets) - 1) : MGDABudgets[k] < MGDABudgets[k + 1]
            /\ \A K \in 1..FWK : \E k \in DOMAIN MGDABudgets : MGDABudgets[k] = K
            /\ \A k \in 1..(Len(MGDABudgets) - 1) :
                  RLe(MGDARateBound(res.lamLo, res.lamInt, MGDABudgets[k + 1]), MGDARateBound(res.lamLo, res.lamInt, MGDABudgets[k]))
            /\ \A K \in DOMAIN res.fw : \A st \in res.fw[K] :
                  RLe(Frac(GapNum(res.G, st, res.mn2), st.d * st.d * res.mn2[2]), MGDARateBound(res.lamLo, res.lamInt, K))
            /\ {EpsZero(Hash(ents), salt) : salt \in 1..2} = {EpsZeroPres[k] : k \in 1..2}

-----------------------------------------------------------------------------
(* Scenario export                                                          *)

Scenario == [m |-> fam.m, n |-> fam.n, J |-> res.J, tr |-> res.tr, lamLo |-> res.lamLo, lamInt |-> res.lamInt,
             conflict |-> res.conflict, prefs |-> Prefs, regeps |-> RegEpsSeq(fam.m),
             cmp |-> ScaleCmp(res.lamLo), f2 |-> res.f2, f1 |-> res.f1, mn2 |-> res.mn2,
             pres |-> [pi \in PIdx |-> PrefPres(Prefs[pi])],
             buf |-> [salt \in 1..4 |-> BufMode(Hash(ents), salt)],
             mgda |-> [budgets |-> MGDABudgets,
                       rate    |-> [k \in DOMAIN MGDABudgets |-> MGDARateBound(res.lamLo, res.lamInt, MGDABudgets[k])],
                       epsz    |-> [salt \in 1..2 |-> EpsZero(Hash(ents), salt)],
                       open    |-> FWOpen(res)]]

Export == (Done /\ Hash(ents) % SampleMod = SamplePick) => PrintT(<<"SCN", ToJson(Scenario)>>)

-----------------------------------------------------------------------------
(* Badly scaled family: what TLC checks about the symbolic analysis (all     *)
(* comparisons by the sign rule of EpsScale, i.e. for every small enough eps)*)

BSDone     == phase = "bsdone"
BSUnscaled == (\A i \in 1..fam.m : res.rho[i] = 0) /\ (\A j \in 1..fam.n : res.gam[j] = 0)
BSG        == EsGram([J0 |-> res.J0, rho |-> res.rho, gam |-> res.gam])

\* the hull's squared distance to the origin d2 = d2num / d2den: well defined (enumerated instances: every KKT
\* certificate gives the same rational function), 0 <= d2 <= |row_i|^2 and d2 <= |mean row|^2
BSMinNormOK ==
    BSDone => /\ PSign(res.d2den) > 0 /\ PSign(res.d2num) >= 0
              /\ (fam.e > 0 => EsWellDefined(BSG))
              /\ \A i \in 1..fam.m : PSign(PSub(PMul(BSG[i][i], res.d2den), res.d2num)) >= 0
              /\ PSign(PSub(PMul(res.total, res.d2den), PScale(fam.m * fam.m, res.d2num))) >= 0
              /\ res.stationary = (res.d2num = <<>>)
\* (k-1) T/16 <= sigma_max^2 < k T/16:  consistent with  max_i G_ii <= sigma_max^2  and  T/m <= sigma_max^2 <= T
BSBracketSound ==
    (BSDone /\ res.tr # <<>>) =>
        /\ res.lamK \in 2..17 /\ res.lamK * fam.m > 16
        /\ \A i \in 1..fam.m : PSign(PSub(PScale(res.lamK, res.tr), PScale(16, BSG[i][i]))) > 0
\* a zero row, or two opposite rows with the same scaling, make the instance stationary; rows in an open half
\* space (one row has a positive inner product with all) do not
BSStationaryObvious ==
    BSDone => /\ ((\E i \in 1..fam.m : BSG[i][i] = <<>>) => res.stationary)
              /\ ((\E i, k \in 1..fam.m : res.rho[i] = res.rho[k] /\ BSG[i][i] # <<>>
                                           /\ \A j \in 1..fam.n : res.J0[i][j] = 0 - res.J0[k][j]) => res.stationary)
              /\ ((\E i \in 1..fam.m : \A k \in 1..fam.m : PSign(BSG[i][k]) > 0) => ~res.stationary)
\* REFINEMENT: without scaling every polynomial is a constant and the analysis is MinNorm's integer one
BSRefinesMinNorm ==
    (BSDone /\ BSUnscaled /\ res.tr # <<>>) =>
        LET G == Gram(res.J0)
            L == LamFloor(G)
        IN  /\ res.needP = 1 /\ Len(res.d2den) = 1 /\ Len(res.d2num) <= 1 /\ res.tr = <<ITrace(G)>>
            /\ Frac(PCoef(res.d2num, 0), res.d2den[1]) = MinNormSq(G)
            /\ (res.lamK - 1) * ITrace(G) < 16 * (L + 1) /\ 16 * L < res.lamK * ITrace(G)
            /\ res.conflict = Conflict(G)

BSExport == (BSDone /\ ~BSUnscaled) => PrintT(<<"BSCN", ToJson(res)>>)

-----------------------------------------------------------------------------
(* Row-scaled family (C03): what TLC checks about the symbolic KKT solution  *)

RSDone     == phase = "rsdone"
RSUnscaled == \A i \in 1..fam.m : res.rho[i] = 0
RSAll(r)   == [i \in 1..Len(r.pe) |-> r.pe[i]] \o [pi \in 1..Len(r.wd) |-> r.wd[pi]]

\* a KKT point exists and all certificates are the same rational functions (A is positive definite)
RSKKTExistsUnique ==
    (RSDone /\ res.tr # <<>>) => \A ri \in DOMAIN res.sol : \A x \in {RSAll(res.sol[ri])[k] : k \in DOMAIN RSAll(res.sol[ri])} :
                                     x.n >= 1 /\ x.same
\* v >= u, and without a negative Gramian entry (sign rule) the projection is the identity
RSNoConflictIsIdentity ==
    (RSDone /\ res.tr # <<>> /\ ~res.conflict) =>
        \A ri \in DOMAIN res.sol : \A pi \in DOMAIN res.prefs :
            \A i \in 1..fam.m : res.sol[ri].wd[pi].sol.V[i] = PMul(res.prefs[pi].U[i], res.sol[ri].wd[pi].sol.D)
\* Proj(eps e_i) = eps Proj(e_i): what the replay uses to assemble UPGradW(u) = SUM_i u_i Proj(e_i)
RSHomogeneous ==
    (RSDone /\ res.tr # <<>>) =>
        \A ri \in DOMAIN res.sol : \A i, j \in 1..fam.m :
            LET a == res.sol[ri].hom[i].sol
                b == res.sol[ri].pe[i].sol
            IN  res.sol[ri].hom[i].n >= 1 /\ PMul(a.V[j], b.D) = PMul(PMul(<<0, 1>>, b.V[j]), a.D)
\* REFINEMENT: without scaling, and for a preference vector without eps entries, every polynomial is a constant and
\* the solution is the integer one of Proj (the operator the main family is checked and replayed with)
RSRefinesInteger ==
    (RSDone /\ RSUnscaled /\ res.tr # <<>>) =>
        LET G == Gram(res.J0) IN
        /\ res.tr = <<ITrace(G)>> /\ res.conflict = Conflict(G)
        /\ \A ri \in DOMAIN res.sol : \A pi \in DOMAIN res.prefs :
              (\A i \in 1..fam.m : res.prefs[pi].code[i] # 1) =>
                 LET A == AReg(G, res.regs[ri][1], res.regs[ri][2], ITrace(G))
                     u == [i \in 1..fam.m |-> R(PCoef(res.prefs[pi].U[i], 0))]
                     s == res.sol[ri].wd[pi].sol
                 IN  /\ Len(s.D) = 1 /\ \A i \in 1..fam.m : Len(s.V[i]) <= 1
                     /\ Proj(A, u) = [i \in 1..fam.m |-> Frac(PCoef(s.V[i], 0), s.D[1])]
\* (k-1) T/16 <= sigma_max^2 < k T/16 is consistent with max_i G_ii <= sigma_max^2 and T/m <= sigma_max^2
RSBracketSound ==
    (RSDone /\ res.tr # <<>>) =>
        /\ res.lamK \in 2..17 /\ res.lamK * fam.m > 16
        /\ \A i \in 1..fam.m : PSign(PSub(PScale(res.lamK, res.tr), PScale(16, res.G[i][i]))) > 0

RSSlim(x)   == [V |-> x.sol.V, D |-> x.sol.D]
RSScenario  == [J0 |-> res.J0, rho |-> res.rho, m |-> res.m, n |-> res.n, tr |-> res.tr, lamK |-> res.lamK, te |-> res.te,
                conflict |-> res.conflict, needP |-> res.needP, regs |-> res.regs,
                prefs |-> [pi \in DOMAIN res.prefs |-> [code |-> res.prefs[pi].code, ud |-> res.prefs[pi].ud,
                                                         default |-> res.prefs[pi].default, pres |-> res.prefs[pi].pres]],
                sol |-> [ri \in DOMAIN res.sol |-> [pe |-> [i \in 1..res.m |-> RSSlim(res.sol[ri].pe[i])],
                                                     wd |-> [pi \in DOMAIN res.prefs |-> RSSlim(res.sol[ri].wd[pi])]]]]
RSExport    == (RSDone /\ ~RSUnscaled /\ res.tr # <<>>) => PrintT(<<"RSCN", ToJson(RSScenario)>>)
=============================================================================
