--------------------------- MODULE TransformsPool ---------------------------
(* Partner pool of MC_Transforms beyond the atoms: a set of constructible   *)
(* depth-1 terms.  This committed default is empty; harness/transforms_c14  *)
(* replaces the module, per run, by a content-hash sample (seeded) of the   *)
(* depth-1 terms exported by MC_Transforms itself.                          *)
PoolLit == {}
=============================================================================
