CONSTANT MaxDepth = 2
CONSTANT Mod1 = 12
CONSTANT Pick1 = 0
CONSTANT Mod2 = 1000
CONSTANT Pick2 = 0
CONSTANT ExportMod = 16
SPECIFICATION Spec
INVARIANT BuildAgrees
INVARIANT ApplyAgrees
INVARIANT KeyTyped
INVARIANT KeyMismatch
INVARIANT Laws
INVARIANT Export
CHECK_DEADLOCK FALSE
