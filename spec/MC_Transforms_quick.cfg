CONSTANT MaxDepth = 2
CONSTANT SampleFrom = 1
CONSTANT SampleMod = 8
CONSTANT SamplePick = 0
CONSTANT ExportMod = 16
SPECIFICATION Spec
INVARIANT BuildAgrees
INVARIANT ApplyAgrees
INVARIANT KeyTyped
INVARIANT KeyMismatch
INVARIANT Laws
INVARIANT Export
CHECK_DEADLOCK FALSE
