CONSTANT MaxDepth = 2
CONSTANT Mod1 = 12
CONSTANT Pick1 = 0
CONSTANT Mod2 = 1000
CONSTANT Pick2 = 0
CONSTANT ExportMod = 16
CONSTANT Mod3 = 2
CONSTANT Pick3 = 0
SPECIFICATION Spec
INVARIANT BuildAgrees
INVARIANT ApplyAgrees
INVARIANT KeyTyped
INVARIANT KeyMismatch
INVARIANT Laws
INVARIANT PresentationFree
INVARIANT Export
INVARIANT ExportForms
CHECK_DEADLOCK FALSE
