----------------------------- MODULE ChunkLemma -----------------------------
(***************************************************************************)
(* Unbounded version of the counting clause of C07 (JacChunks.tla), for    *)
(* Apalache: the chunk loop of Jac._differentiate, for ALL m >= 1 and all  *)
(* chunk capacities cap >= 1, performs exactly N = ceil(m/cap) sweeps,     *)
(* every sweep has between 1 and cap rows and the rows add up to m.        *)
(* IndInv is an inductive invariant:                                       *)
(*    apalache-mc check --init=IndInit --inv=IndInv --length=1 ChunkLemma.tla *)
(*    apalache-mc check --init=Init --inv=IndInv --length=0 ChunkLemma.tla *)
(* and IndInv => Safe is checked as  --init=IndInit --inv=Safe --length=0. *)
(* Optional (reported in the C07 evidence when it succeeds within its      *)
(* time-out; TLC's bounded exhaustive check does not depend on it).        *)
(***************************************************************************)
EXTENDS Integers

VARIABLES
    \* @type: Int;
    m,
    \* @type: Int;
    cap,
    \* @type: Int;
    n,        \* number of sweeps planned: ceil(m / cap), characterised without division
    \* @type: Int;
    i,        \* sweeps done
    \* @type: Int;
    done,     \* rows done
    \* @type: Int;
    last      \* size of the last sweep performed (0 before the first)

\* n = ceil(m/cap)  <=>  (n-1)*cap < m <= n*cap
IsCeil == (n - 1) * cap < m /\ m <= n * cap

Init == /\ m \in Int /\ cap \in Int /\ n \in Int
        /\ m >= 1 /\ cap >= 1 /\ n >= 1 /\ IsCeil
        /\ i = 0 /\ done = 0 /\ last = 0

Next == /\ i < n
        /\ IF i < n - 1
           THEN done' = done + cap /\ last' = cap
           ELSE done' = m /\ last' = m - done
        /\ i' = i + 1
        /\ UNCHANGED <<m, cap, n>>

IndInv == /\ m >= 1 /\ cap >= 1 /\ n >= 1 /\ IsCeil
          /\ 0 <= i /\ i <= n
          /\ (i < n => done = i * cap)
          /\ (i = n => done = m)
          /\ (i = 0 => last = 0)
          /\ (i > 0 => (1 <= last /\ last <= cap))

IndInit == /\ m \in Int /\ cap \in Int /\ n \in Int /\ i \in Int /\ done \in Int /\ last \in Int
           /\ IndInv

\* what C07 states: exactly n sweeps (the loop stops at i = n), each of 1..cap rows, all rows done
Safe == /\ (i > 0 => (1 <= last /\ last <= cap))
        /\ (i = n => done = m)
        /\ i <= n
=============================================================================
