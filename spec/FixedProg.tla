----------------------------- MODULE FixedProg -----------------------------
(***************************************************************************)
(* One fixed trunk/heads program used by the HISTORY specifications        *)
(* (Accumulation.tla - C06, Rejection.tla - C20) and pure operators giving *)
(* the update that a backward / mtl_backward call deposits, by forward     *)
(* mode (Autograd.tla), independent of any state variable.                 *)
(*                                                                         *)
(*   1 a  leaf(2) rg     shared parameter                                  *)
(*   2 b  leaf(2) rg     shared parameter                                  *)
(*   3 c  leaf(1) rg     unrelated leaf (nothing depends on it)            *)
(*   4 t1 leaf(2) rg     parameter of task 1                               *)
(*   5 t2 leaf(1) rg     parameter of task 2                               *)
(*   6 e  leaf(2) no-grad                                                  *)
(*   7 f  = a * b                       the feature (2)                    *)
(*   8 h1 = f * t1            9 l1 = sum(h1)            loss 1             *)
(*  10 h2 = alt(f) (1)       11 l2 = h2 * t2            loss 2             *)
(*  12 y  = [[1,2],[0,-1]] a            a second output (2)                *)
(*  13 g  = a + e                       non-leaf depending on a (2)        *)
(*  14 u1 leaf(2) rg, 15 u2 leaf(2) rg  two additive parameters of task 3  *)
(*  16 s = u1 + u2   17 h3 = h1 + s   18 l3 = sum(h3)     loss 3           *)
(*     (autograd hands the SAME gradient tensor to u1 and u2)              *)
(***************************************************************************)
EXTENDS Autograd

Lf(sz, v, r) == [op |-> "leaf", size |-> sz, val |-> v, rg |-> r]
P0 == << Lf(2, <<1, -2>>, TRUE), Lf(2, <<3, 2>>, TRUE), Lf(1, <<4>>, TRUE),
         Lf(2, <<2, -1>>, TRUE), Lf(1, <<-3>>, TRUE), Lf(2, <<1, 1>>, FALSE),
         [op |-> "mul", a |-> 1, b |-> 2],
         [op |-> "mul", a |-> 7, b |-> 4], [op |-> "lin", a |-> 8, mat |-> <<<<1, 1>>>>],
         [op |-> "lin", a |-> 7, mat |-> <<<<2, -1>>>>], [op |-> "mul", a |-> 10, b |-> 5],
         [op |-> "lin", a |-> 1, mat |-> <<<<1, 2>>, <<0, -1>>>>],
         [op |-> "add", a |-> 1, b |-> 6],
         Lf(2, <<1, 3>>, TRUE), Lf(2, <<-2, 2>>, TRUE),
         [op |-> "add", a |-> 14, b |-> 15], [op |-> "add", a |-> 8, b |-> 16],
         [op |-> "lin", a |-> 17, mat |-> <<<<1, 1>>>>] >>
A == 1  Bb == 2  C == 3  T1 == 4  T2 == 5  Ee == 6  F == 7  L1 == 9  L2 == 11  Y == 12  G == 13
U1 == 14  U2 == 15  L3 == 18
AllLeaves == {1, 2, 3, 4, 5, 6, 14, 15}
GradLeaves == {1, 2, 3, 4, 5, 14, 15}

None == <<>>
Plus(g, u) == IF g = None THEN u ELSE VAdd(g, u)
NRowsOfT(ts) == SumSeq([i \in 1..Len(ts) |-> Sizes(P0)[ts[i]]])

\* backward(tensors, Constant(w), inputs): update of input l
BwdUpdate(tensors, w, l) == VecMat(w, TrueJacBlock(P0, tensors, l), P0[l].size)

\* mtl_backward(losses, feats, Constant(w), tparams, shared)
CutProg(feats) == [n \in 1..Len(P0) |-> IF n \in Range(feats)
                     THEN [op |-> "leaf", size |-> Sizes(P0)[n], val |-> Vals(P0)[n], rg |-> TRUE]
                     ELSE P0[n]]
DLossDFeat(feats, loss, f) == TrueJac(CutProg(feats), <<loss>>, <<f>>)[1]
RowBlock(feats, loss, s) ==
    LET RECURSIVE Acc(_)
        Acc(fs) == IF fs = <<>> THEN Zeros(P0[s].size)
                   ELSE VAdd(VecMat(DLossDFeat(feats, loss, Head(fs)), TrueJac(P0, <<Head(fs)>>, <<s>>), P0[s].size),
                             Acc(Tail(fs)))
    IN  Acc(feats)
MtlSharedUpdate(feats, losses, w, s) ==
    VecMat(w, [i \in 1..Len(losses) |-> RowBlock(feats, losses[i], s)], P0[s].size)
MtlTaskUpdate(losses, tparams, p) ==
    LET RECURSIVE Acc(_)
        Acc(i) == IF i = 0 THEN Zeros(P0[p].size)
                  ELSE IF p \in tparams[i] THEN VAdd(TrueJac(P0, <<losses[i]>>, <<p>>)[1], Acc(i - 1)) ELSE Acc(i - 1)
    IN  Acc(Len(losses))
=============================================================================
