CONSTANT MaxCalls = 3
CONSTANT Ks = {0}
CONSTANT SkelIds = {1}
CONSTANT AllPatterns = FALSE
CONSTANT FreeSets = {{}}
CONSTANT TrackHist = FALSE
CONSTANT SampleMod = 1
CONSTANT SamplePick = 0
SPECIFICATION TraceSpec
INVARIANT TraceConsumed
CHECK_DEADLOCK FALSE
