CONSTANT Shapes = {121, 212, 312, 221}
CONSTANT LeakMode = "full"
CONSTANT FKinds = {"id", "half"}
CONSTANT SampleMod = 4
CONSTANT SamplePick = 0
SPECIFICATION Spec
INVARIANT TypeOK
INVARIANT CoordIsDefinition
INVARIANT CoordInPair
INVARIANT PrefixRefines
INVARIANT NoLeakIsSignSum
INVARIANT FullLeakIsSum
INVARIANT PureColumn
INVARIANT RecallIsFresh
PROPERTY LeakImmutable
INVARIANT Export
CHECK_DEADLOCK FALSE
