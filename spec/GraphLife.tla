------------------------------ MODULE GraphLife ------------------------------
(***************************************************************************)
(* C13 - retain_graph means what it means in torch.autograd.               *)
(*                                                                         *)
(* State: which nodes of an autograd graph had their saved tensors freed.  *)
(* A differentiation SWEEP (roots, targets, retain) executes the nodes on  *)
(* a path root -> target; it FAILS iff an executed node saves tensors and  *)
(* was freed; if it succeeds and ~retain the executed nodes become freed   *)
(* (torch.autograd's engine - the environment; this model of it is         *)
(* re-measured against plain torch on every scenario: the twin).           *)
(*                                                                         *)
(* IMPLEMENTATION layer - the sweeps today's torchjd issues for one call:  *)
(*   B  torchjd.backward(tensors, inputs, k, retain)                       *)
(*        = the chunk sweeps of JacChunks!ImplPlan, all (tensors->inputs)  *)
(*   M  torchjd.mtl_backward(losses, features, tasks_params, shared, ..)   *)
(*        = one sweep per task (loss_i -> tasks_params_i + features) with  *)
(*          the caller's flag, then the chunk sweeps (features -> shared)   *)
(*   T  torch.autograd.backward(tensors, inputs, retain) = one sweep       *)
(* PROPERTY layer - C13: a call behaves, as far as the life of the graph   *)
(* is concerned, like ONE torch.autograd.backward sweep with the caller's  *)
(* flag over the same tensors and parameters (TwinSweep):                  *)
(*   (i)   it fails iff that sweep would fail - in particular never        *)
(*         because of its own earlier sweeps, for every chunk size;        *)
(*   (ii)  afterwards exactly the nodes that sweep frees are freed;        *)
(*   (iii) with retain_graph=True nothing is freed (so an identical second *)
(*         call meets the same graph and adds the same update).            *)
(* TLC checks Impl => Property for every history of <= MaxCalls calls on   *)
(* every shape of the family below.  A history ends at its first failing   *)
(* call (torch frees part of the graph before failing; not modelled).      *)
(*                                                                         *)
(* The family: skeletons (trunk / heads layouts) x which heads are         *)
(* PARAMETER-FREE (FreeSets: the loss of such a head is computed from the  *)
(* features alone, tasks_params[i] = [], in any position; its sweep        *)
(* loss_i -> features still executes - and may free - the head's nodes)    *)
(* x which ops save tensors (patterns).                                    *)
(* Skeletons 10-12 have heads with PARAMETER-ONLY BRANCHES: a sub-graph of *)
(* the head that lies on a path loss_i -> tasks_params_i but on no path    *)
(* loss_i -> features (a regulariser added to the loss: on a parameter of  *)
(* its own, on a parameter the data term uses too, one or two ops deep,    *)
(* reduced by sum, as the ONLY place where the head's parameters occur).   *)
(* The one sweep (loss_i -> tasks_params_i + features) executes - and with *)
(* retain_graph=False frees - such a branch together with the rest of the  *)
(* head, as the twin sweep does (ParamOnly, ParamOnlyBranchesFreed).       *)
(***************************************************************************)
EXTENDS Integers, Sequences, FiniteSets, TLC, Json

CONSTANTS MaxCalls,      \* length of the histories
          Ks,            \* parallel_chunk_size values, 0 = None
          SkelIds,       \* which skeletons of the family
          AllPatterns,   \* TRUE: every add/mul assignment; FALSE: four representative ones
          FreeSets,      \* sets of head positions made parameter-free (positions > #heads are ignored)
          TrackHist,     \* FALSE: the history is not part of the state (model check only)
          SampleMod, SamplePick

VARIABLES S,         \* the shape: graph + roles
          freed,     \* set of nodes whose saved tensors were freed (any executed node is recorded)
          hist,      \* completed calls: [call, outcome, freed (observable part)]
          ncalls,    \* number of completed calls
          stage,     \* "idle" | "run" | "dead"
          cur,       \* the running call
          plan,      \* its remaining sweeps (implementation layer)
          freed0,    \* `freed` when the running call started
          outcome    \* "ok" | "fail" of the running / last call

vars == <<S, freed, hist, ncalls, stage, cur, plan, freed0, outcome>>

Range(s) == {s[i] : i \in DOMAIN s}
RECURSIVE SumSeq(_)
SumSeq(s) == IF s = <<>> THEN 0 ELSE Head(s) + SumSeq(Tail(s))
Max(a, b) == IF a >= b THEN a ELSE b

\* the chunk plan of the Jac transform is the one exported by JacChunks (C07)
JC(mm, kk, rr) == INSTANCE JacChunks WITH MaxM <- 64, LargeM <- {}, m <- mm, k <- kk, retainCaller <- rr,
                     done <- {}, sweeps <- <<>>, assembled <- <<>>, status <- "running"
ChunkPlan(m, k, r) == JC(m, k, r)!ImplPlan

-----------------------------------------------------------------------------
(* Graphs.  Node i may only have children < i.  Kinds: acc (leaf requiring  *)
(* grad; sz scalars), add (saves nothing), mul (saves its operands), sum.   *)

A(sz)     == [k |-> "acc", c |-> <<>>, sz |-> sz]
O1(a)     == [k |-> "op",  c |-> <<a>>, sz |-> 0]
O2(a, b)  == [k |-> "op",  c |-> <<a, b>>, sz |-> 0]
Sm(a)     == [k |-> "sum", c |-> <<a>>, sz |-> 0]
F2(a, b)  == [k |-> "add", c |-> <<a, b>>, sz |-> 0]     \* an add in every pattern

Shape(g, feats, losses, taskp, shared) ==
    [g |-> g, feats |-> feats, losses |-> losses, taskp |-> taskp, shared |-> shared]

\* skeletons: "op" is resolved to add / mul by a pattern
Skel(id) ==
    CASE id = 1 ->   \* chain trunk, two heads
           Shape(<<A(1), A(1), A(1), O1(1), O1(4), O2(5, 2), O2(5, 3)>>, {5}, <<6, 7>>, <<{2}, {3}>>, {1})
      [] id = 2 ->   \* diamond trunk, one deep head and one shallow head
           Shape(<<A(1), A(1), A(1), O1(1), O2(4, 1), O2(5, 2), O1(6), O2(5, 3)>>, {5}, <<7, 8>>, <<{2}, {3}>>, {1})
      [] id = 3 ->   \* three heads
           Shape(<<A(1), A(1), A(1), A(1), O1(1), O2(5, 2), O2(5, 3), O2(5, 4)>>, {5}, <<6, 7, 8>>,
                 <<{2}, {3}, {4}>>, {1})
      [] id = 4 ->   \* vector parameter, non-scalar feature, losses reduced by sum
           Shape(<<A(3), A(1), A(1), O1(1), O2(4, 2), Sm(5), O2(4, 3), Sm(7)>>, {4}, <<6, 8>>, <<{2}, {3}>>, {1})
      [] id = 5 ->   \* two shared parameters, two features, each head uses one feature
           Shape(<<A(1), A(1), A(1), A(1), O1(1), O2(1, 2), O2(5, 3), O2(6, 4)>>, {5, 6}, <<7, 8>>,
                 <<{3}, {4}>>, {1, 2})
      [] id = 6 ->   \* single head on a deep chain
           Shape(<<A(1), A(1), O1(1), O1(3), O1(4), O2(5, 2)>>, {5}, <<6>>, <<{2}>>, {1})
      [] id = 7 ->   \* heads share a node: outside the universe of mtl_backward (B and T only)
           Shape(<<A(1), A(1), A(1), O1(1), O2(4, 2), O1(5), O2(5, 3)>>, {4}, <<6, 7>>, <<{2}, {3}>>, {1})
      [] id = 8 ->   \* a loss reaches the shared parameter around the feature: B and T only (R10)
           Shape(<<A(1), A(1), O1(1), O2(3, 2), O2(3, 1)>>, {3}, <<4, 5>>, <<{2}, {}>>, {1})
      [] id = 10 ->  \* vector parameter v used by the data term AND by the regulariser v*v, losses reduced by sum
           Shape(<<A(3), A(3), A(1), O1(1), O2(4, 2), O2(2, 2), O2(5, 6), Sm(7), O2(4, 3), Sm(9)>>, {4}, <<8, 10>>,
                 <<{2}, {3}>>, {1})
      [] id = 11 ->  \* head 1: data term computed from the feature alone, its only parameter sits on a regulariser
                     \* that is two ops deep; head 2 plain
           Shape(<<A(1), A(1), A(1), O1(1), O1(4), O1(2), O1(6), O2(5, 7), O2(4, 3)>>, {4}, <<8, 9>>,
                 <<{2}, {3}>>, {1})
      [] id = 12 ->  \* both heads regularised (vector parameter reduced by sum / two parameters of its own); the
                     \* nodes that join data term and regulariser are adds in every pattern
           Shape(<<A(1), A(1), A(3), A(1), A(1), A(1), O1(1), O2(7, 2), O1(3), Sm(9), F2(8, 10),
                   O2(7, 4), O2(5, 6), F2(12, 13)>>, {7}, <<11, 14>>, <<{2, 3}, {4, 5, 6}>>, {1})
      [] OTHER  ->   \* both heads use both features
           Shape(<<A(1), A(1), A(1), A(1), O1(1), O2(1, 2), O2(5, 6), O2(7, 3), O2(5, 6), O2(9, 4)>>, {5, 6},
                 <<8, 10>>, <<{3}, {4}>>, {1, 2})

OpNodes(g) == {i \in 1..Len(g) : g[i].k = "op"}
OpRank(g, i) == Cardinality({j \in OpNodes(g) : j < i})          \* 0-based rank among the op nodes
RECURSIVE Pow2(_)
Pow2(n) == IF n = 0 THEN 1 ELSE 2 * Pow2(n - 1)
Bit(p, j) == (p \div Pow2(j)) % 2

Resolve(sk, p) ==
    [sk EXCEPT !.g = [i \in 1..Len(sk.g) |->
                        IF sk.g[i].k = "op"
                        THEN [sk.g[i] EXCEPT !.k = IF Bit(p, OpRank(sk.g, i)) = 1 THEN "mul" ELSE "add"]
                        ELSE sk.g[i]]]

\* all patterns, or: nothing saves / everything saves / alternating (two phases)
PatternsOf(sk) ==
    LET n == Cardinality(OpNodes(sk.g)) IN
    IF AllPatterns THEN 0..(Pow2(n) - 1)
    ELSE {0, Pow2(n) - 1,
          SumSeq([j \in 1..n |-> IF j % 2 = 1 THEN Pow2(j - 1) ELSE 0]),
          SumSeq([j \in 1..n |-> IF j % 2 = 0 THEN Pow2(j - 1) ELSE 0])}

Nodes(sh)    == 1..Len(sh.g)
Kids(sh, n)  == Range(sh.g[n].c)
Saves(sh, n) == sh.g[n].k = "mul"
Accs(sh)     == {n \in Nodes(sh) : sh.g[n].k = "acc"}

RECURSIVE SizeOf(_, _)
SizeOf(sh, n) == CASE sh.g[n].k = "acc" -> sh.g[n].sz
                   [] sh.g[n].k = "sum" -> 1
                   [] OTHER -> LET c == sh.g[n].c IN
                               IF Len(c) = 1 THEN SizeOf(sh, c[1]) ELSE Max(SizeOf(sh, c[1]), SizeOf(sh, c[2]))
Rows(sh, R) == SumSeq([i \in 1..Len(sh.g) |-> IF i \in R THEN SizeOf(sh, i) ELSE 0])

\* nodes reachable from R (R included), optionally never entering X
Desc(sh, R, X) ==
    LET RECURSIVE D(_, _)
        D(front, seen) == IF front = {} THEN seen
                          ELSE LET nxt == (UNION {Kids(sh, n) : n \in front}) \ (seen \cup X)
                               IN  D(nxt, seen \cup nxt)
    IN  D(R \ X, R \ X)

-----------------------------------------------------------------------------
(* The engine: which nodes a sweep executes                                *)

\* a node is needed iff one of its children is a target or is itself needed; a target is a capture
\* point: the gradient is read at its input, the node itself runs only if something below is needed
RECURSIVE NeededUpTo(_, _, _)
NeededUpTo(sh, Tg, n) ==
    IF n = 0 THEN {}
    ELSE LET prev == NeededUpTo(sh, Tg, n - 1) IN
         IF \E c \in Kids(sh, n) : c \in Tg \/ c \in prev THEN prev \cup {n} ELSE prev
Needed(sh, Tg) == NeededUpTo(sh, Tg, Len(sh.g))

Exec(sh, sw)        == Desc(sh, sw.roots, {}) \cap Needed(sh, sw.targets)
SweepOK(sh, fr, sw) == \A n \in Exec(sh, sw) : ~(Saves(sh, n) /\ n \in fr)
After(sh, fr, sw)   == IF sw.retain THEN fr ELSE fr \cup Exec(sh, sw)

Sw(R, Tg, r) == [roots |-> R, targets |-> Tg, retain |-> r]

-----------------------------------------------------------------------------
(* Calls                                                                   *)

AllTaskP(sh)  == UNION Range(sh.taskp)
LossSet(sh)   == Range(sh.losses)
NL(sh)        == Len(sh.losses)

\* the universe of mtl_backward in C13: heads share no graph node besides the features, no loss
\* reaches the trunk around the features, parameters are where they are declared
HeadOf(sh, i) == Desc(sh, {sh.losses[i]}, sh.feats)
Trunk(sh)    == Desc(sh, sh.feats, {})
MtlOK(sh) == /\ \A i, j \in 1..NL(sh) : i # j => HeadOf(sh, i) \cap HeadOf(sh, j) = {}
             /\ \A i \in 1..NL(sh) : HeadOf(sh, i) \cap Trunk(sh) = {}
             /\ \A i \in 1..NL(sh) : sh.taskp[i] \subseteq HeadOf(sh, i) \cap Accs(sh)
             /\ sh.shared \subseteq Trunk(sh) \cap Accs(sh)
             /\ LossSet(sh) \cap sh.feats = {}
             \* the features are "the last shared representation": none is computed from another one
             \* (mtl_backward would count that path twice), and each is used by some loss
             /\ \A f1, f2 \in sh.feats : f1 # f2 => f2 \notin Desc(sh, {f1}, {})
             /\ sh.feats \subseteq Desc(sh, LossSet(sh), {})

\* ---- parameter-only branches.  ParamOnly(sh, i): the nodes of head i that a sweep from its loss executes on
\* the way to the head's own parameters but on NO way to the features (a regulariser added to the loss);
\* a sweep loss_i -> features alone never visits them.  ParamOnlySaving: those of them that save tensors
\* (the ones whose freed state is observable).
ParamOnly(sh, i)    == (HeadOf(sh, i) \cap Needed(sh, sh.taskp[i])) \ Needed(sh, sh.feats)
ParamOnlyAll(sh)    == UNION {ParamOnly(sh, i) : i \in 1..NL(sh)}
ParamOnlySaving(sh) == {n \in ParamOnlyAll(sh) : Saves(sh, n)}

\* ---- parameter-free heads.  StripHeads(sk, H): the heads at the positions H lose their own
\* parameters - every use of one of them is replaced by a use of the (first) feature the head is
\* computed from, so the head keeps its ops (and their saved tensors); the former parameters stay in
\* the graph as unused leaves; tasks_params of such a head is empty.
MinOf(X) == CHOOSE x \in X : \A y \in X : x <= y
StripHeads(sk, H) ==
    LET HH         == H \cap (1..Len(sk.losses))
        gone       == UNION {sk.taskp[i] : i \in HH}
        OwnerOf(p) == CHOOSE i \in HH : p \in sk.taskp[i]
        FeatOf(i)  == MinOf(sk.feats \cap Desc(sk, {sk.losses[i]}, {}))
        Sub(c)     == IF c \in gone THEN FeatOf(OwnerOf(c)) ELSE c
    IN  IF HH = {} THEN sk
        ELSE [sk EXCEPT !.g = [n \in 1..Len(sk.g) |->
                                 [sk.g[n] EXCEPT !.c = [j \in 1..Len(sk.g[n].c) |-> Sub(sk.g[n].c[j])]]],
                        !.taskp = [i \in 1..Len(sk.taskp) |-> IF i \in HH THEN {} ELSE sk.taskp[i]]]

FreeHeads(sh) == {i \in 1..NL(sh) : sh.taskp[i] = {}}

\* the family of shapes: skeleton x parameter-free heads x saving pattern.  A stripped skeleton is kept
\* only if mtl_backward can be called on it (the skeletons outside its universe exist for B and T)
Variants(id) == {sk \in {StripHeads(Skel(id), H) : H \in FreeSets} : sk = Skel(id) \/ MtlOK(sk)}
Shapes == UNION {UNION {{Resolve(sk, p) : p \in PatternsOf(sk)} : sk \in Variants(id)} : id \in SkelIds}

\* (roots, targets) pairs offered to backward / torch.autograd.backward
PairsB(sh) == { <<LossSet(sh), sh.shared \cup AllTaskP(sh)>>,
                <<LossSet(sh), sh.shared>>,
                <<{sh.losses[1]}, sh.taskp[1]>>,
                <<sh.feats, sh.shared>> }
PairsT(sh) == { <<LossSet(sh), sh.shared \cup AllTaskP(sh)>>,
                <<{sh.losses[NL(sh)]}, sh.taskp[NL(sh)]>>,
                <<sh.feats, sh.shared>> }
Call(fn, R, Tg, k, r) == [fn |-> fn, roots |-> R, targets |-> Tg, k |-> k, retain |-> r]

Calls(sh) ==
    {Call("B", p[1], p[2], k, r) : p \in {q \in PairsB(sh) : q[2] # {}}, k \in Ks, r \in BOOLEAN}
    \cup {Call("T", p[1], p[2], 0, r) : p \in {q \in PairsT(sh) : q[2] # {}}, r \in BOOLEAN}
    \cup (IF MtlOK(sh)
          THEN {Call("M", LossSet(sh), sh.shared \cup AllTaskP(sh), k, r) : k \in Ks, r \in BOOLEAN}
          ELSE {})

\* ---- implementation layer: the sweeps of one call
ChunkSweeps(sh, R, Tg, m, k, r) ==
    LET pl == ChunkPlan(m, k, r) IN [i \in 1..Len(pl) |-> Sw(R, Tg, pl[i].retain)]

PlanOf(sh, c) ==
    CASE c.fn = "T" -> << Sw(c.roots, c.targets, c.retain) >>
      [] c.fn = "B" -> ChunkSweeps(sh, c.roots, c.targets, Rows(sh, c.roots), c.k, c.retain)
      [] OTHER      -> [i \in 1..NL(sh) |-> Sw({sh.losses[i]}, sh.taskp[i] \cup sh.feats, c.retain)]
                       \o ChunkSweeps(sh, sh.feats, sh.shared, NL(sh), c.k, c.retain)

\* ---- property layer: the single torch.autograd.backward sweep the call must be equivalent to
TwinSweep(c) == Sw(c.roots, c.targets, c.retain)

PropOutcome(sh, fr, c) == IF SweepOK(sh, fr, TwinSweep(c)) THEN "ok" ELSE "fail"
PropFreed(sh, fr, c)   == After(sh, fr, TwinSweep(c))
Observable(sh, fr)     == {n \in fr : Saves(sh, n)}

-----------------------------------------------------------------------------
NoCall == Call("none", {}, {}, 0, FALSE)

Init == /\ S \in Shapes
        /\ freed = {} /\ hist = <<>> /\ ncalls = 0 /\ stage = "idle"
        /\ cur = NoCall /\ plan = <<>> /\ freed0 = {} /\ outcome = "ok"

StartCall == /\ stage = "idle" /\ ncalls < MaxCalls
             /\ \E c \in Calls(S) : cur' = c /\ plan' = PlanOf(S, c)
             /\ freed0' = freed /\ outcome' = "ok" /\ stage' = "run"
             /\ UNCHANGED <<S, freed, hist, ncalls>>

\* one sweep of the running call
DoSweep == /\ stage = "run" /\ plan # <<>> /\ outcome = "ok"
           /\ LET sw == Head(plan) IN
              IF SweepOK(S, freed, sw)
              THEN /\ freed' = After(S, freed, sw) /\ plan' = Tail(plan) /\ UNCHANGED outcome
              ELSE /\ outcome' = "fail" /\ plan' = <<>> /\ UNCHANGED freed
           /\ UNCHANGED <<S, hist, ncalls, stage, cur, freed0>>

EndCall == /\ stage = "run" /\ plan = <<>>
           /\ hist' = IF TrackHist
                      THEN Append(hist, [call |-> cur, outcome |-> outcome, freed |-> Observable(S, freed)])
                      ELSE hist
           /\ ncalls' = ncalls + 1
           /\ stage' = IF outcome = "ok" THEN "idle" ELSE "dead"
           /\ UNCHANGED <<S, freed, cur, plan, freed0, outcome>>

Next == StartCall \/ DoSweep \/ EndCall
Spec == Init /\ [][Next]_vars

-----------------------------------------------------------------------------
(* C13, checked when a call has run all its sweeps (or failed)              *)
Ended == stage = "run" /\ plan = <<>>

\* (i) + "fails or succeeds as it would there"
FailsIffTwinFails == Ended => outcome = PropOutcome(S, freed0, cur)
\* (i) spelled out: a call on a graph on which the twin sweep is fine never fails - whatever the chunk size
NoSelfInflictedFailure == (Ended /\ SweepOK(S, freed0, TwinSweep(cur))) => outcome = "ok"
\* (ii)
FreedAsTorch == (Ended /\ outcome = "ok") => freed = PropFreed(S, freed0, cur)
\* (iii)
RetainKeepsEverything == (Ended /\ outcome = "ok" /\ cur.retain) => freed = freed0
\* (ii) on the parameter-only branches of the heads: mtl_backward(retain_graph=False) leaves them freed, like
\* everything else the head's loss was computed with
ParamOnlyBranchesFreed == (Ended /\ outcome = "ok" /\ cur.fn = "M" /\ ~cur.retain) => ParamOnlyAll(S) \subseteq freed
\* while a call with retain_graph=False is running, only its LAST sweep may free anything
OnlyLastSweepFrees == (stage = "run" /\ plan # <<>> /\ outcome = "ok" /\ cur.fn = "B") => freed = freed0

TypeOK == /\ freed \subseteq Nodes(S) /\ stage \in {"idle", "run", "dead"}
          /\ ncalls <= MaxCalls /\ outcome \in {"ok", "fail"}

-----------------------------------------------------------------------------
(* Scenario export: maximal histories                                      *)
Maximal == TrackHist /\ ((stage = "idle" /\ ncalls = MaxCalls) \/ stage = "dead")

CallCode(c) == (CASE c.fn = "B" -> 1 [] c.fn = "M" -> 2 [] OTHER -> 3)
               + 5 * c.k + (IF c.retain THEN 17 ELSE 0)
               + 7 * SumSeq([i \in 1..Len(S.g) |-> IF i \in c.roots THEN i ELSE 0])
               + 13 * SumSeq([i \in 1..Len(S.g) |-> IF i \in c.targets THEN i * i ELSE 0])
ScnHash == SumSeq([i \in 1..Len(hist) |-> (2 * i + 1) * CallCode(hist[i].call)])
           + 3 * SumSeq([i \in 1..Len(S.g) |-> IF S.g[i].k = "mul" THEN i ELSE 0]) + Len(S.g)
           + 19 * SumSeq([i \in 1..NL(S) |-> IF i \in FreeHeads(S) THEN i ELSE 0])

Scenario == [graph |-> S.g, feats |-> S.feats, losses |-> S.losses, taskp |-> S.taskp, shared |-> S.shared,
             mtlok |-> MtlOK(S), saving |-> {n \in Nodes(S) : Saves(S, n)},
             ponly |-> IF MtlOK(S) THEN ParamOnlySaving(S) ELSE {}, hist |-> hist]
Export == (Maximal /\ (ScnHash % SampleMod) = SamplePick) => PrintT(<<"SCN", ToJson(Scenario)>>)
=============================================================================
