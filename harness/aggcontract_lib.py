"""Binding of spec/AggContract.tla to the real aggregators (property C11).

* ``make_agg(kind)``     aggregator instance for a kind record of the specification
* ``make_tensor(c, J)``  input tensor for an input class (``J`` = integer base matrix)
* ``observe(A, X)``      outcome / cause / shape / dtype / finiteness / input-unchanged of one call
* ``run_scenario(scn)``  executes one exported history on ONE instance and compares every call with
                         the expectation computed by TLC (contract, memo); returns failures + outputs
* ``homogeneity(...)``   A(2^e J0) * 2^-e against A(J0) with the derived allowance
* ``random_episode``     seeded random history on a real instance, logged for TraceAggContract
"""

from __future__ import annotations

import math
import random

import numpy as np
import torch

DT = {"f32": torch.float32, "f64": torch.float64}
DTN = {torch.float32: "f32", torch.float64: "f64"}
EPS = {"f32": float(torch.finfo(torch.float32).eps), "f64": float(torch.finfo(torch.float64).eps)}
SEEDVAL = {"s0": 1000, "s1": 2000, "det": 1000}

_CAT: dict = {}          # (m, n, var) -> info record exported by TLC ("CAT" line)
_SEED = 0                # VERIF_SEED, mixed into every torch.manual_seed


def configure(cat_list: list[dict] | None, seed: int) -> None:
    global _SEED
    _SEED = seed
    if cat_list is not None:
        _CAT.clear()
        for rec in cat_list:
            _CAT[(rec["dims"][0], rec["dims"][1], rec["var"])] = rec["info"]
    _FRESH.clear()
    _FRESH_OUTCOME.clear()


def seed_value(s: str) -> int:
    return SEEDVAL[s] + 7919 * _SEED


# ---------------------------------------------------------------------------------- construction
PARAM_AGGS = ("Constant", "UPGrad", "DualProj", "AlignedMTL", "ConFIG", "GradDrop")
MAX_PARAM_LEN = 5


def param_entry(agg: str, i: int) -> tuple[int, int]:
    """Entry i (1-based) of the constant parameter vector: ParamEntry of AggContract.tla (the table
    exported by TLC is compared with this function by ``check_param_table``)."""
    if agg == "Constant":
        return ((1 if i % 2 == 1 else -1) * (i + 1), 7)
    if agg == "GradDrop":
        return (i, 7)
    return (3 * i - 2, 11)


def param_tensor(agg: str, a: int, dt: torch.dtype) -> torch.Tensor:
    """The exact rationals rounded (once) to float64, then to the parameter's dtype."""
    return torch.tensor([n / d for n, d in (param_entry(agg, i) for i in range(1, a + 1))],
                        dtype=torch.float64).to(dt)


def check_param_table(par: dict | None, scenarios: list[dict]) -> list[str]:
    """Model and binding must agree on the parameter vectors, and no entry of a float64 parameter may
    survive a round trip through float32 (else a mixed-dtype history could not tell a parameter
    from a representation of it derived for the other dtype)."""
    bad = []
    if not par or sorted(par) != sorted(PARAM_AGGS):
        return [f"parameter table of the model missing / other classes: {sorted(par or {})}"]
    for agg in PARAM_AGGS:
        want = [list(param_entry(agg, i)) for i in range(1, MAX_PARAM_LEN + 1)]
        if [list(q) for q in par[agg]] != want:
            bad.append(f"{agg}: model {par[agg]} != binding {want}")
        p64 = param_tensor(agg, MAX_PARAM_LEN, torch.float64)
        if bool((p64.float().double() == p64).any()):
            bad.append(f"{agg}: a parameter entry is representable in float32: {p64.tolist()}")
    for scn in scenarios:
        k = scn["kind"]
        want = [list(param_entry(k["agg"], i)) for i in range(1, k["a"] + 1)] \
            if k["agg"] in PARAM_AGGS and k["pdt"] != "any" else []
        if [list(q) for q in scn["param"]] != want:
            bad.append(f"{k['name']}: exported parameter {scn['param']} != binding {want}")
            break
    return bad


def make_agg(kind: dict):
    from torchjd.aggregation import (MGDA, AlignedMTL, CAGrad, ConFIG, Constant, DualProj, GradDrop, IMTLG,
                                     Krum, Mean, PCGrad, Random, Sum, TrimmedMean, UPGrad)
    agg, a, b = kind["agg"], kind["a"], kind["b"]
    dt = DT.get(kind["pdt"], torch.float64)
    pref = param_tensor(agg, a, dt) if a > 0 and agg in PARAM_AGGS else None
    if agg == "Mean":
        return Mean()
    if agg == "Sum":
        return Sum()
    if agg == "MGDA":
        return MGDA()
    if agg == "PCGrad":
        return PCGrad()
    if agg == "CAGrad":
        return CAGrad(c=0.5)
    if agg == "IMTLG":
        return IMTLG()
    if agg == "Random":
        return Random()
    if agg == "UPGrad":
        return UPGrad(pref_vector=pref)
    if agg == "DualProj":
        return DualProj(pref_vector=pref)
    if agg == "AlignedMTL":
        return AlignedMTL(pref_vector=pref)
    if agg == "ConFIG":
        return ConFIG(pref_vector=pref)
    if agg == "Constant":
        return Constant(pref)
    if agg == "GradDrop":
        return GradDrop(leak=pref) if a > 0 else GradDrop()
    if agg == "TrimmedMean":
        return TrimmedMean(a)
    if agg == "Krum":
        return Krum(n_byzantine=a, n_selected=b)
    raise KeyError(agg)


def base_matrix(c: dict) -> list[list[int]]:
    if "J" in c:                                   # random (non catalogued) class of the C->S driver
        return c["J"]
    return _CAT[(c["dims"][0], c["dims"][1], c["var"])]["J"]


def make_tensor(c: dict) -> torch.Tensor:
    dt = DT[c["dtype"]]
    dims = c["dims"]
    if len(dims) == 0:
        x = torch.tensor(1.5, dtype=torch.float64)
    elif len(dims) == 1:
        x = torch.tensor([1.0, -2.0, 2.0, -1.0, 3.0, 0.5][:dims[0]], dtype=torch.float64)
    elif len(dims) == 2:
        x = torch.tensor(base_matrix(c), dtype=torch.float64).reshape(dims[0], dims[1])
    else:
        n = int(np.prod(dims))
        x = (torch.arange(n, dtype=torch.float64) - 3.0).reshape(*dims)
    x = torch.ldexp(x, torch.tensor(c["e"]))        # exact power-of-two scaling
    x = x.to(dt)
    if c["content"] != "finite":
        bad = {"nan": float("nan"), "pinf": float("inf"), "ninf": float("-inf")}[c["content"]]
        flat = x.reshape(-1)
        if flat.numel():
            flat[0 if c["pos"] == "first" else -1] = bad
    return x.contiguous()


# ---------------------------------------------------------------------------------- observation
def _bits(x: torch.Tensor) -> torch.Tensor:
    return x.detach().contiguous().view(torch.int32 if x.dtype == torch.float32 else torch.int64)


def _cause(msg: str) -> str:
    if "dimension 2" in msg:
        return "matrix"
    if "finite" in msg:
        return "finite"
    if "rows" in msg:
        return "rows"
    return "unknown"


def observe(A, X: torch.Tensor) -> tuple[dict, torch.Tensor | None]:
    snap = _bits(X).clone()
    shape0, dtype0, ver0 = tuple(X.shape), X.dtype, X._version
    out = None
    obs = {"outcome": "vector", "cause": "-", "n": -1, "dtype": "-", "finite": False, "mutated": False,
           "eqfresh": "na"}
    try:
        out = A(X)
    except ValueError as ex:
        obs["outcome"], obs["cause"] = "ValueError", _cause(str(ex))
    except Exception as ex:                                   # noqa: BLE001
        obs["outcome"], obs["cause"] = type(ex).__name__, "-"
    else:
        if not isinstance(out, torch.Tensor):
            obs["outcome"] = "not_a_tensor"
            out = None
        elif out.dim() != 1:
            obs["outcome"] = f"tensor_{out.dim()}d"
            out = None
        else:
            obs["n"] = int(out.shape[0])
            obs["dtype"] = DTN.get(out.dtype, str(out.dtype))
            obs["finite"] = bool(out.isfinite().all())
    obs["mutated"] = bool(tuple(X.shape) != shape0 or X.dtype != dtype0 or X._version != ver0
                          or not torch.equal(_bits(X), snap))
    return obs, (out.detach().clone() if out is not None else None)


# ---------------------------------------------------------------------------------- memo oracle
_FRESH: dict = {}
_FRESH_OUTCOME: dict = {}


def _ckey(kind: dict, c: dict) -> tuple:
    return (kind["name"], kind["agg"], kind["a"], kind["b"], kind["pdt"], tuple(c["dims"]), c["var"],
            c["content"], c["pos"], c["dtype"], c["e"], str(c.get("J")))


def fresh_results(kind: dict, c: dict, seed: str, stream: list | None = None, repeats: int = 3):
    """Results of ``repeats`` history-free calls: a new instance each time, the global RNG seeded
    with ``seed`` and advanced by the draw requests of ``stream`` (abstract stream position)."""
    key = (_ckey(kind, c), seed, str(stream))
    if key in _FRESH:
        return _FRESH[key]
    outs, outcomes = [], []
    for _ in range(repeats):
        torch.manual_seed(seed_value(seed))
        for req in stream or []:
            op, n, dt = req
            if op == "randperm":
                torch.randperm(n)
            elif op == "rand":
                torch.rand(n, dtype=DT[dt])
            elif op == "randn":
                torch.randn(n, dtype=DT[dt])
        A = make_agg(kind)
        obs, out = observe(A, make_tensor(c))
        outs.append(out)
        outcomes.append(obs["outcome"])
    _FRESH[key] = outs
    _FRESH_OUTCOME[key] = outcomes
    return outs


def fresh_outcomes(kind: dict, c: dict, seed: str, stream: list | None = None) -> list[str]:
    fresh_results(kind, c, seed, stream)
    return _FRESH_OUTCOME[(_ckey(kind, c), seed, str(stream))]


def within_spread(out: torch.Tensor, fresh: list, dtype: str) -> bool:
    """``out`` lies within the spread of the history-free repeats (+ 4 eps): bit-for-bit whenever the
    repeats agree among themselves, yet a solver that is not bit-reproducible cannot raise an alarm."""
    if any(f is None or f.shape != out.shape for f in fresh):
        return False
    st = torch.stack([f.double() for f in fresh])
    lo, hi = st.min(dim=0).values, st.max(dim=0).values
    o = out.double()
    tol = 4 * EPS[dtype] * torch.maximum(lo.abs(), hi.abs())
    if not bool(torch.isfinite(o).all()):
        return bool(torch.equal(torch.isfinite(o), torch.isfinite(lo)))
    return bool(((o >= lo - tol) & (o <= hi + tol)).all())


def same_as_fresh(kind: dict, c: dict, seed: str, stream: list | None, obs: dict, out) -> tuple[bool, list]:
    """Does this call do what history-free repeats (fresh instance, same seed, same stream position)
    do: the same outcome class; for a vector the same dtype and a value within their spread."""
    fresh = fresh_results(kind, c, seed, stream)
    outcomes = fresh_outcomes(kind, c, seed, stream)
    if out is None:
        return all(o == obs["outcome"] for o in outcomes), outcomes
    if any(f is None or f.dtype != out.dtype for f in fresh):
        return False, [o if f is None else f"vector[{DTN.get(f.dtype, f.dtype)}]" for o, f in zip(outcomes, fresh)]
    return within_spread(out, fresh, c["dtype"]), [f.tolist() for f in fresh][:1]


# ---------------------------------------------------------------------------------- S -> C replay
def class_text(c: dict) -> str:
    d = "x".join(map(str, c["dims"])) or "0-d"
    return f"{d}/{c['var']}/{c['content']}/{c['dtype']}/2^{c['e']}"


def judge(kind: dict, st: dict, obs: dict) -> str | None:
    """Clause of the contract exported by TLC that the observation violates (None = conforms)."""
    want = st["expect"]
    if obs["mutated"]:
        return "input_modified"
    if want == "ValueError":
        return None if obs["outcome"] == "ValueError" else "not_rejected_with_ValueError"
    if want == "unspecified":
        return None
    if obs["outcome"] != "vector":
        return "finite_admissible_matrix_not_mapped_to_a_vector"
    if obs["n"] != st["n"]:
        return "one_entry_per_column"
    if obs["dtype"] != st["c"]["dtype"]:
        return "dtype_of_the_input"
    if not obs["finite"]:
        return "result_not_finite"
    return None


def run_scenario(scn: dict) -> dict:
    """Executes one exported history on one real instance."""
    kind = scn["kind"]
    res = {"fails": [], "drift": [], "calls": 0, "memo_checked": 0, "memo_xdt": 0, "out": None, "weights": None,
           "obs": []}
    torch.manual_seed(seed_value("s0"))
    try:
        A = make_agg(kind)
    except Exception as ex:                                       # noqa: BLE001
        res["fails"].append({"at": 0, "clause": "constructor_raised", "detail": f"{type(ex).__name__}: {ex}"})
        return res
    for i, st in enumerate(scn["steps"], 1):
        if st["op"] == "seed":
            torch.manual_seed(seed_value(st["s"]))
            continue
        c = st["c"]
        X = make_tensor(c)
        obs, out = observe(A, X)
        res["calls"] += 1
        res["obs"].append(obs)
        clause = judge(kind, st, obs)
        if clause:
            res["fails"].append({"at": i, "clause": clause, "class": class_text(c), "want": st["expect"],
                                 "got": obs["outcome"] + (":" + obs["cause"] if obs["cause"] != "-" else ""),
                                 "obs": obs})
            continue
        if st["expect"] == "ValueError" and st["impl"] != "VE_" + obs["cause"] and obs["cause"] != "unknown":
            res["drift"].append(f"order of checks: model says {st['impl']}, code raised for '{obs['cause']}'")
        if st.get("cross"):
            seen = "vector" if obs["outcome"] == "vector" else "Err_other"
            if st["impl"] != seen:
                res["drift"].append(f"matrix dtype != parameter dtype: model says {st['impl']}, code did {obs['outcome']}")
        if st["expect"] == "vector" and out is None:
            continue
        if st["expect"] in ("vector", "unspecified"):
            # "its result does not depend on earlier calls": also where the statement leaves the outcome
            # open (exception class, or dtype and bits of the vector)
            rng = st["rng"]
            if st["memo"] == "property":
                same, fresh = same_as_fresh(kind, c, rng["seed"], None, obs, out)
                res["memo_checked"] += 1
                if st.get("xdt") and st["expect"] == "vector":
                    res["memo_xdt"] += 1
                if not same:
                    res["fails"].append({"at": i, "clause": "depends_on_history_or_not_reproducible",
                                         "class": class_text(c), "want": "the result of a fresh instance "
                                         f"after the same seed: {fresh}",
                                         "got": out.tolist() if out is not None else obs["outcome"], "obs": obs})
            else:
                same, _ = same_as_fresh(kind, c, rng["seed"], rng["stream"], obs, out)
                if not same:
                    res["drift"].append("stream position: result differs from a fresh instance after replaying "
                                        "the model's draw requests (draw accounting of the implementation layer)")
            if scn["mode"] == "single" and st["expect"] == "vector":
                res["out"] = out.double().tolist()
    return res


def weight_factor(kind: dict, c: dict) -> tuple[float, list[float]]:
    """(|w|_inf, |w|_1) of the weights the code itself uses on the reference input (e = 0)."""
    A = make_agg(kind)
    if not hasattr(A, "weighting") or kind["agg"] == "ConFIG":
        return 1.0, 1.0
    torch.manual_seed(seed_value("s0"))
    w = A.weighting(make_tensor(c)).double()
    return float(w.abs().max()), float(w.abs().sum())


def hom_allowance(kind: dict, c: dict, K: int) -> tuple[list[float], str]:
    """Per-coordinate allowance for |A(2^e J0) 2^-e - A(J0)|, J0 the integer base matrix.

    64 * eps(dtype) * K * W * colsum_j  with colsum_j = sum_i |J0_ij| (a bound on |A_j| / |w|_inf),
    W from the code's own weights, K the amplification exported by the model:
      exact kinds (linear combinations / selections / sequential projections / Frank-Wolfe on an
        exactly scaled Gramian): K = 1, W = max(1, |w|_inf);
      UPGrad, DualProj: the QP min v'(G/s^2 + reg I)v, v >= u is a projection in the norm of a matrix of
        condition <= (1 + reg)/reg = 10001: a relative perturbation eps of the normalised Gramian
        moves v by <= 10001 * eps * |v|;
      IMTLG: v = G^-1 d moves by cond(G) eps |v|, w = v / sum(v) by cond(G) eps |w|_1 (1 + |w|_1);
      AlignedMTL: B = sigma_min * Gram^(-1/2), |B| = 1, moves by cond(G) eps; alpha = B w;
      ConFIG: min-norm solution of U x = u (unit rows), moves by cond(U)^2 eps at most; |A| <= sum |g_i|;
      CAGrad: conic solver with tolerances 1e-8 on a matrix square root: predicate level
        (max(1e-6, 64 sqrt(eps))).
    """
    J = np.array(base_matrix(c), dtype=float)
    eps = EPS[c["dtype"]]
    col = np.abs(J).sum(axis=0)
    winf, w1 = weight_factor(kind, c)
    agg = kind["agg"]
    if agg == "CAGrad":
        return list(max(1e-6, 64 * math.sqrt(eps)) * max(1.0, winf) * col), "predicate"
    if agg == "ConFIG":
        tot = float(np.linalg.norm(J, axis=1).sum())
        return [64 * eps * K * tot] * J.shape[1], "derived"
    if agg == "IMTLG":
        W = max(1.0, w1 * (1 + w1))
    else:
        W = max(1.0, winf)
    return list(64 * eps * K * W * col), "derived"


def check_catalogue_bounds() -> list[str]:
    """The model's integer bounds on the squared condition numbers must hold for the exported integer
    matrices (float64 SVD given the exact rank) and must be consistent with the exact invariants."""
    bad = []
    for (m, n, var), info in _CAT.items():
        J = np.array(info["J"], dtype=float)
        r = info["rank"]
        if r == 0:
            if np.any(J != 0):
                bad.append(f"{m}x{n}/{var}: rank 0 but non-zero")
            continue
        s = np.linalg.svd(J, compute_uv=False)
        if np.linalg.matrix_rank(J) != r:
            bad.append(f"{m}x{n}/{var}: float rank differs from the model's exact rank {r}")
        k2 = (s[0] / s[r - 1]) ** 2
        exact_bound = info["tr"] ** r / info["er"]            # lambda_1^(r) / prod(lambda) >= lambda_1/lambda_r
        if not (k2 <= info["kap2"] and k2 <= exact_bound * (1 + 1e-9)):
            bad.append(f"{m}x{n}/{var}: cond(G)={k2:.3f} exceeds model bound {info['kap2']} / exact {exact_bound:.1f}")
        nz = [i for i in range(m) if np.any(J[i] != 0)]
        U = J[nz] / np.linalg.norm(J[nz], axis=1, keepdims=True)
        su = np.linalg.svd(U, compute_uv=False)
        ku2 = (su[0] / su[r - 1]) ** 2
        if not ku2 <= info["kapu2"]:
            bad.append(f"{m}x{n}/{var}: cond(U)^2={ku2:.3f} exceeds model bound {info['kapu2']}")
        if abs(np.trace(J @ J.T) - info["tr"]) > 0 or int(round((J * J).sum(axis=1).max())) != info["maxdiag"]:
            bad.append(f"{m}x{n}/{var}: trace / diagonal mismatch")
    return bad


# ---------------------------------------------------------------------------------- C -> S driver
def random_kind(rng: random.Random) -> dict:
    agg = rng.choice(["Mean", "Sum", "MGDA", "PCGrad", "CAGrad", "IMTLG", "UPGrad", "DualProj", "AlignedMTL",
                      "ConFIG", "GradDrop", "Random", "Constant", "TrimmedMean", "Krum", "UPGrad", "DualProj",
                      "AlignedMTL", "ConFIG", "GradDrop", "PCGrad", "Random"])
    a = b = 0
    pdt = "any"
    if agg == "Constant":
        a, pdt = rng.randint(1, 5), rng.choice(["f32", "f64"])
    elif agg in ("UPGrad", "DualProj", "AlignedMTL", "ConFIG", "GradDrop") and rng.random() < 0.5:
        a, pdt = rng.randint(1, 5), rng.choice(["f32", "f64"])
    elif agg == "TrimmedMean":
        a = rng.randint(0, 2)
    elif agg == "Krum":
        a, b = rng.randint(0, 2), rng.randint(1, 4)
    return {"name": f"{agg}({a},{b},{pdt})", "agg": agg, "a": a, "b": b, "pdt": pdt}


def random_class(rng: random.Random, kind: dict, prev: list[dict]) -> dict:
    # a kind with a parameter vector mostly sees its parameter's dtype, yet also the other one
    if kind["pdt"] == "any":
        dtype = rng.choice(["f32", "f64"])
    else:
        dtype = kind["pdt"] if rng.random() < 0.6 else ("f32" if kind["pdt"] == "f64" else "f64")
    if prev and rng.random() < 0.25:                 # repeat an earlier input (memo), possibly re-typed
        c = dict(rng.choice(prev))
        if rng.random() < 0.3:
            c["dtype"] = dtype
            lo, hi = (-39, 48) if dtype == "f32" else (-332, 331)
            c["e"] = min(max(c["e"], lo), hi)
        return c
    lo, hi = (-39, 48) if dtype == "f32" else (-332, 331)
    e = rng.choice([0, 0, rng.randint(lo, hi), rng.randint(-14, 14), lo, hi])
    r = rng.random()
    if r < 0.12:
        dims = rng.choice([[], [rng.randint(1, 5)], [2, 2, 2], [1, 3, 2]])
        return {"dims": dims, "var": "na", "content": "finite", "pos": "first", "dtype": dtype, "e": 0}
    m = kind["a"] if kind["a"] > 0 and kind["agg"] not in ("TrimmedMean", "Krum") and rng.random() < 0.7 \
        else rng.randint(1, 6)
    n = rng.randint(1, 6)
    J = [[rng.randint(-2, 2) for _ in range(n)] for _ in range(m)]
    v = rng.random()
    if v < 0.15 and m >= 2:
        J[rng.randrange(1, m)] = list(J[0])
    if v > 0.85:
        J[rng.randrange(m)] = [0] * n
    if 0.5 < v < 0.55:
        J = [[0] * n for _ in range(m)]
    content = "finite" if rng.random() < 0.8 else rng.choice(["nan", "pinf", "ninf"])
    return {"dims": [m, n], "var": "rand", "content": content, "pos": rng.choice(["first", "last"]),
            "dtype": dtype, "e": e, "J": J}


def random_episode(ep: int, seed: int) -> dict:
    """One random history on one real instance; every call is observed and compared with a fresh
    instance called right after the last seed (``eqfresh``) - whether that comparison is demanded is
    decided by the trace specification, which tracks the RNG stream."""
    rng = random.Random(seed * 1_000_003 + ep)
    kind = random_kind(rng)
    steps = []
    last_seed = "s0"
    torch.manual_seed(seed_value("s0"))
    A = make_agg(kind)
    prev: list[dict] = []
    dummy_c = {"dims": [], "var": "na", "content": "finite", "pos": "first", "dtype": "f64", "e": 0}
    dummy_o = {"outcome": "-", "cause": "-", "n": -1, "dtype": "-", "finite": False, "mutated": False, "eqfresh": "na"}
    for _ in range(rng.randint(1, 6)):
        if rng.random() < 0.3:
            last_seed = rng.choice(["s0", "s1"])
            torch.manual_seed(seed_value(last_seed))
            steps.append({"op": "seed", "s": last_seed, "c": dummy_c, "obs": dummy_o})
            continue
        c = random_class(rng, kind, prev)
        prev.append(c)
        state = torch.get_rng_state()
        obs, out = observe(A, make_tensor(c))
        after = torch.get_rng_state()
        if obs["outcome"] != "ValueError":
            same, _ = same_as_fresh(kind, c, last_seed, None, obs, out)
            obs["eqfresh"] = "yes" if same else "no"
            torch.set_rng_state(after)
        cj = {k: v for k, v in c.items() if k != "J"}
        steps.append({"op": "call", "s": "-", "c": cj, "obs": obs, "J": c.get("J"), "e": c["e"]})
    return {"ep": ep, "kind": kind, "steps": steps}
