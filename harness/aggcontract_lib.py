"""Binding of spec/AggContract.tla to the real aggregators (property C11).

* ``make_agg(kind)``     aggregator instance for a kind record of the specification
* ``make_tensor(c, J)``  input tensor for an input class (``J`` = integer base matrix)
* ``observe(A, X)``      outcome / cause / shape / dtype / finiteness / input-unchanged of one call
* ``run_scenario(scn)``  executes one exported history on ONE instance and compares every call with
                         the expectation computed by TLC (contract, memo); returns failures + outputs
* ``Presenter``          the ways a history hands a matrix to the instance: a new tensor, THE SAME
                         tensor object rewritten in place, a short-lived temporary, a new tensor
                         object over the same external memory
* ``isolated_map``       runs every item in a NEW process forked from a process in which no
                         aggregator has ever run; ``compute_references`` obtains the history-free
                         results that way (one process per reference), so that state shared by the
                         instances of a process cannot reach the reference
* ``homogeneity(...)``   A(2^e J0) * 2^-e against A(J0) with the derived allowance
* ``random_episode``     seeded random history on a real instance, logged for TraceAggContract
"""

from __future__ import annotations

import math
import multiprocessing as mp
import os
import pickle
import random
import traceback

import numpy as np
import torch

DT = {"f32": torch.float32, "f64": torch.float64, "bf16": torch.bfloat16, "f16": torch.float16}
DTN = {v: k for k, v in DT.items()}
EPS = {k: float(torch.finfo(v).eps) for k, v in DT.items()}
NPDT = {"f32": np.float32, "f64": np.float64}
SEEDVAL = {"s0": 1000, "s1": 2000, "det": 1000}

_CAT: dict = {}          # (m, n, var) -> info record exported by TLC ("CAT" line)
_SEED = 0                # VERIF_SEED, mixed into every torch.manual_seed


_CAT_LIST: list = []     # the catalogue as exported (handed to the isolated processes)


def configure(cat_list: list[dict] | None, seed: int) -> None:
    global _SEED
    _SEED = seed
    if cat_list is not None:
        _CAT.clear()
        _CAT_LIST[:] = cat_list
        for rec in cat_list:
            _CAT[(rec["dims"][0], rec["dims"][1], rec["var"])] = rec["info"]
    _FRESH.clear()
    _FRESH_OUTCOME.clear()
    _REF.clear()
    import torchjd.aggregation  # noqa: F401  (imported once, before any process is forked)


def seed_value(s: str) -> int:
    return SEEDVAL[s] + 7919 * _SEED


# ---------------------------------------------------------------------------------- construction
PARAM_AGGS = ("Constant", "UPGrad", "DualProj", "AlignedMTL", "ConFIG", "GradDrop")
MAX_PARAM_LEN = 5


# scalar constructor parameters of the kinds with alt = 1 (AltScalars of AggContract.tla)
ALT_SCALARS = {"reg_eps": (1, 4), "norm_eps": (1, 100), "cagrad_c": (1, 4), "mgda_epsilon": (1, 10),
               "mgda_max_iters": 3}


# kinds with alt = 2 / 3 (EpsScalars of AggContract.tla): NON-DEFAULT norm_eps # reg_eps, both orders, powers of two
EPS_SCALARS = {2: {"norm_eps_exp": -27, "reg_eps_exp": -10, "cagrad_c": (1, 4)},
               3: {"norm_eps_exp": -7, "reg_eps_exp": -13, "cagrad_c": (1, 4)}}


def check_eps_table(epsk: dict | None) -> list[str]:
    """Model and binding must agree on the (norm_eps, reg_eps) pairs of the alt = 2 / 3 kinds, and the two
    thresholds of a pair must differ (both orders present)."""
    got = {int(k): {q: (list(v) if isinstance(v, (list, tuple)) else v) for q, v in rec.items()}
           for k, rec in (epsk or {}).items()}
    want = {k: {q: (list(v) if isinstance(v, tuple) else v) for q, v in rec.items()} for k, rec in EPS_SCALARS.items()}
    bad = [] if got == want else [f"(norm_eps, reg_eps) pairs: model {epsk} != binding {want}"]
    orders = {(r["norm_eps_exp"] < r["reg_eps_exp"]) for r in EPS_SCALARS.values() if r["norm_eps_exp"] != r["reg_eps_exp"]}
    if orders != {True, False}:
        bad.append("the non-default (norm_eps, reg_eps) pairs do not come in both orders")
    return bad


def param_entry(agg: str, i: int, alt: int = 0) -> tuple[int, int]:
    """Entry i (1-based) of the constant parameter vector: ParamEntry of AggContract.tla (the tables
    exported by TLC are compared with this function by ``check_param_table``)."""
    if alt == 0:
        if agg == "Constant":
            return ((1 if i % 2 == 1 else -1) * (i + 1), 7)
        if agg == "GradDrop":
            return (i, 7)
        return (3 * i - 2, 11)
    if agg == "Constant":
        return ((-1 if i % 2 == 1 else 1) * (i + 2), 13)
    if agg == "GradDrop":
        return (6 - i, 13)
    return (12 - 2 * i, 13)


def param_tensor(agg: str, a: int, dt: torch.dtype, alt: int = 0) -> torch.Tensor:
    """The exact rationals rounded (once) to float64, then to the parameter's dtype."""
    return torch.tensor([n / d for n, d in (param_entry(agg, i, alt) for i in range(1, a + 1))],
                        dtype=torch.float64).to(dt)


def check_param_table(par: dict | None, paralt: dict | None, alt_scalars: dict | None,
                      scenarios: list[dict]) -> list[str]:
    """Model and binding must agree on the parameter vectors and the alternate scalars, and no entry of a
    float64 parameter may survive a round trip through float32 (else a mixed-dtype history could not
    tell a parameter from a representation of it derived for the other dtype)."""
    bad = []
    for alt, table in ((0, par), (1, paralt)):
        if not table or sorted(table) != sorted(PARAM_AGGS):
            return [f"parameter table (alt={alt}) of the model missing / other classes: {sorted(table or {})}"]
        for agg in PARAM_AGGS:
            want = [list(param_entry(agg, i, alt)) for i in range(1, MAX_PARAM_LEN + 1)]
            if [list(q) for q in table[agg]] != want:
                bad.append(f"{agg} (alt={alt}): model {table[agg]} != binding {want}")
            p64 = param_tensor(agg, MAX_PARAM_LEN, torch.float64, alt)
            if bool((p64.float().double() == p64).any()):
                bad.append(f"{agg}: a parameter entry is representable in float32: {p64.tolist()}")
    want = {k: (list(v) if isinstance(v, tuple) else v) for k, v in ALT_SCALARS.items()}
    if {k: (list(v) if isinstance(v, (list, tuple)) else v) for k, v in (alt_scalars or {}).items()} != want:
        bad.append(f"alternate scalar parameters: model {alt_scalars} != binding {want}")
    seen = set()
    for scn in scenarios:
        for k, got in [(scn["kind"], scn["param"])] + [(st["k"], st["param"]) for st in scn["steps"] if st["op"] == "other"]:
            if k["name"] in seen:
                continue
            seen.add(k["name"])
            want = [list(param_entry(k["agg"], i, k["alt"])) for i in range(1, k["a"] + 1)] \
                if k["agg"] in PARAM_AGGS and k["pdt"] != "any" else []
            if [list(q) for q in got] != want:
                bad.append(f"{k['name']}: exported parameter {got} != binding {want}")
    return bad


def make_agg(kind: dict):
    from torchjd.aggregation import (MGDA, AlignedMTL, CAGrad, ConFIG, Constant, DualProj, GradDrop, IMTLG,
                                     Krum, Mean, PCGrad, Random, Sum, TrimmedMean, UPGrad)
    agg, a, b = kind["agg"], kind["a"], kind["b"]
    alt = kind.get("alt", 0)
    dt = DT.get(kind["pdt"], torch.float64)
    pref = param_tensor(agg, a, dt, alt) if a > 0 and agg in PARAM_AGGS else None
    q = {k: (v[0] / v[1] if isinstance(v, tuple) else v) for k, v in ALT_SCALARS.items()}
    if alt in EPS_SCALARS:                          # keyword arguments: what the documentation names
        es = EPS_SCALARS[alt]
        ne, re_ = math.ldexp(1.0, es["norm_eps_exp"]), math.ldexp(1.0, es["reg_eps_exp"])
        if agg == "UPGrad":
            return UPGrad(pref_vector=pref, norm_eps=ne, reg_eps=re_)
        if agg == "DualProj":
            return DualProj(pref_vector=pref, norm_eps=ne, reg_eps=re_)
        if agg == "CAGrad":
            return CAGrad(c=es["cagrad_c"][0] / es["cagrad_c"][1], norm_eps=ne)
        raise KeyError(f"{agg} has no (norm_eps, reg_eps)")
    if agg == "Mean":
        return Mean()
    if agg == "Sum":
        return Sum()
    if agg == "MGDA":
        return MGDA(epsilon=q["mgda_epsilon"], max_iters=q["mgda_max_iters"]) if alt else MGDA()
    if agg == "PCGrad":
        return PCGrad()
    if agg == "CAGrad":
        return CAGrad(c=q["cagrad_c"], norm_eps=q["norm_eps"]) if alt else CAGrad(c=0.5)
    if agg == "IMTLG":
        return IMTLG()
    if agg == "Random":
        return Random()
    if agg == "UPGrad":
        return UPGrad(pref_vector=pref, norm_eps=q["norm_eps"], reg_eps=q["reg_eps"]) if alt \
            else UPGrad(pref_vector=pref)
    if agg == "DualProj":
        return DualProj(pref_vector=pref, norm_eps=q["norm_eps"], reg_eps=q["reg_eps"]) if alt \
            else DualProj(pref_vector=pref)
    if agg == "AlignedMTL":
        return AlignedMTL(pref_vector=pref)
    if agg == "ConFIG":
        return ConFIG(pref_vector=pref)
    if agg == "Constant":
        return Constant(pref)
    if agg == "GradDrop":
        return GradDrop(leak=pref) if a > 0 else GradDrop()
    if agg == "TrimmedMean":
        return TrimmedMean(a)
    if agg == "Krum":
        return Krum(n_byzantine=a, n_selected=b)
    raise KeyError(agg)


def base_matrix(c: dict) -> list[list[int]]:
    """The integer matrix of a 2-d class WITHOUT its tiling (``c['w']`` copies side by side)."""
    if "J" in c:                                   # random (non catalogued) class of the C->S driver
        return c["J"]
    return _CAT[(c["dims"][0], c["dims"][1], c["var"])]["J"]


def make_tensor(c: dict) -> torch.Tensor:
    dt = DT[c["dtype"]]
    dims = c["dims"]
    if len(dims) == 0:
        x = torch.tensor(1.5, dtype=torch.float64)
    elif len(dims) == 1:
        x = torch.tensor([1.0, -2.0, 2.0, -1.0, 3.0, 0.5][:dims[0]], dtype=torch.float64)
    elif len(dims) == 2:
        x = torch.tensor(base_matrix(c), dtype=torch.float64).reshape(dims[0], dims[1])
        if c.get("w", 1) != 1:
            x = x.repeat(1, c["w"])
    else:
        n = int(np.prod(dims))
        x = (torch.arange(n, dtype=torch.float64) - 3.0).reshape(*dims)
    x = torch.ldexp(x, torch.tensor(c["e"]))        # exact power-of-two scaling
    x = x.to(dt)
    if c["content"] != "finite":
        bad = {"nan": float("nan"), "pinf": float("inf"), "ninf": float("-inf")}[c["content"]]
        flat = x.reshape(-1)
        if flat.numel():
            flat[0 if c["pos"] == "first" else -1] = bad
    return x.contiguous()


# ---------------------------------------------------------------------------------- observation
def _bits(x: torch.Tensor) -> torch.Tensor:
    return x.detach().contiguous().view({4: torch.int32, 8: torch.int64, 2: torch.int16}[x.element_size()])


def _cause(msg: str) -> str:
    if "dimension 2" in msg:
        return "matrix"
    if "finite" in msg:
        return "finite"
    if "rows" in msg:
        return "rows"
    return "unknown"


def observe(A, X: torch.Tensor, same_as: torch.Tensor | None = None) -> tuple[dict, torch.Tensor | None]:
    """``same_as``: a tensor kept by the caller that holds the same bits as X (then no copy of X is
    made here - an allocation of X's size would disturb the address pattern of temporaries)."""
    snap = _bits(same_as) if same_as is not None else _bits(X).clone()
    shape0, dtype0, ver0 = tuple(X.shape), X.dtype, X._version
    out = None
    obs = {"outcome": "vector", "cause": "-", "n": -1, "dtype": "-", "finite": False, "mutated": False,
           "eqfresh": "na", "addr": "na",
           "zero_row": bool(X.dim() == 2 and X.shape[0] > 0 and bool((X == 0).all(dim=1).any()))}
    try:
        out = A(X)
    except ValueError as ex:
        obs["outcome"], obs["cause"] = "ValueError", _cause(str(ex))
    except Exception as ex:                                   # noqa: BLE001
        obs["outcome"], obs["cause"] = type(ex).__name__, "-"
    else:
        if not isinstance(out, torch.Tensor):
            obs["outcome"] = "not_a_tensor"
            out = None
        elif out.dim() != 1:
            obs["outcome"] = f"tensor_{out.dim()}d"
            out = None
        else:
            obs["n"] = int(out.shape[0])
            obs["dtype"] = DTN.get(out.dtype, str(out.dtype))
            obs["finite"] = bool(out.isfinite().all())
    obs["mutated"] = bool(tuple(X.shape) != shape0 or X.dtype != dtype0 or X._version != ver0
                          or not torch.equal(_bits(X), snap))
    return obs, (out.detach().clone() if out is not None else None)


# ---------------------------------------------------------------------------------- process isolation
def _in_child(fn, item):
    """fn(item) in a new process forked from this one; the result comes back pickled through a pipe."""
    r, w = os.pipe()
    pid = os.fork()
    if pid == 0:
        try:
            os.close(r)
            torch.set_num_threads(1)
            try:
                payload = pickle.dumps(("ok", fn(item)))
            except BaseException as ex:                                       # noqa: BLE001
                payload = pickle.dumps(("err", f"{type(ex).__name__}: {ex}\n{traceback.format_exc()}"))
            with os.fdopen(w, "wb") as f:
                f.write(payload)
        finally:
            os._exit(0)
    os.close(w)
    with os.fdopen(r, "rb") as f:
        data = f.read()
    os.waitpid(pid, 0)
    if not data:
        raise RuntimeError(f"isolated process for {fn.__name__} died without an answer")
    tag, val = pickle.loads(data)
    if tag == "err":
        raise RuntimeError(f"isolated process for {fn.__name__} failed: {val}")
    return val


def _with_env(args):
    fn, item, env = args
    global _SEED
    _SEED = env["seed"]
    if env["cat"] and not _CAT:
        configure(env["cat"], env["seed"])
    return fn(item)


def _spawn_one(args):
    return _in_child(_with_env, args)


def _spawner_init():
    torch.set_num_threads(1)


_POOL = None


def start_pool(procs: int | None = None) -> None:
    """Forks the spawner processes NOW - call it before the check's main process grows (model checker
    output, scenarios) and before anything could call an aggregator.  A spawner does nothing but fork
    once more per item handed to it, so every item of ``isolated_map`` starts from the state of the
    process-wide configuration right after ``import torchjd``."""
    global _POOL
    if _POOL is None:
        import torchjd.aggregation  # noqa: F401
        procs = procs or min(16, os.cpu_count() or 4)
        _POOL = mp.get_context("fork").Pool(procs, initializer=_spawner_init)


def stop_pool() -> None:
    global _POOL
    if _POOL is not None:
        _POOL.close()
        _POOL.join()
        _POOL = None


def isolated_map(fn, items: list) -> list:
    """[fn(x) for x in items], every call in a new process of its own in which no aggregator has run:
    forked by the spawners of ``start_pool`` - or, without a pool (replays), by the calling process,
    which then must not have called an aggregator itself (the check's main process never does before
    its last isolated_map).  Catalogue and seed travel with the items."""
    env = {"cat": list(_CAT_LIST), "seed": _SEED}
    if _POOL is None or len(items) < 4:
        return [_in_child(_with_env, (fn, x, env)) for x in items]
    return _POOL.map(_spawn_one, [(fn, x, env) for x in items], chunksize=1)


# ---------------------------------------------------------------------------------- memo oracle
_FRESH: dict = {}           # computed in THIS process (single calls, stream positions > 0: drift only)
_FRESH_OUTCOME: dict = {}
_REF: dict = {}             # computed in pristine processes: key -> (outs, outcomes)


def _ckey(kind: dict, c: dict) -> tuple:
    return (kind["name"], kind["agg"], kind["a"], kind["b"], kind["pdt"], kind.get("alt", 0), tuple(c["dims"]),
            c["var"], c["content"], c["pos"], c["dtype"], c["e"], c.get("w", 1), str(c.get("J")))


def ref_key(kind: dict, c: dict, seed: str, stream: list | None = None) -> tuple:
    return (_ckey(kind, c), seed, str(stream))


def _compute_fresh(kind: dict, c: dict, seed: str, stream: list | None, repeats: int = 3):
    outs, outcomes = [], []
    for _ in range(repeats):
        torch.manual_seed(seed_value(seed))
        for req in stream or []:
            op, n, dt = req
            if op == "randperm":
                torch.randperm(n)
            elif op == "rand":
                torch.rand(n, dtype=DT[dt])
            elif op == "randn":
                torch.randn(n, dtype=DT[dt])
        A = make_agg(kind)
        obs, out = observe(A, make_tensor(c))
        outs.append(out)
        outcomes.append(obs["outcome"])
    return outs, outcomes


def _ref_task(item):
    kind, c, seed, stream = item
    return _compute_fresh(kind, c, seed, stream)


def compute_references(wanted: list[tuple]) -> int:
    """wanted: (kind, class, seed) triples.  Every reference - three history-free repeats: a new
    instance on a newly built tensor right after the seed - is computed in a process of its own in
    which nothing else has run before (the first repeat is the first aggregator call of that process),
    and stored in ``_REF`` (inherited by the processes forked afterwards)."""
    todo, seen = [], set()
    for kind, c, seed in wanted:
        k = ref_key(kind, c, seed)
        if k not in seen and k not in _REF:
            seen.add(k)
            todo.append((k, (kind, c, seed, None)))
    res = isolated_map(_ref_task, [it for _, it in todo])
    for (k, _), r in zip(todo, res):
        _REF[k] = r
    return len(todo)


def fresh_results(kind: dict, c: dict, seed: str, stream: list | None = None, repeats: int = 3, strict: bool = False):
    """Results of ``repeats`` history-free calls: a new instance each time, the global RNG seeded
    with ``seed`` and advanced by the draw requests of ``stream`` (abstract stream position).  Taken
    from the table of references computed in pristine processes when there; ``strict``: must be."""
    key = ref_key(kind, c, seed, stream)
    if key in _REF:
        return _REF[key][0]
    if strict:
        raise RuntimeError(f"no pristine reference for {key}")
    if key in _FRESH:
        return _FRESH[key]
    outs, outcomes = _compute_fresh(kind, c, seed, stream, repeats)
    _FRESH[key] = outs
    _FRESH_OUTCOME[key] = outcomes
    return outs


def fresh_outcomes(kind: dict, c: dict, seed: str, stream: list | None = None) -> list[str]:
    key = ref_key(kind, c, seed, stream)
    if key in _REF:
        return _REF[key][1]
    fresh_results(kind, c, seed, stream)
    return _FRESH_OUTCOME[key]


def within_spread(out: torch.Tensor, fresh: list, dtype: str) -> bool:
    """``out`` lies within the spread of the history-free repeats (+ 4 eps): bit-for-bit whenever the
    repeats agree among themselves, yet a solver that is not bit-reproducible cannot raise an alarm."""
    if any(f is None or f.shape != out.shape for f in fresh):
        return False
    st = torch.stack([f.double() for f in fresh])
    lo, hi = st.min(dim=0).values, st.max(dim=0).values
    o = out.double()
    tol = 4 * EPS[dtype] * torch.maximum(lo.abs(), hi.abs())
    if not bool(torch.isfinite(o).all()):
        return bool(torch.equal(torch.isfinite(o), torch.isfinite(lo)))
    return bool(((o >= lo - tol) & (o <= hi + tol)).all())


def same_as_fresh(kind: dict, c: dict, seed: str, stream: list | None, obs: dict, out,
                  strict: bool = False) -> tuple[bool, list]:
    """Does this call do what history-free repeats (fresh instance, same seed, same stream position)
    do: the same outcome class; for a vector the same dtype and a value within their spread."""
    fresh = fresh_results(kind, c, seed, stream, strict=strict)
    outcomes = fresh_outcomes(kind, c, seed, stream)
    if out is None:
        return all(o == obs["outcome"] for o in outcomes), outcomes
    if any(f is None or f.dtype != out.dtype for f in fresh):
        return False, [o if f is None else f"vector[{DTN.get(f.dtype, f.dtype)}]" for o, f in zip(outcomes, fresh)]
    return within_spread(out, fresh, c["dtype"]), [f.tolist()[:8] for f in fresh][:1]


# ---------------------------------------------------------------------------------- presentations
class Presenter:
    """How a history hands its matrices to the instance (pres of AggContract.tla):
      new : a newly built tensor per call;
      buf : THE SAME tensor object for every call of the history, rewritten in place in between
            (via: copy_ | mul_ by a power of two | neg_row: X[0].neg_() | zero_ | same: untouched);
      tmp : a short-lived temporary S[idx] (advanced indexing of a tensor that holds the class's
            content) which is released before the next call builds its own;
      ext : a new tensor object per call over the same external memory (torch.from_numpy of one array
            that numpy refills): same address, version counter 0, other content.
    ``call(A, c, pres, via)`` returns (obs, out); obs['addr'] tells whether the data pointer of the
    tensor equals that of the previous tmp / ext tensor of the history."""

    def __init__(self):
        self.buf: torch.Tensor | None = None
        self.buf_e = 0
        self.arr: np.ndarray | None = None
        self.src: dict = {}
        self.idx: dict = {}
        self.last_ptr = None
        self.restored = 0

    def call(self, A, c: dict, pres: str, via: str) -> tuple[dict, torch.Tensor | None]:
        if pres == "new" or len(c["dims"]) != 2:
            obs, out = observe(A, make_tensor(c))
            obs["addr"] = "na"
            return obs, out
        if pres == "buf":
            T = make_tensor(c)
            if self.buf is None or via == "alloc":
                self.buf = T.clone()
            else:
                B = self.buf
                if via == "zero_":
                    B.zero_()
                elif via == "mul_":
                    B.mul_(2.0 ** (c["e"] - self.buf_e))               # exact: power of two within the range
                elif via == "neg_row":
                    B[0].neg_()
                elif via == "copy_":
                    B.copy_(T)
                elif via != "same":
                    raise RuntimeError(f"unknown in-place rewrite {via}")
                def _holds() -> bool:
                    return tuple(B.shape) == tuple(T.shape) and B.dtype == T.dtype and (
                        torch.equal(_bits(B), _bits(T)) or torch.equal(B, T))           # -0.0 == 0.0
                if not _holds() and tuple(B.shape) == tuple(T.shape) and B.dtype == T.dtype:
                    # an earlier call of the history wrote into the buffer (reported there as
                    # input_modified by observe()); restore the content so that the history goes on
                    B.copy_(T)
                    self.restored += 1
                if not _holds():
                    raise RuntimeError(f"rewriting the buffer via {via} did not produce the content of {class_text(c)}")
            self.buf_e = c["e"]
            obs, out = observe(A, self.buf)
            obs["addr"] = "na"
            return obs, out
        if pres == "tmp":
            k = _ckey({"name": "-", "agg": "-", "a": 0, "b": 0, "pdt": "-"}, c)
            if k not in self.src:
                self.src[k] = make_tensor(c)
                self.idx.setdefault(c["dims"][0], torch.arange(c["dims"][0]))
            S = self.src[k]
            X = S[self.idx[c["dims"][0]]]                  # a temporary, as J[perm] would be
            ptr = X.data_ptr()
            if ptr == S.data_ptr() or X._version != 0:
                raise RuntimeError("the temporary is not a new version-0 tensor")
            obs, out = observe(A, X, same_as=S)
            del X
        elif pres == "ext":
            T = make_tensor(c)
            if self.arr is None or self.arr.shape != tuple(T.shape) or self.arr.dtype != NPDT[c["dtype"]]:
                self.arr = np.empty(tuple(T.shape), dtype=NPDT[c["dtype"]])
                self.last_ptr = None
            self.arr[...] = T.numpy()                      # numpy writes: no version counter involved
            X = torch.from_numpy(self.arr)
            ptr = X.data_ptr()
            if X._version != 0 or not torch.equal(_bits(X), _bits(T)):
                raise RuntimeError("the re-wrapped memory does not hold the class's content at version 0")
            obs, out = observe(A, X, same_as=T)
            del X
        else:
            raise RuntimeError(f"unknown presentation {pres}")
        obs["addr"] = "first" if self.last_ptr is None else ("same" if ptr == self.last_ptr else "other")
        self.last_ptr = ptr
        return obs, out


def run_other(k: dict, c: dict) -> str:
    """Another instance (constructed for the occasion) aggregates a matrix; whatever it does."""
    try:
        B = make_agg(k)
        B(make_tensor(c))
        return "vector"
    except Exception as ex:                                                   # noqa: BLE001
        return type(ex).__name__


# ---------------------------------------------------------------------------------- S -> C replay
def class_text(c: dict) -> str:
    d = "x".join(map(str, c["dims"])) or "0-d"
    w = f"*{c['w']}" if c.get("w", 1) != 1 else ""
    return f"{d}{w}/{c['var']}/{c['content']}/{c['dtype']}/2^{c['e']}"


def judge(kind: dict, st: dict, obs: dict) -> str | None:
    """Clause of the contract exported by TLC that the observation violates (None = conforms)."""
    want = st["expect"]
    if obs["mutated"]:
        return "input_modified"
    if want == "ValueError":
        return None if obs["outcome"] == "ValueError" else "not_rejected_with_ValueError"
    if want == "unspecified":
        return None
    if obs["outcome"] != "vector":
        return "finite_admissible_matrix_not_mapped_to_a_vector"
    if obs["n"] != st["n"]:
        return "one_entry_per_column"
    if obs["dtype"] != st["c"]["dtype"]:
        return "dtype_of_the_input"
    if not obs["finite"]:
        return "result_not_finite"
    return None


def wanted_references(scn: dict) -> list[tuple]:
    """The (kind, class, seed) triples whose history-free result a history is compared with at property
    level.  Single calls are compared with repeats in their own process (reproducibility)."""
    if scn["mode"] == "single":
        return []
    return [(scn["kind"], st["c"], st["rng"]["seed"]) for st in scn["steps"]
            if st["op"] == "call" and st["expect"] in ("vector", "unspecified") and st["memo"] == "property"]


def run_scenario(scn: dict) -> dict:
    """Executes one exported history on one real instance."""
    kind = scn["kind"]
    strict = scn["mode"] != "single"
    res = {"fails": [], "drift": [], "calls": 0, "memo_checked": 0, "memo_xdt": 0, "out": None, "weights": None,
           "obs": [], "flags": {}, "addr": {}}
    torch.manual_seed(seed_value("s0"))
    try:
        A = make_agg(kind)
    except Exception as ex:                                       # noqa: BLE001
        res["fails"].append({"at": 0, "clause": "constructor_raised", "detail": f"{type(ex).__name__}: {ex}"})
        return res
    P = Presenter()
    for i, st in enumerate(scn["steps"], 1):
        if st["op"] == "seed":
            torch.manual_seed(seed_value(st["s"]))
            continue
        if st["op"] == "other":
            seen = run_other(st["k"], st["c"])
            seen = seen if seen in ("vector", "ValueError") else "Err_other"
            says = "ValueError" if st["impl"].startswith("VE_") else ("vector" if st["impl"].startswith("vector") else st["impl"])
            if seen != says and not (st["c"]["dtype"] in ("bf16", "f16")):
                res["drift"].append(f"other instance {st['k']['name']}: model says {st['impl']}, code did {seen}")
            continue
        c = st["c"]
        obs, out = P.call(A, c, st.get("pres", "new"), st.get("via", "-"))
        res["calls"] += 1
        res["obs"].append(obs)
        if obs["addr"] != "na":
            res["addr"][obs["addr"]] = res["addr"].get(obs["addr"], 0) + 1
        clause = judge(kind, st, obs)
        if clause:
            res["fails"].append({"at": i, "clause": clause, "class": class_text(c), "want": st["expect"],
                                 "got": obs["outcome"] + (":" + obs["cause"] if obs["cause"] != "-" else ""),
                                 "obs": obs})
            continue
        if st["expect"] == "ValueError" and st["impl"] != "VE_" + obs["cause"] and obs["cause"] != "unknown":
            res["drift"].append(f"order of checks: model says {st['impl']}, code raised for '{obs['cause']}'")
        if st.get("cross") or c["dtype"] in ("bf16", "f16"):
            seen = "vector" if obs["outcome"] == "vector" else ("ValueError" if obs["outcome"] == "ValueError" else "Err_other")
            says = "ValueError" if st["impl"].startswith("VE_") else st["impl"]
            if says != seen:
                res["drift"].append(f"matrix dtype {c['dtype']} (parameter: {kind['pdt']}): model says {st['impl']}, "
                                    f"code did {obs['outcome']}")
        if st["expect"] == "vector" and out is None:
            continue
        if st["expect"] in ("vector", "unspecified"):
            # "its result does not depend on earlier calls": also where the statement leaves the outcome
            # open (exception class, or dtype and bits of the vector)
            rng = st["rng"]
            if st["memo"] == "property":
                same, fresh = same_as_fresh(kind, c, rng["seed"], None, obs, out, strict=strict)
                res["memo_checked"] += 1
                if st.get("xdt") and st["expect"] == "vector":
                    res["memo_xdt"] += 1
                for flag in ("rewritten", "oth", "othpar", "zerobefore"):
                    if st.get(flag) and st["expect"] == "vector":
                        res["flags"][flag] = res["flags"].get(flag, 0) + 1
                if obs["addr"] == "same" and st["expect"] == "vector":
                    res["flags"][st["pres"] + "_addr_same"] = res["flags"].get(st["pres"] + "_addr_same", 0) + 1
                if not same:
                    res["fails"].append({"at": i, "clause": "depends_on_history_or_not_reproducible",
                                         "class": class_text(c), "want": "the result of a fresh instance "
                                         f"(new process, new tensor) after the same seed: {fresh}",
                                         "got": out.tolist()[:8] if out is not None else obs["outcome"], "obs": obs})
            else:
                same, _ = same_as_fresh(kind, c, rng["seed"], rng["stream"], obs, out)
                if not same:
                    res["drift"].append("stream position: result differs from a fresh instance after replaying "
                                        "the model's draw requests (draw accounting of the implementation layer)")
            if scn["mode"] == "single" and st["expect"] == "vector":
                res["out"] = out.double().tolist()
    return res


def _run_group(item):
    import time
    scns, seed, refs = item
    global _SEED
    _SEED = seed
    _REF.update(refs)
    out = []
    for scn in scns:
        t0 = time.perf_counter()
        r = run_scenario(scn)
        r["cpu_s"] = time.perf_counter() - t0
        out.append(r)
    return out


def run_scenarios_isolated(scenarios: list[dict], seed: int, group: int = 96) -> list[dict]:
    """References first (one pristine process each), then the histories, in new processes: one per
    (kind, history shape) and at most ``group`` histories, so that only instances of one and the same
    parameterisation ever share a process; the histories with calls of OTHER instances (what they probe
    is state of the process) one process per (kind, other kind, class the other one sees) - the first
    history of such a process is exactly the modelled one, the (one or two) later ones see the same
    other instance on the same class once more before their own call."""
    global _SEED
    _SEED = seed
    wanted = [w for s in scenarios for w in wanted_references(s)]
    compute_references(wanted)
    groups: list[list[int]] = []
    cur_key, cur = None, []
    for i, s in enumerate(scenarios):
        k = (s["mode"], s["kind"]["name"])
        if s["mode"] == "hoth":
            o = [st for st in s["steps"] if st["op"] == "other"]
            k += tuple((st["k"]["name"], class_text(st["c"])) for st in o) if o else ("-",)
        if k != cur_key or len(cur) >= group:
            if cur:
                groups.append(cur)
            cur_key, cur = k, []
        cur.append(i)
    if cur:
        groups.append(cur)
    # expensive groups first (dynamic scheduling): CAGrad's conic programs, wide matrices
    cost = lambda g: -len(g) * (8 if scenarios[g[0]]["kind"]["agg"] == "CAGrad" else
                                3 if scenarios[g[0]]["kind"]["agg"] in ("AlignedMTL", "MGDA") else 1)
    order = sorted(range(len(groups)), key=lambda gi: cost(groups[gi]))
    def refs_of(g):
        return {ref_key(*w): _REF[ref_key(*w)] for i in g for w in wanted_references(scenarios[i])}
    outs = isolated_map(_run_group, [([scenarios[i] for i in groups[gi]], seed, refs_of(groups[gi])) for gi in order])
    results: list = [None] * len(scenarios)
    for gi, rs in zip(order, outs):
        for i, r in zip(groups[gi], rs):
            results[i] = r
    return results


def weight_factor(kind: dict, c: dict) -> tuple[float, list[float]]:
    """(|w|_inf, |w|_1) of the weights the code itself uses on the reference input (e = 0)."""
    A = make_agg(kind)
    if not hasattr(A, "weighting") or kind["agg"] == "ConFIG":
        return 1.0, 1.0
    torch.manual_seed(seed_value("s0"))
    w = A.weighting(make_tensor(c)).double()
    return float(w.abs().max()), float(w.abs().sum())


def hom_allowance(kind: dict, c: dict, K: int) -> tuple[list[float], str]:
    """Per-coordinate allowance for |A(2^e J0) 2^-e - A(J0)|, J0 the integer base matrix.

    64 * eps(dtype) * K * W * colsum_j  with colsum_j = sum_i |J0_ij| (a bound on |A_j| / |w|_inf),
    W from the code's own weights, K the amplification exported by the model:
      exact kinds (linear combinations / selections / sequential projections / Frank-Wolfe on an
        exactly scaled Gramian): K = 1, W = max(1, |w|_inf);
      UPGrad, DualProj: the QP min v'(G/s^2 + reg I)v, v >= u is a projection in the norm of a matrix of
        condition <= (1 + reg)/reg = 10001: a relative perturbation eps of the normalised Gramian
        moves v by <= 10001 * eps * |v|;
      IMTLG: v = G^-1 d moves by cond(G) eps |v|, w = v / sum(v) by cond(G) eps |w|_1 (1 + |w|_1);
      AlignedMTL: B = sigma_min * Gram^(-1/2), |B| = 1, moves by cond(G) eps; alpha = B w;
      ConFIG: min-norm solution of U x = u (unit rows), moves by cond(U)^2 eps at most; |A| <= sum |g_i|;
      CAGrad: conic solver with tolerances 1e-8 on a matrix square root: predicate level
        (max(1e-6, 64 sqrt(eps))).
    """
    J = np.array(base_matrix(c), dtype=float)
    eps = EPS[c["dtype"]]
    col = np.abs(J).sum(axis=0)
    winf, w1 = weight_factor(kind, c)
    agg = kind["agg"]
    if agg == "CAGrad":
        return list(max(1e-6, 64 * math.sqrt(eps)) * max(1.0, winf) * col), "predicate"
    if agg == "ConFIG":
        tot = float(np.linalg.norm(J, axis=1).sum())
        return [64 * eps * K * tot] * J.shape[1], "derived"
    if agg == "IMTLG":
        W = max(1.0, w1 * (1 + w1))
    else:
        W = max(1.0, winf)
    return list(64 * eps * K * W * col), "derived"


def check_catalogue_bounds() -> list[str]:
    """The model's integer bounds on the squared condition numbers must hold for the exported integer
    matrices (float64 SVD given the exact rank) and must be consistent with the exact invariants."""
    bad = []
    for (m, n, var), info in _CAT.items():
        J = np.array(info["J"], dtype=float)
        r = info["rank"]
        if r == 0:
            if np.any(J != 0):
                bad.append(f"{m}x{n}/{var}: rank 0 but non-zero")
            continue
        s = np.linalg.svd(J, compute_uv=False)
        if np.linalg.matrix_rank(J) != r:
            bad.append(f"{m}x{n}/{var}: float rank differs from the model's exact rank {r}")
        k2 = (s[0] / s[r - 1]) ** 2
        exact_bound = info["tr"] ** r / info["er"]            # lambda_1^(r) / prod(lambda) >= lambda_1/lambda_r
        if not (k2 <= info["kap2"] and k2 <= exact_bound * (1 + 1e-9)):
            bad.append(f"{m}x{n}/{var}: cond(G)={k2:.3f} exceeds model bound {info['kap2']} / exact {exact_bound:.1f}")
        nz = [i for i in range(m) if np.any(J[i] != 0)]
        U = J[nz] / np.linalg.norm(J[nz], axis=1, keepdims=True)
        su = np.linalg.svd(U, compute_uv=False)
        ku2 = (su[0] / su[r - 1]) ** 2
        if not ku2 <= info["kapu2"]:
            bad.append(f"{m}x{n}/{var}: cond(U)^2={ku2:.3f} exceeds model bound {info['kapu2']}")
        if abs(np.trace(J @ J.T) - info["tr"]) > 0 or int(round((J * J).sum(axis=1).max())) != info["maxdiag"]:
            bad.append(f"{m}x{n}/{var}: trace / diagonal mismatch")
    return bad


# ---------------------------------------------------------------------------------- C -> S driver
ALT_AGGS = ("UPGrad", "DualProj", "CAGrad", "MGDA", "AlignedMTL", "ConFIG", "GradDrop", "Constant")


def random_kind(rng: random.Random) -> dict:
    agg = rng.choice(["Mean", "Sum", "MGDA", "PCGrad", "CAGrad", "IMTLG", "UPGrad", "DualProj", "AlignedMTL",
                      "ConFIG", "GradDrop", "Random", "Constant", "TrimmedMean", "Krum", "UPGrad", "DualProj",
                      "AlignedMTL", "ConFIG", "GradDrop", "PCGrad", "Random"])
    a = b = alt = 0
    pdt = "any"
    if agg == "Constant":
        a, pdt = rng.randint(1, 5), rng.choice(["f32", "f64"])
    elif agg in ("UPGrad", "DualProj", "AlignedMTL", "ConFIG", "GradDrop") and rng.random() < 0.5:
        a, pdt = rng.randint(1, 5), rng.choice(["f32", "f64"])
    elif agg == "TrimmedMean":
        a = rng.randint(0, 2)
    elif agg == "Krum":
        a, b = rng.randint(0, 2), rng.randint(1, 4)
    if agg in ALT_AGGS and (a > 0 or agg in ("UPGrad", "DualProj", "CAGrad", "MGDA")):
        r = rng.random()
        if r < 0.3:
            alt = 1                                 # every constructor parameter at its alternate value
        elif r < 0.5 and a == 0 and agg in ("UPGrad", "DualProj", "CAGrad"):
            alt = 2 if r < 0.4 else 3               # norm_eps # reg_eps (EPS_SCALARS), either order
    return {"name": f"{agg}({a},{b},{pdt},{alt})", "agg": agg, "a": a, "b": b, "pdt": pdt, "alt": alt}


def _erange(dtype: str) -> tuple[int, int]:
    return (-39, 48) if dtype == "f32" else (-332, 331)


def random_class(rng: random.Random, kind: dict, prev: list[dict]) -> dict:
    # a kind with a parameter vector mostly sees its parameter's dtype, yet also the other one
    if kind["pdt"] == "any":
        dtype = rng.choice(["f32", "f64"])
    else:
        dtype = kind["pdt"] if rng.random() < 0.6 else ("f32" if kind["pdt"] == "f64" else "f64")
    if prev and rng.random() < 0.25:                 # repeat an earlier input (memo), possibly re-typed
        c = dict(rng.choice(prev))
        if rng.random() < 0.3 and c["dtype"] in ("f32", "f64"):
            c["dtype"] = dtype
            lo, hi = _erange(dtype)
            c["e"] = min(max(c["e"], lo), hi)
        return c
    lo, hi = _erange(dtype)
    e = rng.choice([0, 0, rng.randint(lo, hi), rng.randint(-14, 14), lo, hi])
    r = rng.random()
    if r < 0.12:
        dims = rng.choice([[], [rng.randint(1, 5)], [2, 2, 2], [1, 3, 2]])
        return {"dims": dims, "var": "na", "content": "finite", "pos": "first", "dtype": dtype, "e": 0, "w": 1}
    m = kind["a"] if kind["a"] > 0 and kind["agg"] not in ("TrimmedMean", "Krum") and rng.random() < 0.7 \
        else rng.randint(1, 6)
    n = rng.randint(1, 6)
    J = [[rng.randint(-2, 2) for _ in range(n)] for _ in range(m)]
    v = rng.random()
    if v < 0.15 and m >= 2:
        J[rng.randrange(1, m)] = list(J[0])
    if v > 0.85:
        J[rng.randrange(m)] = [0] * n
    if 0.5 < v < 0.55:
        J = [[0] * n for _ in range(m)]
    if r > 0.94:                                     # low precision: outcome open, independence demanded
        return {"dims": [m, n], "var": "rand", "content": "finite", "pos": "first",
                "dtype": rng.choice(["bf16", "f16"]), "e": 0, "w": 1, "J": J}
    content = "finite" if rng.random() < 0.8 else rng.choice(["nan", "pinf", "ninf"])
    return {"dims": [m, n], "var": "rand", "content": content, "pos": rng.choice(["first", "last"]),
            "dtype": dtype, "e": e, "w": 1, "J": J}


def _rewrite(rng: random.Random, b: dict) -> tuple[dict, str]:
    """Another content for the tensor object that holds class b now, and the in-place operation that
    produces it (ViaOf of AggContract.tla, on random matrices)."""
    m, n = b["dims"]
    c = dict(b)
    r = rng.random()
    lo, hi = _erange(b["dtype"])
    if r < 0.12:
        return c, "same"
    if b["content"] != "finite":
        r = 1.0
    if r < 0.3 and lo <= b["e"] + 7 <= hi:
        c["e"] = b["e"] + rng.choice([d for d in (-7, 3, 7, 20) if lo <= b["e"] + d <= hi])
        return c, "mul_"
    if r < 0.5:
        c["J"] = [[-x for x in b["J"][0]]] + [list(row) for row in b["J"][1:]]
        return (c, "neg_row") if c["J"] != b["J"] else (c, "same")
    if r < 0.62:
        c["J"] = [[0] * n for _ in range(m)]
        return c, "zero_"
    c["J"] = [[rng.randint(-2, 2) for _ in range(n)] for _ in range(m)]
    if rng.random() < 0.25:
        c["J"][rng.randrange(m)] = [0] * n
    c["content"] = "finite" if rng.random() < 0.85 else "nan"
    c["pos"] = "last"
    return c, "copy_"


def plan_episode(ep: int, seed: int) -> dict:
    """The plan of one random history (what is presented, not what happens): seedings, calls of other
    instances, and calls of the instance under observation with their presentation."""
    rng = random.Random(seed * 1_000_003 + ep)
    kind = random_kind(rng)
    steps = []
    prev: list[dict] = []
    bufc = tmpc = extc = None
    dummy_c = {"dims": [], "var": "na", "content": "finite", "pos": "first", "dtype": "f64", "e": 0, "w": 1}
    style = rng.choice(["new", "new", "buf", "tmp", "ext", "mix"])
    for _ in range(rng.randint(1, 6)):
        r = rng.random()
        if r < 0.25:
            steps.append({"op": "seed", "s": rng.choice(["s0", "s1"]), "k": kind, "c": dummy_c, "pres": "-", "via": "-"})
            continue
        if r < 0.40:
            k2 = random_kind(rng)
            if rng.random() < 0.5:                  # the same class with (possibly) other parameters
                for _t in range(20):
                    if k2["agg"] == kind["agg"]:
                        break
                    k2 = random_kind(rng)
            c2 = random_class(rng, k2, prev)
            if prev and rng.random() < 0.5 and len(prev[-1]["dims"]) == 2:      # same row count / dtype as a call of ours
                c2 = dict(prev[-1])
            steps.append({"op": "other", "s": "-", "k": k2, "c": c2, "pres": "new", "via": "-"})
            continue
        pres = style if style != "mix" else rng.choice(["new", "buf", "tmp", "ext"])
        via = "-"
        if pres == "buf":
            if bufc is None:
                c = random_class(rng, kind, [])
                via = "alloc"
            else:
                c, via = _rewrite(rng, bufc)
            if len(c["dims"]) != 2 or c["dtype"] not in ("f32", "f64"):
                pres, via = "new", "-"
            else:
                bufc = c
        elif pres in ("tmp", "ext"):
            last = tmpc if pres == "tmp" else extc
            if last is None or rng.random() < 0.2:
                c = random_class(rng, kind, [])
                if len(c["dims"]) == 2 and c["dtype"] in ("f32", "f64"):
                    c["w"] = rng.choice([1, 13, 64, 820]) if pres == "tmp" else rng.choice([1, 1, 64])
                    c["content"], c["e"] = "finite", (c["e"] if abs(c["e"]) < 30 else 0)
            else:                                    # same shape, width and dtype: other content
                c, _ = _rewrite(rng, last)
                c["content"] = "finite"
            if len(c["dims"]) != 2 or c["dtype"] not in ("f32", "f64"):
                pres = "new"
            elif pres == "tmp":
                tmpc = c
            else:
                extc, via = c, ("alloc" if last is None else "numpy")
        else:
            c = random_class(rng, kind, prev)
        prev.append(c)
        steps.append({"op": "call", "s": "-", "k": kind, "c": c, "pres": pres, "via": via})
    return {"ep": ep, "kind": kind, "steps": steps}


def episode_references(plan: dict) -> list[tuple]:
    out, last_seed = [], "s0"
    for st in plan["steps"]:
        if st["op"] == "seed":
            last_seed = st["s"]
        elif st["op"] == "call":
            out.append((plan["kind"], st["c"], last_seed))
    return out


def run_episode(plan: dict) -> dict:
    """One random history on one real instance; every call is observed and compared with the history-free
    repeats (pristine processes) right after the last seed (``eqfresh``) - whether that comparison is
    demanded is decided by the trace specification, which tracks the RNG stream."""
    kind = plan["kind"]
    steps = []
    last_seed = "s0"
    torch.manual_seed(seed_value("s0"))
    A = make_agg(kind)
    P = Presenter()
    dummy_o = {"outcome": "-", "cause": "-", "n": -1, "dtype": "-", "finite": False, "mutated": False,
               "eqfresh": "na", "addr": "na", "zero_row": False}
    for st in plan["steps"]:
        c = st["c"]
        cj = {k: v for k, v in c.items() if k != "J"}
        rec = {"op": st["op"], "s": st["s"], "k": st["k"], "c": cj, "pres": st["pres"], "via": st["via"],
               "obs": dummy_o, "J": c.get("J"), "e": c["e"]}
        if st["op"] == "seed":
            last_seed = st["s"]
            torch.manual_seed(seed_value(last_seed))
        elif st["op"] == "other":
            rec["obs"] = dict(dummy_o, outcome=run_other(st["k"], c))
        else:
            obs, out = P.call(A, c, st["pres"], st["via"])
            after = torch.get_rng_state()
            if obs["outcome"] != "ValueError":
                same, _ = same_as_fresh(kind, c, last_seed, None, obs, out, strict=True)
                obs["eqfresh"] = "yes" if same else "no"
                torch.set_rng_state(after)
            rec["obs"] = obs
        steps.append(rec)
    return {"ep": plan["ep"], "kind": kind, "steps": steps}


def _episode_task(item):
    plan, seed = item
    global _SEED
    _SEED = seed
    # the history-free repeats of every planned call FIRST: at that point nothing but fresh instances of
    # this very kind (same parameters) on newly built tensors has run in the process
    for kind, c, last_seed in episode_references(plan):
        k = ref_key(kind, c, last_seed)
        if k not in _REF:
            _REF[k] = _compute_fresh(kind, c, last_seed, None)
    return run_episode(plan)


def run_episodes_isolated(eps: list[int], seed: int) -> list[dict]:
    """Every random history in a new process of its own (forked from one in which no aggregator ran),
    which first obtains the history-free repeats of the planned calls, then runs the history - with its
    other instances, rewritten buffers, temporaries."""
    global _SEED
    _SEED = seed
    plans = [plan_episode(ep, seed) for ep in eps]
    return isolated_map(_episode_task, [(p, seed) for p in plans])
