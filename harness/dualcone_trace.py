"""C -> S for C03/C04: seeded random drivers call the real UPGrad / DualProj, log what they observe
and hand the episodes to TLC (spec/TraceDualCone.tla).

* exact episodes: random integer matrices whose lambda_max(J0 J0^T) is an integer (family F2; found by
  rejection sampling, re-verified by TLC), dyadic eps pairs, small rational preference vectors,
  power-of-two scales; the code's weights are rationalised and TLC accepts the episode iff they are
  the specification's DualProjW / UPGradW.
* predicate episodes (Gaussian matrices, integer matrices with irrational lambda_max, episodes whose
  exact arithmetic would leave TLC's 32-bit range): the KKT conditions of the logged weights are
  evaluated in float64 by `kkt_predicate` (predicate level, DESIGN section 8).
"""

from __future__ import annotations

import itertools
import json
import math
import os
import random
import tempfile
from fractions import Fraction

import numpy as np
import torch

from .core import Ctx, MachineryError
from .dualcone_replay import make, pref_tensor, rationalise
from .tlc import run_tlc

INT_MAX = 2 ** 31 - 1


# ---------------------------------------------------------------- exact helpers (routing only)

def gram(J):
    return [[sum(a * b for a, b in zip(r, s)) for s in J] for r in J]


def int_lambda_max(G) -> int | None:
    """lambda_max(G) if it is an integer (float guess, exact confirmation), else None.  Used only to
    pick candidate instances; TLC re-decides membership exactly (InFamily)."""
    ev = np.linalg.eigvalsh(np.array(G, dtype=float))
    lam = int(round(float(ev[-1])))
    if abs(ev[-1] - lam) > 1e-7:
        return None
    M = [[Fraction((lam if i == j else 0) - G[i][j]) for j in range(len(G))] for i in range(len(G))]
    return lam if _det(M) == 0 else None


def _det(M):
    n = len(M)
    if n == 0:
        return Fraction(1)
    if n == 1:
        return M[0][0]
    return sum((-1) ** j * M[0][j] * _det([r[:j] + r[j + 1:] for r in M[1:]]) for j in range(n))


def _solve(A, b):
    n = len(A)
    d = _det(A)
    return [_det([[b[r] if c == j else A[r][c] for c in range(n)] for r in range(n)]) / d for j in range(n)]


def proj_exact(A, u):
    """Brute-force KKT solution in Fractions (mirror used ONLY to bound TLC's integer magnitudes)."""
    m = len(A)
    for k in range(m + 1):
        for S in itertools.combinations(range(m), k):
            F = [i for i in range(m) if i not in S]
            if F:
                AFF = [[A[i][j] for j in F] for i in F]
                if _det(AFF) == 0:
                    continue
                rhs = [-sum(A[i][j] * u[j] for j in S) for i in F]
                sol = _solve(AFF, rhs)
            else:
                sol = []
            v = list(u)
            for i, x in zip(F, sol):
                v[i] = x
            if all(v[i] >= u[i] for i in F) and all(sum(A[i][j] * v[j] for j in range(m)) >= 0 for i in S):
                return v
    return None


def tlc_safe(G, lam, p, q, u, agg) -> bool:
    """Conservative bound of every integer TLC forms for this episode (Active: 72 a^3 for m = 3 with
    |U| <= 4 ..., the least-common-denominator sums of UPGradW): True iff all stay below 2^31."""
    m = len(G)
    a = max(abs(q * G[i][j] + (p * lam if i == j else 0)) for i in range(m) for j in range(m))
    ud = 1
    for x in u:
        ud = ud * x.denominator // math.gcd(ud, x.denominator)
    U = max(abs(int(x * ud)) for x in u) or 1
    fact = math.factorial(m)
    worst = fact * a ** (m - 1) * (m * a * U) * m * a          # Cramer numerator times a row of A
    if worst * max(ud, 1) >= INT_MAX:
        return False
    A = [[Fraction(q * G[i][j] + (p * lam if i == j else 0)) for j in range(m)] for i in range(m)]
    if agg == "upgrad":
        rows = [proj_exact(A, [u[j] if j == i else Fraction(0) for j in range(m)]) for i in range(m)]
        for j in range(m):
            num, den = 1, 1
            for r in rows:
                den *= r[j].denominator
                num = max(num, abs(r[j].numerator))
            if den * num * m >= INT_MAX:
                return False
        w = [sum(r[j] for r in rows) for j in range(m)]
    else:
        w = proj_exact(A, list(u))
    # the exact weights must be identifiable from a float64: denominators <= 1e5 (rationalise() searches up to 1e6
    # with residual 1e-12, so the identification is unique)
    return all(x.denominator <= 10 ** 5 and abs(x.numerator) < 10 ** 8 for x in w)


# ---------------------------------------------------------------- drivers

PREF_POOL = {
    2: [None, [Fraction(1), Fraction(2)], [Fraction(0), Fraction(1)], [Fraction(3, 4), Fraction(1, 4)],
        [Fraction(2), Fraction(1, 2)], [Fraction(1, 3), Fraction(2, 3)]],
    3: [None, [Fraction(1, 2), Fraction(1, 6), Fraction(1, 3)], [Fraction(0), Fraction(1), Fraction(2)],
        [Fraction(1), Fraction(0), Fraction(0)], [Fraction(1), Fraction(2), Fraction(1)],
        [Fraction(1, 4), Fraction(1, 2), Fraction(1, 4)]],
}


def _rand_int_matrix(rng: random.Random, m: int):
    n = rng.randint(1, 4)
    hi = 3 if m == 2 else 2
    shape = rng.random()
    if shape < 0.35 and m == 3 and n == 3:          # cyclic triple: circulant Gramian, integer spectrum
        r = [rng.randint(-hi, hi) for _ in range(3)]
        return [r, r[1:] + r[:1], r[2:] + r[:2]]
    if shape < 0.6 and m == 2:                      # equal-norm pair (signed permutation of the other row)
        r = [rng.randint(-hi, hi) for _ in range(n)]
        s = r[:]
        rng.shuffle(s)
        return [r, [x * rng.choice((-1, 1)) for x in s]]
    return [[rng.randint(-hi, hi) for _ in range(n)] for _ in range(m)]


def exact_episodes(rng: random.Random, count: int, stats: dict) -> list[dict]:
    """Run the real code on random F2 instances; one dict per call (JSON-able, integers only)."""
    eps: list[dict] = []
    tries = 0
    while len(eps) + len(stats.get("raised", [])) < count and tries < 200 * count:
        tries += 1
        m = rng.choice((2, 2, 3))
        J0 = _rand_int_matrix(rng, m)
        G = gram(J0)
        tr = sum(G[i][i] for i in range(m))
        if tr == 0:
            continue
        lam = int_lambda_max(G)
        if lam is None:
            stats["irrational_lambda_candidates"] = stats.get("irrational_lambda_candidates", 0) + 1
            continue
        if not any(G[i][j] < 0 for i in range(m) for j in range(m)) and rng.random() < 0.8:
            continue                                  # keep mostly conflicting instances
        q = rng.choice((2, 4, 8, 16) if m == 2 else (2, 4))
        a = rng.choice((1, 2, 3, 4, 5))
        # scale exponent around the threshold  lam * 4^(e + a) ~ 1
        k0 = -int(math.floor(math.log(lam, 4)))
        k = k0 + rng.choice((-2, -1, 0, 0, 1, 1, 2, 3))
        if abs(k) > 8 or lam * Fraction(4) ** k == 1:
            continue
        agg = rng.choice(("upgrad", "dualproj"))
        u = rng.choice(PREF_POOL[m])
        uu = u if u is not None else [Fraction(1, m)] * m
        if not tlc_safe(G, lam, 1, q, uu, agg):
            stats["routed_to_predicate_32bit"] = stats.get("routed_to_predicate_32bit", 0) + 1
            continue
        e = k - a
        J = torch.tensor(J0, dtype=torch.float64) * 2.0 ** e
        try:
            A = make(agg, pref_tensor(u), 2.0 ** -a, 1.0 / q)
            w = A.weighting(J).tolist()
            out = A(J).tolist()
        except Exception as ex:                                               # noqa: BLE001
            stats.setdefault("raised", []).append(
                {"agg": agg, "J0": J0, "e": e, "a": a, "q": q, "u": [str(x) for x in uu], "exc": f"{type(ex).__name__}: {str(ex)[:150]}"})
            continue
        wr = [rationalise(x) for x in w]
        eps.append({"ep": len(eps) + 1, "J": J0, "e": e, "a": a, "reg": [1, q],
                    "u": [[x.numerator, x.denominator] for x in uu], "agg": agg,
                    "w": [] if any(x is None for x in wr) else wr,
                    "w_float": w, "out_float": out, "default_pref": u is None})
    return eps


def report_raised(ctx: Ctx, stats: dict) -> None:
    for r in stats.get("raised", []):
        j = ";".join(",".join(str(x) for x in row) for row in r["J0"])
        ctx.violation(f"trace:{r['agg']}:J=[{j}]:e={r['e']}:a={r['a']}:reg=1/{r['q']}:raised",
                      f"{r['agg']}(pref={r['u']}, norm_eps=2^-{r['a']}, reg_eps=1/{r['q']}) on J = 2^{r['e']} * {r['J0']} raised "
                      f"{r['exc']}", {"kind": "raised", **r})
    stats["raised"] = len(stats.get("raised", []))


def rerun_episode(e: dict) -> dict:
    """Re-execute the call of a logged episode on the current code (used by --replay)."""
    uu = [Fraction(a, b) for a, b in e["u"]]
    u = None if e.get("default_pref") else uu
    A = make(e["agg"], pref_tensor(u), 2.0 ** -e["a"], e["reg"][0] / e["reg"][1])
    J = torch.tensor(e["J"], dtype=torch.float64) * 2.0 ** e["e"]
    w = A.weighting(J).tolist()
    wr = [rationalise(x) for x in w]
    return e | {"ep": 1, "w": [] if any(x is None for x in wr) else wr, "w_float": w, "out_float": A(J).tolist()}


def replay_raised(ctx: Ctx, p: dict) -> None:
    u = [Fraction(x) for x in p["u"]]
    J = torch.tensor(p["J0"], dtype=torch.float64) * 2.0 ** p["e"]
    try:
        A = make(p["agg"], pref_tensor(u), 2.0 ** -p["a"], 1.0 / p["q"])
        A.weighting(J)
        A(J)
    except Exception as ex:                                                   # noqa: BLE001
        ctx.violation("trace:raised:replay", f"{p['agg']} raised {type(ex).__name__}: {str(ex)[:150]}", p)


def validate_exact(ctx: Ctx, episodes: list[dict], pid: str) -> dict:
    if not episodes:
        if ctx.violations:
            return {"episodes": 0, "accepted": 0, "rejected": 0, "skipped": 0}
        raise MachineryError("no exact episode generated")
    with tempfile.TemporaryDirectory(prefix="verif_dualcone_") as d:
        path = os.path.join(d, "episodes.json")
        slim = [{k: e[k] for k in ("ep", "J", "e", "a", "reg", "u", "agg", "w")} for e in episodes]
        with open(path, "w") as f:
            json.dump(slim, f)
        res = run_tlc("TraceDualCone", "Trace_DualCone.cfg", workers=1, env={"TRACE_FILE": path}, timeout=900)
    ctx.add_tlc(res)
    if res.violated:
        raise MachineryError(f"trace spec did not consume the log: {res.violated}\n{res.cex[:1500]}")
    summ = res.prints.get("SUMMARY", [None])[0]
    if not summ or summ["episodes"] != len(episodes) or \
            summ["accepted"] + summ["rejected"] + summ["skipped"] != len(episodes):
        raise MachineryError(f"trace validation incomplete: {summ}")
    if summ["skipped"] > len(episodes) // 10:
        raise MachineryError(f"too many episodes outside family F2 according to TLC: {summ}")
    by_ep = {e["ep"]: e for e in episodes}
    for rj in res.prints.get("REJECT", []):
        e = by_ep[rj["ep"]]
        exp = [Fraction(a, b) for a, b in rj["expected"]]
        if len(exp) == len(e["w_float"]) and all(abs(float(q) - x) <= 1e-10 * max(1.0, abs(x)) for q, x in zip(exp, e["w_float"])):
            raise MachineryError(f"rationalisation artefact: logged {e['w']} for floats {e['w_float']} but exact {rj['expected']}")
        j = ";".join(",".join(str(x) for x in r) for r in e["J"])
        key = f"trace:{e['agg']}:J=[{j}]:e={e['e']}:a={e['a']}:reg=1/{e['reg'][1]}:u={e['u']}"
        desc = (f"{e['agg']}(pref={e['u']}, norm_eps=2^-{e['a']}, reg_eps=1/{e['reg'][1]}) on J = 2^{e['e']} * {e['J']}: "
                f"logged weights {e['w_float']}")
        if pid == "C03":
            ctx.violation(key, f"{desc} rejected by DualCone ({rj['clause']}); exact weights {rj['expected']}",
                          {"kind": "trace", "episode": e, "clause": rj["clause"]})
            continue
        # C04 only demands the cone constraint (G w)_i >= -reg_eps s^2 w_i of the logged weights
        cone = rj["cone"]
        if cone == "unknown":
            G = gram(e["J"])
            lam = int_lambda_max(G)
            q = e["reg"][1]
            w = e["w_float"]
            a = max(abs(q * G[i][k] + (lam if i == k else 0)) for i in range(len(G)) for k in range(len(G)))
            r = [sum((q * G[i][k] + (lam if i == k else 0)) * w[k] for k in range(len(G))) for i in range(len(G))]
            cone = "yes" if min(r) < -1e-11 * a * sum(abs(x) for x in w) else "no"
            ctx.count("cone_verdicts_in_float64")
        if cone == "yes":
            ctx.violation(key, f"{desc} violate (G w)_i >= -reg_eps s^2 w_i (TraceDualCone: {rj['clause']}); exact weights "
                               f"{rj['expected']}", {"kind": "trace", "episode": e, "clause": rj["clause"]})
        else:
            ctx.count("rejections_that_keep_the_cone_constraint")
            ctx.note(f"an episode was rejected by TraceDualCone ({rj['clause']}) although its weights satisfy the cone "
                     f"constraint: not a C04 matter (see C03)")
    ctx.traces += summ["accepted"] + summ["rejected"]
    return summ


# ---------------------------------------------------------------- predicate level (float64)

def kkt_predicate(J: torch.Tensor, u: list[float], norm_eps: float, reg_eps: float, w: list[float]) -> str | None:
    """KKT conditions of min v^T (G/s^2 + reg_eps I) v, v >= u at the logged weights, in float64.
    Returns the failing clause or None."""
    G = (J @ J.T).numpy()
    s2 = float(np.linalg.eigvalsh(G)[-1])
    m = len(u)
    wv = np.array(w)
    uv = np.array(u)
    scale = 1.0 + float(np.abs(wv).sum())
    if math.sqrt(max(s2, 0.0)) < norm_eps * (1 - 1e-9):
        return None if np.allclose(wv, uv, rtol=1e-12, atol=1e-12) else "below_norm_eps_weights_must_be_the_preference_vector"
    if math.sqrt(max(s2, 0.0)) < norm_eps * (1 + 1e-9):
        return None
    A = G / s2 + reg_eps * np.eye(m)
    r = A @ wv
    # rounding of the QP solve grows with the conditioning (1 + reg_eps) / reg_eps of the regularised Gramian
    tol = max(1e-9, 1e-13 / reg_eps) * scale
    if (wv < uv - tol).any():
        return "w_below_preference_vector"
    if (r < -tol).any():
        return "regularised_cone_constraint_violated"
    if (np.abs((wv - uv) * r) > tol * scale).any():
        return "complementary_slackness_violated"
    return None


def predicate_episodes(ctx: Ctx, rng: random.Random, count: int, pid: str) -> int:
    """Gaussian / general integer matrices, m <= 5: DualProj by its KKT system, UPGrad as the sum of the
    KKT-validated projections of u_i e_i."""
    done = 0
    g = torch.Generator().manual_seed(rng.randrange(2 ** 31))
    for _ in range(count):
        m = rng.randint(2, 5)
        n = rng.randint(1, 8)
        kind = rng.choice(("gauss", "int", "lowrank", "antiparallel"))
        if kind == "gauss":
            J = torch.randn(m, n, dtype=torch.float64, generator=g)
        elif kind == "int":
            J = torch.randint(-3, 4, (m, n), generator=g).to(torch.float64)
        elif kind == "lowrank":
            J = torch.randn(m, 1, dtype=torch.float64, generator=g) @ torch.randn(1, n, dtype=torch.float64, generator=g)
        else:
            J = torch.randn(m, n, dtype=torch.float64, generator=g)
            J[1] = -J[0] * (1 + 1e-3 * rng.random()) + 1e-3 * torch.randn(n, dtype=torch.float64, generator=g)
        J = J * 10.0 ** rng.choice((-6, -3, 0, 0, 3, 6))
        if float(J.abs().max()) == 0.0:
            continue
        ne, rg = rng.choice(((1e-4, 1e-4), (1e-4, 1e-4), (1e-6, 1e-2), (1e-2, 1e-6), (0.5, 0.125)))
        u = [rng.choice((0.0, 0.5, 1.0, 2.0)) for _ in range(m)]
        if sum(u) == 0:
            u[0] = 1.0
        ut = torch.tensor(u, dtype=torch.float64)
        try:
            wD = make("dualproj", ut, ne, rg).weighting(J).tolist()
            make("upgrad", ut, ne, rg).weighting(J)
        except Exception as ex:                                               # noqa: BLE001
            ctx.violation(f"pred:{kind}:m={m}:n={n}:seed={ctx.seed}:i={done}:raised",
                          f"UPGrad/DualProj(pref={u}, norm_eps={ne}, reg_eps={rg}) raised {type(ex).__name__}: {str(ex)[:150]} "
                          f"on {J.tolist()}", {"kind": "pred", "J": J.tolist(), "u": u, "norm_eps": ne, "reg_eps": rg, "agg": "dualproj"})
            done += 1
            continue
        clause = kkt_predicate(J, u, ne, rg, wD)
        key = f"pred:{kind}:m={m}:n={n}:seed={ctx.seed}:i={done}"
        if clause:
            ctx.violation(key + ":dualproj", f"DualProj(pref={u}, norm_eps={ne}, reg_eps={rg}) on {J.tolist()}: weights {wD} "
                                             f"break the KKT system of the regularised projection ({clause})",
                          {"kind": "pred", "J": J.tolist(), "u": u, "norm_eps": ne, "reg_eps": rg, "agg": "dualproj"})
        wU = make("upgrad", ut, ne, rg).weighting(J)
        rows = torch.zeros(m, dtype=torch.float64)
        bad = None
        for i in range(m):
            ui = [u[j] if j == i else 0.0 for j in range(m)]
            try:
                wi = make("dualproj", torch.tensor(ui, dtype=torch.float64), ne, rg).weighting(J)
            except Exception as ex:                                           # noqa: BLE001
                ctx.violation(key + f":dualproj:raised:{i}",
                              f"DualProj(pref={ui}, norm_eps={ne}, reg_eps={rg}) raised {type(ex).__name__}: {str(ex)[:150]} on {J.tolist()}",
                              {"kind": "pred", "J": J.tolist(), "u": ui, "norm_eps": ne, "reg_eps": rg, "agg": "dualproj"})
                bad = "raised"
                continue
            bad = bad or kkt_predicate(J, ui, ne, rg, wi.tolist())
            rows += wi
        if bad is None and float((wU - rows).abs().max()) > 1e-9 * (1 + float(rows.abs().sum())):
            ctx.violation(key + ":upgrad", f"UPGrad(pref={u}, norm_eps={ne}, reg_eps={rg}) on {J.tolist()}: weights {wU.tolist()} "
                                           f"are not the sum of the projections of u_i e_i = {rows.tolist()}",
                          {"kind": "pred", "J": J.tolist(), "u": u, "norm_eps": ne, "reg_eps": rg, "agg": "upgrad"})
        done += 1
        ctx.evaluations += 2 + m
    return done


# ---------------------------------------------------------------- MGDA episodes (TraceMinNorm)

def _mgda_matrix(rng: random.Random):
    m = 3 if rng.random() < 0.8 else 2
    n = rng.randint(2, 3)
    kind = rng.random()
    if kind < 0.5:        # imbalanced row norms (one short row among long ones)
        short = rng.randrange(m)
        return [[rng.randint(-1, 1) if i == short else rng.randint(-4, 4) for _ in range(n)] for i in range(m)]
    if kind < 0.65:       # nearly antiparallel pair
        r = [rng.randint(-4, 4) for _ in range(n)]
        J = [r, [-x + rng.choice((0, 0, 1, -1)) for x in r]]
        J = [[max(-4, min(4, x)) for x in row] for row in J]
        return J + ([[rng.randint(-4, 4) for _ in range(n)]] if m == 3 else [])
    return [[rng.randint(-4, 4) for _ in range(n)] for _ in range(m)]


def mgda_episode(args) -> dict:
    J0, K, ep = args
    J = torch.tensor(J0, dtype=torch.float64)
    try:
        out = make("mgda", None, epsilon=0.0, max_iters=K)(J)
        if not bool(torch.isfinite(out).all()):
            raise ValueError("non-finite output")
    except Exception as ex:                                                   # noqa: BLE001
        return {"ep": ep, "J": J0, "K": K, "raised": f"{type(ex).__name__}: {str(ex)[:150]}"}
    a2 = float(out @ out)
    prod = (J @ out).tolist()
    slack = 1e-9 * (1.0 + a2)
    return {"ep": ep, "J": J0, "K": K,
            "a2lo": int(math.floor((a2 - slack) * 1024)), "a2hi": int(math.ceil((a2 + slack) * 1024)),
            "phi": [int(math.ceil((p + 1e-9 * (1.0 + abs(p))) * 64)) for p in prod],
            "out_float": out.tolist()}


def mgda_episodes(rng: random.Random, count: int, budgets=(1, 2, 3, 10, 100, 1000, 5000)) -> list:
    """(J0, K, ep) triples: integer matrices with entries in -4..4, m <= 3 (strongly conflicting, imbalanced,
    rank-deficient ones included), all iteration budgets; large budgets get half of the episodes."""
    jobs = []
    while len(jobs) < count:
        J0 = _mgda_matrix(rng)
        if all(x == 0 for r in J0 for x in r):
            continue
        K = rng.choice((1000, 5000, 5000)) if rng.random() < 0.5 else rng.choice(budgets)
        jobs.append((J0, K, len(jobs) + 1))
    return jobs


def validate_mgda(ctx: Ctx, episodes: list[dict]) -> dict:
    for e in [e for e in episodes if "raised" in e]:
        j = ";".join(",".join(str(x) for x in r) for r in e["J"])
        ctx.violation(f"trace:mgda:J=[{j}]:K={e['K']}:raised", f"MGDA(epsilon=0, max_iters={e['K']}) on {e['J']}: {e['raised']}",
                      {"kind": "mgda_trace", "J": e["J"], "K": e["K"]})
    episodes = [e | {"ep": i + 1} for i, e in enumerate(e for e in episodes if "raised" not in e)]
    if not episodes:
        return {"episodes": 0, "accepted": 0, "rejected": 0}
    with tempfile.TemporaryDirectory(prefix="verif_minnorm_") as d:
        path = os.path.join(d, "episodes.json")
        with open(path, "w") as f:
            json.dump([{k: e[k] for k in ("ep", "J", "K", "a2lo", "a2hi", "phi")} for e in episodes], f)
        res = run_tlc("TraceMinNorm", "Trace_MinNorm.cfg", workers=1, env={"TRACE_FILE": path}, timeout=900)
    ctx.add_tlc(res)
    if res.violated:
        raise MachineryError(f"trace spec did not consume the log: {res.violated}\n{res.cex[:1500]}")
    summ = res.prints.get("SUMMARY", [None])[0]
    if not summ or summ["episodes"] != len(episodes) or summ["accepted"] + summ["rejected"] != len(episodes):
        raise MachineryError(f"MGDA trace validation incomplete: {summ}")
    by_ep = {e["ep"]: e for e in episodes}
    for rj in res.prints.get("REJECT", []):
        e = by_ep[rj["ep"]]
        if rj["clause"].startswith("model_"):
            raise MachineryError(f"MinNorm model failure on {e['J']}: {rj['clause']}")
        j = ";".join(",".join(str(x) for x in r) for r in e["J"])
        ctx.violation(f"trace:mgda:J=[{j}]:K={e['K']}:{rj['clause']}",
                      f"MGDA(epsilon=0, max_iters={e['K']}) on {e['J']}: A(J) = {e['out_float']}, |A|^2*1024 in "
                      f"[{e['a2lo']}, {e['a2hi']}], minnorm^2 = {rj['mn2']}, {rj['lamLo']} <= s^2 < {rj['lamLo'] + 1}: "
                      f"{rj['clause']}", {"kind": "mgda_trace", "J": e["J"], "K": e["K"]})
    ctx.traces += len(episodes)
    return summ
