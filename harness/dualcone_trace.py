"""C -> S for C03/C04: seeded random drivers call the real UPGrad / DualProj, log what they observe
and hand the episodes to TLC (spec/TraceDualCone.tla).

* exact episodes: random integer matrices whose lambda_max(J0 J0^T) is an integer (family F2; found by
  rejection sampling, re-verified by TLC), dyadic eps pairs, small rational preference vectors,
  power-of-two scales; the code's weights are rationalised and TLC accepts the episode iff they are
  the specification's DualProjW / UPGradW.
* predicate episodes (Gaussian matrices, integer matrices with irrational lambda_max, episodes whose
  exact arithmetic would leave TLC's 32-bit range): the KKT conditions of the logged weights are
  evaluated in float64 by `kkt_predicate` (predicate level, DESIGN section 8).
* presentations and histories (DualCone.tla, section of that name): both drivers work in SESSIONS of a few calls on
  matrices of one shape; a call hands the matrix over in a new tensor or writes it in place (copy_) into the tensor
  object of an earlier call of the session, calls a new aggregator object or the one already built with the same
  arguments, and gives the preference vector as a float64 / float32 / int64 tensor (only dtypes that hold it
  exactly).  Exact episodes log the object ids and what the object held before; TraceDualCone re-derives that
  history (MALFORMED = machinery failure) and judges every call on the current content only.
"""

from __future__ import annotations

import itertools
import json
import math
import os
import random
import tempfile
from fractions import Fraction

import numpy as np
import torch

from .core import Ctx, MachineryError
from .dualcone_replay import DTYPES, EPS32, EPS64, K32, K64, Session, make, pref_given, pref_tensor, rationalise
from .tlc import run_tlc

INT_MAX = 2 ** 31 - 1


# ---------------------------------------------------------------- exact helpers (routing only)

def gram(J):
    return [[sum(a * b for a, b in zip(r, s)) for s in J] for r in J]


def int_lambda_max(G) -> int | None:
    """lambda_max(G) if it is an integer (float guess, exact confirmation), else None.  Used only to
    pick candidate instances; TLC re-decides membership exactly (InFamily)."""
    ev = np.linalg.eigvalsh(np.array(G, dtype=float))
    lam = int(round(float(ev[-1])))
    if abs(ev[-1] - lam) > 1e-7:
        return None
    M = [[Fraction((lam if i == j else 0) - G[i][j]) for j in range(len(G))] for i in range(len(G))]
    return lam if _det(M) == 0 else None


def _det(M):
    n = len(M)
    if n == 0:
        return Fraction(1)
    if n == 1:
        return M[0][0]
    return sum((-1) ** j * M[0][j] * _det([r[:j] + r[j + 1:] for r in M[1:]]) for j in range(n))


def _solve(A, b):
    n = len(A)
    d = _det(A)
    return [_det([[b[r] if c == j else A[r][c] for c in range(n)] for r in range(n)]) / d for j in range(n)]


def proj_exact(A, u):
    """Brute-force KKT solution in Fractions (mirror used ONLY to bound TLC's integer magnitudes)."""
    m = len(A)
    for k in range(m + 1):
        for S in itertools.combinations(range(m), k):
            F = [i for i in range(m) if i not in S]
            if F:
                AFF = [[A[i][j] for j in F] for i in F]
                if _det(AFF) == 0:
                    continue
                rhs = [-sum(A[i][j] * u[j] for j in S) for i in F]
                sol = _solve(AFF, rhs)
            else:
                sol = []
            v = list(u)
            for i, x in zip(F, sol):
                v[i] = x
            if all(v[i] >= u[i] for i in F) and all(sum(A[i][j] * v[j] for j in range(m)) >= 0 for i in S):
                return v
    return None


def tlc_safe(G, lam, p, q, u, agg) -> bool:
    """Conservative bound of every integer TLC forms for this episode (Active: 72 a^3 for m = 3 with
    |U| <= 4 ..., the least-common-denominator sums of UPGradW): True iff all stay below 2^31."""
    m = len(G)
    a = max(abs(q * G[i][j] + (p * lam if i == j else 0)) for i in range(m) for j in range(m))
    ud = 1
    for x in u:
        ud = ud * x.denominator // math.gcd(ud, x.denominator)
    U = max(abs(int(x * ud)) for x in u) or 1
    fact = math.factorial(m)
    worst = fact * a ** (m - 1) * (m * a * U) * m * a          # Cramer numerator times a row of A
    if worst * max(ud, 1) >= INT_MAX:
        return False
    A = [[Fraction(q * G[i][j] + (p * lam if i == j else 0)) for j in range(m)] for i in range(m)]
    if agg == "upgrad":
        rows = [proj_exact(A, [u[j] if j == i else Fraction(0) for j in range(m)]) for i in range(m)]
        for j in range(m):
            num, den = 1, 1
            for r in rows:
                den *= r[j].denominator
                num = max(num, abs(r[j].numerator))
            if den * num * m >= INT_MAX:
                return False
        w = [sum(r[j] for r in rows) for j in range(m)]
    else:
        w = proj_exact(A, list(u))
    # the exact weights must be identifiable from a float64: denominators <= 1e5 (rationalise() searches up to 1e6
    # with residual 1e-12, so the identification is unique)
    return all(x.denominator <= 10 ** 5 and abs(x.numerator) < 10 ** 8 for x in w)


# ---------------------------------------------------------------- drivers

PREF_POOL = {
    2: [None, [Fraction(1), Fraction(2)], [Fraction(0), Fraction(1)], [Fraction(3, 4), Fraction(1, 4)],
        [Fraction(2), Fraction(1, 2)], [Fraction(1, 3), Fraction(2, 3)]],
    3: [None, [Fraction(1, 2), Fraction(1, 6), Fraction(1, 3)], [Fraction(0), Fraction(1), Fraction(2)],
        [Fraction(1), Fraction(0), Fraction(0)], [Fraction(1), Fraction(2), Fraction(1)],
        [Fraction(1, 4), Fraction(1, 2), Fraction(1, 4)]],
}


def _rand_int_matrix(rng: random.Random, m: int, n: int | None = None):
    n = n or rng.randint(1, 4)
    hi = 3 if m == 2 else 2
    shape = rng.random()
    if shape < 0.35 and m == 3 and n == 3:          # cyclic triple: circulant Gramian, integer spectrum
        r = [rng.randint(-hi, hi) for _ in range(3)]
        return [r, r[1:] + r[:1], r[2:] + r[:2]]
    if shape < 0.6 and m == 2:                      # equal-norm pair (signed permutation of the other row)
        r = [rng.randint(-hi, hi) for _ in range(n)]
        s = r[:]
        rng.shuffle(s)
        return [r, [x * rng.choice((-1, 1)) for x in s]]
    return [[rng.randint(-hi, hi) for _ in range(n)] for _ in range(m)]


def admissible_dtypes(u: list[Fraction]) -> list[str]:
    """Mirror of DualCone.tla PrefPres (routing only: TraceDualCone re-decides it, WellFormed)."""
    out = ["f64"]
    if all(x.denominator & (x.denominator - 1) == 0 and abs(x.numerator) < 2 ** 24 for x in u):
        out.append("f32")
    if all(x.denominator == 1 for x in u):
        out.append("i64")
    return out


class LoggedObjects:
    """The tensor / aggregator objects of the exact driver, with the ids and contents that go into the log.  Object ids
    are unique over the whole run; a new session forgets the objects (`reset`) but not the counters."""

    def __init__(self):
        self.next_obj = 1
        self.next_aobj = 1
        self.reset()

    def reset(self):
        self.tensors: dict = {}        # shape -> [obj id, tensor, content {"J", "e"}]
        self.aggs: dict = {}           # args key -> (aobj id, aggregator)

    def tensor(self, J0, e: int, want: str):
        """-> (tensor object holding 2^e J0, obj id, actual mode, content before the write)"""
        shape = (len(J0), len(J0[0]))
        J = torch.tensor(J0, dtype=torch.float64) * 2.0 ** e
        slot = self.tensors.get(shape)
        if want == "reused" and slot is not None:
            before = slot[2]
            slot[1].copy_(J)
            slot[2] = {"J": J0, "e": e}
            return slot[1], slot[0], "reused", before
        slot = [self.next_obj, J, {"J": J0, "e": e}]
        self.next_obj += 1
        self.tensors[shape] = slot
        return slot[1], slot[0], "fresh", {"J": [], "e": 0}

    def agg(self, name: str, u, pdt: str, a: int, q: int, want: str):
        """-> (aggregator object, aobj id, actual mode)"""
        key = (name, None if u is None else tuple(u), pdt, a, q)
        slot = self.aggs.get(key)
        if want == "reused" and slot is not None:
            return slot[1], slot[0], "reused"
        A = make(name, pref_given(u, pdt), 2.0 ** -a, 1.0 / q)
        slot = (self.next_aobj, A)
        self.next_aobj += 1
        self.aggs[key] = slot
        return A, slot[0], "fresh"


def exact_episodes(rng: random.Random, count: int, stats: dict) -> list[dict]:
    """Run the real code on random F2 instances, in sessions of up to 6 calls on matrices of one shape (new / re-used
    tensor and aggregator objects, preference vector in any admissible dtype); one dict per call (JSON-able)."""
    eps: list[dict] = []
    tries = 0
    objs = LoggedObjects()
    sid, left, shape, last = 0, 0, None, None
    while len(eps) + len(stats.get("raised", [])) < count and tries < 200 * count:
        tries += 1
        if left == 0:
            sid += 1
            left = rng.randint(1, 6)
            shape, last = None, None
            objs.reset()
        m, n = shape if shape is not None else (rng.choice((2, 2, 3)), None)
        J0 = _rand_int_matrix(rng, m, n)
        G = gram(J0)
        tr = sum(G[i][i] for i in range(m))
        if tr == 0:
            continue
        lam = int_lambda_max(G)
        if lam is None:
            stats["irrational_lambda_candidates"] = stats.get("irrational_lambda_candidates", 0) + 1
            continue
        if not any(G[i][j] < 0 for i in range(m) for j in range(m)) and rng.random() < 0.8:
            continue                                  # keep mostly conflicting instances
        q = rng.choice((2, 4, 8, 16) if m == 2 else (2, 4))
        a = rng.choice((1, 2, 3, 4, 5))
        agg = rng.choice(("upgrad", "dualproj"))
        u = rng.choice(PREF_POOL[m])
        pdt = "none" if u is None else rng.choice(admissible_dtypes(u))
        if last is not None and rng.random() < 0.5:
            q, a, agg, u, pdt = last                  # the arguments of the session's previous call (same aggregator object possible)
        # scale exponent around the threshold  lam * 4^(e + a) ~ 1
        k0 = -int(math.floor(math.log(lam, 4)))
        k = k0 + rng.choice((-2, -1, 0, 0, 1, 1, 2, 3))
        if abs(k) > 8 or lam * Fraction(4) ** k == 1:
            continue
        uu = u if u is not None else [Fraction(1, m)] * m
        if not tlc_safe(G, lam, 1, q, uu, agg):
            stats["routed_to_predicate_32bit"] = stats.get("routed_to_predicate_32bit", 0) + 1
            continue
        e = k - a
        want_t, want_a = rng.choice(("fresh", "reused", "reused")), rng.choice(("fresh", "reused", "reused"))
        prefix = [x for x in eps if x["sid"] == sid]
        shape = (m, len(J0[0]))
        last = (q, a, agg, u, pdt)
        left -= 1
        meta = {}
        try:
            A, aobj, amode = objs.agg(agg, u, pdt, a, q, want_a)
            meta = {"aobj": aobj, "amode": amode}
            J, obj, tmode, before = objs.tensor(J0, e, want_t)
            meta |= {"obj": obj, "tmode": tmode, "before": before}
            w = A.weighting(J).tolist()
            out = A(J).tolist()
        except Exception as ex:                                               # noqa: BLE001
            stats.setdefault("raised", []).append(
                {"agg": agg, "J0": J0, "e": e, "a": a, "q": q, "u": [str(x) for x in uu], "pdt": pdt, "default_pref": u is None,
                 "want": [want_t, want_a], "prefix": prefix, "exc": f"{type(ex).__name__}: {str(ex)[:150]}"})
            left = 0                                  # the objects of this session are in an unknown state: start anew
            continue
        wr = [rationalise(x) for x in w]
        eps.append({"ep": len(eps) + 1, "sid": sid, "J": J0, "e": e, "a": a, "reg": [1, q],
                    "u": [[x.numerator, x.denominator] for x in uu], "agg": agg, "pdt": pdt,
                    "w": [] if any(x is None for x in wr) else wr,
                    "w_float": w, "out_float": out, "default_pref": u is None} | meta)
    for k_, f_ in (("episodes_tensor_reused", lambda x: x["tmode"] == "reused"), ("episodes_agg_reused", lambda x: x["amode"] == "reused"),
                   ("episodes_pref_f32", lambda x: x["pdt"] == "f32"), ("episodes_pref_i64", lambda x: x["pdt"] == "i64")):
        stats[k_] = sum(1 for x in eps if f_(x))
    return eps


def report_raised(ctx: Ctx, stats: dict) -> None:
    for r in stats.get("raised", []):
        j = ";".join(",".join(str(x) for x in row) for row in r["J0"])
        hist = f" after {len(r['prefix'])} earlier call(s) of the session" if r.get("prefix") else ""
        ctx.violation(f"trace:{r['agg']}:J=[{j}]:e={r['e']}:a={r['a']}:reg=1/{r['q']}:pref={r.get('pdt', 'f64')}:raised",
                      f"{r['agg']}(pref={r['u']} given as {r.get('pdt', 'f64')}, norm_eps=2^-{r['a']}, reg_eps=1/{r['q']}) on J = 2^{r['e']} * "
                      f"{r['J0']}{hist} raised {r['exc']}", {"kind": "raised", **r})
    stats["raised"] = len(stats.get("raised", []))


def _norm_episode(e: dict, i: int) -> dict:
    """Defaults for logs written before presentations / histories were recorded (old replay files)."""
    return {"pdt": "none" if e.get("default_pref") else "f64", "obj": 10 ** 6 + i, "tmode": "fresh", "before": {"J": [], "e": 0},
            "aobj": 10 ** 6 + i, "amode": "fresh", "sid": 0} | e


class _Rerun:
    """Re-execution of logged episodes on the current code, honouring the logged object identities."""

    def __init__(self):
        self.tensors: dict = {}
        self.aggs: dict = {}

    def call(self, e: dict):
        uu = [Fraction(a, b) for a, b in e["u"]]
        u = None if e.get("default_pref") else uu
        if e["amode"] == "reused" and e["aobj"] in self.aggs:
            A = self.aggs[e["aobj"]]
        else:
            A = self.aggs[e["aobj"]] = make(e["agg"], pref_given(u, e["pdt"]), 2.0 ** -e["a"], e["reg"][0] / e["reg"][1])
        J = torch.tensor(e["J"], dtype=torch.float64) * 2.0 ** e["e"]
        if e["tmode"] == "reused" and e["obj"] in self.tensors:
            self.tensors[e["obj"]].copy_(J)
            J = self.tensors[e["obj"]]
        else:
            self.tensors[e["obj"]] = J
        return A.weighting(J).tolist(), A(J).tolist()


def rerun_episodes(episodes: list[dict]) -> list[dict]:
    """Re-execute logged episodes (a session prefix) in order on the current code (used by --replay)."""
    rr = _Rerun()
    out = []
    for i, e in enumerate(episodes):
        e = _norm_episode(e, i)
        w, o = rr.call(e)
        wr = [rationalise(x) for x in w]
        out.append(e | {"ep": i + 1, "w": [] if any(x is None for x in wr) else wr, "w_float": w, "out_float": o})
    return out


def rerun_episode(e: dict) -> dict:
    """Re-execute the call of ONE logged episode alone, on new objects (C04's replay)."""
    return rerun_episodes([e | {"tmode": "fresh", "amode": "fresh", "before": {"J": [], "e": 0}}])[0]


def replay_raised(ctx: Ctx, p: dict) -> None:
    rr = _Rerun()
    for i, e in enumerate(p.get("prefix", [])):
        try:
            rr.call(_norm_episode(e, i))
        except Exception:                                                     # noqa: BLE001
            pass
    want = p.get("want", ["fresh", "fresh"])
    same = [e for e in p.get("prefix", []) if (len(e["J"]), len(e["J"][0])) == (len(p["J0"]), len(p["J0"][0]))]
    e = {"J": p["J0"], "e": p["e"], "a": p["a"], "reg": [1, p["q"]], "agg": p["agg"], "pdt": p.get("pdt", "f64"),
         "u": [[Fraction(x).numerator, Fraction(x).denominator] for x in p["u"]], "default_pref": p.get("default_pref", False),
         "tmode": want[0] if same else "fresh", "obj": same[-1]["obj"] if same else -1, "amode": "fresh", "aobj": -1}
    if want[1] == "reused":
        for x in p.get("prefix", []):
            if all(x[k] == e[k] for k in ("agg", "u", "pdt", "a", "reg")):
                e |= {"amode": "reused", "aobj": x["aobj"]}
    try:
        rr.call(e)
    except Exception as ex:                                                   # noqa: BLE001
        ctx.violation("trace:raised:replay", f"{p['agg']} raised {type(ex).__name__}: {str(ex)[:150]}", p)


def validate_exact(ctx: Ctx, episodes: list[dict], pid: str) -> dict:
    if not episodes:
        if ctx.violations:
            return {"episodes": 0, "accepted": 0, "rejected": 0, "skipped": 0}
        raise MachineryError("no exact episode generated")
    with tempfile.TemporaryDirectory(prefix="verif_dualcone_") as d:
        path = os.path.join(d, "episodes.json")
        episodes = [_norm_episode(e, i) for i, e in enumerate(episodes)]
        slim = [{k: e[k] for k in ("ep", "J", "e", "a", "reg", "u", "agg", "w", "pdt", "obj", "tmode", "before", "aobj", "amode")}
                for e in episodes]
        with open(path, "w") as f:
            json.dump(slim, f)
        res = run_tlc("TraceDualCone", "Trace_DualCone.cfg", workers=1, env={"TRACE_FILE": path}, timeout=900)
    ctx.add_tlc(res)
    if res.error is not None:
        raise MachineryError(f"TLC machinery failure on TraceDualCone:\n{res.error[:2000]}")
    if res.violated:
        raise MachineryError(f"trace spec did not consume the log: {res.violated}\n{res.cex[:1500]}")
    if res.prints.get("MALFORMED"):
        raise MachineryError(f"TraceDualCone: the logged presentation / object history of episodes {res.prints['MALFORMED'][:5]} is not "
                             f"the one the specification reconstructs (driver bookkeeping)")
    summ = res.prints.get("SUMMARY", [None])[0]
    if not summ or summ["episodes"] != len(episodes) or \
            summ["accepted"] + summ["rejected"] + summ["skipped"] != len(episodes):
        raise MachineryError(f"trace validation incomplete: {summ}")
    if summ["skipped"] > len(episodes) // 10:
        raise MachineryError(f"too many episodes outside family F2 according to TLC: {summ}")
    by_ep = {e["ep"]: e for e in episodes}
    for rj in res.prints.get("REJECT", []):
        e = by_ep[rj["ep"]]
        exp = [Fraction(a, b) for a, b in rj["expected"]]
        if len(exp) == len(e["w_float"]) and all(abs(float(q) - x) <= 1e-10 * max(1.0, abs(x)) for q, x in zip(exp, e["w_float"])):
            raise MachineryError(f"rationalisation artefact: logged {e['w']} for floats {e['w_float']} but exact {rj['expected']}")
        j = ";".join(",".join(str(x) for x in r) for r in e["J"])
        key = f"trace:{e['agg']}:J=[{j}]:e={e['e']}:a={e['a']}:reg=1/{e['reg'][1]}:u={e['u']}"
        if e["pdt"] not in ("none", "f64"):
            key += f":pref={e['pdt']}"
        prefix = [x for x in episodes if x["sid"] == e["sid"] and x["ep"] <= e["ep"]] if e["sid"] else [e]
        hist = ""
        if e["tmode"] == "reused" or e["amode"] == "reused":
            key += f":tensor_{e['tmode']}:agg_{e['amode']}"
            hist = (f" (call {len(prefix)} of its session: tensor object {e['tmode']}" +
                    (f", it held 2^{e['before']['e']} * {e['before']['J']} before the in-place write" if e["tmode"] == "reused" else "") +
                    f"; aggregator object {e['amode']})")
        desc = (f"{e['agg']}(pref={e['u']} given as {e['pdt']}, norm_eps=2^-{e['a']}, reg_eps=1/{e['reg'][1]}) on J = 2^{e['e']} * {e['J']}"
                f"{hist}: logged weights {e['w_float']}")
        if pid == "C03":
            ctx.violation(key, f"{desc} rejected by DualCone ({rj['clause']}); exact weights {rj['expected']}",
                          {"kind": "trace", "episode": e, "episodes": prefix, "clause": rj["clause"]})
            continue
        # C04 only demands the cone constraint (G w)_i >= -reg_eps s^2 w_i of the logged weights
        cone = rj["cone"]
        if cone == "unknown":
            G = gram(e["J"])
            lam = int_lambda_max(G)
            q = e["reg"][1]
            w = e["w_float"]
            a = max(abs(q * G[i][k] + (lam if i == k else 0)) for i in range(len(G)) for k in range(len(G)))
            r = [sum((q * G[i][k] + (lam if i == k else 0)) * w[k] for k in range(len(G))) for i in range(len(G))]
            cone = "yes" if min(r) < -1e-11 * a * sum(abs(x) for x in w) else "no"
            ctx.count("cone_verdicts_in_float64")
        if cone == "yes":
            ctx.violation(key, f"{desc} violate (G w)_i >= -reg_eps s^2 w_i (TraceDualCone: {rj['clause']}); exact weights "
                               f"{rj['expected']}", {"kind": "trace", "episode": e, "clause": rj["clause"]})
        else:
            ctx.count("rejections_that_keep_the_cone_constraint")
            ctx.note(f"an episode was rejected by TraceDualCone ({rj['clause']}) although its weights satisfy the cone "
                     f"constraint: not a C04 matter (see C03)")
    ctx.traces += summ["accepted"] + summ["rejected"]
    return summ


# ---------------------------------------------------------------- predicate level (float64)

def _wtol(reg_eps: float, f32: bool) -> float:
    """Relative allowance on the weights: the perturbation bound of dualcone_replay.eval_c03 for the minimiser of the
    regularised QP, (K eps / reg_eps + 2 eps) with (K32, eps32) for float32 matrices and (K64, eps64) for float64 ones
    (the same allowance as in the replay of the row-scaled family; the measured residuals stay below 1 % of it)."""
    return (K32 * EPS32 / reg_eps + 2 * EPS32) if f32 else (K64 * EPS64 / reg_eps + 2 * EPS64)


def kkt_predicate(J: torch.Tensor, u: list[float], norm_eps: float, reg_eps: float, w: list[float], f32: bool = False) -> str | None:
    """KKT conditions of min v^T (G/s^2 + reg_eps I) v, v >= u at the logged weights, in float64 (J: the float64
    image of the matrix that was given; f32: it was given, and the weights were computed, in float32).
    Returns the failing clause or None."""
    G = (J @ J.T).numpy()
    s2 = float(np.linalg.eigvalsh(G)[-1])
    m = len(u)
    wv = np.array(w)
    uv = np.array(u)
    scale = 1.0 + float(np.abs(wv).sum())
    margin = 1e-4 if f32 else 1e-9
    if math.sqrt(max(s2, 0.0)) < norm_eps * (1 - margin):
        ok = np.allclose(wv, uv, rtol=2 * EPS32, atol=2 * EPS32) if f32 else np.allclose(wv, uv, rtol=1e-12, atol=1e-12)
        return None if ok else "below_norm_eps_weights_must_be_the_preference_vector"
    if math.sqrt(max(s2, 0.0)) < norm_eps * (1 + margin):
        return None
    A = G / s2 + reg_eps * np.eye(m)
    r = A @ wv
    tol = _wtol(reg_eps, f32) * scale
    if (wv < uv - tol).any():
        return "w_below_preference_vector"
    if (r < -2 * tol).any():
        return "regularised_cone_constraint_violated"
    if (np.abs((wv - uv) * r) > 2 * tol * scale).any():
        return "complementary_slackness_violated"
    return None


ROW_SCALE_EXPONENTS = (0, 0, 3, 6, 8, 9, 10, 12)
PRED_PREF_ENTRIES = (0.0, 0.0, 0.5, 1.0, 1.0, 2.0, 2.0 ** -36)      # sparse / one-hot / tiny entries included


def _pred_matrix(rng: random.Random, g: torch.Generator, kind: str, m: int, n: int) -> torch.Tensor:
    if kind == "gauss":
        J = torch.randn(m, n, dtype=torch.float64, generator=g)
    elif kind == "int":
        J = torch.randint(-3, 4, (m, n), generator=g).to(torch.float64)
    elif kind == "lowrank":
        J = torch.randn(m, 1, dtype=torch.float64, generator=g) @ torch.randn(1, n, dtype=torch.float64, generator=g)
    else:
        J = torch.randn(m, n, dtype=torch.float64, generator=g)
        J[1] = -J[0] * (1 + 1e-3 * rng.random()) + 1e-3 * torch.randn(n, dtype=torch.float64, generator=g)
    if rng.random() < 0.4:
        # row-scale ladder (DualCone.tla, row-scaled family): row norms up to 12 orders of magnitude apart
        d = torch.tensor([10.0 ** -rng.choice(ROW_SCALE_EXPONENTS) for _ in range(m)], dtype=torch.float64)
        J = J * d[:, None]
    return J * 10.0 ** rng.choice((-6, -3, 0, 0, 3, 6))


def _pred_pref(u: list[float], pdt: str):
    return torch.tensor([int(x) for x in u], dtype=torch.int64) if pdt == "i64" else torch.tensor(u, dtype=DTYPES[pdt])


def judge_predicate_call(call: dict, sess: Session) -> list[tuple[str, str]]:
    """One predicate-level call (DualProj and UPGrad on the same matrix, as the call presents it: matrix dtype,
    preference dtype, new / re-used tensor and aggregator objects of `sess`) -> [(key suffix, what)]."""
    mdt, pdt, u, ne, rg = call["mdt"], call["pdt"], call["u"], call["norm_eps"], call["reg_eps"]
    f32 = mdt == "f32"
    m = len(u)
    Jg = torch.tensor(call["J"], dtype=DTYPES[mdt])             # the values given (float32: already rounded)
    J64 = Jg.to(torch.float64)
    desc = (f"(pref={u} given as {pdt}, norm_eps={ne}, reg_eps={rg}) on the {mdt} matrix {call['J']} "
            f"[tensor object {call['tmode']}, aggregator object {call['amode']}]")
    uf = [Fraction(x) for x in u]
    try:
        J = sess.tensor(Jg, call["tmode"])
        wD = sess.agg("dualproj", uf, pdt, ne, rg, call["amode"]).weighting(J).to(torch.float64)
        wU = sess.agg("upgrad", uf, pdt, ne, rg, call["amode"]).weighting(J).to(torch.float64)
    except Exception as ex:                                                   # noqa: BLE001
        return [(":raised", f"UPGrad/DualProj{desc} raised {type(ex).__name__}: {str(ex)[:150]}")]
    out = []
    clause = kkt_predicate(J64, u, ne, rg, wD.tolist(), f32)
    if clause:
        out.append((":dualproj", f"DualProj{desc}: weights {wD.tolist()} break the KKT system of the regularised projection ({clause})"))
    rows = torch.zeros(m, dtype=torch.float64)
    bad = None
    for i in range(m):
        ui = [u[j] if j == i else 0.0 for j in range(m)]
        try:
            wi = make("dualproj", torch.tensor(ui, dtype=DTYPES[mdt]), ne, rg).weighting(Jg.clone()).to(torch.float64)
        except Exception as ex:                                               # noqa: BLE001
            out.append((f":dualproj:raised:{i}", f"DualProj(pref={ui}, norm_eps={ne}, reg_eps={rg}) raised {type(ex).__name__}: "
                                                 f"{str(ex)[:150]} on {call['J']}"))
            bad = "raised"
            continue
        bad = bad or kkt_predicate(J64, ui, ne, rg, wi.tolist(), f32)
        rows += wi
    tolU = (2 * m * _wtol(rg, True) if f32 else 1e-9) * (1 + float(rows.abs().sum()))
    if bad is None and float((wU - rows).abs().max()) > tolU:
        out.append((":upgrad", f"UPGrad{desc}: weights {wU.tolist()} are not the sum of the projections of u_i e_i = {rows.tolist()}"))
    return out


def replay_predicate(ctx: Ctx, p: dict) -> None:
    calls = p["calls"] if "calls" in p else [{"J": p["J"], "u": p["u"], "norm_eps": p["norm_eps"], "reg_eps": p["reg_eps"],
                                              "mdt": "f64", "pdt": "f64", "tmode": "fresh", "amode": "fresh"}]
    sess = Session()
    for i, c in enumerate(calls):
        got = judge_predicate_call(c, sess)
        if i == len(calls) - 1:
            for suffix, what in got:
                ctx.violation("pred:replay" + suffix, what, p)


def predicate_episodes(ctx: Ctx, rng: random.Random, count: int, pid: str) -> int:
    """Gaussian / general integer matrices, m <= 5: DualProj by its KKT system, UPGrad as the sum of the KKT-validated
    projections of u_i e_i.  Sessions of 1..4 calls on matrices of one shape and dtype (float64, or float32 with
    reg_eps >= 1e-2 where the float32 allowance is meaningful), tensor / aggregator objects new or re-used, the
    preference vector given as float64 / float32 / int64 (entries in {0, 2^-36, 1/2, 1, 2}, at least one >= 1/2: exact in
    every admissible dtype; sparse, one-hot and tiny-entry vectors included); 40 % of the matrices have their rows scaled
    by powers of ten down to 1e-12 (row-scale ladder)."""
    done = 0
    g = torch.Generator().manual_seed(rng.randrange(2 ** 31))
    while done < count:
        m = rng.randint(2, 5)
        n = rng.randint(1, 8)
        mdt = "f32" if rng.random() < 0.25 else "f64"
        sess = Session()
        calls: list[dict] = []
        for _ in range(rng.randint(1, 4)):
            if done >= count:
                break
            kind = rng.choice(("gauss", "int", "lowrank", "antiparallel"))
            J = _pred_matrix(rng, g, kind, m, n).to(DTYPES[mdt])
            if float(J.abs().max()) == 0.0:
                continue
            if mdt == "f32":
                ne, rg = rng.choice(((1e-6, 1e-2), (0.5, 0.125), (1e-4, 0.5)))
            else:
                ne, rg = rng.choice(((1e-4, 1e-4), (1e-4, 1e-4), (1e-6, 1e-2), (1e-2, 1e-6), (0.5, 0.125)))
            u = [rng.choice(PRED_PREF_ENTRIES) for _ in range(m)]
            if max(u) < 0.5:
                u[rng.randrange(m)] = 1.0
            pdt = rng.choice(["f64", "f32"] + (["i64"] if all(x == int(x) for x in u) else []))
            call = {"J": J.tolist(), "u": u, "norm_eps": ne, "reg_eps": rg, "mdt": mdt, "pdt": pdt,
                    "tmode": rng.choice(("fresh", "reused")), "amode": rng.choice(("fresh", "reused"))}
            calls.append(call)
            key = f"pred:{kind}:m={m}:n={n}:{mdt}:pref={pdt}:seed={ctx.seed}:i={done}"
            for suffix, what in judge_predicate_call(call, sess):
                ctx.violation(key + suffix, what + (f" (call {len(calls)} of its session)" if len(calls) > 1 else ""),
                              {"kind": "pred", "calls": list(calls)})
            ctx.count(f"predicate_matrix_{mdt}_pref_{pdt}")
            if len(calls) > 1 and call["tmode"] == "reused":
                ctx.count("predicate_tensor_reused")
            done += 1
            ctx.evaluations += 2 + m
    return done


# ---------------------------------------------------------------- MGDA episodes (TraceMinNorm)

def _mgda_matrix(rng: random.Random):
    m = 3 if rng.random() < 0.8 else 2
    n = rng.randint(2, 3)
    kind = rng.random()
    if kind < 0.5:        # imbalanced row norms (one short row among long ones)
        short = rng.randrange(m)
        return [[rng.randint(-1, 1) if i == short else rng.randint(-4, 4) for _ in range(n)] for i in range(m)]
    if kind < 0.65:       # nearly antiparallel pair
        r = [rng.randint(-4, 4) for _ in range(n)]
        J = [r, [-x + rng.choice((0, 0, 1, -1)) for x in r]]
        J = [[max(-4, min(4, x)) for x in row] for row in J]
        return J + ([[rng.randint(-4, 4) for _ in range(n)]] if m == 3 else [])
    return [[rng.randint(-4, 4) for _ in range(n)] for _ in range(m)]


def mgda_episode(args) -> dict:
    """One MGDA(epsilon = 0, max_iters = K) call; epsilon = 0 is given as the float 0.0 or as the integer 0 (`epsz`,
    DualCone.tla EpsZeroPres; jobs without the field: by the parity of the episode number)."""
    J0, K, ep = args[:3]
    epsz = args[3] if len(args) > 3 else ("float", "int")[ep % 2]
    J = torch.tensor(J0, dtype=torch.float64)
    try:
        out = make("mgda", None, epsilon=0.0, epsz=epsz, max_iters=K)(J)
        if not bool(torch.isfinite(out).all()):
            raise ValueError("non-finite output")
    except Exception as ex:                                                   # noqa: BLE001
        return {"ep": ep, "J": J0, "K": K, "epsz": epsz, "raised": f"{type(ex).__name__}: {str(ex)[:150]}"}
    a2 = float(out @ out)
    prod = (J @ out).tolist()
    slack = 1e-9 * (1.0 + a2)
    return {"ep": ep, "J": J0, "K": K, "epsz": epsz,
            "a2lo": int(math.floor((a2 - slack) * 1024)), "a2hi": int(math.ceil((a2 + slack) * 1024)),
            "phi": [int(math.ceil((p + 1e-9 * (1.0 + abs(p))) * 64)) for p in prod],
            "out_float": out.tolist()}


def mgda_episodes(rng: random.Random, count: int, budgets=(1, 2, 3, 10, 100, 1000, 5000), huge=(20000, 60000),
                  n_huge=(8, 4)) -> list:
    """(J0, K, ep, epsz) jobs: integer matrices with entries in -4..4, m <= 3 (strongly conflicting, imbalanced,
    rank-deficient ones included), all iteration budgets of the specification's ladder; large budgets get half of the
    episodes, the two budgets at the top of the ladder n_huge[0] / n_huge[1] episodes on three-row matrices (they come
    first: a call costs K iterations); epsilon = 0 given as float / int at random."""
    jobs = []
    todo = [K for K, k in zip(reversed(huge), reversed(n_huge)) for _ in range(k)]
    while len(jobs) < count:
        J0 = _mgda_matrix(rng)
        if all(x == 0 for r in J0 for x in r):
            continue
        if todo:
            if len(J0) < 3:
                continue
            K = todo.pop(0)
        else:
            K = rng.choice((1000, 5000, 5000)) if rng.random() < 0.5 else rng.choice(budgets)
        jobs.append((J0, K, len(jobs) + 1, rng.choice(("float", "int"))))
    return jobs


def _eps0(e: dict) -> str:
    return "0" if e.get("epsz") == "int" else "0.0"


def validate_mgda(ctx: Ctx, episodes: list[dict]) -> dict:
    for e in [e for e in episodes if "raised" in e]:
        j = ";".join(",".join(str(x) for x in r) for r in e["J"])
        ctx.violation(f"trace:mgda:J=[{j}]:K={e['K']}:raised", f"MGDA(epsilon={_eps0(e)}, max_iters={e['K']}) on {e['J']}: {e['raised']}",
                      {"kind": "mgda_trace", "J": e["J"], "K": e["K"], "epsz": e.get("epsz", "float")})
    episodes = [e | {"ep": i + 1} for i, e in enumerate(e for e in episodes if "raised" not in e)]
    if not episodes:
        return {"episodes": 0, "accepted": 0, "rejected": 0}
    with tempfile.TemporaryDirectory(prefix="verif_minnorm_") as d:
        path = os.path.join(d, "episodes.json")
        with open(path, "w") as f:
            json.dump([{k: e[k] for k in ("ep", "J", "K", "a2lo", "a2hi", "phi")} | {"epsz": e.get("epsz", "float")} for e in episodes], f)
        res = run_tlc("TraceMinNorm", "Trace_MinNorm.cfg", workers=1, env={"TRACE_FILE": path}, timeout=900)
    ctx.add_tlc(res)
    if res.violated:
        raise MachineryError(f"trace spec did not consume the log: {res.violated}\n{res.cex[:1500]}")
    summ = res.prints.get("SUMMARY", [None])[0]
    if not summ or summ["episodes"] != len(episodes) or summ["accepted"] + summ["rejected"] != len(episodes):
        raise MachineryError(f"MGDA trace validation incomplete: {summ}")
    by_ep = {e["ep"]: e for e in episodes}
    for rj in res.prints.get("REJECT", []):
        e = by_ep[rj["ep"]]
        if rj["clause"].startswith("model_"):
            raise MachineryError(f"MinNorm model failure on {e['J']}: {rj['clause']}")
        j = ";".join(",".join(str(x) for x in r) for r in e["J"])
        ctx.violation(f"trace:mgda:J=[{j}]:K={e['K']}:{rj['clause']}",
                      f"MGDA(epsilon={_eps0(e)}, max_iters={e['K']}) on {e['J']}: A(J) = {e['out_float']}, |A|^2*1024 in "
                      f"[{e['a2lo']}, {e['a2hi']}], minnorm^2 = {rj['mn2']}, {rj['lamLo']} <= s^2 < {rj['lamLo'] + 1}: "
                      f"{rj['clause']}", {"kind": "mgda_trace", "J": e["J"], "K": e["K"], "epsz": e.get("epsz", "float")})
    ctx.traces += len(episodes)
    return summ
