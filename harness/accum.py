"""C06 harness: step-by-step execution of Accumulation.tla histories on the real code."""

from __future__ import annotations

import random

import torch

from .autojac_replay import PRESENTATIONS, present
from .autojac_replay import fmap as _fm
from .programs import Built

GRAD_LEAVES = [1, 2, 3, 4, 5, 14, 15]
LOSSES = [9, 11, 18]


class Stepper:
    """The fixed program of FixedProg.tla with real tensors; executes abstract actions."""

    def __init__(self, static: dict, pre: list[int], rng: random.Random, dtype=torch.float64, aggregator_factory=None,
                 mixed: tuple = ()):
        """``mixed``: leaf ids realised in the OTHER float dtype (mixed-precision parameter sets)."""
        self.static = static
        self.rng = rng
        self.dtype = dtype
        self.B = Built(static["prog"], dtype=dtype, rng=rng, scalars=LOSSES, other_dtype_leaves=mixed)
        self.keep: list = []                      # keeps every .grad tensor ever seen alive (no address reuse)
        self.aggf = aggregator_factory
        for l in pre:
            self.B.set_grad(l, _fm(static["precontent"])[l])
        self._remember()

    def _remember(self):
        for l in GRAD_LEAVES:
            g = self.B.node(l).grad
            if g is not None and not any(g is k for k in self.keep):
                self.keep.append(g)

    def ptrs(self) -> dict:
        return {l: (None if self.B.node(l).grad is None else self.B.node(l).grad.untyped_storage().data_ptr())
                for l in GRAD_LEAVES}

    def objs(self) -> dict:
        return {l: self.B.node(l).grad for l in GRAD_LEAVES}

    def grads(self) -> dict:
        return {l: self.B.grad_flat(l) for l in GRAD_LEAVES}

    def other_ptrs(self) -> set:
        return {t.untyped_storage().data_ptr() for t in self.B.t}

    def apply(self, ev: dict) -> dict:
        """Execute one action; return the observation record (TraceAccumulation event)."""
        from torchjd import backward, mtl_backward
        from torchjd.aggregation import Constant

        B, rng = self.B, self.rng
        before_p, before_o = self.ptrs(), self.objs()
        vals0 = B.flat_vals()
        act, i = ev["act"], ev["i"]
        exc = None
        try:
            if act == "call":
                c = self.static["calls"][i - 1]
                req = list(c["inputs"]) if c["fn"] == "backward" else list(c["shared"])
                wdt = B.node(req[0]).dtype if req else self.dtype
                for l in req[1:]:
                    wdt = torch.promote_types(wdt, B.node(l).dtype)      # dtype of the united Jacobian
                w = torch.tensor([float(x) for x in c["w"]], dtype=wdt)
                agg = Constant(w) if self.aggf is None else self.aggf(c)
                k = rng.choice([None, None, 1, 2, 5])
                how = rng.choice(PRESENTATIONS)
                if c["fn"] == "backward":
                    ins = [B.node(l) for l in c["inputs"]]
                    rng.shuffle(ins)
                    backward([B.node(t) for t in c["tensors"]], agg, inputs=present(ins, how),
                             retain_graph=True, parallel_chunk_size=k)
                else:
                    sh = [B.node(l) for l in c["shared"]]
                    rng.shuffle(sh)
                    mtl_backward([B.node(l) for l in c["losses"]], [B.node(f) for f in c["feats"]], agg,
                                 tasks_params=[present([B.node(p) for p in tp], how) for tp in c["tparams"]],
                                 shared_params=present(sh, how), retain_graph=True, parallel_chunk_size=k)
            elif act == "zero":
                B.node(i).grad.zero_()
            elif act == "none":
                B.node(i).grad = None
            elif act == "edit":
                B.node(i).grad += 1
            elif act == "replace":
                B.node(i).grad = torch.full_like(B.node(i), 7.0)
            else:
                raise ValueError(act)
        except Exception as e:                      # noqa: BLE001
            exc = e
        seen_before = {k.untyped_storage().data_ptr() for k in self.keep}     # every .grad tensor ever seen
        seen_ids = {id(k) for k in self.keep}
        self._remember()
        after_p, after_o = self.ptrs(), self.objs()
        # a .grad that appears where there was none must be NEW memory: not any gradient tensor the
        # user may still hold from before a reset (C06: "shares memory with no other tensor")
        recycled = [l for l in GRAD_LEAVES if before_p[l] is None and after_p[l] is not None and act == "call"
                    and (after_p[l] in seen_before or id(after_o[l]) in seen_ids)]
        same = {}
        for l in GRAD_LEAVES:
            if before_p[l] is None and after_p[l] is None:
                same[l] = True
            elif before_p[l] is None or after_p[l] is None:
                same[l] = False
            else:
                same[l] = (before_p[l] == after_p[l]) and (before_o[l] is after_o[l])
        live = [p for p in after_p.values() if p is not None]
        distinct = len(set(live)) == len(live) and not (set(live) & self.other_ptrs()) and not recycled
        return {"act": act, "i": i, "grad": self.grads(), "same": same, "distinct": distinct,
                "vals": B.flat_vals() == vals0, "exc": None if exc is None else f"{type(exc).__name__}: {str(exc)[:160]}"}


def event_json(obs: dict) -> dict | None:
    """Observation -> integer-only JSON event (None if some gradient is not integral)."""
    g = []
    for l in GRAD_LEAVES:
        v = obs["grad"][l]
        if v is None:
            g.append([])
        else:
            if any(x != int(x) for x in v) or any(abs(x) >= 2 ** 30 for x in v):
                return None
            g.append([int(x) for x in v])
    return {"act": obs["act"], "i": obs["i"], "grad": g, "same": [obs["same"][l] for l in GRAD_LEAVES],
            "distinct": obs["distinct"], "vals": obs["vals"]}


def random_history(rng: random.Random, static: dict, length: int) -> list[dict]:
    evs = []
    for _ in range(length):
        r = rng.random()
        if r < 0.6:
            evs.append({"act": "call", "i": rng.randint(1, len(static["calls"]))})
        else:
            evs.append({"act": rng.choice(["zero", "none", "edit", "replace"]), "i": rng.choice([1, 3, 4])})
    return evs
