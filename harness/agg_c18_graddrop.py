"""C18 / GradDrop: replay of spec/GradDrop.tla scenarios with torch.rand FORCED to reach every sign
choice, and recording of free-seed calls for spec/TraceGradDrop.tla."""

from __future__ import annotations

import math
import random
from fractions import Fraction

import torch

from .agg_c18_common import Interpose, fr

THETA = (math.sqrt(5) - 1) / 2          # irrational fraction: a forced draw never equals f(P)
UBASE = 2 ** 16


def f_callable(kind: str):
    if kind == "id":
        return None
    if kind == "sq":
        return lambda P: P * P
    if kind == "half":
        return lambda P: 0.5 * (1.0 + P)
    raise ValueError(kind)


def make_graddrop(kind: str, leak: list[Fraction]):
    from torchjd.aggregation import GradDrop
    lk = torch.tensor([float(x) for x in leak], dtype=torch.float64)
    f = f_callable(kind)
    return GradDrop(leak=lk) if f is None else GradDrop(f=f, leak=lk)


def forced_u(scn: dict, variant: int) -> list[float]:
    """One uniform number per column that realises the scripted sign choice: strictly between 0
    and f(P) for 'pos', strictly between f(P) and 1 for 'neg' (variant 1: close to f(P))."""
    us = []
    for c, ch in enumerate(scn["choice"]):
        fp = float(fr(scn["fp"][c]))
        t = THETA if variant == 0 else 1e-6 * (1 + THETA)
        if ch == "pos":
            us.append(fp * (1 - t) if variant else fp * t)
        elif ch == "neg":
            us.append(fp + (1 - fp) * t)
        else:
            us.append(0.3 + 0.1 * THETA)
    return us


def exact(values) -> list[Fraction]:
    return [Fraction(float(v)) for v in values]


DTYPES = {"float64": torch.float64, "float32": torch.float32, "bfloat16": torch.bfloat16, "float16": torch.float16}


def allowance(scn: dict, dt) -> list[float]:
    """Per coordinate: units * eps(dtype) * sum_r |J_rc| (spec/GradDrop.tla, AllowUnits)."""
    eps = float(torch.finfo(dt).eps)
    return [scn["units"] * eps * a for a in scn["absum"]]


def near(x: float, q: Fraction, tol: float) -> bool:
    return abs(Fraction(x) - q) <= Fraction(tol)


def forced_call(A, scn: dict, dt, variant: int):
    """A(J) in dtype dt with the draw forced to the scripted sign choice; (output, forced?)"""
    J = torch.tensor(scn["J"], dtype=dt)
    n = J.shape[1]
    us = forced_u(scn, variant)

    def script(shape, *a, _us=us, **kw):
        if tuple(shape) != (n,):
            return None
        return torch.tensor(_us, dtype=torch.float64).to(kw.get("dtype", torch.float64))
    with Interpose("rand", [script]) as ip:
        out = A(J)
    return out, (len(ip.calls) == 1 and ip.unscripted == 0), us


def replay_history(item) -> dict:
    """ONE GradDrop object (leak given in float64, as the exact rationals of the scenario rounded once) called on
    the scenario's matrix in the dtypes of one of the model's dtype histories, the draw forced each time.  Every
    call is judged on its own against the exact coordinates of the specification within the allowance of ITS
    dtype: what was aggregated before - and in which precision - is no part of the expected value."""
    scn, idx = item
    hists = scn["hist"]
    hist = hists[idx % len(hists)]
    leak = [fr(p) for p in scn["leak"]]
    expected = [fr(p) for p in scn["out"]]
    cands = [{fr(p) for p in cs} for cs in scn["cand"]]
    n = len(expected)
    v = {"idx": idx, "status": "ok", "hist": hist, "calls": 0, "other_sign": 0}
    try:
        A = make_graddrop(scn["f"], leak)
        for k, dname in enumerate(hist):
            dt = DTYPES[dname]
            out, forced, us = forced_call(A, scn, dt, 0)       # variant 0: the draw is far from f(P) in every dtype
            v["calls"] += 1
            if out.dtype != dt or tuple(out.shape) != (n,):
                v.update(status="outside", pos=k, dtype=dname, cols=list(range(n)), float_out=out.tolist(),
                         why=f"output of dtype {out.dtype} and shape {tuple(out.shape)}")
                return v
            vals = [float(x) for x in out.tolist()]
            tol = allowance(scn, dt)
            if all(near(vals[c], expected[c], tol[c]) for c in range(n)):
                continue
            outside = [c for c in range(n) if not any(near(vals[c], q, tol[c]) for q in cands[c])]
            if not outside:
                v["other_sign"] += 1                           # the other member of the pair: the low-precision f(P)
                continue                                       # fell on the other side of the draw; not judged here
            v.update(status="outside", pos=k, dtype=dname, cols=outside, float_out=vals, forced=forced, u=us,
                     tol=[tol[c] for c in outside])
            return v
    except Exception as e:                                   # noqa: BLE001
        v.update(status="raised", what=f"{type(e).__name__}: {str(e)[:200]}")
    return v


def replay_scenario(item) -> dict:
    scn, idx = item
    J = torch.tensor(scn["J"], dtype=torch.float64)
    leak = [fr(p) for p in scn["leak"]]
    n = J.shape[1]
    v = {"idx": idx, "status": "ok"}
    expected = [fr(p) for p in scn["out"]]
    cands = [{fr(p) for p in cs} for cs in scn["cand"]]
    for variant in (0, 1):
        us = forced_u(scn, variant)

        def script(shape, *a, _us=us, **kw):
            if tuple(shape) != (n,):
                return None
            return torch.tensor(_us, dtype=kw.get("dtype", torch.float64))
        try:
            A = make_graddrop(scn["f"], leak)
            with Interpose("rand", [script]) as ip:
                out = A(J)
        except Exception as e:                               # noqa: BLE001
            v.update(status="raised", what=f"{type(e).__name__}: {str(e)[:200]}")
            return v
        got = exact(out.tolist())
        forced = len(ip.calls) == 1 and ip.unscripted == 0
        v.update(forced=forced, got=[[g.numerator, g.denominator] for g in got], float_out=out.tolist(), u=us)
        if scn.get("dyadic", True):                          # every operation is exact in float64: equality
            if got == expected:
                continue
            outside = [c for c in range(n) if got[c] not in cands[c]]
            wrong = [c for c in range(n) if got[c] != expected[c]]
        else:                                                # non-dyadic leak: the allowance derived in the model
            tol = allowance(scn, torch.float64)
            vals = out.tolist()
            wrong = [c for c in range(n) if not near(vals[c], expected[c], tol[c])]
            if not wrong:
                continue
            outside = [c for c in range(n) if not any(near(vals[c], q, tol[c]) for q in cands[c])]
        v["status"] = "outside" if outside else "wrong_sign"
        v["cols"] = outside or wrong
        return v
    return v


def random_episodes(seed: int, count: int) -> list[dict]:
    """Free-seed calls on random integer matrices with random dyadic leak vectors; half of them with
    the uniform draw observed (floor(U * 2^16) is logged), half unobserved."""
    rng = random.Random(seed * 15485863 + 7)
    eps = []
    for k in range(count):
        m = rng.choice([1, 2, 3, 4, 5])
        n = rng.choice([1, 2, 3, 4, 6])
        e = rng.choice([1, 2, 5])
        J = [[rng.randint(-e, e) for _ in range(n)] for _ in range(m)]
        if rng.random() < 0.3:                       # a column of one sign, a zero column
            c = rng.randrange(n)
            for r in range(m):
                J[r][c] = abs(J[r][c]) if rng.random() < 0.8 else 0
        mode = rng.choice(["none", "zero", "one", "sixteenth", "sixteenth", "quarter"])
        if mode == "none":
            leak = None
        elif mode == "zero":
            leak = [Fraction(0)] * m
        elif mode == "one":
            leak = [Fraction(1)] * m
        elif mode == "quarter":
            leak = [Fraction(rng.randint(0, 4), 4) for _ in range(m)]
        else:
            leak = [Fraction(rng.randint(0, 16), 16) for _ in range(m)]
        kind = rng.choice(["id", "id", "sq", "half"])
        eps.append(observe_call(k + 1, J, leak, kind, seed * 1000 + k, k % 2 == 0))
    return eps


def observe_call(ep_id: int, J, leak, kind: str, s: int, observe: bool) -> dict:
    """One real GradDrop call under torch.manual_seed(s), logged as an episode for TraceGradDrop."""
    m, n = len(J), len(J[0])
    ep = {"ep": ep_id, "J": J, "leak": [[x.numerator, x.denominator] for x in (leak or [Fraction(0)] * m)],
          "f": kind, "ubits": [], "ubase": UBASE, "out": [], "bad": [], "seed": s, "leak_given": leak is not None,
          "observe": observe}
    try:
        from torchjd.aggregation import GradDrop
        if leak is None:
            f = f_callable(kind)
            A = GradDrop() if f is None else GradDrop(f=f)
        else:
            A = make_graddrop(kind, leak)
        Jt = torch.tensor(J, dtype=torch.float64)
        # call history (spec/GradDrop.tla, Recall): in two episodes out of three the SAME object has first aggregated the
        # matrix in a lower precision; the logged float64 call must be what a fresh object returns
        prior = [None, "float32", "bfloat16"][s % 3]           # a function of the episode's seed: replays repeat it
        if prior:
            A(Jt.to(DTYPES[prior]))
            ep["prior"] = prior
        torch.manual_seed(s)
        if observe:
            with Interpose("rand") as ip:
                out = A(Jt)
            if len(ip.calls) == 1 and tuple(ip.calls[0].shape) == (n,):
                ep["ubits"] = [int(math.floor(float(u) * UBASE)) for u in ip.calls[0].tolist()]
            else:
                ep["note"] = f"torch.rand called {len(ip.calls)} times"
        else:
            out = A(Jt)
    except Exception as ex:                              # noqa: BLE001
        ep["exc"] = f"{type(ex).__name__}: {str(ex)[:200]}"
        return ep
    vals = out.tolist()
    ep["float_out"] = vals
    for c, x in enumerate(vals):
        q = Fraction(float(x)) if x == x and abs(x) != float("inf") else None
        if q is None or q.denominator > 4096 or abs(q.numerator) > 2 ** 24:
            ep["bad"].append(c + 1)
            ep["out"].append([0, 1])
        else:
            ep["out"].append([q.numerator, q.denominator])
    return ep
