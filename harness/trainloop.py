"""Replay of TrainLoop.tla trajectories on a real training loop (torch.optim.SGD(lr=1))."""
from __future__ import annotations

import random

import torch

from .autojac_replay import fmap
from .programs import Built

PARAMS = [1, 2, 4, 5]
A, Bb, T1, T2, F, L1, L2, Y = 1, 2, 4, 5, 7, 9, 11, 12


def replay_trajectory(item) -> list[str]:
    from torchjd import backward, mtl_backward
    from torchjd.aggregation import Constant
    prog, traj, seed, idx = item
    rng = random.Random(seed * 17 + idx)
    B = Built(prog, dtype=torch.float64, rng=rng, scalars=[9, 11, 18])
    params = [B.node(l) for l in PARAMS]
    opt = torch.optim.SGD(params, lr=1.0)
    for step, st in enumerate(traj):
        if step > 0:
            B.forward_again()
        k = rng.choice([None, 1, 2])
        try:
            if st["mode"] == "backward":
                backward([B.node(Y), B.node(L1)], Constant(torch.tensor([1.0, -1.0, 1.0], dtype=torch.float64)),
                         inputs=[B.node(A), B.node(Bb), B.node(T1)], parallel_chunk_size=k)
            else:
                mtl_backward([B.node(L1), B.node(L2)], B.node(F), Constant(torch.tensor([1.0, -1.0], dtype=torch.float64)),
                             tasks_params=[[B.node(T1)], [B.node(T2)]], shared_params=[B.node(A), B.node(Bb)],
                             parallel_chunk_size=k)
        except Exception as e:                              # noqa: BLE001  (the code under test: a verdict)
            return [f"iteration {step + 1} ({st['mode']}, parallel_chunk_size={k}) raised {type(e).__name__}: {str(e)[:160]}"]
        eg, ep = fmap(st["grads"]), fmap(st["params"])
        for l in PARAMS:
            g = B.grad_flat(l)
            e = None if eg[l] == [] else [float(x) for x in eg[l]]
            if g != e:
                return [f"iteration {step + 1} ({st['mode']}): .grad of leaf {l} is {g}, specification says {e}"]
        opt.step()
        for l in PARAMS:
            v = B.node(l).detach().reshape(-1).tolist()
            if v != [float(x) for x in ep[l]]:
                return [f"iteration {step + 1} ({st['mode']}): parameter {l} is {v} after the step, specification says {ep[l]}"]
        if st["zero"] == "none":
            opt.zero_grad(set_to_none=True)
        elif st["zero"] == "zero":
            opt.zero_grad(set_to_none=False)
    return []
