"""C10 for GradDrop on columns with large cancelling entries (spec/AggSymCancel.tla).

(a) TLC: all m! row orders (m <= 4 quick, m <= 5 thorough) of every instance of the family J = B K + Sm (entries either
    big, k 2^x, or small integers), invariants SubsetLaw and LawC10 (classification, float purity and both exact
    candidate coordinates of every column do not depend on the order of the rows);
(b) replay, per (dtype, x) of the model (float32 2^26; float64 2^55, 2^60), per seed: GradDrop() and GradDrop(leak=P/4)
    on the base order and on every permuted order (leak permuted with the rows, torch.manual_seed(seed) immediately
    before every call).  For every column the model classifies as ABSORBING for that (dtype, x) - P is then the same
    float in every order on the definition sum / sum of absolute values - the two coordinates must agree within
    2 * units * eps * sum_r |J_rc| (units = 2 (4 + m), spec AllowUnits: rounding of a sum of m terms with leak
    factors, twice: both sides), and each must be within units * eps * sum_r |J_rc| of one of the model's exact
    candidates (positive entries kept / negative entries kept / none kept, each plus the leaked share).
    Columns that are not absorbing are skipped and counted.  An exception is a violation.
"""

from __future__ import annotations

import math
from fractions import Fraction

import torch

from .aggsym_common import Acc, call, merge, seed_of
from .core import Ctx, MachineryError
from .par import pmap
from .tlc import run_tlc

DT = {"float32": (torch.float32, 2.0 ** -24), "float64": (torch.float64, 2.0 ** -53)}
NSEEDS = {"quick": 3, "thorough": 5}


def matrix(Kn: list, Sn: list, x: int, dname: str) -> torch.Tensor:
    M64 = torch.tensor([[math.ldexp(k, x) + s for k, s in zip(kr, sr)] for kr, sr in zip(Kn, Sn)], dtype=torch.float64)
    M = M64.to(DT[dname][0])
    if not bool((M.double() == M64).all()) or not bool(M.isfinite().all()):
        raise MachineryError(f"cancelling-column matrix with B = 2^{x} is not exact in {dname}")
    return M


def exact(c4: dict, x: int) -> Fraction:
    return Fraction(c4["b"] * 2 ** x + c4["s"], 4)


def eval_cancel(job: dict):
    import torchjd.aggregation as A
    torch.set_num_threads(1)
    acc = Acc()
    pid, only = job["pid"], job.get("only")
    for s in job["scn"]:
        m, n = s["m"], s["n"]
        gkey = "rp=" + ",".join(map(str, s["rp"]))
        ident = s["rp"] == sorted(s["rp"])
        for q, cfg in enumerate(s["cfgs"]):
            dname, x = cfg["dtype"], cfg["exp"]
            ctag = f"B=2^{x}:{dname}"
            if job.get("ctag") and job["ctag"] != ctag:
                continue
            dt, eps = DT[dname]
            Mt, M0 = matrix(s["K"], s["S"], x, dname), matrix(s["K0"], s["S0"], x, dname)
            colabs = [float(v) for v in Mt.double().abs().sum(dim=0).tolist()]
            for vname, leak1, leak0, ck in (("GradDrop", None, None, "plain"), ("GradDropL", s["P"], s["P0"], "leak")):
                if only and only != vname:
                    continue
                for sd in job["seeds"]:
                    seed = seed_of(job["seed"], s["id"], sd)
                    a1 = A.GradDrop() if leak1 is None else A.GradDrop(leak=torch.tensor(leak1, dtype=dt) / 4.0)
                    a0 = A.GradDrop() if leak0 is None else A.GradDrop(leak=torch.tensor(leak0, dtype=dt) / 4.0)
                    x1, x0 = call(a1, Mt, seed), call(a0, M0, seed)
                    acc.evals += 2
                    payload = {"pid": pid, "kind": "cancel", "agg": vname, "scenario": s, "ctag": ctag, "seeds": [sd], "vseed": job["seed"]}
                    if isinstance(x1, str) or isinstance(x0, str):
                        acc.viol.append((f"{pid}:{vname}:cancel:inst={s['id']}:{gkey}:{ctag}:seed={sd}:raises",
                                         f"{vname} raised ({x1 if isinstance(x1, str) else x0}) on the finite matrix of instance {s['id']} "
                                         f"({gkey}, {ctag})", payload | {"clause": "raises"}))
                        continue
                    for c in range(n):
                        col = s["cols"][c]
                        if not col["absorbing"][q]:
                            acc.count(f"skipped:cancel_column_not_absorbing:{ctag}")
                            continue
                        allow = s["units"] * eps * colabs[c]
                        v1, v0 = float(x1[c]), float(x0[c])
                        d = abs(v1 - v0) if math.isfinite(v1) and math.isfinite(v0) else float("inf")
                        acc.dev("GradDrop:cancel", d, 2 * allow if allow > 0 else 1e-300)
                        acc.count(f"cancel_columns_compared:{col['kind']}:{dname}")
                        if not d <= 2 * allow:
                            acc.viol.append((f"{pid}:{vname}:cancel:inst={s['id']}:{gkey}:{ctag}:seed={sd}:col={c + 1}:relation",
                                             f"{vname} (same seed, leak permuted with the rows) on instance {s['id']} = 2^{x} K + S, K={s['K0']}, "
                                             f"S={s['S0']}, leak numerators {s['P0']}/4, {dname}: coordinate {c + 1} ({col['kind']} column, float purity "
                                             f"{col['fp']} in every order) is {v0!r} in the base order and {v1!r} with the rows ordered {s['rp']} "
                                             f"(allowance {2 * allow:.3e})", payload | {"clause": "relation", "col": c + 1}))
                            continue
                        cands = [exact(col[ck][ch], x) for ch in ("pos", "neg", "none")]
                        dm = min(float(abs(Fraction(v1) - cv)) for cv in cands)
                        acc.dev("GradDrop:cancel:candidates", dm, allow if allow > 0 else 1e-300)
                        if not dm <= allow:
                            acc.viol.append((f"{pid}:{vname}:cancel:inst={s['id']}:{gkey}:{ctag}:seed={sd}:col={c + 1}:candidates",
                                             f"{vname} on instance {s['id']} ({gkey}, {ctag}, leak numerators {s['P']}/4): coordinate {c + 1} is {v1!r}, "
                                             f"none of the sign choices of the model {[float(cv) for cv in cands]} (allowance {allow:.3e})",
                                             payload | {"clause": "candidates", "col": c + 1}))
                    if not ident:
                        acc.nontriv.append((s["id"], gkey, vname, ctag))
    return acc.as_tuple()


def run_cancel(ctx: Ctx, pid: str = "C10") -> None:
    cfg = f"MC_AggSymCancel_{ctx.tier}.cfg"
    res = run_tlc("AggSymCancel", cfg, workers="auto", coverage=True, seed=ctx.seed, timeout=1200)
    ctx.add_tlc(res)
    if res.violated:
        raise MachineryError(f"AggSymCancel/{cfg}: the specification itself violates {res.violated}\n{res.cex[:1500]}")
    scn = res.prints.get("SCN", [])
    if len(scn) != res.distinct or not scn:
        raise MachineryError(f"AggSymCancel: {res.distinct} states but {len(scn)} scenarios parsed")
    if not res.coverage.get("DoSwapRows"):
        raise MachineryError("vacuous model check (AggSymCancel): DoSwapRows never taken")
    by: dict = {}
    for s in sorted(scn, key=lambda s: (s["id"], s["steps"], s["rp"])):
        by.setdefault(s["id"], {}).setdefault(tuple(s["rp"]), s)            # one scenario per row order
    for iid, perms in by.items():
        m = len(next(iter(perms)))
        if len(perms) != math.factorial(m):
            raise MachineryError(f"cancelling-column instance {iid}: {len(perms)} of {math.factorial(m)} row orders reached")
    picked = [s for perms in by.values() for s in perms.values()]
    seeds = list(range(1, NSEEDS[ctx.tier] + 1))
    jobs = [{"pid": pid, "scn": picked[i:i + 2], "seed": ctx.seed, "seeds": seeds} for i in range(0, len(picked), 2)]
    import torchjd.aggregation  # noqa: F401
    results = pmap(eval_cancel, jobs, chunksize=2)
    margin: dict = {}
    merge(ctx, results, margin)
    ctx.traces += len(picked)
    ctx.extra["cancelling_columns"] = {
        "instances": len(by), "row_orders_replayed": len(picked), "max_rows": max(s["m"] for s in picked),
        "columns_by_kind": {k: sum(1 for perms in by.values() for c in next(iter(perms.values()))["cols"] if c["kind"] == k)
                            for k in ("cancel", "dominated", "small")},
        "dev_over_allowance_max": {k: float(f"{v:.3g}") for k, v in sorted(margin.items())}}
    for k in ("cancel_columns_compared:cancel:float32", "cancel_columns_compared:cancel:float64",
              "cancel_columns_compared:dominated:float32", "skipped:cancel_column_not_absorbing:B=2^26:float32"):
        if not ctx.counters.get(k):
            raise MachineryError(f"vacuous cancelling-column family: {k} = 0")


# ------------------------------------------------------------------------------------------ C -> S

CFGS = [("float32", 26, 4), ("float64", 55, 4), ("float64", 60, 128)]          # cross-checked with BigCfgs by the trace spec


def make_recipe(rng, ep: int) -> dict:
    m, n = rng.choice([3, 4, 4, 5, 6]), rng.randint(2, 5)
    K0 = [[0] * n for _ in range(m)]
    S0 = [[rng.randint(-3, 3) if rng.random() < 0.8 else 0 for _ in range(n)] for _ in range(m)]
    for c in range(n):
        u = rng.random()
        if u < 0.55:                                   # a cancelling pair (sometimes two)
            for _ in range(1 if u < 0.4 else 2):
                r1, r2 = rng.sample(range(m), 2)
                if K0[r1][c] == 0 and K0[r2][c] == 0:
                    a = rng.choice([1, 1, 2])
                    K0[r1][c], K0[r2][c] = a, -a
        elif u < 0.8:                                  # big entries that do not (necessarily) cancel
            for r in rng.sample(range(m), rng.randint(1, min(3, m))):
                K0[r][c] = rng.choice([-2, -1, 1, 2])
    S0 = [[0 if K0[r][c] else S0[r][c] for c in range(n)] for r in range(m)]
    rp = list(range(1, m + 1))
    rng.shuffle(rp)
    return {"ep": ep, "m": m, "n": n, "K0": K0, "S0": S0, "P0": [rng.randint(0, 4) for _ in range(m)], "rp": rp,
            "cfg": rng.randint(1, len(CFGS)), "seed": rng.randrange(2 ** 30), "leak": rng.random() < 0.6}


def execute(rc: dict) -> dict:
    import torchjd.aggregation as A
    torch.set_num_threads(1)
    m, n = rc["m"], rc["n"]
    dname, x, half = CFGS[rc["cfg"] - 1]
    dt, eps = DT[dname]
    K1, S1, P1 = ([v[i - 1] for i in rc["rp"]] for v in (rc["K0"], rc["S0"], rc["P0"]))
    M0, M1 = matrix(rc["K0"], rc["S0"], x, dname), matrix(K1, S1, x, dname)
    a0 = A.GradDrop(leak=torch.tensor(rc["P0"], dtype=dt) / 4.0) if rc["leak"] else A.GradDrop()
    a1 = A.GradDrop(leak=torch.tensor(P1, dtype=dt) / 4.0) if rc["leak"] else A.GradDrop()
    x0, x1 = call(a0, M0, rc["seed"]), call(a1, M1, rc["seed"])
    ep = {k: rc[k] for k in ("ep", "m", "n", "K0", "S0", "P0", "rp", "cfg")} | {"raised": isinstance(x0, str) or isinstance(x1, str)}
    cols = []
    for c in range(n):
        ks, ss = [r[c] for r in rc["K0"]], [r[c] for r in rc["S0"]]
        kind = "small" if not any(ks) else "cancel" if sum(ks) == 0 else "dominated"
        absorbing = not any(ks) or sum(abs(v) for v in ss) < half
        ent = {"kind": kind, "absorbing": absorbing, "okrel": False, "okcand": False}
        if not ep["raised"]:
            allow = 2 * (4 + m) * eps * float(M0[:, c].double().abs().sum())
            v0, v1 = float(x0[c]), float(x1[c])
            ent["okrel"] = math.isfinite(v0) and math.isfinite(v1) and abs(v1 - v0) <= 2 * allow
            lk = rc["P0"] if rc["leak"] else [0] * m
            cands = []
            for ch in (1, -1, 0):
                coef = [4 if (ch and (ks[r] or ss[r]) * ch > 0) else lk[r] for r in range(m)]
                cands.append(Fraction(sum(coef[r] * (ks[r] * 2 ** x + ss[r]) for r in range(m)), 4))
            ent["okcand"] = all(math.isfinite(v) and min(abs(Fraction(v) - cv) for cv in cands) <= allow for v in (v0, v1))
        cols.append(ent)
    ep["cols"] = cols
    return ep


def validate(ctx: Ctx, pid: str, episodes: list[dict], recipes: dict) -> dict:
    import json
    import os
    import tempfile
    import zlib
    with tempfile.TemporaryDirectory(prefix="verif_aggsym_cancel_") as d:
        path = os.path.join(d, "episodes.json")
        with open(path, "w") as fh:
            json.dump(episodes, fh)
        res = run_tlc("TraceAggSymCancel", "Trace_AggSymCancel.cfg", workers=1, env={"TRACE_FILE": path}, timeout=1200)
    ctx.add_tlc(res)
    if res.violated:
        raise MachineryError(f"trace specification did not consume the log: {res.violated}\n{res.cex[:1500]}")
    summ = res.prints.get("SUMMARY", [None])[0]
    if not summ or summ["episodes"] != len(episodes) or summ["accepted"] + summ["rejected"] != len(episodes):
        raise MachineryError(f"trace validation (cancelling columns) incomplete: {summ}")
    for rj in res.prints.get("REJECT", []):
        rc = recipes[rj["ep"]]
        if rj["clause"] in ("instance", "classification", "law_c10"):
            raise MachineryError(f"driver and specification disagree ({rj['clause']}) on cancelling-column episode {rj['ep']}: {rc}")
        h = zlib.crc32(json.dumps({k: v for k, v in rc.items() if k != "ep"}, sort_keys=True).encode())
        dname, x, _ = CFGS[rc["cfg"] - 1]
        ctx.violation(f"{pid}:trace-cancel:{rj['clause']}:GradDrop{'L' if rc['leak'] else ''}:m={rc['m']}:B=2^{x}:{dname}:{h:08x}",
                      f"episode rejected by TraceAggSymCancel, clause {rj['clause']}: GradDrop({'leak=' + str(rc['P0']) + '/4' if rc['leak'] else ''}) "
                      f"under seed {rc['seed']} on J = 2^{x} K + S ({dname}), K={rc['K0']}, S={rc['S0']}, against the rows ordered {rc['rp']}",
                      {"pid": pid, "kind": "trace-cancel", "clause": rj["clause"], "agg": "GradDrop", "recipe": rc})
    ctx.traces += len(episodes)
    ctx.count("trace_cancel_episodes_accepted", summ["accepted"])
    ctx.count("trace_cancel_episodes_rejected", summ["rejected"])
    return summ


def run_cancel_cs(ctx: Ctx, pid: str, n_ep: int) -> dict:
    import random
    rng = random.Random(ctx.seed * 7919 + 5003)
    recipes = [make_recipe(rng, k + 1) for k in range(n_ep)]
    import torchjd.aggregation  # noqa: F401
    episodes = [execute(r) for r in recipes]
    ctx.evaluations += 2 * len(episodes)
    n_claimed = sum(1 for e in episodes for c in e["cols"] if c["absorbing"] and c["kind"] == "cancel")
    ctx.count("trace_cancel_claimed_cancelling_columns", n_claimed)
    if not n_claimed:
        raise MachineryError("vacuous cancelling-column traces")
    return validate(ctx, pid, episodes, {r["ep"]: r for r in recipes})


def replay_cancel(ctx: Ctx, pid: str, p: dict) -> None:
    if p.get("kind") == "trace-cancel":
        rc = p["recipe"] | {"ep": 1}
        validate(ctx, pid, [execute(rc)], {1: rc})
        return
    margin: dict = {}
    merge(ctx, [eval_cancel({"pid": pid, "scn": [p["scenario"]], "seed": p.get("vseed", ctx.seed), "seeds": p["seeds"], "only": p["agg"],
                             "ctag": p["ctag"]})], margin)
