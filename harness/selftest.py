"""``bin/check --selftest`` – demonstrates that the specifications are BOUND to the code and not
vacuous (DESIGN.md §5.4).  Not a MANIFEST check.

 (a) trace corruption: valid recorded traces are accepted; the same traces with one field corrupted
     or one event removed are rejected, for every trace specification of the autojac group;
 (b) model mutation: a seeded error in the implementation-shaped layer of a specification is caught
     by TLC (so the invariants are not vacuous).
Exit 0 iff every expectation holds.
"""

from __future__ import annotations

import copy
import json
import os
import random
import tempfile

from .tlc import SPEC_DIR, run_tlc

RESULTS: list[tuple[str, bool, str]] = []


def expect(name: str, ok: bool, detail: str = "") -> None:
    RESULTS.append((name, ok, detail))
    print(("PASS " if ok else "FAIL ") + name + (f"  [{detail}]" if detail else ""), flush=True)


def run_trace(module, cfg, episodes):
    with tempfile.TemporaryDirectory(prefix="verif_self_") as d:
        path = os.path.join(d, "e.json")
        json.dump(episodes, open(path, "w"))
        return run_tlc(module, cfg, workers=1, env={"TRACE_FILE": path}, timeout=900, check=False)


def jacchunks() -> None:
    good = [{"ep": 1, "fn": "x", "m": 5, "k": 2, "retain": False,
             "sweeps": [{"rows": 2, "vmap": True, "retain": True}, {"rows": 2, "vmap": True, "retain": True},
                        {"rows": 1, "vmap": False, "retain": False}]},
            {"ep": 2, "fn": "x", "m": 3, "k": 1, "retain": True,
             "sweeps": [{"rows": 1, "vmap": False, "retain": True}] * 3}]
    r = run_trace("TraceJacChunks", "Trace_JacChunks.cfg", good)
    expect("TraceJacChunks accepts valid sweeps", not r.prints.get("REJECT") and r.prints["SUMMARY"][0]["accepted"] == 2)
    muts = {"one sweep larger than k": lambda e: e[0]["sweeps"][0].__setitem__("rows", 3),
            "vmap in sequential mode": lambda e: e[1]["sweeps"][1].__setitem__("vmap", True),
            "a sweep removed": lambda e: e[0]["sweeps"].pop(),
            "an extra sweep": lambda e: e[1]["sweeps"].append({"rows": 1, "vmap": False, "retain": True}),
            "multi-row sweep not batched": lambda e: e[0]["sweeps"][1].__setitem__("vmap", False)}
    for name, f in muts.items():
        e = copy.deepcopy(good)
        f(e)
        r = run_trace("TraceJacChunks", "Trace_JacChunks.cfg", e)
        rj = r.prints.get("REJECT", [])
        expect(f"TraceJacChunks rejects: {name}", len(rj) == 1, rj[0]["clause"] if rj else "no REJECT")


def backward_traces() -> None:
    from .trace_backward import random_episodes
    eps = [e for e in random_episodes(3, 25) if "raised" not in e and not e.get("nonint")]
    eps = [{k: v for k, v in e.items() if k not in ("meta", "nonint")} for e in eps]
    r = run_trace("TraceBackward", "Trace_Backward.cfg", eps)
    expect("TraceBackward accepts recorded calls", r.prints["SUMMARY"][0]["accepted"] == len(eps), f"{len(eps)} episodes")
    rng = random.Random(0)
    bad = copy.deepcopy(eps)
    touched = []
    for e in bad[:10]:
        leaves = [i for i, g in enumerate(e["grad1"]) if g]
        if e["ep"] % 2 and leaves:
            i = rng.choice(leaves)
            e["grad1"][i][0] += 1
            touched.append(e["ep"])
        elif e["matrix"] and e["matrix"][0]:
            e["matrix"][0][0] += 1
            touched.append(e["ep"])
    r = run_trace("TraceBackward", "Trace_Backward.cfg", bad)
    rej = sorted(x["ep"] for x in r.prints.get("REJECT", []))
    expect("TraceBackward rejects exactly the corrupted episodes", rej == sorted(touched), f"{len(rej)} rejected")


def impl_layer() -> None:
    from .stage_trace import record
    cfg = (SPEC_DIR / "MC_Backward_quick.cfg").read_text().replace("MaxOps = 2", "MaxOps = 1")
    res = run_tlc("Backward", cfg_text=cfg, workers=4, timeout=900)
    scns = res.prints["SCN"][:40]
    rng = random.Random(1)
    eps = []
    for s in scns:
        e = record(s, rng, len(eps) + 1)
        if e and "missing_stage" not in e:
            e.pop("types")
            eps.append(e)
    r = run_trace("TraceBackwardImpl", "Trace_BackwardImpl.cfg", eps)
    done = {m["ep"] for m in r.prints.get("STAGE", []) if m["stage"] == "Accumulate"}
    expect("TraceBackwardImpl explains every recorded pipeline", done == {e["ep"] for e in eps}, f"{len(eps)} episodes")
    bad = copy.deepcopy(eps)
    bad[0]["after_jac"][0]["v"][0][0] += 1
    bad[1]["after_agg"][0]["v"][0] += 1
    r = run_trace("TraceBackwardImpl", "Trace_BackwardImpl.cfg", bad)
    st = {}
    for m in r.prints.get("STAGE", []):
        st.setdefault(m["ep"], set()).add(m["stage"])
    expect("TraceBackwardImpl stops at the corrupted stage (Jac)", "Jac" not in st.get(1, set()) and "Diagonalize" in st.get(1, set()))
    expect("TraceBackwardImpl stops at the corrupted stage (Aggregate)", "Aggregate" not in st.get(2, set()) and "Jac" in st.get(2, set()))


def impl_layer_mtl() -> None:
    from .stage_trace import record_mtl
    res = run_tlc("MtlBackward", "MC_MtlBackward_quick.cfg", workers=4, timeout=1500)
    scns = [s for s in res.prints["SCN"] if s["shared"]][:30]
    rng = random.Random(2)
    eps = []
    for s in scns:
        e = record_mtl(s, rng, len(eps) + 1)
        if e and "missing_stage" not in e:
            eps.append(e)
    r = run_trace("TraceMtlImpl", "Trace_MtlImpl.cfg", eps)
    done = {m["ep"] for m in r.prints.get("STAGE", []) if m["stage"] == "Accumulate"}
    expect("TraceMtlImpl explains every recorded mtl pipeline", done == {e["ep"] for e in eps}, f"{len(eps)} episodes")
    bad = copy.deepcopy(eps)
    bad[0]["after_stack"][0]["v"][0][0] += 1
    r = run_trace("TraceMtlImpl", "Trace_MtlImpl.cfg", bad)
    st = {}
    for m in r.prints.get("STAGE", []):
        st.setdefault(m["ep"], set()).add(m["stage"])
    expect("TraceMtlImpl stops at the corrupted stage (Stack)", "Stack" not in st.get(1, set()) and "Task" in st.get(1, set()))


def model_mutations() -> None:
    src = (SPEC_DIR / "JacChunks.tla").read_text()
    mut = src.replace("[rows |-> r, vmap |-> (r > 1),\n                                        retain |-> IF last THEN retainCaller ELSE TRUE]",
                      "[rows |-> r, vmap |-> TRUE,\n                                        retain |-> IF last THEN retainCaller ELSE TRUE]")
    assert mut != src
    r = run_tlc("JacChunks", "MC_JacChunks_quick.cfg", workers=4, check=False, extra_files={"JacChunks.tla": mut})
    expect("JacChunks: 'vmap for every sweep' in the implementation layer is caught by TLC", r.violated is not None, str(r.violated))
    mut = src.replace("end   == IF i < NSweeps - 1 THEN (i + 1) * Cap ELSE m", "end   == IF i < NSweeps - 1 THEN (i + 1) * Cap ELSE m - 1")
    r = run_tlc("JacChunks", "MC_JacChunks_quick.cfg", workers=4, check=False, extra_files={"JacChunks.tla": mut})
    expect("JacChunks: 'last row dropped' is caught by TLC", r.violated is not None or r.error is not None, str(r.violated))
    src = (SPEC_DIR / "Backward.tla").read_text()
    cfg = (SPEC_DIR / "MC_Backward_quick.cfg").read_text().replace("MaxOps = 2", "MaxOps = 1").replace("INVARIANT Export\n", "")
    mut = src.replace("IN  Slice(vec, off[i] + 1, sizes[i])]]", "IN  Slice(vec, off[Len(ordA) + 1 - i] + 1, sizes[i])]]")
    assert mut != src
    r = run_tlc("Backward", cfg_text=cfg, workers=4, check=False, extra_files={"Backward.tla": mut}, timeout=900)
    expect("Backward: 'slices handed back in reverse key order' is caught by TLC (Deposits)", r.violated is not None or r.error is not None, str(r.violated))
    src = (SPEC_DIR / "Accumulation.tla").read_text()
    mut = src.replace("IF l \\in R THEN Plus(grad[l], UpdTable[i][l]) ELSE grad[l]]", "IF l \\in R THEN UpdTable[i][l] ELSE grad[l]]")
    assert mut != src
    r = run_tlc("Accumulation", "MC_Accumulation_quick.cfg", workers=4, check=False, extra_files={"Accumulation.tla": mut})
    expect("Accumulation: '=' instead of '+=' is caught by TLC (RepeatAccumulates)", r.violated is not None, str(r.violated))
    src = (SPEC_DIR / "Rejection.tla").read_text()
    mut = src.replace('Chk({"nonleaf_shared", "nograd_shared", "nonleaf_taskparam", "nograd_taskparam"}),\n         Chk({"dup_feature", "dup_shared", "dup_taskparam"}) >>     \\* construction of the transforms\n      \\o [i \\in 1..Len(s.losses) |-> Wr(TaskParamsOf(s, i))]',
                      'Chk({"dup_feature", "dup_shared", "dup_taskparam"}) >>\n      \\o [i \\in 1..Len(s.losses) |-> Wr(TaskParamsOf(s, i))] \\o << Chk({"nonleaf_shared", "nograd_shared", "nonleaf_taskparam", "nograd_taskparam"}) >>\n      \\o << >>')
    if mut != src:
        r = run_tlc("Rejection", "MC_Rejection.cfg", workers=4, check=False, extra_files={"Rejection.tla": mut})
        expect("Rejection: 'parameter check after the task writes' (the pre-fix order) is caught by TLC", r.violated is not None or r.error is not None, str(r.violated))


def main(argv: list[str]) -> int:
    import torch
    torch.manual_seed(0)
    jacchunks()
    backward_traces()
    impl_layer()
    impl_layer_mtl()
    model_mutations()
    bad = [n for n, ok, _ in RESULTS if not ok]
    print(f"selftest: {len(RESULTS) - len(bad)}/{len(RESULTS)} expectations hold")
    return 1 if bad else 0
