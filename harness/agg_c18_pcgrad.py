"""C18 / PCGrad: replay of the scenarios exported by spec/PCGrad.tla with torch.randperm FORCED, and
recording of real calls (draws observed or not) for spec/TracePCGrad.tla."""

from __future__ import annotations

import random

import torch

from .agg_c18_common import DEN_CAP, Interpose, fr_vec, jkey, rat_vec, to_json


def _script(order_1based: list[int], i0: int, m: int, pos: int):
    """The permutation of ALL m rows (0-based) handed to the code for row i0: the scripted order of
    the others with i0 itself inserted at position pos (the code skips it)."""
    perm = [j - 1 for j in order_1based]
    perm.insert(pos % m, i0)

    def make(n, *a, **kw):
        if n != m:
            return None
        return torch.tensor(perm, dtype=torch.int64)
    return make


def call_pcgrad(J, scripts=None, record=False):
    """Run the real PCGrad on J.  Returns dict(out, w, draws, calls, unscripted, exc)."""
    from torchjd.aggregation import PCGrad
    A = PCGrad()
    seen = {}
    h = A.weighting.register_forward_hook(lambda mod, inp, out: seen.__setitem__("w", out.detach().clone()))
    res = {"exc": None, "draws": None, "calls": 0, "unscripted": 0}
    try:
        if scripts is not None:
            with Interpose("randperm", scripts) as ip:
                out = A(J)
            res["calls"], res["unscripted"] = len(ip.calls), ip.unscripted
        elif record:
            with Interpose("randperm") as ip:
                out = A(J)
            res["calls"] = len(ip.calls)
            res["draws"] = [[int(x) + 1 for x in c.reshape(-1).tolist()] for c in ip.calls]
        else:
            out = A(J)
        res["out"] = out.detach().tolist()
        res["w"] = seen["w"].tolist() if "w" in seen else None
    except Exception as e:                                   # noqa: BLE001
        res["exc"] = f"{type(e).__name__}: {str(e)[:200]}"
    finally:
        h.remove()
    return res


def replay_scenario(item) -> dict:
    """item = (scenario, idx).  Forced replay of one (J, orders)."""
    scn, idx = item
    m = len(scn["J"])
    J = torch.tensor(scn["J"], dtype=torch.float64)
    scripts = [_script(scn["orders"][i], i, m, idx + i) for i in range(m)]
    r = call_pcgrad(J, scripts=scripts)
    v = {"idx": idx, "status": "ok", "got": None, "gotw": None}
    if r["exc"]:
        v.update(status="raised", what=r["exc"])
        return v
    forced = (r["calls"] == m and r["unscripted"] == 0)
    out = rat_vec(r["out"])
    w = rat_vec(r["w"]) if r["w"] is not None else None
    v["got"] = None if out is None else to_json(out)
    v["gotw"] = None if w is None else to_json(w)
    v["forced"] = forced
    v["float_out"] = r["out"]
    exp_out, exp_w = fr_vec(scn["out"]), fr_vec(scn["w"])
    if out is not None and tuple(out) == exp_out and (w is None or tuple(w) == exp_w):
        return v
    v["status"] = "differs"
    return v


def sample_m4(seed: int, count: int) -> list[list[list[int]]]:
    """m = 4 sample: the orders matter most when many pairs conflict, so half of the sample is drawn
    with at least three conflicting pairs.  Entries -2..2 with 2 columns or -1..1 with 3 columns
    (denominators stay below DEN_CAP and inside TLC's integers)."""
    rng = random.Random(seed * 7919 + 4)
    mats, seen = [], set()
    while len(mats) < count:
        if rng.random() < 0.5:
            J = [[rng.randint(-2, 2) for _ in range(2)] for _ in range(4)]
        else:
            J = [[rng.randint(-1, 1) for _ in range(3)] for _ in range(4)]
        if any(all(x == 0 for x in r) for r in J):
            continue
        nconf = sum(1 for a in range(4) for b in range(a) if sum(x * y for x, y in zip(J[a], J[b])) < 0)
        if len(mats) % 2 == 0 and nconf < 3:
            continue
        k = jkey(J)
        if k in seen:
            continue
        seen.add(k)
        mats.append(J)
    return mats


def random_episodes(seed: int, n_drawn: int, n_free: int) -> list[dict]:
    """Code -> spec: real calls under torch.manual_seed, draws recorded (kind 'drawn') or not
    observed at all (kind 'free', m <= 4 so that the candidate set stays enumerable)."""
    rng = random.Random(seed * 104729 + 18)
    eps: list[dict] = []

    def matrix(m, n, e):
        while True:
            J = [[rng.randint(-e, e) for _ in range(n)] for _ in range(m)]
            if m == 1 or any(sum(x * y for x, y in zip(J[a], J[b])) < 0 for a in range(m) for b in range(a)) \
                    or rng.random() < 0.15:
                return J

    for k in range(n_drawn + n_free):
        drawn = k < n_drawn
        if drawn:
            m = rng.choice([2, 3, 3, 4, 4, 5])
            n, e = (rng.choice([2, 3]), 2) if m >= 4 else (rng.choice([2, 3, 4]), 3)
        else:
            m = 4 if k % 11 == 0 else rng.choice([2, 3, 3, 3])       # m = 4: 1296 candidates each
            n, e = (2, 2) if m == 4 else (rng.choice([2, 3]), 2)
        J = matrix(m, n, e)
        s = seed * 1000 + k
        torch.manual_seed(s)
        r = call_pcgrad(torch.tensor(J, dtype=torch.float64), record=drawn)
        ep = {"ep": len(eps) + 1, "kind": "drawn" if drawn else "free", "J": J, "seed": s,
              "draws": [], "w": [], "out": [], "exc": r["exc"]}
        if r["exc"] is None:
            out = rat_vec(r["out"])
            w = rat_vec(r["w"]) if r["w"] is not None else None
            ep["out"] = to_json(out) if out is not None else []
            ep["w"] = to_json(w) if (w is not None and drawn) else []
            ep["float_out"] = r["out"]
            if drawn:
                if r["calls"] == m and all(len(d) == m for d in r["draws"]):
                    ep["draws"] = r["draws"]
                else:                                   # the draws are not observable at torch.randperm
                    ep["kind"] = "free" if m <= 4 else "unobserved"
                    ep["w"] = []
                    ep["note"] = f"torch.randperm called {r['calls']} times for {m} rows"
        eps.append(ep)
    return eps


__all__ = ["replay_scenario", "sample_m4", "random_episodes", "call_pcgrad", "DEN_CAP"]
