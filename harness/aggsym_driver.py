"""Driver shared by harness/checks/c08.py, c09.py, c10.py: model check, S->C replay in worker
processes, C->S random episodes validated by TraceAggSymmetry, replay of a recorded violation."""

from __future__ import annotations

import json
import random

from .aggsym_common import merge, model_check, presented, sample_scenarios
from .aggsym_eval import run_job
from .core import Ctx, MachineryError
from .par import pmap

SETTINGS = {
    # pid: tier: (cfgs, scenario budget, scales, chunk, C->S episodes)
    "C08": {"quick": (["MC_AggSymmetry_C08_quick.cfg"], 600, [0, -14, -20, 40], 6, 100),
            "thorough": (["MC_AggSymmetry_C08_thorough.cfg", "MC_AggSymmetry_mixed_thorough.cfg"], 2500,
                         [0, -13, -14, -15, -20, -34, 40], 8, 400)},
    "C09": {"quick": (["MC_AggSymmetry_C09_quick.cfg"], 700, [-10, -44, 0], 8, 100),
            "thorough": (["MC_AggSymmetry_C09_thorough.cfg"], 4000, [-10, -44, 0, -24], 8, 400)},
    "C10": {"quick": (["MC_AggSymmetry_C10_quick.cfg"], 10 ** 9, [0, -14, -34, 40], 6, 100),
            "thorough": (["MC_AggSymmetry_C10_thorough.cfg"], 10 ** 9,
                         [0, -14, -20, -34, 40], 8, 400)},
}
MODE_OF = {"C08": "cols", "C09": "scale", "C10": "rows"}
# C09: scales at which only the UPGrad reg_eps ladder is run.  With c_i in {1, 2^10, 2^20} and |g_i| of order 1..5,
# 2^-20 puts the default norm_eps = 1e-4 between the rows scaled by 1 (1e-6) and by 2^10 (1e-3); 2^-10 (a regular
# scale) does the same for norm_eps = 1e-2, 2^-30 for 1e-6 (and for 1e-4 between 2^10 and 2^20).
# 2^-13 = 1.2e-4 puts sigma_max of the rows scaled by 1 into the decade ABOVE the documented default norm_eps = 1e-4 (the
# rows scaled by 2^10 far above it); 2^-17 into the decade below it.
LADDER_SCALES = {"quick": [-20, -13], "thorough": [-20, -30, -17, -13]}


def make_jobs(pid: str, scn: list[dict], scales: list[int], seed: int, chunk: int,
              ladder_scales: list[int] | None = None) -> list[dict]:
    by: dict[int, list[dict]] = {}
    for s in scn:
        by.setdefault(s["id"], []).append(s)
    jobs = []
    for iid in sorted(by):
        group = by[iid]
        for i in range(0, len(group), chunk):
            jobs.append({"pid": pid, "scn": group[i:i + chunk], "scales": scales, "seed": seed,
                         "cagrad": False, "ladder_scales": ladder_scales or []})
    # the conic-solver aggregator is ~50x slower than the others: every 8th job, first scale only
    for k, j in enumerate(jobs):
        if k % 8 == 0:
            jobs.append({"pid": pid, "scn": j["scn"][:3], "scales": scales[:1], "seed": seed, "cagrad": True,
                         "only": "CAGrad", "histories": False})
    return jobs


def run_sc(ctx: Ctx, pid: str) -> dict:
    cfgs, budget, scales, chunk, _ = SETTINGS[pid][ctx.tier]
    scn_all = model_check(ctx, pid, cfgs)
    scn = [s for s in scn_all if s["mode"] == MODE_OF[pid]]
    ctx.extra["scenarios_exported"] = len(scn_all)
    rng = random.Random(ctx.seed)
    # always replayed: the identity of every instance and PadZero applied directly to it (every count and layout)
    picked = sample_scenarios(scn, budget, rng, keep=lambda s: s["steps"] == 0 or (s["steps"] == 1 and presented(s)))
    ctx.extra["scenarios_replayed"] = len(picked)
    jobs = make_jobs(pid, picked, scales, ctx.seed, chunk, LADDER_SCALES[ctx.tier] if pid == "C09" else None)
    import torchjd.aggregation  # noqa: F401  (imported once, before the workers fork)
    results = pmap(run_job, jobs, chunksize=2)
    margin: dict = {}
    merge(ctx, results, margin)
    ctx.extra["measured_dev_over_allowance_max"] = {k: float(f"{v:.3g}") for k, v in sorted(margin.items())}
    bad = {k: v for k, v in margin.items() if v > 1.0}
    ctx.traces += len(picked)
    for s in picked[:1] + picked[len(picked) // 2: len(picked) // 2 + 1]:
        ctx.sample({"scenario": {k: s[k] for k in ("id", "J0", "P0", "rp", "Q", "den", "J", "P", "c1", "c2", "a", "b", "pad", "cls")}})
    if not ctx.evaluations:
        raise MachineryError("no evaluation performed")
    return {"picked": picked, "all": scn, "over": bad}


def run_replay(ctx: Ctx, pid: str, path: str) -> None:
    rec = json.load(open(path))
    p = rec["payload"]
    if p.get("kind") == "trace":
        from .aggsym_trace import replay_trace
        replay_trace(ctx, pid, p)
        return
    if p.get("kind") in ("many", "trace-many"):           # many-row instances with a common offset (AggSymMany)
        from .aggsym_many import replay_many
        replay_many(ctx, pid, p)
        return
    if p.get("kind") in ("cancel", "trace-cancel"):       # GradDrop on cancelling columns (AggSymCancel)
        from .aggsym_cancel import replay_cancel
        replay_cancel(ctx, pid, p)
        return
    job = {"pid": pid, "scn": [p["scenario"]], "scales": [p["e"]], "seed": rec.get("seed", ctx.seed),
           "cagrad": True, "only": p["agg"], "hist_all": True}
    if p.get("clause") == "near-max":
        job |= {"clause": "near-max"}
    if "history_rps" in p:       # C10, one aggregator object: the permutations it was called on before the recorded one
        job |= {"history_rps": p["history_rps"], "wide": p["wide"], "clause": "one-object"}
    margin: dict = {}
    merge(ctx, [run_job(job)], margin)
