"""Thin, total wrapper around TLC.

Every run goes into a fresh scratch directory (``tempfile.mkdtemp`` — removed afterwards), the
specification directory ``/verif/spec`` is copied there so that TLC never writes next to the
sources, and the textual output is parsed into a :class:`TLCResult`.

Conventions used by all specifications of this framework:

* values leave TLC as ``PrintT(<<"TAG", ToJson(value)>>)`` lines (see :func:`parse_prints`);
* values enter TLC as JSON files whose absolute path is passed through an environment variable and
  read with ``JsonDeserialize(IOEnv.NAME)`` / ``ndJsonDeserialize``;
* a machinery failure (TLC crash, overflow, parse error) is never confused with a verdict: it
  raises :class:`TLCError`, which the check runner maps to exit code 2.
"""

from __future__ import annotations

import json
import os
import re
import shutil
import subprocess
import tempfile
import time
from dataclasses import dataclass, field
from pathlib import Path

VERIF = Path(__file__).resolve().parent.parent
SPEC_DIR = VERIF / "spec"
JAR = "/opt/veriftools/tla/tla2tools.jar"
DEPS = "/opt/veriftools/tla/CommunityModules-deps.jar"


class TLCError(RuntimeError):
    """TLC did not produce a verdict (crash, evaluation error, overflow, time-out)."""


@dataclass
class TLCResult:
    module: str
    config: str
    returncode: int
    stdout: str
    wall_s: float
    generated: int = 0          # "states generated"  == transitions explored (+ initial states)
    distinct: int = 0           # "distinct states found"
    depth: int = 0
    violated: str | None = None   # name of violated invariant / property / "deadlock" / "postcondition"
    violation_kind: str | None = None
    error: str | None = None      # evaluation error text (machinery failure)
    prints: dict[str, list] = field(default_factory=dict)
    coverage: dict[str, int] = field(default_factory=dict)   # action name -> #states it produced
    cex: str = ""                 # textual counterexample, if any

    @property
    def ok(self) -> bool:
        return self.violated is None and self.error is None

    def stats(self) -> dict:
        return {"module": self.module, "config": self.config, "states": self.distinct,
                "transitions": self.generated, "depth": self.depth, "wall_s": round(self.wall_s, 2)}


_PRINT_RE = re.compile(r'^<<"([A-Z][A-Z0-9_]*)", (".*")>>$')


def parse_prints(stdout: str, unparsed: list | None = None) -> dict[str, list]:
    """Collect ``<<"TAG", "json">>`` values printed by PrintT(<<"TAG", ToJson(v)>>).

    TLC's pretty-printer may wrap a long tuple over several lines (``<<"TAG",`` / ``  "..." >>``);
    such values are re-assembled.  Anything that starts like a tagged print and cannot be decoded is
    appended to ``unparsed`` (the runner turns that into a machinery failure: a silently dropped
    scenario would make "everything explored" a lie)."""
    out: dict[str, list] = {}
    lines = stdout.splitlines()
    k = 0
    start_re = re.compile(r'^<<"([A-Z][A-Z0-9_]*)",')
    while k < len(lines):
        line = lines[k].strip()
        k += 1
        m0 = start_re.match(line)
        if not m0:
            continue
        text = line
        tries = 0
        while not text.endswith(">>") and k < len(lines) and tries < 50:
            text += " " + lines[k].strip()
            k += 1
            tries += 1
        m = re.match(r'^<<"([A-Z][A-Z0-9_]*)",\s*(".*")\s*>>$', text, re.S)
        ok = False
        if m:
            try:
                val = json.loads(json.loads(m.group(2)))
                out.setdefault(m.group(1), []).append(val)
                ok = True
            except json.JSONDecodeError:
                ok = False
        if not ok and unparsed is not None:
            unparsed.append(text[:200])
    return out


def _parse_stats(res: TLCResult) -> None:
    s = res.stdout
    m = None
    for m in re.finditer(r"(\d+) states generated, (\d+) distinct states found", s):
        pass
    if m:
        res.generated, res.distinct = int(m.group(1)), int(m.group(2))
    m = re.search(r"The depth of the complete state graph search is (\d+)", s)
    if m:
        res.depth = int(m.group(1))
    # simulation mode statistics
    m = re.search(r"The number of states generated: (\d+)", s)
    if m and not res.generated:
        res.generated = int(m.group(1))
        res.distinct = res.generated
    m = re.search(r"Error: Invariant (\S+) is violated", s)
    if m:
        res.violated, res.violation_kind = m.group(1), "invariant"
    m = re.search(r"Error: Action property (\S+) is violated", s)
    if m:
        res.violated, res.violation_kind = m.group(1), "action_property"
    if re.search(r"Error: Temporal properties were violated", s):
        res.violated, res.violation_kind = "temporal", "temporal"
    if re.search(r"Error: Deadlock reached", s):
        res.violated, res.violation_kind = "deadlock", "deadlock"
    m = re.search(r"Error: The postcondition (\S+)?.*? (?:is|was) (?:violated|false)", s, re.I)
    if m or "postcondition" in s.lower() and "Error:" in s and "violated" in s.lower() and not res.violated:
        res.violated, res.violation_kind = "postcondition", "postcondition"
    if res.violated:
        i = s.find("Error:")
        res.cex = s[i:i + 6000]
    elif "Error:" in s or res.returncode not in (0,):
        i = s.find("Error:")
        res.error = s[i:i + 3000] if i >= 0 else f"TLC exit code {res.returncode}\n{s[-2000:]}"
    # coverage: lines such as  <Next line 6, col 9 to line 6, col 71 of module T>: 6:12
    for m in re.finditer(r"^<(\w+) line \d+, col \d+ to line \d+, col \d+ of module \w+>: (\d+):(\d+)", s, re.M):
        res.coverage[m.group(1)] = res.coverage.get(m.group(1), 0) + int(m.group(3))


def run_tlc(module: str, config: str | None = None, *, cfg_text: str | None = None,
            workers: int | str = "auto", simulate: str | None = None, depth: int | None = None,
            seed: int | None = None, env: dict | None = None, timeout: float = 900,
            coverage: bool = False, extra_files: dict[str, str] | None = None,
            dfs_queue: bool = False, check: bool = True, java_opts: list[str] | None = None,
            keep_dir: bool = False) -> TLCResult:
    """Run TLC on ``spec/<module>.tla`` with ``spec/<config>`` (or ``cfg_text``)."""
    scratch = Path(tempfile.mkdtemp(prefix="verif_tlc_"))
    try:
        work = scratch / "spec"
        shutil.copytree(SPEC_DIR, work)
        for name, text in (extra_files or {}).items():
            (work / name).write_text(text)
        if cfg_text is not None:
            cfg_path = work / f"__{module}.cfg"
            cfg_path.write_text(cfg_text)
            cfg_name = f"(inline:{module})"
        else:
            cfg_path = work / config
            cfg_name = config
        cmd = ["java", "-XX:+UseParallelGC", "-Xmx8g"]
        if dfs_queue:
            cmd.append("-Dtlc2.tool.queue.IStateQueue=StateDeque")
        cmd += java_opts or []
        cmd += ["-cp", f"{JAR}:{DEPS}", "tlc2.TLC", "-metadir", str(scratch / "md"),
                "-noGenerateSpecTE", "-workers", str(workers), "-config", str(cfg_path)]
        if simulate is not None:
            cmd += ["-simulate", simulate]
        if depth is not None:
            cmd += ["-depth", str(depth)]
        if seed is not None:
            cmd += ["-seed", str(seed)]
        if coverage:
            cmd += ["-coverage", "1"]
        cmd.append(str(work / f"{module}.tla"))
        full_env = dict(os.environ)
        full_env.update({k: str(v) for k, v in (env or {}).items()})
        full_env.pop("JAVA_TOOL_OPTIONS", None)
        t0 = time.time()
        try:
            p = subprocess.run(cmd, cwd=work, env=full_env, capture_output=True, text=True,
                               timeout=timeout)
        except subprocess.TimeoutExpired as e:
            raise TLCError(f"TLC timed out after {timeout}s on {module}/{cfg_name}") from e
        res = TLCResult(module=module, config=cfg_name, returncode=p.returncode,
                        stdout=p.stdout + ("\n" + p.stderr if p.stderr.strip() else ""),
                        wall_s=time.time() - t0)
        _parse_stats(res)
        bad: list = []
        res.prints = parse_prints(p.stdout, bad)
        if bad and check:
            raise TLCError(f"{len(bad)} tagged TLC print(s) could not be decoded on {module}/{cfg_name}, e.g. {bad[0]}")
        if check and res.error is not None:
            raise TLCError(f"TLC machinery failure on {module}/{cfg_name}:\n{res.error}")
        return res
    finally:
        if not keep_dir:
            shutil.rmtree(scratch, ignore_errors=True)


def sany(module_path: Path) -> tuple[bool, str]:
    p = subprocess.run(["java", "-cp", f"{JAR}:{DEPS}", "tla2sany.SANY", str(module_path)],
                       cwd=module_path.parent, capture_output=True, text=True)
    ok = p.returncode == 0 and "Semantic errors" not in p.stdout and "***Parse Error***" not in p.stdout \
        and "Fatal errors" not in p.stdout and "Could not find module" not in p.stdout
    return ok, p.stdout[-3000:]
