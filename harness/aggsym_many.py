"""MANY-ROW instances with a large common component (spec/AggSymMany.tla) for C08 and C10.

(a) TLC composes the generators (rows: cyclic shift, reversal, perfect shuffle; columns: adjacent swaps, a negated
    column, a Hadamard/2 block, an appended zero column, zero columns in three layouts) on instances with 27..40 rows
    = common offset + small integer spread, checks DistInvariant / OffsetInvariant / LawMany and exports every state
    with the selection of Krum decided from the exact distances of the SPREAD (brackets + float margin), and the
    exact values of Krum, TrimmedMean and Mean split into offset part and spread part;
(b) the replay materialises  J = (2^x O + S) / den  for every offset exponent and dtype of the model (no offset,
    2^17 in float32 and float64, 2^39 in float64: every entry, difference and column sum is exact in that dtype),
    runs the real aggregators and compares
      Krum          the SELECTION (support of the weights, every weight == 1/k) with the model's, exactly, wherever
                    the model decides it; the value within 2 (k + 2) eps max|J| (k products, k - 1 additions, the
                    rounding of 1/k; doubled);
      TrimmedMean   (column permutations / zero columns / row permutations) and Mean: a mean of t terms however it is
                    accumulated: 2 (t + 2) eps max|J| (meaningful in float64, where it is far below 1 / t);
      and the relation itself, A(pi J) = A(J) resp. A(J[:, perm]) = A(J)[perm], between two calls of the code.
    An exception raised by an aggregator on such a matrix is a violation.
"""

from __future__ import annotations

import math
import random
from fractions import Fraction

import torch

from .aggsym_common import Acc, call, fmt, merge, present, split_padded
from .core import Ctx, MachineryError
from .par import pmap
from .tlc import run_tlc

DT = {"float32": (torch.float32, 2.0 ** -24, 24), "float64": (torch.float64, 2.0 ** -53, 53)}
CFG = {"C08": {"quick": "MC_AggSymMany_C08_quick.cfg", "thorough": "MC_AggSymMany_C08_thorough.cfg"},
       "C10": {"quick": "MC_AggSymMany_C10_quick.cfg", "thorough": "MC_AggSymMany_C10_thorough.cfg"}}
BUDGET = {"quick": 120, "thorough": 600}


def matrix(Sn: list, On: list, den: int, oc: dict, dname: str) -> torch.Tensor:
    """(2^x O + S) / den in the dtype; every entry must be exactly representable (else the model's table is wrong)."""
    x = oc["exp"]
    M64 = torch.tensor([[(math.ldexp(o, x) if oc["on"] else 0.0) + s for o, s in zip(On, row)] for row in Sn],
                       dtype=torch.float64) / den
    M = M64.to(DT[dname][0])
    if not bool((M.double() == M64).all()):
        raise MachineryError(f"many-row matrix with offset 2^{x} is not exact in {dname}")
    return M


def expected_vec(val: list, On: list, den: int, oc: dict) -> list[Fraction]:
    """offset part + spread part (rationals [num, den]), exactly."""
    x = oc["exp"]
    return [(Fraction(o * 2 ** x, den) if oc["on"] else Fraction(0)) + Fraction(v[0], v[1]) for o, v in zip(On, val)]


def _viol(acc: Acc, pid: str, vname: str, s: dict, gkey: str, otag: str, clause: str, what: str, extra: dict):
    key = f"{pid}:{vname}:many:inst={s['id']}:{gkey}:{otag}:{clause}"
    acc.viol.append((key, what, {"pid": pid, "kind": "many", "agg": vname, "clause": clause, "scenario": s} | extra))


def _check_value(acc, pid, vname, s, gkey, otag, x, exp: list, tol: float, what: str, extra: dict, clause="value"):
    if isinstance(x, str):
        _viol(acc, pid, vname, s, gkey, otag, "raises", f"{vname} raised ({x}) on the {s['m']}-row instance {s['id']} ({gkey}, {otag})", extra)
        return False
    xm, xpad = split_padded(x.double(), s)
    d = max([float(abs(Fraction(a) - b)) if math.isfinite(a) else float("inf") for a, b in zip(xm.tolist(), exp)] + [xpad]) \
        if len(xm) == len(exp) else float("inf")
    acc.dev(vname.split("(")[0] + ":many", d, tol if tol > 0 else 1e-300)
    if not d <= tol:
        _viol(acc, pid, vname, s, gkey, otag, clause,
              f"{vname} on the {s['m']}-row instance {s['id']} ({gkey}, {otag}): {what}: expected {[float(v) for v in exp[:8]]}, the code returned "
              f"{fmt(xm)[:8] if not isinstance(fmt(xm), str) else fmt(xm)}{f' and {xpad:.3e} on a padded zero column' if xpad else ''} "
              f"(|diff|={d:.3e} > allowance {tol:.3e})", extra | {"diff": d, "tol": tol})
        return False
    return True


def eval_many(job: dict):
    import torchjd.aggregation as A
    acc = Acc()
    pid, only = job["pid"], job.get("only")
    for s in job["scn"]:
        m, den = s["m"], s["den"]
        if m <= 25:
            raise MachineryError("many-row family with m <= 25")
        rows = s["mode"] == "rows"
        gkey = ("rp=" + ",".join(map(str, s["rp"]))) if rows else \
            ("Q=" + ";".join(",".join(map(str, r)) for r in s["Q"]) + f"/{den}" +
             (f";pad={s['pad']['cnt']}{s['pad']['lay']}" if s["pad"]["cnt"] else ""))
        ident = s["steps"] == 0
        for oc in s["offs"]:
            for dname in oc["dtypes"]:
                otag = f"off={'2^' + str(oc['exp']) if oc['on'] else 'none'}:{dname}"
                if job.get("otag") and job["otag"] != otag:
                    continue
                dt, eps, mant = DT[dname]
                Mt = present(matrix(s["S"], s["O"], den, oc, dname), s)
                # the base presentation of the same instance (identity of the group): second side of the relation
                M0 = matrix(s["S0"], s["O0"], 1, oc, dname)
                maxabs = float(Mt.abs().max())
                extra = {"otag": otag}
                acc.count(f"many_row_matrices:{dname}:{'offset' if oc['on'] else 'plain'}")
                # ---------------------------------------------------------------- Krum
                for kc in s["krum"]:
                    f, k = kc["f"], kc["k"]
                    vname = f"Krum({f},{k})"
                    if only and only != vname:
                        continue
                    if kc["amb"]:
                        acc.count("skipped:many_krum_tie_or_ambiguous")
                        continue
                    agg = A.Krum(n_byzantine=f, n_selected=k)
                    w = call(agg, Mt, 0, weights=True)
                    x = call(agg, Mt, 0)
                    acc.evals += 2
                    acc.count(f"many_krum_decided_cases:{dname}:{'offset' if oc['on'] else 'plain'}")
                    if isinstance(w, str):
                        _viol(acc, pid, vname, s, gkey, otag, "raises", f"{vname}.weighting raised ({w}) on the {m}-row instance "
                              f"{s['id']} ({gkey}, {otag})", extra)
                        continue
                    got = [i + 1 for i in w.nonzero().flatten().tolist()]
                    okw = got == kc["sel"] and bool((w[w != 0] == torch.tensor(1.0 / k, dtype=dt)).all())
                    if not okw:
                        _viol(acc, pid, vname, s, gkey, otag, "selection",
                              f"{vname} on the {m}-row instance {s['id']} = common offset {otag} + integer spread ({gkey}): the rows "
                              f"with the {k} smallest scores are {kc['sel']} (exact distances of the spread; the offset cancels in "
                              f"every difference of two rows), the code selected {got} (weights {sorted(set(w.tolist()))})", extra)
                        continue
                    exp = expected_vec(kc["val"], s["O"], den, oc)
                    _check_value(acc, pid, vname, s, gkey, otag, x, exp, 2 * (k + 2) * eps * maxabs,
                                 "A(J) is the mean of the selected rows", extra)
                    # the relation between two calls of the code: the base presentation gives the same vector (rows) /
                    # the column-permuted one (column permutations)
                    if not ident and (rows or s["colperm"]):
                        x0 = call(agg, M0, 0)
                        acc.evals += 1
                        if not isinstance(x0, str) and not isinstance(x, str):
                            e0 = x0.double() @ torch.tensor(s["Q"], dtype=torch.float64) if not rows else x0.double()
                            _check_value(acc, pid, vname, s, gkey, otag, x, [Fraction(v) for v in e0.tolist()], 4 * (k + 2) * eps * maxabs,
                                         "A(pi J) = A(J)" if rows else "A(J[:, perm]) = A(J)[perm]", extra, clause="relation")
                    if not ident:
                        acc.nontriv.append((s["id"], gkey, vname, otag))
                # ---------------------------------------------------------------- TrimmedMean, Mean
                lin = [("Mean", None, s["mean"])] + [(f"TrimmedMean({t['b']})", t["b"], t["val"]) for t in s["tm"] if t["val"]]
                for vname, b, val in lin:
                    if only and only != vname:
                        continue
                    agg = A.Mean() if b is None else A.TrimmedMean(trim_number=b)
                    x = call(agg, Mt, 0)
                    acc.evals += 1
                    acc.count(f"many_{'mean' if b is None else 'trimmed_mean'}_cases:{dname}")
                    nterms = m if b is None else m - 2 * b
                    _check_value(acc, pid, vname, s, gkey, otag, x, expected_vec(val, s["O"], den, oc), 2 * (nterms + 2) * eps * maxabs,
                                 "offset + value on the spread", extra)
    return acc.as_tuple()


def _run_job(job: dict):
    torch.set_num_threads(1)
    return eval_many(job)


def run_many(ctx: Ctx, pid: str) -> None:
    res = run_tlc("AggSymMany", CFG[pid][ctx.tier], workers="auto", coverage=True, seed=ctx.seed, timeout=1200)
    ctx.add_tlc(res)
    if res.violated:
        raise MachineryError(f"AggSymMany/{CFG[pid][ctx.tier]}: the specification itself violates {res.violated}\n{res.cex[:1500]}")
    scn = res.prints.get("SCN", [])
    if len(scn) != res.distinct or not scn:
        raise MachineryError(f"AggSymMany: {res.distinct} states but {len(scn)} scenarios parsed")
    need = ["DoRot", "DoRev", "DoRiffle"] if pid == "C10" else ["DoSwapAdj", "DoNegCol", "Hadamard", "AppendZero", "PadZero|DoPadZero"]
    for act in need:
        if not any(res.coverage.get(a) for a in act.split("|")):
            raise MachineryError(f"vacuous model check (AggSymMany): generator {act} never taken")
    rng = random.Random(ctx.seed)
    scn.sort(key=lambda s: (s["id"], s["steps"], str(s["rp"]), str(s["Q"]), s["pad"]["cnt"], s["pad"]["lay"]))
    must = [s for s in scn if s["steps"] == 0]
    rest = [s for s in scn if s["steps"] > 0]
    rng.shuffle(rest)
    picked = must + rest[: max(0, BUDGET[ctx.tier] - len(must))]
    ctx.extra["many_row_scenarios"] = {"exported": len(scn), "replayed": len(picked), "row_counts": sorted({s["m"] for s in picked}),
                                       "decided_krum_configurations": sum(1 for s in must for k in s["krum"] if not k["amb"]),
                                       "ambiguous_krum_configurations": sum(1 for s in must for k in s["krum"] if k["amb"])}
    jobs = [{"pid": pid, "scn": [s]} for s in picked]
    import torchjd.aggregation  # noqa: F401
    results = pmap(_run_job, jobs, chunksize=2)
    margin: dict = {}
    merge(ctx, results, margin)
    ctx.extra["many_row_dev_over_allowance_max"] = {k: float(f"{v:.3g}") for k, v in sorted(margin.items())}
    ctx.traces += len(picked)
    for k in ("many_krum_decided_cases:float32:offset", "many_krum_decided_cases:float64:offset", "many_trimmed_mean_cases:float64"):
        if not ctx.counters.get(k):
            raise MachineryError(f"vacuous many-row family: {k} = 0")


# ------------------------------------------------------------------------------------------ C -> S


OFFS = [({"on": False, "exp": 0}, "float32"), ({"on": True, "exp": 17}, "float32"), ({"on": True, "exp": 17}, "float64"),
        ({"on": True, "exp": 39}, "float64"), ({"on": True, "exp": 39}, "float64")]


def make_recipe(rng: random.Random, pid: str, ep: int) -> dict:
    m, n = rng.randint(26, 40), rng.randint(3, 6)
    S0 = [[rng.randint(-3, 3) for _ in range(n)] for _ in range(m)]
    O0 = [rng.choice([-3, -2, -1, 1, 2, 3]) for _ in range(n)]
    rp, cp = list(range(1, m + 1)), list(range(1, n + 1))
    if pid == "C10":
        rng.shuffle(rp)
    else:
        rng.shuffle(cp)
        for _ in range(rng.choice([0, 0, 1, 3, 9])):
            cp.insert(rng.randint(0, len(cp)), 0)
    oc, dname = rng.choice(OFFS)
    return {"ep": ep, "m": m, "n": n, "S0": S0, "O0": O0, "rp": rp, "cp": cp, "f": rng.choice([0, 1, 2, m // 4, m // 2, m - 3]),
            "k": rng.choice([1, 2, 3, 5]), "oc": oc, "dtype": dname}


def execute(rc: dict) -> dict:
    """Run the real Krum on the base and on the transformed matrix of one recipe; log supports and value predicates."""
    import torchjd.aggregation as A
    torch.set_num_threads(1)
    m, k, oc, dname = rc["m"], rc["k"], rc["oc"], rc["dtype"]
    dt, eps, _ = DT[dname]
    S1 = [[0 if c == 0 else rc["S0"][r - 1][c - 1] for c in rc["cp"]] for r in rc["rp"]]
    O1 = [0 if c == 0 else rc["O0"][c - 1] for c in rc["cp"]]
    agg = A.Krum(n_byzantine=rc["f"], n_selected=k)
    ep = {key: rc[key] for key in ("ep", "m", "n", "S0", "O0", "rp", "cp", "f", "k")} | {"raised": False}
    for tag, Sn, On in (("0", rc["S0"], rc["O0"]), ("1", S1, O1)):
        M = matrix(Sn, On, 1, oc, dname)
        w, x = call(agg, M, 0, weights=True), call(agg, M, 0)
        if isinstance(w, str) or isinstance(x, str):
            ep |= {"raised": True, "sel" + tag: [], "ok" + tag: False}
            continue
        sel = [i + 1 for i in w.nonzero().flatten().tolist()]
        x0 = 2 ** oc["exp"] if oc["on"] else 0
        exp = [Fraction(sum(x0 * On[c] + Sn[i - 1][c] for i in sel), max(1, len(sel))) for c in range(len(On))]
        tol = 2 * (k + 2) * eps * float(M.abs().max())
        ep["sel" + tag] = sel
        ep["ok" + tag] = bool((w[w != 0] == torch.tensor(1.0 / k, dtype=dt)).all()) and len(sel) == k and \
            all(math.isfinite(a) and abs(Fraction(a) - b) <= tol for a, b in zip(x.double().tolist(), exp))
    return ep


def validate(ctx: Ctx, pid: str, episodes: list[dict], recipes: dict) -> dict:
    import json
    import os
    import tempfile
    import zlib
    with tempfile.TemporaryDirectory(prefix="verif_aggsym_many_") as d:
        path = os.path.join(d, "episodes.json")
        with open(path, "w") as fh:
            json.dump(episodes, fh)
        res = run_tlc("TraceAggSymMany", "Trace_AggSymMany.cfg", workers=1, env={"TRACE_FILE": path}, timeout=1200)
    ctx.add_tlc(res)
    if res.violated:
        raise MachineryError(f"trace specification did not consume the log: {res.violated}\n{res.cex[:1500]}")
    summ = res.prints.get("SUMMARY", [None])[0]
    if not summ or summ["episodes"] != len(episodes) or summ["accepted"] + summ["rejected"] != len(episodes):
        raise MachineryError(f"trace validation (many rows) incomplete: {summ}")
    for rj in res.prints.get("REJECT", []):
        rc = recipes[rj["ep"]]
        if rj["clause"] == "transformed_instance":
            raise MachineryError(f"driver and specification disagree on the transformation of episode {rj['ep']}")
        e = next(x for x in episodes if x["ep"] == rj["ep"])
        h = zlib.crc32(json.dumps({k: v for k, v in rc.items() if k != "ep"}, sort_keys=True).encode())
        otag = f"off={'2^' + str(rc['oc']['exp']) if rc['oc']['on'] else 'none'}:{rc['dtype']}"
        ctx.violation(f"{pid}:trace-many:{rj['clause']}:Krum({rc['f']},{rc['k']}):m={rc['m']}:n={rc['n']}:{otag}:{h:08x}",
                      f"episode rejected by TraceAggSymMany, clause {rj['clause']}: Krum({rc['f']},{rc['k']}) on a {rc['m']} x {rc['n']} matrix = "
                      f"common offset ({otag}, multipliers {rc['O0']}) + integer spread, {'rows permuted by ' + str(rc['rp']) if pid == 'C10' else 'columns mapped by ' + str(rc['cp'])}: "
                      f"the code selected {e['sel0']} on the base and {e['sel1']} on the transformed matrix (values ok: {e['ok0']}, {e['ok1']})",
                      {"pid": pid, "kind": "trace-many", "clause": rj["clause"], "agg": f"Krum({rc['f']},{rc['k']})", "recipe": rc})
    ctx.traces += len(episodes)
    ctx.count("trace_many_episodes_accepted", summ["accepted"])
    ctx.count("trace_many_episodes_rejected", summ["rejected"])
    ctx.count("trace_many_episodes_ambiguous_in_the_model", len(res.prints.get("AMBIGUOUS", [])))
    return summ


def run_many_cs(ctx: Ctx, pid: str, n_ep: int) -> dict:
    rng = random.Random(ctx.seed * 7919 + int(pid[1:]) + 4001)
    recipes = [make_recipe(rng, pid, k + 1) for k in range(n_ep)]
    import torchjd.aggregation  # noqa: F401
    episodes = [execute(r) for r in recipes]
    ctx.evaluations += 4 * len(episodes)
    summ = validate(ctx, pid, episodes, {r["ep"]: r for r in recipes})
    if ctx.counters.get("trace_many_episodes_ambiguous_in_the_model", 0) * 2 > n_ep:
        raise MachineryError("vacuous many-row traces: more than half of the episodes are ambiguous in the model")
    return summ


def replay_many(ctx: Ctx, pid: str, p: dict) -> None:
    if p.get("kind") == "trace-many":
        rc = p["recipe"] | {"ep": 1}
        validate(ctx, pid, [execute(rc)], {1: rc})
        return
    margin: dict = {}
    merge(ctx, [eval_many({"pid": pid, "scn": [p["scenario"]], "only": p["agg"], "otag": p.get("otag")})], margin)
