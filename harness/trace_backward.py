"""Code -> specification: random larger programs are run through the real ``backward``; what is
observed at the boundary is logged as episodes and validated by TLC (spec/TraceBackward.tla)."""

from __future__ import annotations

import json
import os
import random
import tempfile

import torch

from .autojac_replay import PRESENTATIONS, present, recording
from .core import Ctx, MachineryError
from .programs import Built, as_int_list
from .tlc import run_tlc

VAL_BOUND = 40


def random_program(rng: random.Random, max_leaves=4, max_ops=7) -> list[dict]:
    nl = rng.randint(1, max_leaves)
    prog: list[dict] = []
    sizes: list[int] = []
    for _ in range(nl):
        sz = rng.choice([1, 1, 2, 2, 3, 4])
        prog.append({"op": "leaf", "size": sz, "val": [rng.randint(-3, 3) for _ in range(sz)],
                     "rg": rng.random() < 0.8})
        sizes.append(sz)
    if not any(nd["rg"] for nd in prog):
        prog[0]["rg"] = True
    nmul = 0
    for _ in range(rng.randint(1, max_ops)):
        n = len(prog)
        op = rng.choice(["lin", "lin", "scale", "add", "mul", "cat", "detach", "add", "mul"])
        a = rng.randint(1, n)
        if op == "lin":
            out = rng.choice([1, 1, 2, 3])
            if rng.random() < 0.3:          # selection / permutation / slice (realised by indexing, unbind, split)
                out = rng.randint(1, sizes[a - 1])
                start = rng.randint(0, sizes[a - 1] - out)
                cols = list(range(start, start + out)) if rng.random() < 0.6 else rng.sample(range(sizes[a - 1]), out)
                mat = [[1 if c == j else 0 for c in range(sizes[a - 1])] for j in cols]
            elif rng.random() < 0.2:        # ones row (realised by sum())
                out, mat = 1, [[1] * sizes[a - 1]]
            else:
                mat = [[rng.randint(-2, 2) for _ in range(sizes[a - 1])] for _ in range(out)]
            nd = {"op": "lin", "a": a, "mat": mat}
            sz = out
        elif op == "scale":
            nd = {"op": "scale", "a": a, "c": rng.choice([-2, -1, 2, 3])}
            sz = sizes[a - 1]
        elif op == "detach":
            nd = {"op": "detach", "a": a}
            sz = sizes[a - 1]
        elif op == "cat":
            b = rng.randint(1, n)
            if sizes[a - 1] + sizes[b - 1] > 6:
                continue
            nd = {"op": "cat", "a": a, "b": b}
            sz = sizes[a - 1] + sizes[b - 1]
        else:
            cands = [b for b in range(1, n + 1) if sizes[b - 1] == sizes[a - 1] or sizes[b - 1] == 1 or sizes[a - 1] == 1]
            b = rng.choice(cands)
            if op == "mul":
                if nmul >= 3:
                    continue
                nmul += 1
            a, b = min(a, b), max(a, b)
            nd = {"op": op, "a": a, "b": b}
            sz = max(sizes[a - 1], sizes[b - 1])
        prog.append(nd)
        sizes.append(sz)
    return prog


def requires_grad_flags(prog) -> list[bool]:
    rg = []
    for nd in prog:
        if nd["op"] == "leaf":
            rg.append(bool(nd["rg"]))
        elif nd["op"] == "detach":
            rg.append(False)
        elif "b" in nd:
            rg.append(rg[nd["a"] - 1] or rg[nd["b"] - 1])
        else:
            rg.append(rg[nd["a"] - 1])
    return rg


def record_episode(rng: random.Random, ep: int) -> dict | None:
    """Build a random program + call, run the real backward, log the boundary observations."""
    from torchjd import backward
    from torchjd.aggregation import Constant

    prog = random_program(rng)
    rg = requires_grad_flags(prog)
    cands = [i + 1 for i, nd in enumerate(prog) if nd["op"] != "leaf" and rg[i]]
    if not cands:
        return None
    B = Built(prog, rng=rng)
    if any(abs(v) > VAL_BOUND for vals in B.flat_vals() for v in vals):
        return None
    nt = rng.choice([1, 1, 2, 3])
    tensors = rng.sample(cands, min(nt, len(cands)))
    rows = sum(B.node(t).numel() for t in tensors)
    if rows > 8:
        return None
    rgl = [l for l in B.leaves() if prog[l - 1]["rg"]]
    inputs = sorted(rng.sample(rgl, rng.randint(1, len(rgl))))
    w = [rng.randint(-3, 3) for _ in range(rows)]
    k = rng.choice([0, 0, 1, 2, 3, rows + 1])
    grad0 = [[] for _ in prog]
    for l in B.leaves():
        if prog[l - 1]["rg"] and rng.random() < 0.35:
            g = [rng.randint(-4, 4) for _ in range(prog[l - 1]["size"])]
            B.set_grad(l, g)
            grad0[l - 1] = g
    agg = recording(Constant(torch.tensor([float(x) for x in w], dtype=torch.float64)))
    order = list(inputs)
    rng.shuffle(order)
    how = rng.choice(PRESENTATIONS)
    tens = [B.node(t) for t in tensors]
    from .programs import relayout
    tens = [relayout(t, 1) if (t.dim() >= 2 and rng.random() < 0.3) else t for t in tens]     # dense, non-row-major views
    if rows >= 4 and rng.random() < 0.5:                # same rows, passed as the list of their scalars
        tens = [t.reshape(-1)[i] for t in tens for i in range(t.numel())]
    try:
        backward(tens, agg, inputs=present([B.node(l) for l in order], how),
                 retain_graph=rng.random() < 0.5, parallel_chunk_size=None if k == 0 else k)
    except Exception as e:                              # noqa: BLE001
        return {"ep": ep, "prog": prog, "tensors": tensors, "inputs": inputs, "k": k, "w": w,
                "raised": f"{type(e).__name__}: {str(e)[:200]}", "grad0": grad0}
    if len(agg.calls) != 1:
        return {"ep": ep, "prog": prog, "tensors": tensors, "inputs": inputs, "k": k, "w": w,
                "raised": f"aggregator called {len(agg.calls)} times", "grad0": grad0}
    matrix = [as_int_list(r) for r in agg.calls[0]["matrix"].tolist()]
    grad1 = []
    for i, nd in enumerate(prog):
        g = B.grad_flat(i + 1) if nd["op"] == "leaf" else None
        grad1.append([] if g is None else as_int_list(g))
    nonint = any(r is None for r in matrix) or any(g is None for g in grad1)
    big = any(abs(x) >= 2 ** 24 for r in matrix if r for x in r) or any(abs(x) >= 2 ** 24 for g in grad1 if g for x in g)
    if big:
        return None
    return {"ep": ep, "prog": prog, "tensors": tensors, "inputs": inputs, "k": k, "w": w,
            "grad0": grad0, "matrix": matrix, "grad1": grad1, "nonint": nonint,
            "meta": {"inputs_as": how, "shapes": [list(s) for s in B.shapes]}}


def random_episodes(seed: int, n: int) -> list[dict]:
    rng = random.Random(seed * 7919 + 17)
    torch.manual_seed(seed)
    eps: list[dict] = []
    tries = 0
    while len(eps) < n and tries < 20 * n:
        tries += 1
        e = record_episode(rng, len(eps) + 1)
        if e is not None:
            eps.append(e)
    return eps


def validate(ctx: Ctx, eps: list[dict], pid: str) -> None:
    ok_eps = []
    for e in eps:
        if "raised" in e:
            ctx.violation(f"trace:raised:{json.dumps(e['prog'])}:{e['tensors']}:{e['inputs']}:{e['k']}",
                          f"backward failed on a valid random program: {e['raised']}", {"episode": e, "kind": "trace"})
        elif e.get("nonint"):
            ctx.violation(f"trace:nonint:{json.dumps(e['prog'])}:{e['tensors']}:{e['inputs']}",
                          "non-integral Jacobian or .grad on an integer program", {"episode": e, "kind": "trace"})
        else:
            ok_eps.append({k: v for k, v in e.items() if k not in ("meta", "nonint")})
    if not ok_eps:
        return
    with tempfile.TemporaryDirectory(prefix="verif_tb_") as dname:
        path = os.path.join(dname, "episodes.json")
        with open(path, "w") as f:
            json.dump(ok_eps, f)
        res = run_tlc("TraceBackward", "Trace_Backward.cfg", workers=1, env={"TRACE_FILE": path}, timeout=1800)
    ctx.add_tlc(res)
    if res.violated:
        raise MachineryError(f"TraceBackward did not consume the log: {res.violated}\n{res.cex[:1500]}")
    summ = res.prints.get("SUMMARY", [None])[0]
    if not summ or summ["accepted"] + summ["rejected"] != len(ok_eps):
        raise MachineryError(f"trace validation incomplete: {summ}")
    by = {e["ep"]: e for e in eps}
    details = {d["ep"]: d for d in res.prints.get("DETAIL", [])}
    for rj in res.prints.get("REJECT", []):
        e = by[rj["ep"]]
        ctx.violation(f"trace:{rj['clause']}:{json.dumps(e['prog'])}:{e['tensors']}:{e['inputs']}:{e['k']}",
                      f"recorded backward() call rejected by Backward.tla ({rj['clause']}): program {e['prog']} "
                      f"tensors={e['tensors']} inputs={e['inputs']} k={e['k']} detail={details.get(rj['ep'])}",
                      {"episode": e, "kind": "trace"})
    ctx.traces += summ["accepted"] + summ["rejected"]
    ctx.evaluations += len(eps)
    ctx.extra.setdefault("trace_summaries", []).append(summ)
    if eps:
        e = eps[0]
        ctx.sample({"trace_episode": {k: e[k] for k in ("prog", "tensors", "inputs", "k", "w", "matrix", "grad1") if k in e}})
    for e in ok_eps:
        if len(e["inputs"]) >= 2 or len(e["w"]) >= 2:
            ctx.nontrivial("trace:" + json.dumps([e["prog"], e["tensors"], e["inputs"], e["k"]]))
